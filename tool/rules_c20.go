package main

import (
	"fmt"
	"go/token"
	"strings"

	"golang.org/x/tools/go/ssa"
)

// ruleKeyUpdate (C20): commit of the write generation only after the ACK path, under both locks and
// after validation; read side installs only after the epoch guards; successor derivation; candidate
// epochs bounded; an ACK only acknowledges records of its own or an earlier epoch.
func ruleKeyUpdate(c *Ctx, r *Report) {
	tTG := "internal/state.TrafficGeneration"
	// (1) who installs the write generation
	const rule = "write-generation-commit"
	commit := c.need(r, rule, "(*dtls.Conn).commitLocalKeyUpdate")
	if commit != nil {
		r.Sites += len(commit.Blocks)
		inst := findCalls(commit, nameHasSuffix("TrafficKeyState).Install"))
		val := findCalls(commit, nameIs("dtls.validateNextWriteGeneration"))
		setE := findCalls(commit, nameHasSuffix(").SetLocalEpoch"))
		if len(inst) != 1 || len(val) != 1 || len(setE) != 1 {
			r.Bad(rule, short(commit), c.pos(commit.Pos()), "commitLocalKeyUpdate no longer consists of validate + Install + SetLocalEpoch")
		} else {
			ok, why := guardedBy(val[0], val[0], inst[0])
			r.Check(ok, rule, short(commit)+":validated", c.ipos(inst[0]), "Install only after validateNextWriteGeneration returned nil", "the next write generation is installed without a successful validation: "+why)
			ok2, _ := guardedBy(val[0], val[0], setE[0])
			r.Check(ok2, rule, short(commit)+":epoch", c.ipos(setE[0]), "local epoch moves only after validation", "the sending epoch is changed without validation")
			r.Check(isFieldLoad(setE[0].Call.Args[len(setE[0].Call.Args)-1], tTG, "Epoch"), rule, short(commit)+":epoch-source", c.ipos(setE[0]), "new sending epoch = the installed generation's epoch", "the sending epoch is not the installed generation's epoch")
			lf := c.lockFactsOf(commit)
			held := lf.before[inst[0]]
			r.Check(held["dtls.Conn.writeLock"] == 2 && held["dtls.Conn.lock"] == 2, rule, short(commit)+":locks", c.ipos(inst[0]), "installed under writeLock and lock", "the write generation is installed without holding both Conn.writeLock and Conn.lock (a concurrent Write can use the old epoch with a new sequence number, or vice versa)")
		}
	}
	// write-side Install (first argument non-nil) and SetLocalEpoch on a DTLS 1.3 connection happen only there and in the handshake key installation
	for _, s := range c.CallsTo(nameHasSuffix("TrafficKeyState).Install")) {
		call, ok := s.Call.(*ssa.Call)
		if !ok {
			continue
		}
		wArg := call.Call.Args[1]
		key := short(s.Fn)
		if isNilConst(wArg) {
			continue
		}
		allowed := s.Fn == commit || strings.Contains(key, "record_protection") || strings.Contains(key, "activate") || strings.Contains(key, "initialize") || strings.Contains(key, "RecordProtection") || strings.Contains(key, "installTraffic")
		if allowed {
			r.OKTrivial(rule, "write-install<-"+key, c.ipos(call), "handshake key installation / acknowledged key update")
		} else {
			r.Bad(rule, "write-install<-"+key, c.ipos(call), "a write traffic generation is installed outside commitLocalKeyUpdate and the handshake key installation (keys change before the peer acknowledged)")
		}
	}
	// (2) commit only from the ACK path
	if cp := c.need(r, rule, "(*"+pkgHS+".postHandshake).completePostHandshakeFlight"); cp != nil {
		for _, s := range c.CallsTo(nameHasSuffix(".CommitLocalKeyUpdate")) {
			if strings.HasPrefix(short(s.Fn), "(dtls.handshakeConn)") {
				continue // adapter
			}
			// in the completion function itself, or in a helper that only it calls
			var onlyFrom func(fn *ssa.Function, d int) bool
			onlyFrom = func(fn *ssa.Function, d int) bool {
				if fn == cp {
					return true
				}
				sites, complete := c.staticCallers(fn)
				if !complete || len(sites) == 0 || d > 2 {
					return false
				}
				for _, cs := range sites {
					if _, isCall := cs.Call.(*ssa.Call); !isCall || !onlyFrom(cs.Fn, d+1) {
						return false
					}
				}
				return true
			}
			r.Check(onlyFrom(s.Fn, 0), rule, "CommitLocalKeyUpdate<-"+short(s.Fn), c.ipos(s.Call), "commit requested only when a flight completes", "the key update is committed from outside completePostHandshakeFlight")
		}
		for _, s := range c.CallsToName(short(cp)) {
			call, ok := s.Call.(*ssa.Call)
			if !ok {
				continue
			}
			// the flight id comes from applyACK
			ls := c.Origins(call.Call.Args[len(call.Call.Args)-1], 0)
			fromACK := allLeaves(ls, func(v ssa.Value) bool {
				return isCallResult(v, nameHasSuffix("postHandshake).applyACK")) || strings.Contains(c.describe(v), "Next") || strings.Contains(c.describe(v), "Range")
			})
			// range over applyACK's result
			if !fromACK {
				for _, l := range ls {
					if strings.Contains(shapeOf(l, 0), "applyACK") {
						fromACK = true
					}
				}
			}
			r.Check(fromACK, rule, "completePostHandshakeFlight<-"+short(s.Fn), c.ipos(call), "completed flight ids come from applyACK", "a post-handshake flight is completed (and its key update committed) without an acknowledgement: "+c.describeAll(ls))
		}
		// nil completion only together with the commit result
		comp := findCalls(cp, nameHasSuffix("postHandshakeCompletion).complete"))
		for _, x := range comp {
			ls := c.Origins(x.Call.Args[len(x.Call.Args)-1], 1)
			ok := allLeaves(ls, func(v ssa.Value) bool {
				return isNilConst(v) || isCallResult(v, nameHasSuffix(".CommitLocalKeyUpdate")) || isFieldLoad(v, "internal/errors", "ErrNotImplemented") || strings.Contains(c.describe(v), "ErrNotImplemented")
			})
			r.Check(ok, rule, short(cp)+":completion-value", c.ipos(x), "UpdateKeys' result is the commit's result", "the completion signalled to UpdateKeys is not the result of the commit")
		}
	}
	// (3) read side
	const rule3 = "read-generation-install"
	if hk := c.need(r, rule3, "(*"+pkgHS+".postHandshake).handleKeyUpdate"); hk != nil {
		r.Sites += len(hk.Blocks)
		// (in handleKeyUpdate, or in a helper of the package it calls)
		follow := followSamePkg(hk)
		inst := callsReached(hk, follow, func(cl *ssa.Call) bool {
			return strings.HasSuffix(calleeName(&cl.Call), "TrafficKeyState).Install")
		})
		setR := callsReached(hk, follow, func(cl *ssa.Call) bool {
			return strings.HasSuffix(calleeName(&cl.Call), ").SetRemoteEpoch")
		})
		if len(inst) != 1 || len(setR) != 1 {
			r.Bad(rule3, short(hk), c.pos(hk.Pos()), "handleKeyUpdate no longer installs the next read generation and advances the remote epoch exactly once")
		} else {
			// unreachable when either epoch comparison says "different"
			for _, b := range hk.Blocks {
				for _, in := range b.Instrs {
					bo, ok := in.(*ssa.BinOp)
					if !ok || bo.Op != token.NEQ {
						continue
					}
					isEpochCmp := isFieldLoad(bo.X, tTG, "Epoch") || isCallResult(bo.X, nameHasSuffix(").RemoteEpoch"))
					if !isEpochCmp {
						continue
					}
					w := (&Walk{Fn: hk, Follow: follow, Assume: assumeAll(atomAssume{mValue(bo), vBool(true)})}).FromEntry()
					r.Check(!w.Reached[inst[0]] && !w.Reached[setR[0]], rule3, short(hk)+":guard:"+shapeOf(bo.X, 0), c.ipos(bo), "a KeyUpdate from another epoch installs nothing", "a KeyUpdate received under an epoch other than the current read epoch can advance the read keys")
				}
			}
			isNext := func(v ssa.Value) bool {
				return isCallResult(v, nameHasSuffix("postHandshake).nextTrafficGeneration"))
			}
			r.Check(isNilConst(inst[0].Call.Args[1]) && c.allResolved(inst[0].Call.Args[2], isNext), rule3, short(hk)+":install-args", c.ipos(inst[0]), "Install(nil, next read generation)", "handleKeyUpdate installs something other than (no write generation, the successor read generation)")
			r.Check(isFieldLoad(setR[0].Call.Args[len(setR[0].Call.Args)-1], tTG, "Epoch"), rule3, short(hk)+":remote-epoch", c.ipos(setR[0]), "remote epoch = next generation's epoch", "the remote epoch is not set to the successor generation's epoch")
		}
	}
	// (4) successor derivation
	const rule4 = "successor-secret"
	if nt := c.need(r, rule4, "(*"+pkgHS+".postHandshake).nextTrafficGeneration"); nt != nil {
		r.Sites += len(nt.Blocks)
		// the generation handed back: a literal, or a copy of the current one whose fields are then
		// overwritten (a field that is not overwritten is the current generation's)
		var f map[string]ssa.Value
		var at ssa.Instruction
		if al := returnedLiteral(nt, 0, tTG); al != nil {
			f, at = litFields(al), al
		} else {
			for _, b := range nt.Blocks {
				ret, ok := b.Instrs[len(b.Instrs)-1].(*ssa.Return)
				if !ok || len(ret.Results) == 0 || isNilConst(unspill(ret.Results[0])) {
					continue
				}
				v := unspill(ret.Results[0])
				cl, isCall := v.(*ssa.Call)
				if !isCall || namedOf(cl.Type()) != tTG {
					continue
				}
				f, at = map[string]ssa.Value{}, cl
				for _, b2 := range nt.Blocks {
					for _, in := range b2.Instrs {
						if st, ok := in.(*ssa.Store); ok {
							if fa, ok := st.Addr.(*ssa.FieldAddr); ok && fa.X == v {
								_, fld, _, _ := fieldOfAddr(fa)
								f[fld] = st.Val
							}
						}
					}
				}
			}
		}
		if f == nil {
			r.Unk(rule4, short(nt), c.pos(nt.Pos()), "returned TrafficGeneration literal not found")
		} else {
			al := at
			der := findCalls(nt, nameIs(pkgHS+".deriveNextApplicationTrafficSecret"))
			okD := len(der) == 1 && isFieldLoad(der[0].Call.Args[1], tTG, "Secret")
			r.Check(okD, rule4, short(nt)+":input", c.pos(nt.Pos()), "successor derived from the current generation's secret", "the successor secret is not derived from the current generation's secret")
			isDer := func(v ssa.Value) bool { return isCallResult(v, nameIs(pkgHS+".deriveNextApplicationTrafficSecret")) }
			r.Check(f["Secret"] != nil && allLeaves(c.Origins(f["Secret"], 0), isDer), rule4, short(nt)+":stored-secret", c.ipos(al), "the new generation stores the derived successor secret", "the new generation does not store the successor secret (the next update re-derives the same keys: the key ratchet stalls)")
			np := findCalls(nt, nameHasSuffix(".NewRecordProtection"))
			okP := len(np) == 1 && allLeaves(c.Origins(np[0].Call.Args[len(np[0].Call.Args)-1], 0), isDer)
			// ... and it is that protection the new generation carries
			if okP {
				okP = f["Protection"] != nil && anyLeaf(append(c.Origins(f["Protection"], 0), f["Protection"]), func(l ssa.Value) bool {
					if ex, isEx := l.(*ssa.Extract); isEx {
						l = ex.Tuple
					}
					return l == ssa.Value(np[0])
				})
			}
			r.Check(okP, rule4, short(nt)+":protection-key", c.pos(nt.Pos()), "record protection keyed by the successor secret", "the new generation does not carry a record protection built from the successor secret (it keeps the current one, or one keyed by something else): every epoch after a key update seals under the key and IV of the epoch before, and since record numbers restart at 0 per epoch the nonce of record (e+1, n) repeats that of (e, n) under the same key")
			for _, fld := range []string{"Epoch", "Generation"} {
				bo, ok := f[fld].(*ssa.BinOp)
				k := int64(0)
				if ok {
					k, _ = constInt(bo.Y)
				}
				r.Check(ok && bo.Op == token.ADD && k == 1 && isFieldLoad(bo.X, tTG, fld), rule4, short(nt)+":"+fld, c.ipos(al), fld+" = current + 1", fld+" of the new generation is not current+1")
			}
		}
	}
	if dn := c.need(r, rule4, pkgHS+".deriveNextApplicationTrafficSecret"); dn != nil {
		for _, x := range findCalls(dn, nameIs("pkg/crypto/keyschedule.HkdfExpandLabel")) {
			lbl, _ := constString(x.Call.Args[2])
			if lbl == "" {
				if u, ok := x.Call.Args[2].(*ssa.UnOp); ok {
					_ = u
				}
			}
			a := x.Call.Args
			_, isParam := a[1].(*ssa.Parameter)
			r.Check(isParam && isNilConst(a[3]), rule4, short(dn)+":hkdf-args", c.ipos(x), "HKDF-Expand-Label(current secret, label, empty context, Hash.length)", "the traffic-secret update is not HKDF-Expand-Label(current, \"traffic upd\", \"\", Hash.length) (RFC 8446 7.2)")
			r.Check(lbl == "traffic upd", rule4, short(dn)+":label", c.ipos(x), "label \"traffic upd\"", "the key-update label is not \"traffic upd\": "+lbl)
		}
	}
	// (5) candidates bounded by the authorised epoch, before any Open
	const rule5 = "candidate-epoch-bound"
	if oc := c.need(r, rule5, "(*dtls.Conn).openCiphertextRecord"); oc != nil {
		r.Sites += len(oc.Blocks)
		opens := findCalls(oc, nameIs("(*dtls.Conn).openCiphertextWithGeneration"))
		var cmp *ssa.BinOp
		for _, b := range oc.Blocks {
			for _, in := range b.Instrs {
				if bo, ok := in.(*ssa.BinOp); ok && bo.Op == token.GTR && isFieldLoad(bo.X, tTG, "Epoch") {
					cmp = bo
				}
			}
		}
		if cmp == nil || len(opens) != 1 {
			r.Bad(rule5, short(oc), c.pos(oc.Pos()), "no 'generation.Epoch > remote epoch' test before trying a generation")
		} else {
			w := &Walk{Fn: oc, Assume: assumeAll(atomAssume{mValue(cmp), vBool(true)})}
			reached := false
			hdr := loopHeaderOf(cmp.Block())
			w.Visit = func(in ssa.Instruction, _ Env) bool {
				if in == firstNonPhi(hdr) {
					return false
				}
				if in == ssa.Instruction(opens[0]) {
					reached = true
				}
				return true
			}
			w.After(cmp)
			okSrc := isCallResult(cmp.Y, nameIs("(*dtls.Conn).readTrafficCandidates"))
			r.Check(!reached && okSrc, rule5, short(oc), c.ipos(cmp), "a generation above the authorised receive epoch is skipped before any decryption attempt", "a traffic generation whose epoch the receiver has not authorised yet is tried for decryption")
		}
	}
	if ow := c.need(r, rule5, "(*dtls.Conn).openCiphertextWithGeneration"); ow != nil {
		for _, x := range findCalls(ow, nameIs("(*dtls.Conn).highestRemoteSequenceNumber")) {
			r.Check(isFieldLoad(x.Call.Args[len(x.Call.Args)-1], tTG, "Epoch"), "sequence-reconstruction-epoch", short(ow), c.ipos(x), "sequence numbers are reconstructed against the highest number of the generation's own epoch", "the record number of a candidate generation is reconstructed against another epoch's counter (records of the retained previous epoch fail to authenticate after a key update)")
		}
	}
	// (6) ACK epoch bound
	const rule6 = "ack-epoch-bound"
	if hr := c.need(r, rule6, "(*dtls.Conn).handleRecordContent"); hr != nil {
		r.Sites += len(hr.Blocks)
		// the ACK case looks at the epoch of the ACK record and at the epoch of each acknowledged record
		var cmp *ssa.BinOp
		hdrCmp, recCmp := false, false
		hrUnit := c.unitFuncs(hr)
		isHdrEpoch := func(v ssa.Value) bool {
			for _, l := range c.OriginsIP(v, 0) {
				if isFieldLoad(l, "pkg/protocol/recordlayer.Header", "Epoch") {
					return true
				}
			}
			return false
		}
		for _, uf := range hrUnit {
			for _, b := range uf.Blocks {
				for _, in := range b.Instrs {
					if bo, ok := in.(*ssa.BinOp); ok {
						switch bo.Op {
						case token.EQL, token.NEQ, token.LEQ, token.GTR, token.LSS, token.GEQ:
						default:
							continue
						}
						if isHdrEpoch(bo.X) || isHdrEpoch(bo.Y) {
							hdrCmp = true
							cmp = bo
						}
						if isFieldLoad(stripConv(bo.X), "pkg/protocol.RecordNumber", "Epoch") || strings.Contains(shapeOf(bo.X, 0), ".Epoch") && strings.Contains(typeShort(bo.X.Type()), "uint64") {
							recCmp = true
						}
					}
				}
			}
		}
		if !hdrCmp || !recCmp {
			cmp = nil
		}
		// the Records handed on must not be a plain copy of the received list
		plain := false
		for _, al := range allocsOf(hr, "pkg/protocol.ACK") {
			f := litFields(al)
			if v := f["Records"]; v != nil {
				for _, l := range c.Origins(v, 0) {
					if isFieldLoad(l, "pkg/protocol.ACK", "Records") {
						plain = true
					}
				}
			}
		}
		// semantics of the filter: an unprotected ACK (record epoch 0) never passes on a record
		// number of a protected epoch
		if cmp != nil {
			isZero := func(v ssa.Value) bool { k, ok := constInt(v); return ok && k == 0 }
			w := (&Walk{Fn: hr, Follow: followSamePkg(hr), Assume: func(v ssa.Value) (Val, bool) {
				bo, ok := v.(*ssa.BinOp)
				if !ok || (bo.Op != token.EQL && bo.Op != token.NEQ) {
					return unknown, false
				}
				for _, pr := range [][2]ssa.Value{{bo.X, bo.Y}, {bo.Y, bo.X}} {
					if !isZero(pr[1]) {
						continue
					}
					if isHdrEpoch(pr[0]) {
						return vBool(bo.Op == token.EQL), true // ACK record epoch == 0
					}
					if isFieldLoad(stripConv(pr[0]), "pkg/protocol.RecordNumber", "Epoch") {
						return vBool(bo.Op == token.NEQ), true // acknowledged record epoch != 0
					}
				}
				return unknown, false
			}}).FromEntry()
			leak := false
			nApp := 0
			for _, uf := range hrUnit {
				for _, b := range uf.Blocks {
					for _, in := range b.Instrs {
						call, ok := in.(*ssa.Call)
						if !ok || calleeName(&call.Call) != "builtin:append" {
							continue
						}
						if !strings.HasSuffix(typeShort(call.Type()), "protocol.RecordNumber") {
							continue
						}
						nApp++
						if w.Reached[call] {
							leak = true
						}
					}
				}
			}
			r.Check(nApp > 0 && !leak, rule6, short(hr)+":unprotected-ack", c.pos(hr.Pos()), "an epoch-0 ACK cannot pass on a record number of a protected epoch", "an unauthenticated epoch-0 ACK record can pass on record numbers of protected epochs: anyone can acknowledge (and thereby commit) a protected KeyUpdate or flight")
		}
		r.Check(cmp != nil && !plain, rule6, short(hr), c.pos(hr.Pos()), "acknowledged record numbers are filtered by the epoch of the ACK record itself", "every record number of a received ACK is passed on whatever the epoch of the ACK record: an unauthenticated epoch-0 ACK can acknowledge (and thereby commit) a protected KeyUpdate")
	}
	// (6b) every retained generation with matching epoch bits is a candidate: the wire carries only
	// two epoch bits, so after four updates two retained generations match and both must be tried
	const rule6b = "read-candidates-complete"
	if rc := c.need(r, rule6b, "(*internal/state.TrafficKeyState).ReadCandidates"); rc != nil {
		r.Sites += len(rc.Blocks)
		loops := naturalLoops(rc)
		early := ""
		for _, l := range loops {
			for b := range l.blocks {
				if b == l.header {
					continue
				}
				for _, su := range b.Succs {
					if !l.blocks[su] {
						early = c.ipos(b.Instrs[len(b.Instrs)-1])
					}
				}
			}
		}
		// both the current generation and the retained ones are consulted
		cur, old := false, false
		for _, b := range rc.Blocks {
			for _, in := range b.Instrs {
				if _, f, _, ok := fieldLoad(valueOfInstr(in)); ok {
					if f == "readCurrent" {
						cur = true
					}
					if f == "readOld" {
						old = true
					}
				}
			}
		}
		r.Check(len(loops) >= 1 && early == "" && cur && old, rule6b, short(rc), c.pos(rc.Pos()), "the current generation and every retained generation with matching epoch bits are offered", "the search over the retained read generations can stop before all of them were considered (exit at "+early+"), or a generation set is not consulted: with two retained generations sharing the two on-wire epoch bits a record is tried against the wrong one only and dropped")
	}
	// (6c) ... and the consumer tries every candidate: a candidate under which the record does not
	// open sends the loop to the next candidate, never out of the loop
	for _, s := range c.CallsTo(nameIs("(*dtls.Conn).openCiphertextWithGeneration")) {
		call, ok := s.Call.(*ssa.Call)
		if !ok {
			continue
		}
		fn := s.Fn
		var loop *natLoop
		for _, l := range naturalLoops(fn) {
			if l.blocks[call.Block()] && (loop == nil || len(l.blocks) < len(loop.blocks)) {
				loop = l
			}
		}
		key := short(fn) + ":failed-candidate-continues"
		if loop == nil {
			r.Bad(rule6b, key, c.ipos(call), "the record is opened under one generation only (no loop over the candidates)")
			continue
		}
		errV := errResult(call)
		if errV == nil {
			r.Unk(rule6b, key, c.ipos(call), "open result without an error value")
			continue
		}
		fail := failAssumption(errV)
		w := &Walk{Fn: fn, Assume: fail}
		hdrFirst := firstNonPhi(loop.header)
		w.Visit = func(in ssa.Instruction, _ Env) bool { return in != hdrFirst }
		w.After(call)
		left := ""
		for in := range w.Reached {
			if in.Parent() == fn && !loop.blocks[in.Block()] {
				if left == "" || c.ipos(in) < left {
					left = c.ipos(in)
				}
			}
		}
		r.Check(left == "", rule6b, key, c.ipos(call), "a candidate that does not open the record leads to the next candidate", "after a candidate generation failed to open the record the loop is left ("+left+") instead of trying the next candidate: with two retained generations sharing the two on-wire epoch bits (four key updates apart) a late record of the older one is dropped")
	}
	// TrafficKeyState fields only under its mutex
	const rule7 = "traffic-keys-locked"
	tks := "internal/state.TrafficKeyState"
	n := 0
	for _, fn := range c.fnsOfPkg("internal/state") {
		if !strings.Contains(short(fn), "TrafficKeyState)") {
			continue
		}
		lf := c.lockFactsOf(fn)
		for _, b := range fn.Blocks {
			for _, in := range b.Instrs {
				fa, ok := in.(*ssa.FieldAddr)
				if !ok {
					continue
				}
				o, f, _, ok := fieldOfAddr(fa)
				if !ok || o != tks || f == "mu" {
					continue
				}
				n++
				held := lf.before[in][tks+".mu"]
				r.Check(held >= 1, rule7, short(fn)+":"+f, c.ipos(in), "accessed with TrafficKeyState.mu held", "a TrafficKeyState field is accessed without holding its mutex")
			}
		}
	}
	r.Floor(rule7, n, 4)
}

func allocsOf(fn *ssa.Function, typ string) []*ssa.Alloc {
	var out []*ssa.Alloc
	for _, b := range fn.Blocks {
		for _, in := range b.Instrs {
			if al, ok := in.(*ssa.Alloc); ok && namedOf(al.Type()) == typ {
				out = append(out, al)
			}
		}
	}
	return out
}

var _ = fmt.Sprint

// ruleSuccessAfterACK (C20): the waiter of a post-handshake command (UpdateKeys among them) is told
// "success" only where the flight that carried the command is completed by an acknowledgement.
// Every call of the completion with an error value that may be nil is either (a) in a function
// whose every call site takes its flight from the result of applyACK, or (b) the completion of an
// application-data command with the result of its own write. Everywhere else (start of a command,
// cancellation, failure of the whole machine) the value handed over is provably non-nil.
func ruleSuccessAfterACK(c *Ctx, r *Report) {
	const rule = "success-after-ack"
	sites := c.CallsTo(func(n string) bool { return strings.HasSuffix(n, "postHandshakeCompletion).complete") })
	n := 0
	for _, s := range sites {
		call, ok := s.Call.(*ssa.Call)
		if !ok || len(call.Call.Args) < 2 {
			continue
		}
		n++
		fn := s.Fn
		root := fn
		for root.Parent() != nil {
			root = root.Parent()
		}
		r.Sites += len(fn.Blocks)
		arg := call.Call.Args[1]
		// can the value be nil here? explored from the entry of the function, helpers followed
		mayNil, reached := false, false
		w := &Walk{Fn: fn, Follow: followSamePkg(fn)}
		w.VisitRaw = func(in ssa.Instruction, env Env, raw map[*ssa.Phi]ssa.Value) bool {
			if in == ssa.Instruction(call) {
				reached = true
				v := w.eval(resolvePhis(arg, raw), env)
				if !(v.Kind == 2 && !v.B) {
					mayNil = true
				}
			}
			return true
		}
		w.FromEntry()
		key := fmt.Sprintf("%s:%s", short(fn), shapeOf(call.Call.Args[0], 0))
		if !reached {
			r.Unk(rule, key, c.ipos(call), "completion site not reached by the exploration")
			continue
		}
		// a parameter handed through: decided at the call sites of the function (two levels)
		if mayNil {
			if p, isP := arg.(*ssa.Parameter); isP && p.Parent() == fn {
				if nonNilAtCallers(c, fn, paramIndex(p), 0) {
					mayNil = false
				}
			}
		}
		if !mayNil {
			r.OK(rule, key, c.ipos(call), "the value handed to the waiter is never nil here (a failure is reported)")
			continue
		}
		// (b) application data: the result of the command's own write
		fromWrite := anyLeaf(c.Origins(arg, 0), func(l ssa.Value) bool {
			cl, ok := l.(*ssa.Call)
			if !ok || cl.Call.IsInvoke() || cl.Call.StaticCallee() != nil {
				return false
			}
			_, f, _, okF := fieldLoad(cl.Call.Value)
			return okF && f == "Write"
		})
		if fromWrite {
			r.OK(rule, key, c.ipos(call), "application data: completed with the result of its own write")
			continue
		}
		// (a) every call site of the function takes its flight from applyACK's result
		ackDriven := false
		if callers, closed := c.staticCallers(root); closed && len(callers) > 0 {
			ackDriven = true
			for _, cs := range callers {
				okSite := false
				for _, a := range cs.Call.Common().Args {
					if valueFromCall(c, a, func(nm string) bool { return strings.HasSuffix(nm, "postHandshake).applyACK") }, 0) {
						okSite = true
					}
				}
				if !okSite {
					ackDriven = false
				}
			}
		}
		r.Check(ackDriven, rule, key, c.ipos(call), "possibly-nil completion only where an acknowledgement completed the flight", "a post-handshake command (UpdateKeys) can be reported successful from "+short(fn)+", which is not driven by an acknowledgement: the caller is told the peer has the new keys before any ACK arrived")
	}
	r.Floor(rule, n, 5)
}

// valueFromCall: v is (an element of) the result of a call matching pred.
func valueFromCall(c *Ctx, v ssa.Value, pred func(string) bool, d int) bool {
	if d > 6 {
		return false
	}
	for _, l := range c.Origins(v, 0) {
		if isCallResult(l, pred) {
			return true
		}
		switch x := l.(type) {
		case *ssa.UnOp:
			if ia, ok := x.X.(*ssa.IndexAddr); ok && valueFromCall(c, ia.X, pred, d+1) {
				return true
			}
		case *ssa.Index:
			if valueFromCall(c, x.X, pred, d+1) {
				return true
			}
		case *ssa.Extract:
			if nx, ok := x.Tuple.(*ssa.Next); ok {
				if rg, ok := nx.Iter.(*ssa.Range); ok && valueFromCall(c, rg.X, pred, d+1) {
					return true
				}
			}
		}
	}
	return false
}

// nonNilAtCallers: every static call site of fn (closed world) passes a value that is provably
// non-nil at that site as argument idx.
func nonNilAtCallers(c *Ctx, fn *ssa.Function, idx, depth int) bool {
	callers, closed := c.staticCallers(fn)
	if !closed || len(callers) == 0 || idx < 0 || depth > 2 {
		return false
	}
	for _, cs := range callers {
		ci, ok := cs.Call.(ssa.Instruction)
		args := cs.Call.Common().Args
		if !ok || idx >= len(args) {
			return false
		}
		host := cs.Fn
		good, reached := true, false
		w := &Walk{Fn: host, Follow: followSamePkg(host)}
		w.VisitRaw = func(in ssa.Instruction, env Env, raw map[*ssa.Phi]ssa.Value) bool {
			if in == ci {
				reached = true
				v := w.eval(resolvePhis(args[idx], raw), env)
				if !(v.Kind == 2 && !v.B) {
					good = false
				}
			}
			return true
		}
		w.FromEntry()
		if !reached {
			return false
		}
		if !good {
			if p, isP := args[idx].(*ssa.Parameter); isP && p.Parent() == host && nonNilAtCallers(c, host, paramIndex(p), depth+1) {
				continue
			}
			return false
		}
	}
	return true
}

// ruleOneReliableFlight (C20): reliable post-handshake messages (KeyUpdate, NewSessionTicket) use
// one outbound flight at a time: with a flight outstanding, the queue does not start another
// reliable command of any kind (only application data may follow). Otherwise a KeyUpdate can be
// acknowledged and committed while an earlier message of the same sequence space is still missing
// at the peer, and an older flight is retransmitted under its old epoch after the new one is in use.
func ruleOneReliableFlight(c *Ctx, r *Report) {
	const rule = "one-reliable-flight"
	fn := c.need(r, rule, "(*"+pkgHS+".postHandshake).startQueuedPostHandshake")
	if fn == nil {
		return
	}
	kinds := c.enumConsts(pkgHS, "postHandshakeCommandKind")
	starters := map[string]string{"commandSendKeyUpdate": "startKeyUpdate", "commandSendNewSessionTicket": "startNewSessionTicket"}
	r.Sites += len(fn.Blocks)
	n := 0
	for _, kname := range sortedKeys(starters) {
		kv, ok := kinds[kname]
		if !ok {
			r.Unk(rule, kname, "", "command kind constant not found")
			continue
		}
		for _, outstanding := range []int64{0, 1} {
			out := outstanding
			w := &Walk{Fn: fn, Follow: followSamePkg(fn), FollowDeferring: true, Assume: func(v ssa.Value) (Val, bool) {
				if _, f, _, ok := fieldLoad(v); ok && f == "Kind" && strings.HasSuffix(namedOrType(v.Type()), "postHandshakeCommandKind") {
					return vInt(kv), true
				}
				if call, ok := v.(*ssa.Call); ok {
					if b, isB := call.Call.Value.(*ssa.Builtin); isB && b.Name() == "len" && len(call.Call.Args) == 1 {
						if _, f, _, okF := fieldLoad(call.Call.Args[0]); okF && f == "flights" {
							return vInt(out), true
						}
					}
				}
				return unknown, false
			}}
			w.FromEntry()
			started := false
			var at ssa.Instruction
			for in := range w.Reached {
				if cl, ok := in.(*ssa.Call); ok && strings.HasSuffix(calleeName(&cl.Call), "postHandshake)."+starters[kname]) {
					started = true
					if at == nil || in.Pos() < at.Pos() {
						at = in
					}
				}
			}
			n++
			key := fmt.Sprintf("%s:%s:outstanding=%d", short(fn), kname, out)
			if out == 0 {
				r.Check(started, rule, key, c.pos(fn.Pos()), "with no flight outstanding the command is started", "with no flight outstanding "+kname+" is never started (rule no longer matches the code)")
				continue
			}
			pos := c.pos(fn.Pos())
			if at != nil {
				pos = c.ipos(at)
			}
			r.Check(!started, rule, key, pos, "with a flight outstanding the command stays queued", "with another reliable flight still unacknowledged the queue starts "+kname+": two reliable post-handshake flights are in the air at once")
		}
	}
	r.Floor(rule, n, 4)
}
