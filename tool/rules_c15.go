package main

import (
	"fmt"
	"go/token"
	"strings"

	"golang.org/x/tools/go/ssa"
)

const tRRCPath = "internal/rrc.path"

// ruleCIDRouting (C15): a listener consults the connection-ID router before the source address.
func ruleCIDRouting(c *Ctx, r *Report) {
	const rule = "cid-routing-first"
	fn := c.need(r, rule, "(*internal/net/udp.listener).getConn")
	if fn == nil {
		return
	}
	r.Sites += len(fn.Blocks)
	tL := "internal/net/udp.listener"
	var addrLookups, idLookups []*ssa.Lookup
	var router *ssa.Call
	// the routing may sit in a helper of the listener that getConn calls under its lock
	var unitBlocks []*ssa.BasicBlock
	for _, u := range c.unitFuncs(fn) {
		unitBlocks = append(unitBlocks, u.Blocks...)
	}
	for _, b := range unitBlocks {
		for _, in := range b.Instrs {
			switch x := in.(type) {
			case *ssa.Lookup:
				if !isFieldLoad(x.X, tL, "conns") {
					continue
				}
				if isCallResult(x.Index, nameHasSuffix("Addr.String")) {
					addrLookups = append(addrLookups, x)
				} else {
					idLookups = append(idLookups, x)
				}
			case *ssa.Call:
				if isFieldLoad(x.Call.Value, tL, "datagramRouter") {
					router = x
				}
			}
		}
	}
	if router == nil || len(addrLookups) == 0 || len(idLookups) != 1 {
		r.Bad(rule, short(fn), c.pos(fn.Pos()), "getConn no longer has one router lookup and a source-address lookup")
		return
	}
	routed := resultValue(router, 1)
	var found ssa.Value
	for _, ref := range *idLookups[0].Referrers() {
		if ex, ok := ref.(*ssa.Extract); ok && ex.Index == 1 {
			found = ex
		}
	}
	as := []atomAssume{{mLoad(tL, "datagramRouter"), vNil(false)}, {mValue(routed), vBool(true)}}
	if found != nil {
		as = append(as, atomAssume{mValue(found), vBool(true)})
	}
	w := (&Walk{Fn: fn, Follow: followSamePkg(fn), Assume: assumeAll(as...)}).FromEntry()
	bad := false
	for _, al := range addrLookups {
		if w.Reached[al] {
			bad = true
		}
	}
	r.Check(!bad && w.Reached[idLookups[0]], rule, short(fn), c.ipos(idLookups[0]), "a datagram whose connection ID maps to a connection is routed there without consulting the source address", "the source address is consulted before (or instead of) the connection ID: a CID record arriving from an address that belongs to another association is delivered to the wrong connection")
	// the identifier used for the lookup is the router's result
	r.Check(sameValue(idLookups[0].Index, resultValue(router, 0)), rule, short(fn)+":key", c.ipos(idLookups[0]), "lookup keyed by the router's identifier", "the connection map is not looked up by the identifier the datagram router returned")
}

// ruleAddressUpdate (C15): the send address changes only on a validated return-routability response.
func ruleAddressUpdate(c *Ctx, r *Report) {
	const rule = "raddr-writer"
	n := 0
	for _, st := range c.StoresTo("dtls.Conn", "rAddr") {
		fn := st.Fn
		key := short(fn)
		r.Sites++
		if allocOf(st.Base) != nil {
			r.OKTrivial(rule, key+":constructor", c.ipos(st.Instr), "initial peer address")
			continue
		}
		n++
		// the response handler, or a private helper of it
		host := c.Fn("(dtls.returnRoutabilityConn).HandleRecord")
		inUnit := false
		if host != nil {
			for _, u := range c.unitFuncs(host) {
				if u == fn {
					inUnit = true
				}
			}
		}
		if !inUnit {
			r.Bad(rule, key, c.ipos(st.Instr), "the peer address is changed outside the return-routability response handler")
			continue
		}
		key = short(host)
		follow := followSamePkg(host)
		var hr []*ssa.Call
		for _, u := range c.unitFuncs(host) {
			hr = append(hr, findCalls(u, nameHasSuffix("rrc.Manager).HandleResponse"))...)
		}
		if len(hr) != 1 {
			r.Bad(rule, key, c.ipos(st.Instr), "HandleResponse call missing")
			continue
		}
		why := passesUnderF(host, nil, hr[0], hr[0], st.Instr, follow)
		r.Check(why == "", rule, key+":validated", c.ipos(st.Instr), "address switched only when rrc.HandleResponse accepted the response", "the peer address changes without an accepted path response: "+why)
		// never without negotiation, never for an unprotected record
		w := (&Walk{Fn: host, Follow: follow, Assume: assumeAll(atomAssume{mLoad(tCom, "RRCNegotiated"), vBool(false)})}).FromEntry()
		r.Check(!w.Reached[st.Instr], rule, key+":negotiated", c.ipos(st.Instr), "unreachable unless return-routability checking was negotiated", "the peer address can change although return-routability checking was not negotiated")
		w2 := (&Walk{Fn: host, Follow: follow, Assume: assumeAll(atomAssume{mLoad("pkg/protocol/recordlayer.Header", "Epoch"), vInt(0)})}).FromEntry()
		r.Check(!w2.Reached[st.Instr], rule, key+":protected", c.ipos(st.Instr), "unreachable for an epoch-0 record", "an unprotected return-routability record can change the peer address")
		// the new address is the record's source, the cookie the record's
		src := ssa.Value(host.Params[len(host.Params)-1])
		var upTo func(v ssa.Value, d int) []ssa.Value
		upTo = func(v ssa.Value, d int) []ssa.Value {
			var out []ssa.Value
			for _, l := range c.Origins(v, 0) {
				p, isP := l.(*ssa.Parameter)
				if !isP || p.Parent() == host || d > 2 {
					out = append(out, l)
					continue
				}
				sites, closed := c.staticCallers(p.Parent())
				pi := paramIndex(p)
				if !closed || len(sites) == 0 || pi < 0 {
					out = append(out, l)
					continue
				}
				for _, cs := range sites {
					if args := cs.Call.Common().Args; pi < len(args) {
						out = append(out, upTo(args[pi], d+1)...)
					}
				}
			}
			return out
		}
		r.Check(sameValue(st.Val, src) || allLeaves(upTo(st.Val, 0), func(l ssa.Value) bool { return l == src || sameValue(l, src) }), rule, key+":value", c.ipos(st.Instr), "new address = source of the response", "the address stored is not the source address of the validated response")
		lf := c.lockFactsOf(fn)
		r.Check(lf.before[st.Instr]["dtls.Conn.lock"] == 2, rule, key+":locked", c.ipos(st.Instr), "stored under Conn.lock", "rAddr written without Conn.lock")
	}
	r.Floor(rule, n, 1)
	// HandleCandidate: challenge only for the newest authentic CID record when enabled
	if fn := c.need(r, "rrc-start-condition", "(dtls.returnRoutabilityConn).HandleCandidate"); fn != nil {
		st := findCalls(fn, nameHasSuffix("rrc.Manager).Start"))
		if len(st) == 1 {
			var names []string
			var collect func(v ssa.Value)
			collect = func(v ssa.Value) {
				switch x := v.(type) {
				case *ssa.Parameter:
					names = append(names, x.Name())
				case *ssa.Phi:
					for _, e := range x.Edges {
						collect(e)
					}
				case *ssa.BinOp:
					collect(x.X)
					collect(x.Y)
				}
			}
			collect(st[0].Call.Args[1])
			// `a && b && c` lowers to a phi of false/.../c guarded by ifs on a and b
			conds := map[string]bool{}
			for _, nm := range names {
				conds[nm] = true
			}
			for _, b := range fn.Blocks {
				if iff, ok := b.Instrs[len(b.Instrs)-1].(*ssa.If); ok {
					if p, ok := iff.Cond.(*ssa.Parameter); ok {
						conds[p.Name()] = true
					}
				}
			}
			r.Check(conds["enabled"] && conds["hasCID"] && conds["latest"], "rrc-start-condition", short(fn), c.ipos(st[0]), "challenge started only if enabled && hasCID && latest", "a path challenge can be started for a record that is not the newest authentic CID record of a connection with negotiated RRC")
		} else {
			r.Bad("rrc-start-condition", short(fn), c.pos(fn.Pos()), "rrc.Start call missing")
		}
	}
}

// ruleRRCManager (C15): response acceptance table, amplification budget, challenge timeout.
func ruleRRCManager(c *Ctx, r *Report) {
	// HandleResponse: true only if pending && cookie equal && not expired
	const rule = "rrc-response-table"
	if fn := c.need(r, rule, "(*internal/rrc.Manager).HandleResponse"); fn != nil {
		r.Sites += len(fn.Blocks)
		trueReach := func(as ...atomAssume) bool {
			w := (&Walk{Fn: fn, Follow: followSamePkg(fn), Assume: assumeAll(as...)}).FromEntry()
			for _, ro := range w.Returns {
				if ro.Vals[0] != vBool(false) {
					return true
				}
			}
			return false
		}
		isCookieEql := func(v ssa.Value) bool {
			bo, ok := v.(*ssa.BinOp)
			return ok && bo.Op == token.EQL && (strings.Contains(shapeOf(bo.X, 0), "cookie") || strings.Contains(shapeOf(bo.Y, 0), "cookie"))
		}
		isNow := func(v ssa.Value) bool {
			call, ok := v.(*ssa.Call)
			return ok && strings.HasSuffix(calleeName(&call.Call), "time.Time).Before")
		}
		isCookieNeq := func(v ssa.Value) bool {
			bo, ok := v.(*ssa.BinOp)
			return ok && bo.Op == token.NEQ && (strings.Contains(shapeOf(bo.X, 0), "cookie") || strings.Contains(shapeOf(bo.Y, 0), "cookie"))
		}
		r.Check(!trueReach(atomAssume{mLoad(tRRCPath, "challengePending"), vBool(false)}), rule, short(fn)+":pending", c.pos(fn.Pos()), "no challenge pending: rejected", "a path response is accepted although no challenge is pending for that address")
		r.Check(!trueReach(atomAssume{isCookieNeq, vBool(true)}, atomAssume{isCookieEql, vBool(false)}), rule, short(fn)+":cookie", c.pos(fn.Pos()), "cookie differs: rejected", "a path response with a wrong cookie is accepted")
		r.Check(!trueReach(atomAssume{isNow, vBool(false)}), rule, short(fn)+":timely", c.pos(fn.Pos()), "expired: rejected", "a path response arriving after the validation timeout is accepted")
		r.Check(trueReach(atomAssume{mLoad(tRRCPath, "challengePending"), vBool(true)}, atomAssume{isCookieNeq, vBool(false)}, atomAssume{isCookieEql, vBool(true)}, atomAssume{isNow, vBool(true)}), rule, short(fn)+":accepts", c.pos(fn.Pos()), "pending, matching, timely: accepted", "a correct timely response is never accepted")
	}
	// the deadline of a pending challenge is not extended by further traffic
	const rule2 = "rrc-challenge-deadline"
	for _, s := range c.CallsTo(nameHasSuffix("rrc.Manager).touchLocked")) {
		fn := s.Fn
		key := short(fn)
		r.Sites++
		// with a challenge outstanding the deadline moves only where the challenge itself changes
		// state (issued, cancelled): the re-arming call is out of reach while the pending flag
		// reads true, or a store to the flag comes first on every way to it
		pendingReach := func() bool {
			w := (&Walk{Fn: fn, Assume: assumeAll(atomAssume{mLoad(tRRCPath, "challengePending"), vBool(true)})}).FromEntry()
			if !w.Reached[s.Call] && !w.overflow {
				return false
			}
			for _, st := range c.StoresTo(tRRCPath, "challengePending") {
				if st.Fn == fn && instrDominates(st.Instr, s.Call) {
					return false
				}
			}
			return true
		}
		switch {
		case strings.HasSuffix(key, ").Start"), strings.HasSuffix(key, ").Cancel"):
			r.Check(!pendingReach(), rule2, key, c.ipos(s.Call), "arms / re-arms the deadline when a challenge is issued or cancelled, not while one is outstanding", "the deadline of an outstanding challenge is pushed back by an event that does not change the challenge (every further record from the candidate address, say): a response is accepted arbitrarily late")
		case strings.HasSuffix(key, ").recordReceived"):
			r.Check(!pendingReach(), rule2, key, c.ipos(s.Call), "received traffic does not extend the deadline of an outstanding challenge", "every record from a candidate address extends the deadline of its outstanding challenge: a response is accepted arbitrarily late")
		default:
			// a helper that sets the pending flag and re-arms, called only from the functions that
			// issue or cancel a challenge
			onlyFromKnown := false
			if sites, complete := c.staticCallers(fn); complete && len(sites) > 0 {
				onlyFromKnown = true
				for _, cs := range sites {
					k := short(cs.Fn)
					if !(strings.HasSuffix(k, ").Start") || strings.HasSuffix(k, ").Cancel")) {
						onlyFromKnown = false
					}
				}
			}
			if onlyFromKnown {
				r.Check(!pendingReach(), rule2, key, c.ipos(s.Call), "re-arms the deadline together with a change of the challenge state (helper of Start / Cancel)", "the deadline of an outstanding challenge is pushed back by an event that does not change the challenge: a response is accepted arbitrarily late")
				break
			}
			r.Bad(rule2, key, c.ipos(s.Call), "the path deadline is re-armed from an unexpected place")
		}
	}
	// stores to expiresAt only in touchLocked
	for _, st := range c.StoresTo(tRRCPath, "expiresAt") {
		r.Check(strings.HasSuffix(short(st.Fn), ").touchLocked"), rule2, "expiresAt<-"+short(st.Fn), c.ipos(st.Instr), "deadline written only by touchLocked", "the path deadline is written outside touchLocked")
	}
	// amplification
	const rule3 = "amplification-budget"
	if fn := c.need(r, rule3, "(*internal/rrc.Manager).Reserve"); fn != nil {
		r.Sites += len(fn.Blocks)
		var mul *ssa.BinOp
		k := int64(0)
		for _, g := range c.unitFuncs(fn) {
			for _, b := range g.Blocks {
				for _, in := range b.Instrs {
					bo, ok := in.(*ssa.BinOp)
					if !ok || bo.Op != token.MUL {
						continue
					}
					for _, pr := range [][2]ssa.Value{{bo.X, bo.Y}, {bo.Y, bo.X}} {
						kk, isC := constInt(pr[1])
						if isC && allLeaves(c.OriginsIP(pr[0], 0), func(v ssa.Value) bool { return isFieldLoad(v, tRRCPath, "receivedBytes") }) {
							mul, k = bo, kk
						}
					}
				}
			}
		}
		r.Check(mul != nil && k == 3, rule3, short(fn)+":factor", c.pos(fn.Pos()), "limit = 3 x received bytes", fmt.Sprintf("the anti-amplification factor is %d, RFC 9146 6 / RFC 9853 allow three times the received bytes", k))
		// sentBytes grows only after the limit test passed
		for _, st := range c.StoresTo(tRRCPath, "sentBytes") {
			if st.Fn != fn {
				r.Bad(rule3, "sentBytes<-"+short(st.Fn), c.ipos(st.Instr), "bytes sent to a candidate path are accounted outside Reserve")
				continue
			}
			var cmps []*ssa.BinOp
			for _, b := range fn.Blocks {
				for _, in := range b.Instrs {
					if bo, ok := in.(*ssa.BinOp); ok && (bo.Op == token.GEQ || bo.Op == token.GTR) && strings.Contains(shapeOf(bo, 0), "sentBytes") {
						cmps = append(cmps, bo)
					}
				}
			}
			ok := len(cmps) == 2
			for _, cmp := range cmps {
				w := (&Walk{Fn: fn, Assume: assumeAll(atomAssume{mValue(cmp), vBool(true)})}).FromEntry()
				if w.Reached[st.Instr] {
					ok = false
				}
			}
			if len(cmps) != 2 {
				// the room that is left may be computed by a helper of the path: it answers 0 once
				// sent >= limit and limit - sent otherwise, and the debit is out of reach when the
				// datagram is larger than that
				ok = false
				for _, bc := range findCalls(fn, func(string) bool { return true }) {
					h := bc.Call.StaticCallee()
					if h == nil || h.Pkg != fn.Pkg || len(h.Blocks) == 0 || h.Signature.Results().Len() != 1 {
						continue
					}
					okHelper, nSub := true, 0
					for _, b := range h.Blocks {
						ret, isRet := b.Instrs[len(b.Instrs)-1].(*ssa.Return)
						if !isRet || b == h.Recover {
							continue
						}
						rv := unspill(ret.Results[0])
						if k, isK := constInt(rv); isK && k == 0 {
							continue
						}
						sub, isSub := rv.(*ssa.BinOp)
						if !isSub || sub.Op != token.SUB || !isFieldLoad(sub.Y, tRRCPath, "sentBytes") {
							okHelper = false
							continue
						}
						nSub++
						// not reached once sent >= limit
						limit := sub.X
						wh := (&Walk{Fn: h, Assume: func(v ssa.Value) (Val, bool) {
							bo, isBo := v.(*ssa.BinOp)
							if !isBo {
								return unknown, false
							}
							sentX, sentY := isFieldLoad(bo.X, tRRCPath, "sentBytes"), isFieldLoad(bo.Y, tRRCPath, "sentBytes")
							switch {
							case sentX && bo.Y == limit && (bo.Op == token.GEQ):
								return vBool(true), true
							case sentX && bo.Y == limit && (bo.Op == token.LSS):
								return vBool(false), true
							case sentY && bo.X == limit && (bo.Op == token.LEQ):
								return vBool(true), true
							case sentY && bo.X == limit && (bo.Op == token.GTR):
								return vBool(false), true
							}
							return unknown, false
						}}).FromEntry()
						if wh.Reached[ret] {
							okHelper = false
						}
					}
					if !okHelper || nSub == 0 {
						continue
					}
					// in the caller: wire > room -> no debit
					seen := false
					wr := (&Walk{Fn: fn, Assume: func(v ssa.Value) (Val, bool) {
						bo, isBo := v.(*ssa.BinOp)
						if !isBo {
							return unknown, false
						}
						switch {
						case bo.Y == ssa.Value(bc) && bo.Op == token.GTR:
							seen = true
							return vBool(true), true
						case bo.Y == ssa.Value(bc) && bo.Op == token.LEQ:
							seen = true
							return vBool(false), true
						case bo.X == ssa.Value(bc) && bo.Op == token.LSS:
							seen = true
							return vBool(true), true
						case bo.X == ssa.Value(bc) && bo.Op == token.GEQ:
							seen = true
							return vBool(false), true
						}
						return unknown, false
					}}).FromEntry()
					if seen && !wr.Reached[st.Instr] {
						ok = true
					}
				}
			}
			r.Check(ok, rule3, short(fn)+":within-limit", c.ipos(st.Instr), "the send budget is debited only when sent + this datagram stays within the limit", "the amplification budget is debited (and the datagram allowed) although the limit is exceeded")
		}
	}
	// the candidate-address write passes Reserve
	if fn := c.need(r, rule3, "(dtls.returnRoutabilityConn).WriteRRC"); fn != nil {
		wr := findCalls(fn, func(n string) bool { return strings.HasPrefix(n, "iface:") && strings.HasSuffix(n, ".WriteToContext") })
		rs := findCalls(fn, nameHasSuffix("rrc.Manager).Reserve"))
		if len(wr) == 1 && len(rs) == 1 {
			var as []atomAssume
			for _, pp := range findCalls(fn, nameIs("(*dtls.Conn).processPacket")) {
				as = append(as, atomAssume{mValue(errResult(pp)), vNil(true)})
			}
			why := passesUnder(fn, as, rs[0], rs[0], wr[0])
			ok := why == ""
			r.Check(ok, rule3, short(fn)+":reserve-before-write", c.ipos(wr[0]), "a datagram to a candidate address is written only after Reserve succeeded", "a datagram can be sent to an unvalidated address without passing the amplification reserve: "+why)
			r.Check(sameValue(rs[0].Call.Args[1], wr[0].Call.Args[len(wr[0].Call.Args)-1]), rule3, short(fn)+":same-address", c.ipos(wr[0]), "reserved for the address written to", "the budget is reserved for a different address than the one written to")
			ln, isLen := rs[0].Call.Args[3].(*ssa.Call)
			r.Check(isLen && calleeName(&ln.Call) == "builtin:len" && sameValue(ln.Call.Args[0], wr[0].Call.Args[len(wr[0].Call.Args)-2]), rule3, short(fn)+":size", c.ipos(rs[0]), "reserved size = size of the datagram written", "the reserved size is not the length of the datagram that is written")
		} else if host, hc, hrs := reserveHelper(fn); len(wr) == 1 && len(rs) == 0 && host != nil && len(hrs) == 1 {
			// the record is protected and its size reserved in a helper that hands the datagram
			// back: the write follows the helper's success, and the helper succeeds only after
			// Reserve did
			why := passesUnder(fn, nil, hc, errResult(hc), wr[0])
			var as []atomAssume
			for _, pp := range findCalls(host, nameIs("(*dtls.Conn).processPacket")) {
				as = append(as, atomAssume{mValue(errResult(pp)), vNil(true)})
			}
			var okRet *ssa.Return
			nOK := 0
			for _, b := range host.Blocks {
				ret, isRet := b.Instrs[len(b.Instrs)-1].(*ssa.Return)
				if !isRet || b == host.Recover || len(ret.Results) != 2 {
					continue
				}
				res := retResults(ret)
				if !isNilConst(res[1]) {
					continue
				}
				nOK++
				okRet = ret
				if w2 := passesUnder(host, as, hrs[0], hrs[0], ret); w2 != "" && why == "" {
					why = "in " + short(host) + ": " + w2
				}
			}
			if nOK == 0 && why == "" {
				why = short(host) + " has no successful return"
			}
			r.Check(why == "", rule3, short(fn)+":reserve-before-write", c.ipos(wr[0]), "a datagram to a candidate address is written only after Reserve succeeded (in "+short(host)+")", "a datagram can be sent to an unvalidated address without passing the amplification reserve: "+why)
			sameAddr := false
			if p, isP := unspill(hrs[0].Call.Args[1]).(*ssa.Parameter); isP {
				if i := paramIndex(p); i >= 0 && i < len(hc.Call.Args) {
					sameAddr = sameValue(hc.Call.Args[i], wr[0].Call.Args[len(wr[0].Call.Args)-1])
				}
			}
			r.Check(sameAddr, rule3, short(fn)+":same-address", c.ipos(wr[0]), "reserved for the address written to", "the budget is reserved for a different address than the one written to")
			ln, isLen := hrs[0].Call.Args[3].(*ssa.Call)
			okSize := isLen && calleeName(&ln.Call) == "builtin:len" && nOK == 1 && okRet != nil &&
				sameValue(ln.Call.Args[0], retResults(okRet)[0]) &&
				wr[0].Call.Args[len(wr[0].Call.Args)-2] == resultValue(hc, 0)
			r.Check(okSize, rule3, short(fn)+":size", c.ipos(hrs[0]), "reserved size = size of the datagram written", "the reserved size is not the length of the datagram that is written")
		} else {
			r.Bad(rule3, short(fn), c.pos(fn.Pos()), "WriteRRC no longer has one Reserve and one WriteToContext")
		}
	}
	// all WriteToContext sites of the connection
	all := c.CallsTo(func(n string) bool { return strings.HasPrefix(n, "iface:") && strings.HasSuffix(n, ".WriteToContext") })
	m := 0
	for _, s := range all {
		k := short(s.Fn)
		if !strings.Contains(k, "dtls.") {
			continue
		}
		m++
		call, isCall := s.Call.(*ssa.Call)
		if !isCall {
			r.Bad(rule3, "WriteToContext<-"+k, c.ipos(s.Call), "datagram write via go/defer")
			continue
		}
		// either the target is the connection's validated peer address (returned under lock by
		// prepareRawPacketsTracked / loaded from Conn.rAddr), or the write passed the reserve
		ls := c.Origins(call.Call.Args[len(call.Call.Args)-1], 0)
		toPeer := allLeaves(ls, func(v ssa.Value) bool {
			return isCallResult(v, nameIs("(*dtls.Conn).prepareRawPacketsTracked")) || isFieldLoad(v, "dtls.Conn", "rAddr")
		})
		reserved := false
		for _, rs := range findCalls(s.Fn, nameHasSuffix("rrc.Manager).Reserve")) {
			if sameValue(rs.Call.Args[1], call.Call.Args[len(call.Call.Args)-1]) {
				reserved = true // ordering and size are checked by reserve-before-write above
			}
		}
		if host, hc, hrs := reserveHelper(s.Fn); !reserved && host != nil && len(hrs) == 1 {
			if p, isP := unspill(hrs[0].Call.Args[1]).(*ssa.Parameter); isP {
				if i := paramIndex(p); i >= 0 && i < len(hc.Call.Args) && sameValue(hc.Call.Args[i], call.Call.Args[len(call.Call.Args)-1]) {
					reserved = true
				}
			}
		}
		r.Check(toPeer || reserved, rule3, "WriteToContext<-"+k, c.ipos(call), map[bool]string{true: "written to the validated peer address", false: "written to a candidate address after Reserve"}[toPeer], "a datagram is written to an address that is neither the connection's validated peer address nor covered by the amplification reserve: "+c.describeAll(ls))
	}
	r.Floor(rule3+":write-sites", m, 2)
	// received bytes are credited only for authenticated records
	for _, s := range c.CallsTo(nameHasSuffix("rrc.Manager).recordReceived")) {
		r.Check(strings.HasSuffix(short(s.Fn), "WrapReplayMarker$1"), rule3, "recordReceived<-"+short(s.Fn), c.ipos(s.Call), "credited inside the replay-commit wrapper (after authentication)", "bytes are credited to a candidate path outside the replay-commit wrapper: unauthenticated datagrams raise the amplification budget")
	}
}

// ruleCIDOnSend (C15): protected packets request CID wrapping according to the negotiated state.
func ruleCIDOnSend(c *Ctx, r *Report) {
	const rule = "cid-on-send"
	n := 0
	for _, p := range c.packetLiterals() {
		se, has := p.fields["ShouldEncrypt"]
		if !has {
			continue
		}
		if k, isC := constBool(se); isC && !k {
			continue
		}
		if strings.Contains(short(p.fn), pkgF13+".") || strings.Contains(short(p.fn), "internal/handshake.") {
			continue // DTLS 1.3 puts the CID in the unified header inside sealRecordContent
		}
		n++
		key := short(p.fn) + ":" + strings.TrimPrefix(p.content, "pkg/protocol/")
		v := p.fields["ShouldWrapCID"]
		ok := false
		if v != nil {
			// exactly the negotiated state: not and-ed / or-ed with anything else, except for the
			// protocol-version test (DTLS 1.3 carries the CID in the unified header instead)
			if phi, isPhi := v.(*ssa.Phi); isPhi && len(phi.Edges) == 2 {
				for i, e := range phi.Edges {
					if k, isC := constBool(e); isC && !k {
						pred := phi.Block().Preds[i]
						if iff, isIf := pred.Instrs[len(pred.Instrs)-1].(*ssa.If); isIf {
							if call, isCall := iff.Cond.(*ssa.Call); isCall && strings.HasSuffix(calleeName(&call.Call), "Version).Equal") {
								v = phi.Edges[1-i]
							}
							// "protected && negotiated": the other operand is the packet's own ShouldEncrypt
							if iff.Cond == se && pred.Succs[1] == phi.Block() {
								v = phi.Edges[1-i]
							}
						}
					}
				}
			}
			ok = allLeaves(c.Origins(v, 0), func(l ssa.Value) bool {
				return isCallResult(l, nameHasSuffix(".ShouldWrapConnectionID")) || isCallResult(l, nameHasSuffix("ConnectionID).ShouldWrap")) || strings.Contains(shapeOf(l, 0), "ShouldWrapConnectionID(")
			})
			if !ok {
				// the freshly decided connection ID of this (abbreviated) handshake
				for _, b := range p.fn.Blocks {
					for _, in := range b.Instrs {
						if bo, isB := in.(*ssa.BinOp); isB && strings.Contains(shapeOf(bo, 0), "ClientCID") {
							for _, l := range c.Origins(bo.X, 0) {
								_ = l
							}
							ok = len(findCalls(p.fn, nameIs("internal/negotiation.DecideConnectionID"))) == 1
						}
					}
				}
			}
		}
		r.Check(ok, rule, key, c.ipos(p.al), "ShouldWrapCID follows the negotiated connection-ID state", "a protected DTLS 1.2 packet does not take ShouldWrapCID from the negotiated state: the peer's connection ID is missing on it")
	}
	r.Floor(rule, n, 6)
	// the tls12_cid format is for protected records: a packet is never CID-wrapped without being
	// encrypted (a plaintext record of content type 25 is discarded by every receiver, so an alert
	// sent that way during the handshake is never read)
	nw := 0
	for _, p := range c.packetLiterals() {
		v, has := p.fields["ShouldWrapCID"]
		if !has {
			continue
		}
		if k, isC := constBool(v); isC && !k {
			continue
		}
		nw++
		se := p.fields["ShouldEncrypt"]
		good := false
		if se != nil {
			if k, isC := constBool(se); isC && k {
				good = true
			}
			// wrap = encrypt && ...: false on the edge where encrypt is false
			if phi, isPhi := v.(*ssa.Phi); isPhi && !good {
				for i, e := range phi.Edges {
					if k, isC := constBool(e); isC && !k {
						pred := phi.Block().Preds[i]
						if iff, isIf := pred.Instrs[len(pred.Instrs)-1].(*ssa.If); isIf && iff.Cond == se && pred.Succs[1] == phi.Block() {
							good = true
						}
					}
				}
			}
			if v == se {
				good = true
			}
			// the flag is set afterwards, by a store that runs only where encrypt is true
			if !good {
				guarded, stores := true, 0
				for _, ref := range *p.al.Referrers() {
					fa, isFA := ref.(*ssa.FieldAddr)
					if !isFA {
						continue
					}
					if _, f, _, okF := fieldOfAddr(fa); !okF || f != "ShouldWrapCID" {
						continue
					}
					for _, r2 := range *fa.Referrers() {
						st, isSt := r2.(*ssa.Store)
						if !isSt {
							continue
						}
						if k, isC := constBool(st.Val); isC && !k {
							continue
						}
						stores++
						under := false
						for d := st.Block(); d != nil; d = d.Idom() {
							id := d.Idom()
							if id == nil {
								break
							}
							if iff, isIf := id.Instrs[len(id.Instrs)-1].(*ssa.If); isIf && iff.Cond == se && id.Succs[0] == d && len(d.Preds) == 1 {
								under = true
							}
						}
						if !under {
							guarded = false
						}
					}
				}
				if stores > 0 && guarded {
					good = true
				}
			}
		}
		key := short(p.fn) + ":" + strings.TrimPrefix(p.content, "pkg/protocol/")
		r.Check(good, rule, key+":wrapped-implies-encrypted", c.ipos(p.al), "a packet is CID-wrapped only if it is encrypted", "a packet can be CID-wrapped (content type tls12_cid) while it is not encrypted: during the handshake an alert goes out as a plaintext record of type 25, which every receiver discards - the fatal alert is never read and the peer waits until its own timeout")
	}
	r.Floor(rule+":wrapped", nw, 5)
	// the CID written is the peer's
	for _, name := range []string{"(*dtls.Conn).processPacket", "(*dtls.Conn).processHandshakePacket"} {
		fn := c.need(r, rule, name)
		if fn == nil {
			continue
		}
		for _, al := range allocsOf(fn, "pkg/protocol/recordlayer.Header") {
			f := litFields(al)
			if v, ok := f["ConnectionID"]; ok {
				r.Check(isFieldLoad(v, tCom, "RemoteConnectionID"), rule, short(fn)+":header-cid", c.ipos(al), "CID header carries RemoteConnectionID", "the connection-ID header does not carry the peer's connection ID")
			}
		}
	}
}

// reserveHelper: the unexported function of fn's package, called once from fn, that calls the
// amplification reserve (nil when there is none or more than one).
func reserveHelper(fn *ssa.Function) (*ssa.Function, *ssa.Call, []*ssa.Call) {
	var host *ssa.Function
	var hc *ssa.Call
	var hrs []*ssa.Call
	for _, call := range findCalls(fn, func(string) bool { return true }) {
		g := call.Call.StaticCallee()
		if g == nil || g.Pkg != fn.Pkg || len(g.Blocks) == 0 || token.IsExported(g.Name()) {
			continue
		}
		rs := findCalls(g, nameHasSuffix("rrc.Manager).Reserve"))
		if len(rs) == 0 {
			continue
		}
		if host != nil {
			return nil, nil, nil
		}
		host, hc, hrs = g, call, rs
	}
	return host, hc, hrs
}
