package main

import (
	"fmt"
	"os"
	"os/exec"
	"path/filepath"
	"sort"
	"strings"
)

// Thorough tier, part three: sensitivity of the rules on the tree under analysis.
//
// A static rule that silently stopped matching passes for ever. Besides the instance floors,
// the thorough tier therefore re-runs the property's rules on scratch copies of the *current*
// working tree of /repo, each with one of the recorded breaking changes of that property applied
// (seeded/<id>-*/patch.diff: independently produced, each confirmed to break the property while
// compiling and passing the suite). Nothing is executed: the copy is only loaded and analysed.
// The outcome per change is recorded in the evidence (reported / not reported / patch does not
// apply to the current tree). It is evidence about the rules, not a verdict about /repo, so it
// never turns a passing check into a failing one.
func (c *Ctx) sensitivity(r *Report, id string) {
	dirs, _ := filepath.Glob(filepath.Join(c.VerifDir, "seeded", id+"-*"))
	sort.Strings(dirs)
	if len(dirs) == 0 {
		return
	}
	self, err := os.Executable()
	if err != nil {
		return
	}
	var out []map[string]any
	for _, d := range dirs {
		patch := filepath.Join(d, "patch.diff")
		if _, err := os.Stat(patch); err != nil {
			continue
		}
		info := map[string]any{"change": filepath.Base(d)}
		tmp, err := os.MkdirTemp("", "dtlsvet-sens-")
		if err != nil {
			info["result"] = "skipped: " + err.Error()
			out = append(out, info)
			continue
		}
		func() {
			defer os.RemoveAll(tmp)
			tree := filepath.Join(tmp, "tree")
			vdir := filepath.Join(tmp, "verif")
			if err := exec.Command("cp", "-a", c.Repo, tree).Run(); err != nil {
				info["result"] = "skipped: copy failed"
				return
			}
			_ = os.RemoveAll(filepath.Join(tree, ".git"))
			_ = os.MkdirAll(vdir, 0o755)
			_ = exec.Command("cp", "-a", filepath.Join(c.VerifDir, "spec"), filepath.Join(vdir, "spec")).Run()
			_ = exec.Command("cp", filepath.Join(c.VerifDir, "known_findings.json"), vdir).Run()
			ap := exec.Command("git", "apply", "--unsafe-paths", "--directory="+tree, patch)
			ap.Dir = tmp
			if err := ap.Run(); err != nil {
				// outside a repository git apply takes paths relative to the current directory
				ap2 := exec.Command("git", "apply", patch)
				ap2.Dir = tree
				if err2 := ap2.Run(); err2 != nil {
					info["result"] = "not applicable: the recorded change no longer applies to this tree"
					return
				}
			}
			cmd := exec.Command(self, "-prop", id, "-tier", "quick", "-repo", tree, "-verif", vdir)
			cmd.Env = append(os.Environ(), "DTLSVET_NESTED=1")
			b, _ := cmd.CombinedOutput()
			var rules []string
			for _, ln := range strings.Split(string(b), "\n") {
				if strings.HasPrefix(ln, "VIOLATION property="+id+" ") {
					if i := strings.Index(ln, "rule="); i >= 0 {
						f := strings.Fields(ln[i:])
						rules = append(rules, strings.TrimPrefix(f[0], "rule="))
					}
				}
			}
			if len(rules) > 0 {
				sort.Strings(rules)
				info["result"] = "reported"
				info["rules"] = uniq(rules)
			} else {
				info["result"] = "not reported"
			}
		}()
		out = append(out, info)
	}
	rep, tot := 0, 0
	for _, i := range out {
		if s, _ := i["result"].(string); s == "reported" {
			rep++
			tot++
		} else if s == "not reported" {
			tot++
		}
	}
	r.Extra["sensitivity"] = out
	r.Note("sensitivity", "seeded-changes", "", fmt.Sprintf("%d of %d applicable recorded breaking changes of this property are reported when applied to a scratch copy of the current tree", rep, tot))
}

func uniq(s []string) []string {
	var out []string
	for i, x := range s {
		if i == 0 || x != s[i-1] {
			out = append(out, x)
		}
	}
	return out
}
