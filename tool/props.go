package main

func init() {
	register("C04",
		"Decided: every first consumption of the peer's Finished in a DTLS 1.2 flight parser is followed on every advancing exit by a successful equality test of verify_data against PRF(State12.MasterSecret, role label, canonical transcript).",
		"That every byte mutation changes the transcript hash (cryptographic); delivery schedules.",
		ruleFinishedCompare)
	register("C09",
		"Decided: (1) the per-epoch record sequence counters are modified only by the atomic +1 of the single allocator and the state-import store; (2) every call path to the allocator holds Conn.lock exclusively, and record preparation plus the datagram write on the packet path run under Conn.writeLock; (3) in every function that allocates, the number stored in each recordlayer.Header / passed to the DTLS 1.3 seal is that allocation's result, with the same epoch, and only after the overflow error was checked; (5) the allocator and Header.Marshal refuse numbers above 2^48-1.",
		"Scheduler behaviour and the semantics of sync/atomic; uniqueness across export/import is C19.",
		ruleSeqSingleAllocator, ruleSeqLocks, ruleSeqToWire, ruleSeqNoWrap)
	if false {
		register("C08", "bounds (work in progress)", "", ruleBounds)
	}
	register("C10",
		"Decided by symbolic byte-layout extraction of the straight-line encoders, compared with tables transcribed from the RFCs: AEAD additional data with and without connection ID, CBC MAC input with and without connection ID, explicit nonce placement, TLS 1.2 PRF labels / seed order / output lengths, key-block partition offsets as linear forms in (mac,key,iv), per-suite (mac,key,iv) constants and record cipher for every ID the registry hands out, client/server key mirror at every cipher construction.",
		"P_hash iteration, HMAC/HKDF/AES/CCM/ChaCha internals (pinned by known-answer tests); loop-built nonces are covered by a dependency rule only.",
		ruleRecordLayouts, rulePRFLayouts, ruleKeyBlock, ruleSuiteConstants, ruleKeyMirror)
	register("C03",
		"Decided: DTLS 1.2 client: for certificate suites every path to the key-derivation commit passes a successful ServerKeyExchange signature check over (local random, remote random, curve, public key) against the presented chain, a successful chain verification unless InsecureSkipVerify, and the VerifyPeerCertificate callback when set; a certificate suite without a Certificate message cannot advance. DTLS 1.2 server: a present CertificateVerify must verify over ClientHello..ClientKeyExchange, a certificate without CertificateVerify cannot advance, the verified flag is true only after a successful VerifyClientCert, and the extracted decision table over ClientAuth x certificate x verified x suite equals the policy (exhaustive over the finite table). DTLS 1.3: hasFinished / hasCertificateVerify flags set only after the checked verifications, commit only after hasFinished.",
		"Correctness of x509 / signature verification (library), expiry and time, PSK knowledge (covered through the Finished comparison of C04).",
		ruleClientServerAuth12, ruleServerClientAuth12, ruleProtectedFlight13)
}
