package main

func init() {
	register("C04",
		"Decided: every first consumption of the peer's Finished in a DTLS 1.2 flight parser is followed on every advancing exit by a successful equality test of verify_data against PRF(State12.MasterSecret, role label, canonical transcript).",
		"That every byte mutation changes the transcript hash (cryptographic); delivery schedules.",
		ruleFinishedCompare)
	register("C09",
		"Decided: (1) the per-epoch record sequence counters are modified only by the atomic +1 of the single allocator and the state-import store; (2) every call path to the allocator holds Conn.lock exclusively, and record preparation plus the datagram write on the packet path run under Conn.writeLock; (3) in every function that allocates, the number stored in each recordlayer.Header / passed to the DTLS 1.3 seal is that allocation's result, with the same epoch, and only after the overflow error was checked; (5) the allocator and Header.Marshal refuse numbers above 2^48-1.",
		"Scheduler behaviour and the semantics of sync/atomic; uniqueness across export/import is C19.",
		ruleSeqSingleAllocator, ruleSeqLocks, ruleSeqToWire, ruleSeqNoWrap)
	if false {
		register("C08", "bounds (work in progress)", "", ruleBounds)
	}
}
