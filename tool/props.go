package main

func init() {
	register("C04",
		"Decided: every first consumption of the peer's Finished in a DTLS 1.2 flight parser is followed on every advancing exit by a successful equality test of verify_data against PRF(State12.MasterSecret, role label, canonical transcript).",
		"That every byte mutation changes the transcript hash (cryptographic); delivery schedules.",
		ruleFinishedCompare)
	register("C09",
		"Decided: (1) the per-epoch record sequence counters are modified only by the atomic +1 of the single allocator and the state-import store; (2) every call path to the allocator holds Conn.lock exclusively, and record preparation plus the datagram write on the packet path run under Conn.writeLock; (3) in every function that allocates, the number stored in each recordlayer.Header / passed to the DTLS 1.3 seal is that allocation's result, with the same epoch, and only after the overflow error was checked; (5) the allocator and Header.Marshal refuse numbers above 2^48-1.",
		"Scheduler behaviour and the semantics of sync/atomic; uniqueness across export/import is C19.",
		ruleSeqSingleAllocator, ruleSeqLocks, ruleSeqToWire, ruleSeqNoWrap)
	register("C08",
		"Decided for everything reachable (CHA) from the network entry points, not following the emit roots: (1) every index / slice / encoding-binary access is proven in range by an abstract interpreter over linear inequalities (Fourier-Motzkin entailment, narrow unsigned arithmetic kept opaque so that wrap-arounds surface), or its unproven sub-goals are covered by an entry of the reviewed-safe table (function + expression shape + reason, one per site); (2) pointer-valued map elements are dereferenced only under a presence test, type assertions without comma-ok only on values of fixed dynamic type, no explicit panic, no division by an unproven divisor; (3) the two named buffering limits are tested before every growth and the reassembly counters move exactly with inserts and deletes; (4) undecodable datagrams and malformed fragments are dropped, not fatal; (5) the listener's packet ring consumes or can get past its head packet.",
		"General deadlock freedom and loop termination, allocation volume and CPU, panics inside the standard library / x/crypto / pion/transport; the reviewed-safe entries are human judgements, listed in the evidence.",
		ruleBounds, rulePanicClasses, ruleBufferLimits, ruleDropNotFail, rulePacketQueueProgress)
	register("C10",
		"Decided by symbolic byte-layout extraction of the straight-line encoders, compared with tables transcribed from the RFCs: AEAD additional data with and without connection ID, CBC MAC input with and without connection ID, explicit nonce placement, TLS 1.2 PRF labels / seed order / output lengths, key-block partition offsets as linear forms in (mac,key,iv), per-suite (mac,key,iv) constants and record cipher for every ID the registry hands out, client/server key mirror at every cipher construction.",
		"P_hash iteration, HMAC/HKDF/AES/CCM/ChaCha internals (pinned by known-answer tests); loop-built nonces are covered by a dependency rule only.",
		ruleRecordLayouts, rulePRFLayouts, ruleKeyBlock, ruleSuiteConstants, ruleKeyMirror)
	register("C03",
		"Decided: DTLS 1.2 client: for certificate suites every path to the key-derivation commit passes a successful ServerKeyExchange signature check over (local random, remote random, curve, public key) against the presented chain, a successful chain verification unless InsecureSkipVerify, and the VerifyPeerCertificate callback when set; a certificate suite without a Certificate message cannot advance. DTLS 1.2 server: a present CertificateVerify must verify over ClientHello..ClientKeyExchange, a certificate without CertificateVerify cannot advance, the verified flag is true only after a successful VerifyClientCert, and the extracted decision table over ClientAuth x certificate x verified x suite equals the policy (exhaustive over the finite table). DTLS 1.3: hasFinished / hasCertificateVerify flags set only after the checked verifications, commit only after hasFinished.",
		"Correctness of x509 / signature verification (library), expiry and time, PSK knowledge (covered through the Finished comparison of C04).",
		ruleClientServerAuth12, ruleServerClientAuth12, ruleProtectedFlight13)
	register("C05",
		"Decided: (1) no function reachable from prepareIncomingPacket invokes the replay accept closure, emits, alerts or closes; the closure is invoked only by the record consumers, which run only after prepareIncomingPacket returned ok; a rejected record yields (no outcome, nil error). (2) DTLS 1.2: header parse, future-epoch bound, replay check, then decryption (required for epoch != 0), CID presence before and CID equality after decryption on every success return; failure returns carry the zero state. DTLS 1.3: open before the replay marker, marker before hand-off. (3) every Decrypt returns plaintext only after its AEAD Open / MAC comparison (and padding check) succeeded; only ChangeCipherSpec passes through. (4) epoch-0 application data is refused and the only payload sender on the delivery channel is that consumer. (5) AAD/MAC input layouts cover epoch, sequence, type, version, length and CID (shared with C10).",
		"That returned bytes equal written bytes (AEAD/MAC correctness is the library's); replay-window semantics.",
		ruleReceiveOrder, ruleDecryptAuth, ruleEpochZeroAppData, ruleRecordLayouts)
	register("C06",
		"Decided: no delivery path bypasses the replay check (every success exit of the prepare functions passes the checked replay marker, and the commit closure handed to the consumers is that marker's); detectors are built with Conn.replayProtectionWindow, which comes from the resolved configuration (configured value if positive, else 64), and with the protocol's maximum sequence number; the future-epoch bound precedes the lazily grown per-epoch detector table; the DTLS 1.3 highest accepted sequence number advances only inside the commit closure.",
		"The window semantics themselves (exactly-once within W) live in pion/transport/replaydetector, outside the repository; DTLS 1.3 sequence-number reconstruction arithmetic; arrival orders.",
		ruleReceiveOrder, ruleReplayWindow)
	register("C07",
		"Decided: every flight.Packet literal carrying application data, ACK, return-routability, Finished or a DTLS 1.3 handshake message after ServerHello has ShouldEncrypt: true (DTLS 1.2 Finished also epoch 1); alert packets encrypt iff the handshake completed; Write reaches the application-data writer only after Handshake() returned nil and stamps the current local epoch; with ShouldEncrypt the output of processPacket/processHandshakePacket comes from CipherSuite.Encrypt or the DTLS 1.3 seal; epoch-0 application data is never delivered; the exporter secret of every State constructor comes from the negotiated master secret.",
		"Cryptographic secrecy of the ciphers; interleavings of Write with Close; the DTLS 1.3 exporter (see known findings).",
		rulePacketLiterals, ruleWritePath, ruleEpochZeroAppData, ruleStateCoverage)
	register("C19",
		"Decided: generateState sets every State field from its own source; serialize writes every serializedState field from the State field of the same name; deserialize reads every serialised field and writes every State field; generateInternalState consumes every State field into the internal state, restores the master secret and restores the record counter at the serialised epoch's index; the exported counter is the current epoch's counter (no record number is reused across export, with C09); DTLS 1.3 state is refused at serialize / UnmarshalBinary / generateInternalState / generateState; a resumed connection starts in StateFinished at the role's last flight.",
		"That the resumed connection interoperates (behaviour); robustness of encoding/gob itself.",
		ruleStateCoverage, ruleVersion13Refused)
}
