package main

func init() {
	register("C04",
		"Decided: every first consumption of the peer's Finished in a DTLS 1.2 flight parser is followed on every advancing exit by a successful equality test of verify_data against PRF(State12.MasterSecret, role label, canonical transcript).",
		"That every byte mutation changes the transcript hash (cryptographic); delivery schedules.",
		ruleFinishedCompare)
}
