package main

import (
	"fmt"
	"go/token"
	"go/types"
	"strings"

	"golang.org/x/tools/go/ssa"
)

const fnAllocSeq = "(*dtls.Conn).nextLocalSequenceNumber"

// derivesFromField: the address value (possibly through IndexAddr) points into owner.field.
func addrIntoField(addr ssa.Value, owner, field string) bool {
	for i := 0; i < 6; i++ {
		switch x := addr.(type) {
		case *ssa.IndexAddr:
			addr = x.X
			continue
		case *ssa.UnOp:
			if x.Op == token.MUL {
				if o, f, _, ok := fieldOfAddr(x.X); ok {
					return o == owner && f == field
				}
				addr = x.X
				continue
			}
		case *ssa.FieldAddr:
			o, f, _, ok := fieldOfAddr(x)
			return ok && o == owner && f == field
		case *ssa.Phi:
			for _, e := range x.Edges {
				if addrIntoField(e, owner, field) {
					return true
				}
			}
			return false
		}
		return false
	}
	return false
}

// ruleSeqSingleAllocator (C09-1): the per-epoch counters Common.LocalSequenceNumber are
// modified only by the atomic +1 in the allocator and the import store in
// generateInternalState; the slice itself is only grown with zeros or cloned.
func ruleSeqSingleAllocator(c *Ctx, r *Report) {
	const rule = "seq-single-allocator"
	owner, field := "internal/state.Common", "LocalSequenceNumber"
	n := 0
	isField := func(v ssa.Value) bool { return isFieldLoad(v, owner, field) }
	// helpers of the module that are handed the counter slice: parameter -> the call sites that
	// pass the field for it (closed world: a helper whose callers are not all known is no helper)
	type handed struct {
		call *ssa.Call
		fn   *ssa.Function
	}
	seqParam := map[*ssa.Parameter][]handed{}
	for _, fn := range c.Fns {
		for _, b := range fn.Blocks {
			for _, in := range b.Instrs {
				call, ok := in.(*ssa.Call)
				if !ok {
					continue
				}
				callee := call.Call.StaticCallee()
				if callee == nil || !inModule(callee) || len(callee.Blocks) == 0 {
					continue
				}
				for i, a := range call.Call.Args {
					if i >= len(callee.Params) {
						break
					}
					if _, isSl := a.Type().Underlying().(*types.Slice); !isSl {
						continue
					}
					if ls := c.Origins(a, 0); len(ls) > 0 && allLeaves(ls, isField) {
						seqParam[callee.Params[i]] = append(seqParam[callee.Params[i]], handed{call, fn})
					}
				}
			}
		}
	}
	// the slice an element address points into: the field, or a parameter handed the field
	// (through the phis of a grow loop)
	var sliceOf func(v ssa.Value, d int) (isF bool, par *ssa.Parameter)
	sliceOf = func(v ssa.Value, d int) (bool, *ssa.Parameter) {
		if d > 8 {
			return false, nil
		}
		switch x := v.(type) {
		case *ssa.IndexAddr:
			return sliceOf(x.X, d+1)
		case *ssa.Parameter:
			if _, ok := seqParam[x]; ok {
				return false, x
			}
		case *ssa.Phi:
			for _, e := range x.Edges {
				if f, p := sliceOf(e, d+1); f || p != nil {
					return f, p
				}
			}
		case *ssa.Call:
			if calleeName(&x.Call) == "builtin:append" && len(x.Call.Args) > 0 {
				return sliceOf(x.Call.Args[0], d+1)
			}
		}
		if addrIntoField(v, owner, field) {
			return true, nil
		}
		return false, nil
	}
	const importFn = "(*dtls.State).generateInternalState"
	// (a) atomic operations and element stores
	for _, fn := range c.Fns {
		for _, b := range fn.Blocks {
			for _, in := range b.Instrs {
				r.Sites++
				switch x := in.(type) {
				case *ssa.Call:
					name := calleeName(&x.Call)
					if !strings.HasPrefix(name, "sync/atomic.") || len(x.Call.Args) == 0 {
						continue
					}
					direct, par := sliceOf(x.Call.Args[0], 0)
					if !direct && par == nil {
						continue
					}
					n++
					key := short(fn) + ":" + strings.TrimPrefix(name, "sync/atomic.")
					switch name {
					case "sync/atomic.LoadUint64":
						r.OKTrivial(rule, key, c.ipos(in), "read only")
					case "sync/atomic.AddUint64":
						d, isC := constInt(x.Call.Args[1])
						r.Check(direct && short(fn) == fnAllocSeq && isC && d == 1, rule, key, c.ipos(in),
							"the only increment: +1 in the allocator", "counter modified by an atomic add outside the allocator or by a step other than +1 (reuse or gap of record numbers)")
					case "sync/atomic.StoreUint64":
						fromSerialised := func(v ssa.Value) bool {
							ls := c.OriginsIP(v, 0)
							return len(ls) > 0 && allLeaves(ls, func(l ssa.Value) bool { return isFieldLoad(l, "dtls.State", "sequenceNumber") })
						}
						if par != nil {
							// a helper that is handed the slice: every site that hands it the
							// record counters is the import function, and what it stores there is
							// the serialised counter
							ok := len(seqParam[par]) > 0
							for _, h := range seqParam[par] {
								if short(h.fn) != importFn {
									ok = false
									continue
								}
								val := x.Call.Args[1]
								if vp, isP := stripConv(val).(*ssa.Parameter); isP && vp.Parent() == fn {
									if j := paramIndex(vp); j < len(h.call.Call.Args) {
										val = h.call.Call.Args[j]
									}
								}
								if !fromSerialised(val) {
									ok = false
								}
							}
							r.Check(ok, rule, key, c.ipos(in), "import of the serialised counter (State.sequenceNumber) through a helper handed the counters", "counter overwritten outside the state-import path: record numbers can repeat")
							continue
						}
						// import path: value must come from State.sequenceNumber
						// (directly, or in a private helper whose every caller is the import function)
						importOnly := short(fn) == importFn
						if !importOnly {
							if sites, closed := c.staticCallers(fn); closed && len(sites) > 0 {
								importOnly = true
								for _, s := range sites {
									if short(s.Fn) != importFn {
										importOnly = false
									}
								}
							}
						}
						ok := importOnly && fromSerialised(x.Call.Args[1])
						r.Check(ok, rule, key, c.ipos(in), "import of the serialised counter (State.sequenceNumber)", "counter overwritten outside the state-import path: record numbers can repeat")
					default:
						r.Bad(rule, key, c.ipos(in), "unexpected atomic operation on the record sequence counter")
					}
				case *ssa.Store:
					if ia, ok := x.Addr.(*ssa.IndexAddr); ok {
						if direct, par := sliceOf(ia, 0); direct || par != nil {
							n++
							r.Bad(rule, short(fn)+":element-store", c.ipos(in), "plain store into a sequence counter element (reset or rewind of record numbers)")
						}
					}
				}
			}
		}
	}
	// grownFrom: v is `base` itself, or base grown by appends of constant zeros
	var grownFrom func(v ssa.Value, isBase func(ssa.Value) bool, d int) bool
	growing := map[*ssa.Call]bool{} // appends under examination: a grow loop feeds its own append
	grownFrom = func(v ssa.Value, isBase func(ssa.Value) bool, d int) bool {
		if d > 6 {
			return false
		}
		ls := c.Origins(v, 0)
		return len(ls) > 0 && allLeaves(ls, func(l ssa.Value) bool {
			if isBase(l) {
				return true
			}
			if call, isCall := l.(*ssa.Call); isCall && calleeName(&call.Call) == "builtin:append" {
				if growing[call] {
					return true
				}
				growing[call] = true
				defer delete(growing, call)
				return appendedZeros(call) && grownFrom(call.Call.Args[0], isBase, d+1)
			}
			return false
		})
	}
	// (b) stores to the slice field itself
	for _, st := range c.StoresTo(owner, field) {
		n++
		key := short(st.Fn) + ":slice-store"
		ls := c.Origins(st.Val, 0)
		ok := allLeaves(ls, func(v ssa.Value) bool {
			if call, isCall := v.(*ssa.Call); isCall {
				name := calleeName(&call.Call)
				if name == "builtin:append" {
					// append(<same field>, 0)
					return appendedZeros(call) && grownFrom(call.Call.Args[0], isField, 0)
				}
				if strings.HasPrefix(name, "slices.Clone") {
					return allLeaves(c.Origins(call.Call.Args[0], 0), func(b ssa.Value) bool { return isFieldLoad(b, owner, field) })
				}
				// a helper handed the same field that returns it, grown with zeros at most
				if callee := call.Call.StaticCallee(); callee != nil && inModule(callee) && len(callee.Blocks) > 0 && callee.Signature.Results().Len() == 1 {
					var par *ssa.Parameter
					for i, a := range call.Call.Args {
						if i < len(callee.Params) {
							if _, has := seqParam[callee.Params[i]]; has && allLeaves(c.Origins(a, 0), isField) {
								par = callee.Params[i]
							}
						}
					}
					if par == nil {
						return false
					}
					good := true
					for _, b := range callee.Blocks {
						if ret, isRet := b.Instrs[len(b.Instrs)-1].(*ssa.Return); isRet {
							if !grownFrom(ret.Results[0], func(l ssa.Value) bool { return l == ssa.Value(par) }, 0) {
								good = false
							}
						}
					}
					return good
				}
			}
			return isNilConst(v)
		})
		r.Check(ok, rule, key, c.ipos(st.Instr), "slice only grown with zero counters / cloned from the same field", "sequence-counter slice replaced by a value not grown from itself with zeros: "+c.describeAll(ls))
	}
	for _, u := range c.AddrUses(owner, field) {
		// handed to a helper of the module that reads the slice through the pointer and stores
		// nothing but that slice grown by zeros: the same growth, written once
		if n, ok := c.ptrGrowOnly(u.Instr, true); ok {
			r.OK(rule, short(u.Fn)+":grown-by-helper", c.ipos(u.Instr), fmt.Sprintf("address handed to a helper that only grows the slice with zero counters (%d stores)", n))
			continue
		}
		r.Bad(rule, short(u.Fn)+":addr-escape", c.ipos(u.Instr), "address of the counter slice escapes (untracked writer)")
	}
	r.Floor(rule, n, 6)
}

// appendedZeros: append(x, lit...) where the variadic part holds only constant zeros.
func appendedZeros(call *ssa.Call) bool {
	if len(call.Call.Args) != 2 {
		return false
	}
	if _, isMake := call.Call.Args[1].(*ssa.MakeSlice); isMake {
		return true // append(x, make([]T, n)...): n zero values
	}
	sl, ok := call.Call.Args[1].(*ssa.Slice)
	if !ok {
		return false
	}
	al, ok := sl.X.(*ssa.Alloc)
	if !ok {
		return false
	}
	for _, ref := range *al.Referrers() {
		ia, ok := ref.(*ssa.IndexAddr)
		if !ok {
			continue
		}
		for _, r2 := range *ia.Referrers() {
			if st, ok := r2.(*ssa.Store); ok {
				if k, isC := constInt(st.Val); !isC || k != 0 {
					return false
				}
			}
		}
	}
	return true
}

// groupFailures collapses lockset failures (one per root path) to one entry per site function.
func groupFailures(fs []string) map[string]string {
	out := map[string]string{}
	cnt := map[string]int{}
	for _, f := range fs {
		head := f
		if i := strings.Index(f, " <- "); i >= 0 {
			head = f[:i]
		}
		head = strings.TrimSuffix(head, " (root)")
		cnt[head]++
		if _, ok := out[head]; !ok {
			out[head] = f
		}
	}
	for k, v := range out {
		out[k] = fmt.Sprintf("%d unlocked call path(s), e.g. %s", cnt[k], v)
	}
	return out
}

// ruleSeqLocks (C09-2): allocation happens under Conn.lock (exclusive) on every call path,
// and allocation plus the datagram write happen under Conn.writeLock on the packet path.
func ruleSeqLocks(c *Ctx, r *Report) {
	const rule = "seq-under-lock"
	sites := c.CallsToName(fnAllocSeq)
	var ins []ssa.Instruction
	for _, s := range sites {
		ins = append(ins, s.Call)
	}
	r.Floor(rule, len(ins), 3)
	res := c.mustHold("dtls.Conn.lock", 2, ins)
	r.Sites += res.Examined
	if len(res.Failures) == 0 {
		r.OK(rule, "Conn.lock", "", fmt.Sprintf("all %d allocator call sites run with Conn.lock write-held; acquired by: %s", len(ins), strings.Join(res.Holders, ", ")))
	} else {
		for k, f := range groupFailures(res.Failures) {
			r.Bad(rule, "Conn.lock:"+k, "", "a call path reaches the sequence-number allocator without holding Conn.lock exclusively: "+f)
		}
	}
	// the counter slice is also grown in the allocator: same lock covers it.
	// writeLock: every WriteToContext on the packet path is under writeLock together with the allocation
	wsites := c.CallsTo(func(n string) bool { return strings.HasSuffix(n, ".WriteToContext") && strings.HasPrefix(n, "iface:") })
	var pktWrites []ssa.Instruction
	for _, s := range wsites {
		if strings.HasPrefix(short(s.Fn), "(*dtls.Conn)") {
			pktWrites = append(pktWrites, s.Call)
		}
	}
	r.Floor("write-under-writeLock", len(pktWrites), 1)
	res2 := c.mustHold("dtls.Conn.writeLock", 2, pktWrites)
	r.Sites += res2.Examined
	if len(res2.Failures) == 0 {
		r.OK("write-under-writeLock", "Conn.writeLock", "", fmt.Sprintf("%d Conn datagram write site(s) run under writeLock (held from allocation to the write); acquired by: %s", len(pktWrites), strings.Join(res2.Holders, ", ")))
	} else {
		for k, f := range groupFailures(res2.Failures) {
			r.Bad("write-under-writeLock", "Conn.writeLock:"+k, "", "datagram write on the packet path without writeLock: records may be emitted out of allocation order: "+f)
		}
	}
	// every allocation, on whatever path (packets, return-routability messages), happens with
	// writeLock held: the lock that is kept until the datagram is written, so that numbers leave
	// in the order they were drawn
	res4 := c.mustHold("dtls.Conn.writeLock", 2, ins)
	r.Sites += res4.Examined
	if len(res4.Failures) == 0 {
		r.OK("alloc-under-writeLock", "Conn.writeLock", "", fmt.Sprintf("all %d allocator call sites run with writeLock held; acquired by: %s", len(ins), strings.Join(res4.Holders, ", ")))
	} else {
		for k, f := range groupFailures(res4.Failures) {
			r.Bad("alloc-under-writeLock", "Conn.writeLock:"+k, "", "a record number is drawn without writeLock held (the lock is taken only later, around the socket write): writers that queue in between draw higher numbers and emit first, so numbers of an epoch do not leave in increasing order: "+f)
		}
	}
	// the allocation on the packet path is under writeLock as well (prepare is called from the locked writer)
	prep := c.CallsToName("(*dtls.Conn).prepareRawPacketsTracked")
	var pi []ssa.Instruction
	for _, s := range prep {
		pi = append(pi, s.Call)
	}
	r.Floor("prepare-under-writeLock", len(pi), 1)
	res3 := c.mustHold("dtls.Conn.writeLock", 2, pi)
	if len(res3.Failures) == 0 {
		r.OK("prepare-under-writeLock", "Conn.writeLock", "", "record preparation (allocation+marshal+encrypt) is called only with writeLock held: "+strings.Join(res3.Holders, ", "))
	} else {
		for k, f := range groupFailures(res3.Failures) {
			r.Bad("prepare-under-writeLock", "Conn.writeLock:"+k, "", "records prepared without writeLock: "+f)
		}
	}
}

// ruleSeqToWire (C09-3): in every function that calls the allocator, each store to
// recordlayer.Header.SequenceNumber takes its value from the allocator's result, each
// recordlayer.Header literal that is built there carries such a store, and the DTLS 1.3
// seal call receives that same value; the epoch given to the allocator is the epoch
// stamped on the header.
func ruleSeqToWire(c *Ctx, r *Report) {
	const rule = "seq-to-wire"
	hdr := "pkg/protocol/recordlayer.Header"
	isAlloc := nameIs(fnAllocSeq)
	callers := map[*ssa.Function][]*ssa.Call{}
	for _, s := range c.CallsToName(fnAllocSeq) {
		if call, ok := s.Call.(*ssa.Call); ok {
			callers[s.Fn] = append(callers[s.Fn], call)
		} else {
			r.Bad(rule, short(s.Fn)+":go/defer", c.ipos(s.Call), "allocator called via go/defer: result unused")
		}
	}
	nStores := 0
	for fn, calls := range callers {
		key := short(fn)
		r.Sites += len(fn.Blocks)
		// the allocator result must be error-checked before use
		for _, call := range calls {
			seqV := resultValue(call, 0)
			errV := resultValue(call, 1)
			if seqV == nil {
				r.Bad(rule, key+":unused", c.ipos(call), "allocated sequence number discarded")
				continue
			}
			for _, ref := range *seqV.(ssa.Value).Referrers() {
				if _, isDbg := ref.(*ssa.DebugRef); isDbg {
					continue
				}
				if ok, why := guardedBy(call, errV, ref); !ok {
					r.Bad("seq-overflow-checked", key, c.ipos(ref), "sequence number used although the allocator's overflow error is not checked on this path: "+why)
				}
			}
			r.OK("seq-overflow-checked", key, c.ipos(call), "every use of the allocated number is dominated by the err==nil edge of the allocator call")
		}
		// stores to Header.SequenceNumber in this function
		for _, b := range fn.Blocks {
			for _, in := range b.Instrs {
				st, ok := in.(*ssa.Store)
				if !ok {
					continue
				}
				o, f, _, ok := fieldOfAddr(st.Addr)
				if !ok || o != hdr || f != "SequenceNumber" {
					continue
				}
				nStores++
				ls := c.Origins(st.Val, 0)
				good := c.seqDerived(st.Val, 0)
				r.Check(good, rule, key+":Header.SequenceNumber", c.ipos(in), "header sequence number = allocator result",
					"header sequence number does not come from this function's allocator call (stale or foreign number reaches the wire): "+c.describeAll(ls))
			}
		}
		// Header literals: an Alloc of Header with field stores but no SequenceNumber store
		for _, b := range fn.Blocks {
			for _, in := range b.Instrs {
				al, ok := in.(*ssa.Alloc)
				if !ok || namedOf(al.Type()) != hdr {
					continue
				}
				hasSeq, hasAny := false, false
				for _, ref := range *al.Referrers() {
					if fa, ok := ref.(*ssa.FieldAddr); ok {
						hasAny = true
						if _, f, _, _ := fieldOfAddr(fa); f == "SequenceNumber" {
							hasSeq = true
						}
					}
				}
				if hasAny {
					r.Check(hasSeq, rule, key+":Header-literal", c.ipos(in), "header literal sets SequenceNumber", "recordlayer.Header built in an emitting function without a SequenceNumber (zero goes on the wire)")
				}
			}
		}
		// epoch agreement: epoch argument of the allocator vs Header.Epoch stores
		for _, call := range calls {
			_, ap := accessPath(stripLoad(callArg(&call.Call, 0)))
			for _, b := range fn.Blocks {
				for _, in := range b.Instrs {
					st, ok := in.(*ssa.Store)
					if !ok {
						continue
					}
					o, f, _, ok := fieldOfAddr(st.Addr)
					if !ok || o != hdr || f != "Epoch" {
						continue
					}
					_, sp := accessPath(stripLoad(st.Val))
					r.Check(sp == ap && ap != "", "seq-epoch-agrees", key, c.ipos(in), "header epoch and allocator epoch read the same location "+ap,
						"header epoch ("+sp+") is not the epoch the sequence number was allocated for ("+ap+")")
				}
			}
		}
		// DTLS 1.3: seal receives (epoch, seq) of the allocation
		for _, ci := range callsIn(fn, nameIs("(*dtls.Conn).sealRecordContent")) {
			call := ci.(*ssa.Call)
			ls := c.Origins(callArg(&call.Call, 1), 0)
			good := allLeaves(ls, func(v ssa.Value) bool { return isCallResult(v, isAlloc) })
			r.Check(good, rule, key+":seal-seq", c.ipos(call), "sequence passed to sealRecordContent = allocator result", "sequence passed to sealRecordContent is not the allocated one: "+c.describeAll(ls))
		}
	}
	// processProtectedPacket(pkt, seq): seq parameter flows from processPacket's allocation
	for _, s := range c.CallsToName("(*dtls.Conn).processProtectedPacket") {
		call, ok := s.Call.(*ssa.Call)
		if !ok {
			continue
		}
		ls := c.Origins(callArg(&call.Call, 1), 0)
		good := allLeaves(ls, func(v ssa.Value) bool { return isCallResult(v, isAlloc) })
		r.Check(good, rule, short(s.Fn)+":processProtectedPacket-seq", c.ipos(call), "seq argument = allocator result", "seq argument is not the allocated number: "+c.describeAll(ls))
	}
	if fn := c.need(r, rule, "(*dtls.Conn).processProtectedPacket"); fn != nil {
		for _, ci := range callsIn(fn, nameIs("(*dtls.Conn).sealRecordContent")) {
			call := ci.(*ssa.Call)
			a := callArg(&call.Call, 1)
			p, isP := a.(*ssa.Parameter)
			r.Check(isP && p == fn.Params[2], rule, short(fn)+":seal-seq", c.ipos(call), "seal receives the seq parameter", "seal does not receive the seq parameter")
		}
	}
	// sealRecordContent: the Seal call gets the seq parameter and the header's low bits derive from it
	if fn := c.need(r, rule, "(*dtls.Conn).sealRecordContent"); fn != nil {
		seals := callsIn(fn, func(n string) bool { return strings.HasSuffix(n, ".Seal") })
		r.Floor(rule+":Seal-call", len(seals), 1)
		for _, ci := range seals {
			call := ci.(*ssa.Call)
			a := callArg(call.Common(), 1)
			if call.Call.IsInvoke() {
				a = call.Call.Args[1]
			}
			p, isP := a.(*ssa.Parameter)
			r.Check(isP && p.Name() == "seq", rule, short(fn)+":Seal-seq", c.ipos(call), "RecordProtection.Seal receives the seq parameter unchanged", "Seal's sequence argument is not the seq parameter")
		}
	}
	// global who-may-write of Header.SequenceNumber: on the emit side (anything reachable
	// from the record-preparation roots) only allocator callers may write it.
	var roots []*ssa.Function
	for _, n := range []string{"(*dtls.Conn).prepareRawPacketsTracked", "(*dtls.Conn).processPacket", "(dtls.returnRoutabilityConn).WriteRRC"} {
		if f := c.need(r, "seq-header-writers", n); f != nil {
			roots = append(roots, f)
		}
	}
	emit := c.ReachableFuncs(roots...)
	for _, st := range c.StoresTo(hdr, "SequenceNumber") {
		_, isCaller := callers[st.Fn]
		switch {
		case isCaller:
			r.OKTrivial("seq-header-writers", short(st.Fn), c.ipos(st.Instr), "allocator caller")
		case !emit[st.Fn]:
			r.OKTrivial("seq-header-writers", short(st.Fn), c.ipos(st.Instr), "not reachable from the emit roots (inbound/decoder side)")
		case c.seqDerived(st.Val, 0):
			nStores++
			r.OK("seq-header-writers", short(st.Fn), c.ipos(st.Instr), "helper: the stored number is a parameter that is the allocated number at every call site")
		default:
			r.Bad("seq-header-writers", short(st.Fn), c.ipos(st.Instr), "recordlayer.Header.SequenceNumber written on the emit path outside the allocator callers: an outgoing record could carry a number that was not allocated")
		}
	}
	r.Floor(rule, nStores, 2)
}

// seqDerived: every origin of v is a result of the sequence allocator, or a parameter of an
// unexported function that receives such a value at every one of its call sites.
func (c *Ctx) seqDerived(v ssa.Value, depth int) bool {
	if depth > 3 {
		return false
	}
	return allLeaves(c.Origins(v, 0), func(l ssa.Value) bool {
		if isCallResult(l, nameIs(fnAllocSeq)) {
			return true
		}
		p, ok := l.(*ssa.Parameter)
		if !ok {
			return false
		}
		fn := p.Parent()
		idx := -1
		for i, q := range fn.Params {
			if q == p {
				idx = i
			}
		}
		sites, closed := c.staticCallers(fn)
		if idx < 0 || len(sites) == 0 || !closed {
			return false
		}
		for _, s := range sites {
			if idx >= len(s.Call.Common().Args) || !c.seqDerived(s.Call.Common().Args[idx], depth+1) {
				return false
			}
		}
		return true
	})
}

// stripLoad returns the address operand if v is a load, else v.
func stripLoad(v ssa.Value) ssa.Value {
	if u, ok := v.(*ssa.UnOp); ok && u.Op == token.MUL {
		return u.X
	}
	return v
}

// ruleSeqNoWrap (C09-5): the allocator refuses numbers above MaxSequenceNumber.
func ruleSeqNoWrap(c *Ctx, r *Report) {
	const rule = "seq-no-wrap"
	fn := c.need(r, rule, fnAllocSeq)
	if fn == nil {
		return
	}
	r.Sites += len(fn.Blocks)
	// find the atomic add result and require: every success return (nil error) is
	// unreachable when result-1 > MaxSequenceNumber, i.e. there is a comparison
	// `seq > const` (const == 2^48-1) whose true-branch leads to an error return.
	var cmp *ssa.BinOp
	var cmpX ssa.Value
	exceedsWhen := true
	for _, b := range fn.Blocks {
		for _, in := range b.Instrs {
			if bo, ok := in.(*ssa.BinOp); ok {
				if x, limit, when, ok := limitCmp(bo); ok && limit == int64(1)<<48-1 {
					cmp, cmpX, exceedsWhen = bo, x, when
				}
			}
		}
	}
	if cmp == nil {
		r.Bad(rule, short(fn), c.pos(fn.Pos()), "no comparison of the allocated number against 2^48-1: the 48-bit record sequence number can wrap")
		return
	}
	// under the assumption cmp==true, no return with nil error is reachable
	w := (&Walk{Fn: fn, Assume: func(v ssa.Value) (Val, bool) {
		if v == cmp {
			return vBool(exceedsWhen), true
		}
		return unknown, false
	}}).After(cmp)
	bad := false
	for _, ro := range w.Returns {
		if len(ro.Vals) == 2 && ro.Vals[1].Kind == 2 && ro.Vals[1].B {
			bad = true
		}
	}
	r.Check(!bad && len(w.Returns) > 0, rule, short(fn), c.ipos(cmp), "allocated number > 2^48-1 leads only to error returns", "a nil-error return is reachable although the allocated number exceeds 2^48-1")
	// the compared value is the allocated value minus one, and the returned value is the same
	for _, b := range fn.Blocks {
		if ret, ok := b.Instrs[len(b.Instrs)-1].(*ssa.Return); ok {
			if isNilConst(ret.Results[1]) {
				r.Check(ret.Results[0] == cmpX, rule, short(fn)+":returned", c.ipos(ret), "the returned number is the value that was range-checked", "the returned number is not the range-checked value")
			}
		}
	}
	// Header.Marshal repeats the check
	if hm := c.need(r, rule, "(*pkg/protocol/recordlayer.Header).Marshal"); hm != nil {
		found := false
		for _, b := range hm.Blocks {
			for _, in := range b.Instrs {
				if bo, ok := in.(*ssa.BinOp); ok {
					if _, limit, _, ok := limitCmp(bo); ok && limit == int64(1)<<48-1 {
						found = true
					}
				}
			}
		}
		r.Check(found, rule, short(hm), c.pos(hm.Pos()), "Header.Marshal refuses sequence numbers above 2^48-1", "Header.Marshal no longer refuses sequence numbers above 2^48-1")
	}
}

// limitCmp normalises an integer comparison against a constant into "x exceeds limit":
// it returns x, the limit and the truth value of the comparison that means x > limit.
// x > K, x >= K+1, !(x <= K), !(x < K+1) and the mirrored forms all give (x, K, ...).
func limitCmp(bo *ssa.BinOp) (x ssa.Value, limit int64, exceedsWhen bool, ok bool) {
	op := bo.Op
	xv, kv := bo.X, bo.Y
	if _, isC := constInt(kv); !isC {
		// mirrored: K op x
		if _, isC2 := constInt(xv); !isC2 {
			return nil, 0, false, false
		}
		xv, kv = kv, xv
		switch op {
		case token.GTR:
			op = token.LSS
		case token.GEQ:
			op = token.LEQ
		case token.LSS:
			op = token.GTR
		case token.LEQ:
			op = token.GEQ
		}
	}
	k, _ := constInt(kv)
	switch op {
	case token.GTR:
		return xv, k, true, true
	case token.GEQ:
		return xv, k - 1, true, true
	case token.LEQ:
		return xv, k, false, true
	case token.LSS:
		return xv, k - 1, false, true
	}
	return nil, 0, false, false
}

// ptrGrowOnly: the instruction is a call that hands the address of a slice to a module function
// whose pointer parameter is used for nothing but loads and stores of that slice extended
// (keepsPrefix; with zerosOnly every append adds constant zeros or a fresh make). Returns the
// number of stores through the parameter.
func (c *Ctx) ptrGrowOnly(in ssa.Instruction, zerosOnly bool) (int, bool) {
	call, ok := in.(*ssa.Call)
	if !ok {
		return 0, false
	}
	g := call.Call.StaticCallee()
	if g == nil || !inModule(g) || len(g.Blocks) == 0 {
		return 0, false
	}
	n := 0
	matched := false
	for i, a := range call.Call.Args {
		if _, isFA := a.(*ssa.FieldAddr); !isFA || i >= len(g.Params) {
			continue
		}
		if _, isPtr := a.Type().Underlying().(*types.Pointer); !isPtr {
			continue
		}
		if _, isSl := derefType(a.Type()).Underlying().(*types.Slice); !isSl {
			continue
		}
		p := g.Params[i]
		matched = true
		isOld := func(v ssa.Value) bool {
			u, ok := v.(*ssa.UnOp)
			return ok && u.Op == token.MUL && u.X == ssa.Value(p)
		}
		for _, ref := range *p.Referrers() {
			switch x := ref.(type) {
			case *ssa.UnOp:
				if x.Op != token.MUL {
					return 0, false
				}
			case *ssa.DebugRef:
			case *ssa.Store:
				if x.Addr != ssa.Value(p) || !keepsPrefix(c, x.Val, isOld, 0, map[ssa.Value]bool{}) {
					return 0, false
				}
				if zerosOnly {
					for _, l := range c.Origins(x.Val, 0) {
						if ap, isAp := l.(*ssa.Call); isAp && calleeName(&ap.Call) == "builtin:append" && !appendedZeros(ap) {
							return 0, false
						}
					}
				}
				n++
			default:
				return 0, false
			}
		}
	}
	return n, matched
}
