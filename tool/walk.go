package main

import (
	"fmt"
	"go/token"
	"go/types"
	"sort"
	"strings"

	"golang.org/x/tools/go/ssa"
)

// Val is an abstract value of the finite predicate domain used by the
// path-sensitive walker: a known boolean, a known nil-ness, or a known integer.
type Val struct {
	Kind int // 0 unknown, 1 bool, 2 nilness, 3 int
	B    bool
	I    int64
}

var unknown = Val{}

func vBool(b bool) Val { return Val{Kind: 1, B: b} }
func vNil(isNil bool) Val {
	return Val{Kind: 2, B: isNil}
}
func vInt(i int64) Val { return Val{Kind: 3, I: i} }

func (v Val) String() string {
	switch v.Kind {
	case 1:
		return fmt.Sprint(v.B)
	case 2:
		if v.B {
			return "nil"
		}
		return "non-nil"
	case 3:
		return fmt.Sprint(v.I)
	}
	return "?"
}

// Walk explores the CFG of one function path-sensitively over a finite
// predicate abstraction: branch conditions that evaluate to a known boolean
// under the assumptions are followed one way only, anything else both ways.
// It is an exhaustive dataflow over a finite domain: no solver, no execution.
// Env holds the path's knowledge about SSA values that have no single definition-time
// value: phis (resolved by the edge taken), parameters of followed callees (bound to the
// arguments) and results of followed calls (bound per explored return of the callee).
type Env = map[ssa.Value]Val

// frame is one activation of a followed callee: where to continue in the caller.
type frame struct {
	parent *frame
	call   *ssa.Call
	env    Env // caller's env at the call
	raw    map[*ssa.Phi]ssa.Value
	key    string
	depth  int
}

type Walk struct {
	Fn     *ssa.Function
	Assume func(v ssa.Value) (Val, bool) // base facts about values, matched by shape
	// Visit lets a rule stop or refine at instructions: return false to cut the path here
	// (e.g. a callee that never returns, or the marked target).
	Visit func(in ssa.Instruction, env Env) bool
	// Follow, when set, makes the exploration descend into statically resolved callees for
	// which it returns true (bounded depth, no recursion): the callee's paths are explored with
	// its parameters bound to the argument values, and the caller continues once per explored
	// return with the results bound. Reached then includes the callee's instructions.
	Follow func(callee *ssa.Function) bool
	// FollowDeferring lets Follow descend into callees that contain defer statements too (their
	// deferred calls are then not explored): for rules that only ask what a path can reach.
	FollowDeferring bool
	// VisitRaw, when set, is called like Visit but also receives the phi resolutions of the path.
	VisitRaw func(in ssa.Instruction, env Env, raw map[*ssa.Phi]ssa.Value) bool
	// Init, when set, is a per-path state threaded through the exploration: it is forked where the
	// path forks, handed to Step before every non-phi instruction, and to OnCall / OnReturn when a
	// followed call is entered and left. Memoisation is off in this mode (paths are enumerated;
	// back edges are cut), so it is meant for short, mostly straight-line functions.
	Init     PathState
	Step     func(in ssa.Instruction, st PathState, raw map[*ssa.Phi]ssa.Value) bool
	OnCall   func(call *ssa.Call, callee *ssa.Function, st PathState)
	OnReturn func(call *ssa.Call, ret *ssa.Return, st PathState, raw map[*ssa.Phi]ssa.Value)
	onStack  map[string]int

	Reached  map[ssa.Instruction]bool
	Seq      map[ssa.Instruction]int     // first-visit order of every reached instruction
	Edges    map[[2]*ssa.BasicBlock]bool // control-flow edges actually taken
	Returns  []*RetOutcome
	Panics   int
	steps    int
	overflow bool
	seen     map[string]bool
}

// PathState is a rule-defined per-path state (see Walk.Init).
type PathState interface{ Fork() PathState }

type RetOutcome struct {
	Ret    *ssa.Return
	Vals   []Val
	Raw    []ssa.Value            // result values with phis resolved along the path where possible
	RawEnv map[*ssa.Phi]ssa.Value // every phi resolution of the path that ended here
	St     PathState              // the path state at the return (path-state mode)
	Env    Env                    // what the path knows at the return
}

const walkStepCap = 400000

func (w *Walk) init() {
	if w.Reached == nil {
		w.Reached = map[ssa.Instruction]bool{}
		w.Seq = map[ssa.Instruction]int{}
		w.Edges = map[[2]*ssa.BasicBlock]bool{}
		w.seen = map[string]bool{}
	}
}

// FromEntry explores from the function entry.
func (w *Walk) FromEntry() *Walk {
	w.init()
	w.block(w.Fn.Blocks[0], 0, Env{}, map[*ssa.Phi]ssa.Value{}, nil, w.Init)
	return w
}

// After explores from the instruction following `in`.
func (w *Walk) After(in ssa.Instruction) *Walk {
	w.init()
	w.block(in.Block(), instrIndex(in)+1, Env{}, map[*ssa.Phi]ssa.Value{}, nil, w.Init)
	return w
}

// At explores from the instruction itself (a call that is to be followed, say).
func (w *Walk) At(in ssa.Instruction) *Walk {
	w.init()
	w.block(in.Block(), instrIndex(in), Env{}, map[*ssa.Phi]ssa.Value{}, nil, w.Init)
	return w
}

// FromEdge explores from the start of block `to` entered from `from`.
func (w *Walk) FromEdge(from, to *ssa.BasicBlock) *Walk {
	w.init()
	env := Env{}
	raw := map[*ssa.Phi]ssa.Value{}
	w.enter(from, to, env, raw, nil, w.Init)
	return w
}

func envKey(env Env) string {
	if len(env) == 0 {
		return ""
	}
	var ks []string
	for p, v := range env {
		if v.Kind != 0 {
			if _, isPhi := p.(*ssa.Phi); isPhi {
				ks = append(ks, fmt.Sprintf("%s=%s", p.Name(), v))
			} else {
				ks = append(ks, fmt.Sprintf("%p=%s", p, v))
			}
		}
	}
	sort.Strings(ks)
	return strings.Join(ks, ",")
}

func (w *Walk) enter(from, to *ssa.BasicBlock, env Env, raw map[*ssa.Phi]ssa.Value, fr *frame, st PathState) {
	w.Edges[[2]*ssa.BasicBlock{from, to}] = true
	// resolve phis of `to` for the edge from->to (simultaneous assignment)
	idx := -1
	for i, p := range to.Preds {
		if p == from {
			idx = i
			break
		}
	}
	nenv := env
	nraw := raw
	copied := false
	type upd struct {
		p *ssa.Phi
		v Val
		r ssa.Value
	}
	var upds []upd
	for _, in := range to.Instrs {
		phi, ok := in.(*ssa.Phi)
		if !ok {
			break
		}
		if idx < 0 || idx >= len(phi.Edges) {
			continue
		}
		e := phi.Edges[idx]
		rv := e
		if ep, ok := e.(*ssa.Phi); ok {
			if r, ok := raw[ep]; ok {
				rv = r
			}
		}
		upds = append(upds, upd{phi, w.eval(e, env), rv})
	}
	for _, u := range upds {
		if !copied {
			nenv = make(Env, len(env)+len(upds))
			for k, v := range env {
				nenv[k] = v
			}
			nraw = make(map[*ssa.Phi]ssa.Value, len(raw)+len(upds))
			for k, v := range raw {
				nraw[k] = v
			}
			copied = true
		}
		if u.v.Kind == 0 {
			delete(nenv, u.p)
		} else {
			nenv[u.p] = u.v
		}
		nraw[u.p] = u.r
	}
	w.block(to, 0, nenv, nraw, fr, st)
}

func (w *Walk) block(b *ssa.BasicBlock, from int, env Env, raw map[*ssa.Phi]ssa.Value, fr *frame, st PathState) {
	if w.overflow {
		return
	}
	key := fmt.Sprintf("%d@%d|%s", b.Index, from, envKey(env))
	if fr != nil {
		key = fr.key + "//" + b.Parent().Name() + ":" + key
	}
	if st == nil {
		if w.seen[key] {
			return
		}
		w.seen[key] = true
	} else if w.inProgress(key) {
		return // a loop: path states are not joined, cut the back edge
	}
	w.steps++
	if w.steps > walkStepCap {
		w.overflow = true
		return
	}
	for i := from; i < len(b.Instrs); i++ {
		in := b.Instrs[i]
		if !w.Reached[in] {
			w.Seq[in] = len(w.Seq)
		}
		w.Reached[in] = true
		// the instruction computes its value anew (a loop came round): what an earlier round
		// learnt about it no longer holds
		if v, isVal := in.(ssa.Value); isVal {
			switch in.(type) {
			case *ssa.Phi, *ssa.Extract:
				// phis are rebound on every edge; results of a followed call are bound before
				// their extract runs and go stale with the call
			default:
				stale := func(k ssa.Value) bool {
					if k == v {
						return true
					}
					ex, isEx := k.(*ssa.Extract)
					return isEx && ex.Tuple == v
				}
				has := false
				for k := range env {
					if stale(k) {
						has = true
						break
					}
				}
				if has {
					ne := make(Env, len(env))
					for k, x := range env {
						if !stale(k) {
							ne[k] = x
						}
					}
					env = ne
				}
			}
		}
		if w.Visit != nil {
			if _, isPhi := in.(*ssa.Phi); !isPhi {
				if !w.Visit(in, env) {
					return
				}
			}
		}
		if w.Step != nil && st != nil {
			if _, isPhi := in.(*ssa.Phi); !isPhi {
				if !w.Step(in, st, raw) {
					return
				}
			}
		}
		if w.VisitRaw != nil {
			if _, isPhi := in.(*ssa.Phi); !isPhi {
				if !w.VisitRaw(in, env, raw) {
					return
				}
			}
		}
		switch t := in.(type) {
		case *ssa.Alloc:
			// a private struct starts out as the zero value of its type
			if privateStruct(t) {
				env = zeroFieldCells(env, t, derefType(t.Type()))
			}
		case *ssa.UnOp:
			// a whole-struct load of a private struct cell: the loaded value carries what the
			// path knows about the cell's fields
			if al, ok := t.X.(*ssa.Alloc); ok && t.Op == token.MUL && privateStruct(al) {
				env = copyFieldCells(env, al, t, structFieldCount(al.Type()))
			}
		case *ssa.Store:
			if fa, ok := t.Addr.(*ssa.FieldAddr); ok {
				if al, isAl := fa.X.(*ssa.Alloc); isAl && privateStruct(al) {
					v := w.eval(t.Val, env)
					ne := make(Env, len(env)+1)
					for k, x := range env {
						ne[k] = x
					}
					if v.Kind != 0 {
						ne[fieldCellOf(al, fa.Field)] = v
					} else {
						delete(ne, fieldCellOf(al, fa.Field))
					}
					env = ne
				}
			}
			if al, ok := t.Addr.(*ssa.Alloc); ok && privateStruct(al) {
				env = copyFieldCells(env, t.Val, al, structFieldCount(al.Type()))
			}
			// a private local cell (named result, variable of a function with defers): remember
			// what this path stored, so that a later load of the cell - in another block - is decided
			if al, ok := t.Addr.(*ssa.Alloc); ok && privateCell(al) {
				v := w.eval(t.Val, env)
				ne := make(Env, len(env)+1)
				for k, x := range env {
					ne[k] = x
				}
				if v.Kind != 0 {
					ne[al] = v
				} else {
					delete(ne, al)
				}
				env = ne
			}
		case *ssa.Call:
			if w.followCall(t, b, i, env, raw, fr, st) {
				return
			}
		case *ssa.If:
			cv := w.eval(t.Cond, env)
			if cv.Kind == 1 {
				if cv.B {
					w.enter(b, b.Succs[0], env, raw, fr, st)
				} else {
					w.enter(b, b.Succs[1], env, raw, fr, st)
				}
			} else {
				var st2 PathState
				if st != nil {
					st2 = st.Fork()
				}
				envT, envF := w.refine(t.Cond, env)
				w.enter(b, b.Succs[0], envT, raw, fr, st)
				w.enter(b, b.Succs[1], envF, raw, fr, st2)
			}
			return
		case *ssa.Jump:
			w.enter(b, b.Succs[0], env, raw, fr, st)
			return
		case *ssa.Return:
			if fr != nil {
				w.returnTo(fr, t, env, st, raw)
				return
			}
			ro := &RetOutcome{Ret: t, RawEnv: raw, St: st, Env: env}
			for _, r := range t.Results {
				ro.Vals = append(ro.Vals, w.eval(r, env))
				rv := unspill(r)
				if p, ok := rv.(*ssa.Phi); ok {
					if x, ok := raw[p]; ok {
						rv = x
					}
				}
				ro.Raw = append(ro.Raw, rv)
			}
			w.Returns = append(w.Returns, ro)
			return
		case *ssa.Panic:
			w.Panics++
			return
		}
	}
}

// eval computes the abstract value of v under the assumptions and the phi
// resolutions of the current path.
func (w *Walk) eval(v ssa.Value, env Env) Val {
	return w.evalD(v, env, 0)
}

func (w *Walk) evalD(v ssa.Value, env Env, d int) Val {
	if d > 12 {
		return unknown
	}
	if w.Assume != nil {
		if a, ok := w.Assume(v); ok {
			return a
		}
	}
	switch x := v.(type) {
	case *ssa.Const:
		if b, ok := constBool(x); ok {
			return vBool(b)
		}
		if i, ok := constInt(x); ok {
			return vInt(i)
		}
		if isNilConst(x) {
			return vNil(true)
		}
		return unknown
	case *ssa.Phi:
		if r, ok := env[x]; ok {
			return r
		}
		return unknown
	case *ssa.Field:
		if val, has := env[fieldCellOf(x.X, x.Field)]; has && val.Kind != 0 {
			return val
		}
		return unknown
	case *ssa.Parameter, *ssa.Call, *ssa.Extract:
		if r, ok := env[x]; ok {
			return r
		}
		if call, ok := v.(*ssa.Call); ok {
			switch calleeName(&call.Call) {
			case "fmt.Errorf", "errors.New", "errors.Join":
				return vNil(false)
			case "builtin:len":
				// the length of a nil slice / map / string header is 0
				if len(call.Call.Args) == 1 {
					if a := w.evalD(call.Call.Args[0], env, d+1); a.Kind == 2 && a.B {
						return vInt(0)
					}
				}
			}
		}
		return unknown
	case *ssa.UnOp:
		if x.Op == token.NOT {
			r := w.evalD(x.X, env, d+1)
			if r.Kind == 1 {
				return vBool(!r.B)
			}
		}
		if x.Op == token.MUL {
			if fa, ok := x.X.(*ssa.FieldAddr); ok {
				if al, isAl := fa.X.(*ssa.Alloc); isAl && privateStruct(al) {
					if val, has := env[fieldCellOf(al, fa.Field)]; has && val.Kind != 0 {
						return val
					}
				}
			}
			if u := unspill(x); u != ssa.Value(x) {
				return w.evalD(u, env, d+1)
			}
			if al, ok := x.X.(*ssa.Alloc); ok && privateCell(al) {
				if val, ok := env[al]; ok && val.Kind != 0 {
					return val
				}
			}
			// a second load of a local / captured cell whose earlier load was refined on this path
			// (if *p != nil { use(*p) }), with nothing in between that could write the cell
			switch x.X.(type) {
			case *ssa.Alloc, *ssa.FreeVar:
				for k, val := range env {
					k2, ok := k.(*ssa.UnOp)
					if !ok || k2 == x || k2.Op != token.MUL || k2.X != x.X || val.Kind == 0 || k2.Parent() != x.Parent() {
						continue
					}
					if !instrReaches(k2, x) {
						continue
					}
					clean := true
					for _, b := range x.Parent().Blocks {
						for _, in := range b.Instrs {
							writes := false
							switch y := in.(type) {
							case *ssa.Store:
								writes = y.Addr == x.X
							case ssa.CallInstruction:
								writes = true
							}
							if writes && instrReaches(k2, in) && instrReaches(in, x) {
								clean = false
							}
						}
					}
					if clean {
						return val
					}
				}
			}
			// a package-level error sentinel (var ErrX = errors.New(...)) is never nil
			if g, ok := x.X.(*ssa.Global); ok && isErrorType(x.Type()) && strings.HasPrefix(g.Name(), "Err") || ok && isErrorType(x.Type()) && strings.HasPrefix(g.Name(), "err") {
				return vNil(false)
			}
			// exported error variables of packages outside the module (context.Canceled, io.EOF ...):
			// documented sentinels, never nil
			if g, ok := x.X.(*ssa.Global); ok && isErrorType(x.Type()) && g.Pkg != nil && !strings.HasPrefix(g.Pkg.Pkg.Path(), modPath) && token.IsExported(g.Name()) {
				return vNil(false)
			}
		}
		return unknown
	case *ssa.ChangeType:
		return w.evalD(x.X, env, d+1)
	case *ssa.Convert:
		r := w.evalD(x.X, env, d+1)
		if r.Kind == 3 {
			return r
		}
		return unknown
	case *ssa.MakeInterface:
		// a non-nil interface unless the operand is unknown pointer: interface holding a value is non-nil
		return vNil(false)
	case *ssa.Alloc, *ssa.MakeSlice, *ssa.MakeMap, *ssa.MakeChan, *ssa.MakeClosure, *ssa.Function, *ssa.FieldAddr, *ssa.IndexAddr:
		return vNil(false)
	case *ssa.BinOp:
		if r, ok := env[x]; ok && r.Kind == 1 {
			return r
		}
		a := w.evalD(x.X, env, d+1)
		b := w.evalD(x.Y, env, d+1)
		switch x.Op {
		case token.EQL, token.NEQ:
			eq, ok := valEq(a, b)
			if !ok {
				return unknown
			}
			if x.Op == token.NEQ {
				eq = !eq
			}
			return vBool(eq)
		case token.LSS, token.LEQ, token.GTR, token.GEQ:
			if a.Kind == 3 && b.Kind == 3 {
				switch x.Op {
				case token.LSS:
					return vBool(a.I < b.I)
				case token.LEQ:
					return vBool(a.I <= b.I)
				case token.GTR:
					return vBool(a.I > b.I)
				case token.GEQ:
					return vBool(a.I >= b.I)
				}
			}
		case token.ADD, token.SUB, token.MUL, token.QUO, token.REM:
			// integer arithmetic on known values (no overflow at the magnitudes the rules feed in).
			// Only over constants and assumed parameters: a loop counter must stay unknown, or
			// every turn of a loop would be a state of its own.
			if a.Kind == 3 && b.Kind == 3 && phiFree(x, 0) {
				switch x.Op {
				case token.ADD:
					return vInt(a.I + b.I)
				case token.SUB:
					return vInt(a.I - b.I)
				case token.MUL:
					return vInt(a.I * b.I)
				case token.QUO:
					if b.I != 0 {
						return vInt(a.I / b.I)
					}
				case token.REM:
					if b.I != 0 {
						return vInt(a.I % b.I)
					}
				}
			}
		case token.AND, token.OR:
			// non-short-circuit boolean & |
			if a.Kind == 1 && b.Kind == 1 {
				if x.Op == token.AND {
					return vBool(a.B && b.B)
				}
				return vBool(a.B || b.B)
			}
			if x.Op == token.AND && ((a.Kind == 1 && !a.B) || (b.Kind == 1 && !b.B)) {
				return vBool(false)
			}
			if x.Op == token.OR && ((a.Kind == 1 && a.B) || (b.Kind == 1 && b.B)) {
				return vBool(true)
			}
		}
		return unknown
	}
	return unknown
}

func valEq(a, b Val) (eq, ok bool) {
	if a.Kind == 0 || b.Kind == 0 {
		return false, false
	}
	switch {
	case a.Kind == 1 && b.Kind == 1:
		return a.B == b.B, true
	case a.Kind == 3 && b.Kind == 3:
		return a.I == b.I, true
	case a.Kind == 2 && b.Kind == 2:
		// comparison against nil: one side is the nil constant
		if a.B && b.B {
			return true, true
		}
		if a.B != b.B {
			return false, true
		}
		return false, false // two non-nil values: unknown
	}
	return false, false
}

// ---------- derived queries ----------

// failAssumption builds an Assume function stating that result value rv of a
// checked call denotes failure (non-nil error/alert/failure pointer, or false for ok/bool).
func failAssumption(rv ssa.Value) func(ssa.Value) (Val, bool) {
	fail := vNil(false)
	if bt, ok := rv.Type().Underlying().(*types.Basic); ok {
		switch {
		case bt.Info()&types.IsBoolean != 0:
			fail = vBool(false)
		case bt.Info()&types.IsInteger != 0:
			// crypto/subtle.ConstantTimeCompare and friends: 1 = equal, 0 = different
			fail = vInt(0)
		}
	}
	return func(v ssa.Value) (Val, bool) {
		if v == rv {
			return fail, true
		}
		return unknown, false
	}
}

// guardedBy reports whether target is (a) dominated by the call and (b) unreachable
// from the call when the call's result rv denotes failure. Together: every path
// from the function entry to target passes the call and its success outcome.
func guardedBy(call ssa.Instruction, rv ssa.Value, target ssa.Instruction) (bool, string) {
	if call.Parent() != target.Parent() {
		return false, "call and target are in different functions"
	}
	if !mustPass(call, target) {
		return false, "the check does not dominate the target (a path reaches the target without the check)"
	}
	if rv == nil {
		return false, "the check's result is discarded"
	}
	w := (&Walk{Fn: call.Parent(), Assume: failAssumption(rv)}).After(call)
	if w.overflow {
		return false, "path exploration overflow"
	}
	if w.Reached[target] {
		return false, "the target is still reachable when the check fails (result ignored or not leading to a failure exit)"
	}
	return true, ""
}

const walkMaxDepth = 4

// followCall explores a statically resolved callee in place of the call instruction.
// It returns true when it took over the continuation of the current path.
func (w *Walk) followCall(call *ssa.Call, b *ssa.BasicBlock, idx int, env Env, raw map[*ssa.Phi]ssa.Value, fr *frame, st PathState) bool {
	if w.Follow == nil {
		return false
	}
	callee := call.Call.StaticCallee()
	if callee == nil || len(callee.Blocks) == 0 || !w.Follow(callee) {
		return false
	}
	depth := 0
	for f := fr; f != nil; f = f.parent {
		depth++
		if f.call.Call.StaticCallee() == callee {
			return false // recursion: treat the call as opaque
		}
	}
	if depth >= walkMaxDepth || callee == w.Fn {
		return false
	}
	for _, bb := range callee.Blocks {
		if bb == callee.Recover {
			continue
		}
		for _, in := range bb.Instrs {
			if _, isDefer := in.(*ssa.Defer); isDefer && !w.FollowDeferring {
				return false // deferred calls reorder effects: keep opaque
			}
		}
	}
	nf := &frame{parent: fr, call: call, env: env, raw: raw, depth: depth + 1}
	pk := ""
	if fr != nil {
		pk = fr.key
	}
	nf.key = fmt.Sprintf("%s>%p{%s}", pk, call, envKey(env))
	cenv := Env{}
	for i, p := range callee.Params {
		if i < len(call.Call.Args) {
			if v := w.eval(call.Call.Args[i], env); v.Kind != 0 {
				cenv[p] = v
			}
		}
	}
	if w.OnCall != nil {
		w.OnCall(call, callee, st)
	}
	w.block(callee.Blocks[0], 0, cenv, map[*ssa.Phi]ssa.Value{}, nf, st)
	return true
}

// returnTo continues the caller after a followed call, with the call's results bound to what
// this return of the callee yields.
func (w *Walk) returnTo(fr *frame, ret *ssa.Return, env Env, st PathState, raw map[*ssa.Phi]ssa.Value) {
	if w.OnReturn != nil {
		w.OnReturn(fr.call, ret, st, raw)
	}
	nenv := make(Env, len(fr.env)+len(ret.Results))
	for k, v := range fr.env {
		nenv[k] = v
	}
	call := fr.call
	if len(ret.Results) == 1 {
		if v := w.eval(ret.Results[0], env); v.Kind != 0 {
			nenv[call] = v
		} else {
			delete(nenv, call)
		}
		// a struct result: what the callee's path knows about its fields
		if k, isK := ret.Results[0].(*ssa.Const); isK && k.Value == nil && structFieldCount(k.Type()) > 0 {
			zeroInto(nenv, call, k.Type())
		} else if n := structFieldCount(ret.Results[0].Type()); n > 0 {
			for i := 0; i < n; i++ {
				if v, has := env[fieldCellOf(ret.Results[0], i)]; has && v.Kind != 0 {
					nenv[fieldCellOf(call, i)] = v
				} else {
					delete(nenv, fieldCellOf(call, i))
				}
			}
		}
	} else if refs := call.Referrers(); refs != nil {
		for _, ref := range *refs {
			if ex, ok := ref.(*ssa.Extract); ok && ex.Index < len(ret.Results) {
				res := ret.Results[ex.Index]
				if v := w.eval(res, env); v.Kind != 0 {
					nenv[ex] = v
				} else {
					delete(nenv, ex)
				}
				// a struct among the results: what the callee's path knows about its fields
				if n := structFieldCount(res.Type()); n > 0 {
					if k, isK := res.(*ssa.Const); isK && k.Value == nil {
						zeroInto(nenv, ex, res.Type())
						continue
					}
					for i := 0; i < n; i++ {
						if v, has := env[fieldCellOf(res, i)]; has && v.Kind != 0 {
							nenv[fieldCellOf(ex, i)] = v
						} else {
							delete(nenv, fieldCellOf(ex, i))
						}
					}
				}
			}
		}
	}
	w.block(call.Block(), instrIndex(call)+1, nenv, fr.raw, fr.parent, st)
}

// inProgress implements the back-edge cut of the path-state mode: a (block, env) key that is
// already on the current exploration stack is not entered again.
func (w *Walk) inProgress(key string) bool {
	// the exploration is a plain recursion; approximating the stack by a visit counter per key
	// is enough to stop unbounded unrolling: allow each key a bounded number of visits.
	if w.onStack == nil {
		w.onStack = map[string]int{}
	}
	w.onStack[key]++
	return w.onStack[key] > 64
}

// refine: what taking each branch of an undecided condition teaches about the compared value. Only
// nil tests are refined (x == nil / x != nil): on the branch where x is non-nil (or nil) that fact
// is recorded for x, so that a later test of the same value - in this function or, through a
// followed call's result, in its caller - is decided the same way.
func (w *Walk) refine(cond ssa.Value, env Env) (Env, Env) {
	bo, ok := cond.(*ssa.BinOp)
	if !ok || (bo.Op != token.EQL && bo.Op != token.NEQ) || !(isNilConst(bo.Y) || isNilConst(bo.X)) {
		return w.refineFlag(cond, env)
	}
	var x ssa.Value
	switch {
	case isNilConst(bo.Y):
		x = bo.X
	case isNilConst(bo.X):
		x = bo.Y
	default:
		return env, env
	}
	if _, isK := x.(*ssa.Const); isK {
		return env, env
	}
	mk := func(isNil bool) Env {
		e := make(Env, len(env)+1)
		for k, v := range env {
			e[k] = v
		}
		e[x] = vNil(isNil)
		if cell := loadedFieldCell(x, bo); cell != nil {
			e[cell] = vNil(isNil)
		}
		return e
	}
	if bo.Op == token.EQL {
		return mk(true), mk(false)
	}
	return mk(false), mk(true)
}

// loadedFieldCell: x is the value of a field of a private local struct (or of a struct value)
// and the field still holds it at `at`: the cell a fact about x is also a fact about. A load
// through the field's address counts only when it sits in the block of `at` and nothing is
// stored to the struct between the two.
func loadedFieldCell(x ssa.Value, at ssa.Instruction) *fieldCell {
	switch l := x.(type) {
	case *ssa.Field:
		return fieldCellOf(l.X, l.Field)
	case *ssa.UnOp:
		fa, ok := l.X.(*ssa.FieldAddr)
		if !ok || l.Op != token.MUL || l.Block() != at.Block() {
			return nil
		}
		al, ok := fa.X.(*ssa.Alloc)
		if !ok || !privateStruct(al) {
			return nil
		}
		b := l.Block()
		for i := instrIndex(l) + 1; i < len(b.Instrs) && b.Instrs[i] != at; i++ {
			if st, isSt := b.Instrs[i].(*ssa.Store); isSt {
				if st.Addr == ssa.Value(al) {
					return nil
				}
				if fa2, isFA := st.Addr.(*ssa.FieldAddr); isFA && fa2.X == ssa.Value(al) {
					return nil
				}
			}
		}
		return fieldCellOf(al, fa.Field)
	}
	return nil
}

// refineFlag: a computed boolean that is used again besides this branch (merged into a flag by a
// phi, negated, tested a second time) is remembered as true / false on the two sides, so that the
// later use is decided. Conditions used only by their branch are not recorded: the fact could
// never be consulted and would only split the memoised states.
func (w *Walk) refineFlag(cond ssa.Value, env Env) (Env, Env) {
	switch cond.(type) {
	case *ssa.BinOp, *ssa.Call, *ssa.Extract, *ssa.UnOp:
	default:
		return env, env
	}
	if u, ok := cond.(*ssa.UnOp); ok && u.Op == token.NOT {
		f, t := w.refineFlag(u.X, env)
		return t, f
	}
	refs := cond.Referrers()
	if refs == nil || len(*refs) < 2 {
		return env, env
	}
	mk := func(b bool) Env {
		e := make(Env, len(env)+1)
		for k, v := range env {
			e[k] = v
		}
		e[cond] = vBool(b)
		return e
	}
	return mk(true), mk(false)
}

var privateCellCache = map[*ssa.Alloc]bool{}

// privateCell: a local variable cell of scalar / interface / pointer type that is only ever stored
// to and loaded from directly (its address goes nowhere else).
func privateCell(al *ssa.Alloc) bool {
	if v, ok := privateCellCache[al]; ok {
		return v
	}
	ok := true
	switch derefType(al.Type()).Underlying().(type) {
	case *types.Struct, *types.Array:
		ok = false
	}
	if refs := al.Referrers(); refs != nil && ok {
		for _, ref := range *refs {
			switch x := ref.(type) {
			case *ssa.Store:
				if x.Addr != ssa.Value(al) {
					ok = false
				}
			case *ssa.UnOp:
				if x.Op != token.MUL {
					ok = false
				}
			case *ssa.DebugRef:
			default:
				ok = false
			}
		}
	}
	privateCellCache[al] = ok
	return ok
}

// phiFree: the value is built from constants and parameters by conversions and arithmetic only.
func phiFree(v ssa.Value, d int) bool {
	if d > 8 {
		return false
	}
	switch x := v.(type) {
	case *ssa.Const, *ssa.Parameter:
		return true
	case *ssa.Convert:
		return phiFree(x.X, d+1)
	case *ssa.ChangeType:
		return phiFree(x.X, d+1)
	case *ssa.BinOp:
		return phiFree(x.X, d+1) && phiFree(x.Y, d+1)
	}
	return false
}

// ---- fields of private struct cells ----

// fieldCell is the environment key for "field #idx of base" (base: a private struct Alloc, a
// struct value loaded from one, or a call that returned a struct).
type fieldCell struct {
	base ssa.Value
	idx  int
}

func (f *fieldCell) Name() string                  { return fmt.Sprintf("%s.#%d", f.base.Name(), f.idx) }
func (f *fieldCell) String() string                { return f.Name() }
func (f *fieldCell) Type() types.Type              { return types.Typ[types.Invalid] }
func (f *fieldCell) Parent() *ssa.Function         { return nil }
func (f *fieldCell) Referrers() *[]ssa.Instruction { return nil }
func (f *fieldCell) Pos() token.Pos                { return token.NoPos }

type fieldCellKey struct {
	base ssa.Value
	idx  int
}

var fieldCells = map[fieldCellKey]*fieldCell{}

func fieldCellOf(base ssa.Value, idx int) *fieldCell {
	k := fieldCellKey{base, idx}
	if c, ok := fieldCells[k]; ok {
		return c
	}
	c := &fieldCell{base, idx}
	fieldCells[k] = c
	return c
}

func structFieldCount(t types.Type) int {
	if st, ok := derefType(t).Underlying().(*types.Struct); ok {
		return st.NumFields()
	}
	return 0
}

// copyFieldCells returns env with what is known about the fields of `from` recorded for `to`
// (and what was known about `to` forgotten).
func copyFieldCells(env Env, from, to ssa.Value, n int) Env {
	if n == 0 {
		return env
	}
	ne := make(Env, len(env)+n)
	for k, x := range env {
		ne[k] = x
	}
	for i := 0; i < n; i++ {
		if v, has := env[fieldCellOf(from, i)]; has && v.Kind != 0 {
			ne[fieldCellOf(to, i)] = v
		} else {
			delete(ne, fieldCellOf(to, i))
		}
	}
	return ne
}

// zeroInto records the zero value of every field of struct type t for base.
func zeroInto(env Env, base ssa.Value, t types.Type) {
	st, ok := derefType(t).Underlying().(*types.Struct)
	if !ok {
		return
	}
	for i := 0; i < st.NumFields(); i++ {
		cell := fieldCellOf(base, i)
		switch u := st.Field(i).Type().Underlying().(type) {
		case *types.Pointer, *types.Slice, *types.Map, *types.Chan, *types.Signature, *types.Interface:
			env[cell] = vNil(true)
		case *types.Basic:
			switch {
			case u.Info()&types.IsBoolean != 0:
				env[cell] = vBool(false)
			case u.Info()&types.IsInteger != 0:
				env[cell] = vInt(0)
			default:
				delete(env, cell)
			}
		default:
			delete(env, cell)
		}
	}
}

func zeroFieldCells(env Env, base ssa.Value, t types.Type) Env {
	ne := make(Env, len(env)+4)
	for k, x := range env {
		ne[k] = x
	}
	zeroInto(ne, base, t)
	return ne
}

var privateStructCache = map[*ssa.Alloc]bool{}

// privateStruct: a local struct variable that is only ever accessed through direct field
// loads/stores and whole-value loads/stores (no address of it or of a field goes anywhere).
func privateStruct(al *ssa.Alloc) bool {
	if v, ok := privateStructCache[al]; ok {
		return v
	}
	_, ok := derefType(al.Type()).Underlying().(*types.Struct)
	if refs := al.Referrers(); refs != nil && ok {
		for _, ref := range *refs {
			switch x := ref.(type) {
			case *ssa.FieldAddr:
				if frefs := x.Referrers(); frefs != nil {
					for _, r2 := range *frefs {
						switch y := r2.(type) {
						case *ssa.Store:
							if y.Addr != ssa.Value(x) {
								ok = false
							}
						case *ssa.UnOp:
							if y.Op != token.MUL {
								ok = false
							}
						case *ssa.DebugRef:
						default:
							ok = false
						}
					}
				}
			case *ssa.Store:
				if x.Addr != ssa.Value(al) {
					ok = false
				}
			case *ssa.UnOp:
				if x.Op != token.MUL {
					ok = false
				}
			case *ssa.DebugRef:
			default:
				ok = false
			}
		}
	}
	privateStructCache[al] = ok
	return ok
}
