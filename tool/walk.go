package main

import (
	"fmt"
	"go/token"
	"go/types"
	"sort"
	"strings"

	"golang.org/x/tools/go/ssa"
)

// Val is an abstract value of the finite predicate domain used by the
// path-sensitive walker: a known boolean, a known nil-ness, or a known integer.
type Val struct {
	Kind int // 0 unknown, 1 bool, 2 nilness, 3 int
	B    bool
	I    int64
}

var unknown = Val{}

func vBool(b bool) Val { return Val{Kind: 1, B: b} }
func vNil(isNil bool) Val {
	return Val{Kind: 2, B: isNil}
}
func vInt(i int64) Val { return Val{Kind: 3, I: i} }

func (v Val) String() string {
	switch v.Kind {
	case 1:
		return fmt.Sprint(v.B)
	case 2:
		if v.B {
			return "nil"
		}
		return "non-nil"
	case 3:
		return fmt.Sprint(v.I)
	}
	return "?"
}

// Walk explores the CFG of one function path-sensitively over a finite
// predicate abstraction: branch conditions that evaluate to a known boolean
// under the assumptions are followed one way only, anything else both ways.
// It is an exhaustive dataflow over a finite domain: no solver, no execution.
type Walk struct {
	Fn     *ssa.Function
	Assume func(v ssa.Value) (Val, bool) // base facts about values, matched by shape
	// AfterCall lets a rule stop or refine at calls: return false to cut the path here
	// (e.g. a callee that never returns, or the marked target).
	Visit func(in ssa.Instruction, env map[*ssa.Phi]Val) bool

	Reached  map[ssa.Instruction]bool
	Returns  []*RetOutcome
	Panics   int
	steps    int
	overflow bool
	seen     map[string]bool
}

type RetOutcome struct {
	Ret  *ssa.Return
	Vals []Val
	Raw  []ssa.Value // result values with phis resolved along the path where possible
}

const walkStepCap = 400000

func (w *Walk) init() {
	if w.Reached == nil {
		w.Reached = map[ssa.Instruction]bool{}
		w.seen = map[string]bool{}
	}
}

// FromEntry explores from the function entry.
func (w *Walk) FromEntry() *Walk {
	w.init()
	w.block(w.Fn.Blocks[0], 0, map[*ssa.Phi]Val{}, map[*ssa.Phi]ssa.Value{})
	return w
}

// After explores from the instruction following `in`.
func (w *Walk) After(in ssa.Instruction) *Walk {
	w.init()
	w.block(in.Block(), instrIndex(in)+1, map[*ssa.Phi]Val{}, map[*ssa.Phi]ssa.Value{})
	return w
}

// FromEdge explores from the start of block `to` entered from `from`.
func (w *Walk) FromEdge(from, to *ssa.BasicBlock) *Walk {
	w.init()
	env := map[*ssa.Phi]Val{}
	raw := map[*ssa.Phi]ssa.Value{}
	w.enter(from, to, env, raw)
	return w
}

func envKey(env map[*ssa.Phi]Val) string {
	if len(env) == 0 {
		return ""
	}
	var ks []string
	for p, v := range env {
		if v.Kind != 0 {
			ks = append(ks, fmt.Sprintf("%s=%s", p.Name(), v))
		}
	}
	sort.Strings(ks)
	return strings.Join(ks, ",")
}

func (w *Walk) enter(from, to *ssa.BasicBlock, env map[*ssa.Phi]Val, raw map[*ssa.Phi]ssa.Value) {
	// resolve phis of `to` for the edge from->to (simultaneous assignment)
	idx := -1
	for i, p := range to.Preds {
		if p == from {
			idx = i
			break
		}
	}
	nenv := env
	nraw := raw
	copied := false
	type upd struct {
		p *ssa.Phi
		v Val
		r ssa.Value
	}
	var upds []upd
	for _, in := range to.Instrs {
		phi, ok := in.(*ssa.Phi)
		if !ok {
			break
		}
		if idx < 0 || idx >= len(phi.Edges) {
			continue
		}
		e := phi.Edges[idx]
		rv := e
		if ep, ok := e.(*ssa.Phi); ok {
			if r, ok := raw[ep]; ok {
				rv = r
			}
		}
		upds = append(upds, upd{phi, w.eval(e, env), rv})
	}
	for _, u := range upds {
		if !copied {
			nenv = make(map[*ssa.Phi]Val, len(env)+len(upds))
			for k, v := range env {
				nenv[k] = v
			}
			nraw = make(map[*ssa.Phi]ssa.Value, len(raw)+len(upds))
			for k, v := range raw {
				nraw[k] = v
			}
			copied = true
		}
		if u.v.Kind == 0 {
			delete(nenv, u.p)
		} else {
			nenv[u.p] = u.v
		}
		nraw[u.p] = u.r
	}
	w.block(to, 0, nenv, nraw)
}

func (w *Walk) block(b *ssa.BasicBlock, from int, env map[*ssa.Phi]Val, raw map[*ssa.Phi]ssa.Value) {
	if w.overflow {
		return
	}
	key := fmt.Sprintf("%d@%d|%s", b.Index, from, envKey(env))
	if w.seen[key] {
		return
	}
	w.seen[key] = true
	w.steps++
	if w.steps > walkStepCap {
		w.overflow = true
		return
	}
	for i := from; i < len(b.Instrs); i++ {
		in := b.Instrs[i]
		w.Reached[in] = true
		if w.Visit != nil {
			if _, isPhi := in.(*ssa.Phi); !isPhi {
				if !w.Visit(in, env) {
					return
				}
			}
		}
		switch t := in.(type) {
		case *ssa.If:
			cv := w.eval(t.Cond, env)
			if cv.Kind == 1 {
				if cv.B {
					w.enter(b, b.Succs[0], env, raw)
				} else {
					w.enter(b, b.Succs[1], env, raw)
				}
			} else {
				w.enter(b, b.Succs[0], env, raw)
				w.enter(b, b.Succs[1], env, raw)
			}
			return
		case *ssa.Jump:
			w.enter(b, b.Succs[0], env, raw)
			return
		case *ssa.Return:
			ro := &RetOutcome{Ret: t}
			for _, r := range t.Results {
				ro.Vals = append(ro.Vals, w.eval(r, env))
				rv := unspill(r)
				if p, ok := rv.(*ssa.Phi); ok {
					if x, ok := raw[p]; ok {
						rv = x
					}
				}
				ro.Raw = append(ro.Raw, rv)
			}
			w.Returns = append(w.Returns, ro)
			return
		case *ssa.Panic:
			w.Panics++
			return
		}
	}
}

// eval computes the abstract value of v under the assumptions and the phi
// resolutions of the current path.
func (w *Walk) eval(v ssa.Value, env map[*ssa.Phi]Val) Val {
	return w.evalD(v, env, 0)
}

func (w *Walk) evalD(v ssa.Value, env map[*ssa.Phi]Val, d int) Val {
	if d > 12 {
		return unknown
	}
	if w.Assume != nil {
		if a, ok := w.Assume(v); ok {
			return a
		}
	}
	switch x := v.(type) {
	case *ssa.Const:
		if b, ok := constBool(x); ok {
			return vBool(b)
		}
		if i, ok := constInt(x); ok {
			return vInt(i)
		}
		if isNilConst(x) {
			return vNil(true)
		}
		return unknown
	case *ssa.Phi:
		if r, ok := env[x]; ok {
			return r
		}
		return unknown
	case *ssa.UnOp:
		if x.Op == token.NOT {
			r := w.evalD(x.X, env, d+1)
			if r.Kind == 1 {
				return vBool(!r.B)
			}
		}
		if x.Op == token.MUL {
			if u := unspill(x); u != ssa.Value(x) {
				return w.evalD(u, env, d+1)
			}
		}
		return unknown
	case *ssa.ChangeType:
		return w.evalD(x.X, env, d+1)
	case *ssa.Convert:
		r := w.evalD(x.X, env, d+1)
		if r.Kind == 3 {
			return r
		}
		return unknown
	case *ssa.MakeInterface:
		// a non-nil interface unless the operand is unknown pointer: interface holding a value is non-nil
		return vNil(false)
	case *ssa.Alloc, *ssa.MakeSlice, *ssa.MakeMap, *ssa.MakeChan, *ssa.MakeClosure, *ssa.Function, *ssa.FieldAddr, *ssa.IndexAddr:
		return vNil(false)
	case *ssa.BinOp:
		a := w.evalD(x.X, env, d+1)
		b := w.evalD(x.Y, env, d+1)
		switch x.Op {
		case token.EQL, token.NEQ:
			eq, ok := valEq(a, b)
			if !ok {
				return unknown
			}
			if x.Op == token.NEQ {
				eq = !eq
			}
			return vBool(eq)
		case token.LSS, token.LEQ, token.GTR, token.GEQ:
			if a.Kind == 3 && b.Kind == 3 {
				switch x.Op {
				case token.LSS:
					return vBool(a.I < b.I)
				case token.LEQ:
					return vBool(a.I <= b.I)
				case token.GTR:
					return vBool(a.I > b.I)
				case token.GEQ:
					return vBool(a.I >= b.I)
				}
			}
		case token.AND, token.OR:
			// non-short-circuit boolean & |
			if a.Kind == 1 && b.Kind == 1 {
				if x.Op == token.AND {
					return vBool(a.B && b.B)
				}
				return vBool(a.B || b.B)
			}
			if x.Op == token.AND && ((a.Kind == 1 && !a.B) || (b.Kind == 1 && !b.B)) {
				return vBool(false)
			}
			if x.Op == token.OR && ((a.Kind == 1 && a.B) || (b.Kind == 1 && b.B)) {
				return vBool(true)
			}
		}
		return unknown
	}
	return unknown
}

func valEq(a, b Val) (eq, ok bool) {
	if a.Kind == 0 || b.Kind == 0 {
		return false, false
	}
	switch {
	case a.Kind == 1 && b.Kind == 1:
		return a.B == b.B, true
	case a.Kind == 3 && b.Kind == 3:
		return a.I == b.I, true
	case a.Kind == 2 && b.Kind == 2:
		// comparison against nil: one side is the nil constant
		if a.B && b.B {
			return true, true
		}
		if a.B != b.B {
			return false, true
		}
		return false, false // two non-nil values: unknown
	}
	return false, false
}

// ---------- derived queries ----------

// failAssumption builds an Assume function stating that result value rv of a
// checked call denotes failure (non-nil error/alert/failure pointer, or false for ok/bool).
func failAssumption(rv ssa.Value) func(ssa.Value) (Val, bool) {
	fail := vNil(false)
	if bt, ok := rv.Type().Underlying().(*types.Basic); ok {
		switch {
		case bt.Info()&types.IsBoolean != 0:
			fail = vBool(false)
		case bt.Info()&types.IsInteger != 0:
			// crypto/subtle.ConstantTimeCompare and friends: 1 = equal, 0 = different
			fail = vInt(0)
		}
	}
	return func(v ssa.Value) (Val, bool) {
		if v == rv {
			return fail, true
		}
		return unknown, false
	}
}

// guardedBy reports whether target is (a) dominated by the call and (b) unreachable
// from the call when the call's result rv denotes failure. Together: every path
// from the function entry to target passes the call and its success outcome.
func guardedBy(call ssa.Instruction, rv ssa.Value, target ssa.Instruction) (bool, string) {
	if call.Parent() != target.Parent() {
		return false, "call and target are in different functions"
	}
	if !instrDominates(call, target) {
		return false, "the check does not dominate the target (a path reaches the target without the check)"
	}
	if rv == nil {
		return false, "the check's result is discarded"
	}
	w := (&Walk{Fn: call.Parent(), Assume: failAssumption(rv)}).After(call)
	if w.overflow {
		return false, "path exploration overflow"
	}
	if w.Reached[target] {
		return false, "the target is still reachable when the check fails (result ignored or not leading to a failure exit)"
	}
	return true, ""
}
