package main

import (
	"go/token"
	"go/types"
	"strings"

	"golang.org/x/tools/go/ssa"
)

// ruleSuiteProvenance (C11): the negotiated cipher suite is stored only from the intersection
// helper applied to the peer's offer and the local (policy-filtered) list; the server filters
// the offer by protocol version.
func ruleSuiteProvenance(c *Ctx, r *Report) {
	const rule = "suite-from-intersection"
	n := 0
	// the intersection helper itself, or a selection helper of a flight package that hands back
	// nothing but the helper's result, asked with the local list, and only when it matched
	selectors := map[*ssa.Function]bool{}
	selector := func(g *ssa.Function) bool {
		if g == nil || !inModule(g) || len(g.Blocks) == 0 || g.Signature.Results().Len() < 2 {
			return false
		}
		if v, done := selectors[g]; done {
			return v
		}
		selectors[g] = false
		calls := findCalls(g, nameIs("internal/flight.FindMatchingCipherSuite"))
		if len(calls) != 1 {
			return false
		}
		call := calls[0]
		why := ""
		if !isFieldLoad(call.Call.Args[1], tCfg, "LocalCipherSuites") {
			why = "the offer is not intersected with the locally enabled suites (cfg.LocalCipherSuites)"
		}
		for _, b := range g.Blocks {
			ret, isRet := b.Instrs[len(b.Instrs)-1].(*ssa.Return)
			if !isRet || isNilConst(unspill(ret.Results[0])) {
				continue
			}
			if !allLeaves(c.Origins(unspill(ret.Results[0]), 0), func(v ssa.Value) bool {
				ex, isEx := v.(*ssa.Extract)
				return isEx && ex.Tuple == ssa.Value(call) && ex.Index == 0
			}) {
				why = "it hands back a suite that is not the result of the intersection (" + c.ipos(ret) + ")"
			}
		}
		w := (&Walk{Fn: g, Assume: failAssumption(resultValue(call, 1))}).After(call)
		for _, ro := range w.Returns {
			if !isNilConst(unspill(ro.Ret.Results[0])) {
				why = "it hands back a suite although nothing matched (" + c.ipos(ro.Ret) + ")"
			}
		}
		r.Sites += len(g.Blocks)
		r.Check(why == "", rule, short(g)+":selector", c.ipos(call), "the selection helper returns the intersection's result, taken with cfg.LocalCipherSuites, only when it matched", "the cipher-suite selection helper is not a faithful wrapper of the intersection: "+why)
		selectors[g] = why == ""
		return selectors[g]
	}
	isIntersection := func(v ssa.Value) bool {
		if isCallResult(v, nameIs("internal/flight.FindMatchingCipherSuite")) {
			return true
		}
		ex, isEx := v.(*ssa.Extract)
		if !isEx || ex.Index != 0 {
			return false
		}
		call, isCall := ex.Tuple.(*ssa.Call)
		return isCall && selector(call.Call.StaticCallee())
	}
	for _, st := range c.StoresTo(tCom, "CipherSuite") {
		fn := st.Fn
		key := short(fn)
		r.Sites++
		if strings.HasPrefix(key, "internal/state.") || strings.Contains(key, "generateInternalState") || c.onlyReachedFrom(fn, "generateInternalState", 0) {
			r.Note(rule, key, c.ipos(st.Instr), "clone / import of an already negotiated suite")
			continue
		}
		n++
		ls := c.Origins(st.Val, 0)
		ok := allLeaves(ls, isIntersection)
		if !ok {
			r.Bad(rule, key, c.ipos(st.Instr), "the negotiated cipher suite is stored from a value that is not the result of the offer/local-list intersection: "+c.describeAll(ls))
			continue
		}
		// the intersection call: local list argument, and the result is checked
		var call *ssa.Call
		for _, l := range ls {
			if ex, isEx := l.(*ssa.Extract); isEx {
				call, _ = ex.Tuple.(*ssa.Call)
			}
		}
		if call == nil {
			r.Unk(rule, key, c.ipos(st.Instr), "intersection call not found")
			continue
		}
		if calleeName(&call.Call) == "internal/flight.FindMatchingCipherSuite" {
			r.Check(isFieldLoad(call.Call.Args[1], tCfg, "LocalCipherSuites"), rule, key+":local-list", c.ipos(call), "intersected with cfg.LocalCipherSuites", "the offer is not intersected with the locally enabled suites (cfg.LocalCipherSuites)")
		}
		// every advancing exit after the store requires the match to have succeeded
		okRes := resultValue(call, 1)
		if calleeName(&call.Call) != "internal/flight.FindMatchingCipherSuite" {
			okRes = errResult(call)
		}
		w := (&Walk{Fn: fn, Assume: failAssumption(okRes)}).After(call)
		adv := false
		for _, ro := range w.Returns {
			if isAdvanceReturn(ro.Ret) {
				adv = true
			}
		}
		r.Check(!adv, rule, key+":no-match-fails", c.ipos(call), "no common suite: no advancing exit", "without a common cipher suite the handshake can still advance (out-of-policy suite)")
	}
	r.Floor(rule, n, 4)
	// server 1.2: the offer is filtered by IDSupportsVersion before the intersection
	if fn := c.need(r, rule, pkgF12+".flight0Parse"); fn != nil {
		calls := findCalls(fn, nameIs("internal/flight.FindMatchingCipherSuite"))
		ok := len(calls) == 1
		if ok {
			// the first argument is built only from elements that passed the filter: the append feeding
			// it (in the parser or in a private helper that builds the list) is unreachable, within the
			// iteration, when IDSupportsVersion said no
			a0 := calls[0].Call.Args[0]
			var apps []*ssa.Call
			for _, l := range c.OriginsThrough(a0, 0) {
				if call, isCall := l.(*ssa.Call); isCall && calleeName(&call.Call) == "builtin:append" {
					apps = append(apps, call)
				}
			}
			nGuardedStage := 0
			// or the list went through slices.DeleteFunc with a predicate that removes every
			// element IDSupportsVersion refuses
			for _, l := range c.OriginsThrough(a0, 1) {
				dc, isCall := l.(*ssa.Call)
				if !isCall || !strings.HasPrefix(calleeName(&dc.Call), "slices.DeleteFunc[") || len(dc.Call.Args) != 2 {
					continue
				}
				pred := funcDenoted(dc.Call.Args[1], 0)
				if pred == nil {
					continue
				}
				removes := false
				for _, fc := range findCalls(pred, nameIs("internal/ciphersuite.IDSupportsVersion")) {
					w := (&Walk{Fn: pred, Assume: failAssumption(fc)}).FromEntry()
					all := len(w.Returns) > 0
					for _, ro := range w.Returns {
						if len(ro.Vals) != 1 || ro.Vals[0].Kind != 1 || !ro.Vals[0].B {
							all = false
						}
					}
					if all {
						removes = true
					}
				}
				if removes {
					nGuardedStage++
					apps = nil // the unfiltered stages before the deletion need no guard of their own
				}
			}
			for _, ap := range apps {
				host := ap.Parent()
				filt := findCalls(host, nameIs("internal/ciphersuite.IDSupportsVersion"))
				underFilter := false
				for _, fc := range filt {
					if ap.Block() == fc.Block() || fc.Block().Dominates(ap.Block()) {
						underFilter = true
					}
				}
				if !underFilter {
					continue // an earlier, unfiltered stage of the list (filtered again below)
				}
				nGuardedStage++
				guarded := false
				for _, fc := range filt {
					if !(ap.Block() == fc.Block() || fc.Block().Dominates(ap.Block())) {
						continue
					}
					f0 := fc
					w2 := &Walk{Fn: host, Assume: failAssumption(f0)}
					reached := false
					w2.Visit = func(in ssa.Instruction, _ Env) bool {
						if in == ssa.Instruction(f0) {
							return false // next iteration
						}
						if in == ssa.Instruction(ap) {
							reached = true
						}
						return true
					}
					w2.After(f0)
					if !reached {
						guarded = true
					}
				}
				if !guarded {
					ok = false
				}
			}
			if nGuardedStage == 0 {
				ok = false
			}
		}
		r.Check(ok, rule, short(fn)+":version-filter", c.pos(fn.Pos()), "offered suites are filtered by IDSupportsVersion(…, 1.2) before the intersection", "the DTLS 1.2 server no longer filters the offered suites by protocol version before choosing")
	}
}

// ruleEMSPolicy (C11): a side that requires extended master secret never advances without it.
func ruleEMSPolicy(c *Ctx, r *Report) {
	const rule = "ems-required"
	ems := c.enumConsts("internal/config", "ExtendedMasterSecretType")
	req, ok := ems["RequireExtendedMasterSecret"]
	if !ok {
		r.Unk(rule, "enum", "", "ExtendedMasterSecretType enum not found")
		return
	}
	for _, name := range []string{pkgF12 + ".flight0Parse", pkgF12 + ".flight3Parse"} {
		fn := c.need(r, rule, name)
		if fn == nil {
			continue
		}
		r.Sites += len(fn.Blocks)
		w := (&Walk{Fn: fn, Follow: followSamePkgExcept(fn, "flight0Parse"), Assume: assumeAll(
			atomAssume{mLoad(tCfg, "ExtendedMasterSecret"), vInt(req)},
			atomAssume{mLoad(tSt12, "ExtendedMasterSecret"), vBool(false)},
			// the invocation that processes the peer's hello
			atomAssume{mTypeAssertOK("pkg/protocol/handshake.MessageServerHello"), vBool(true)},
			atomAssume{mTypeAssertOK("pkg/protocol/handshake.MessageHelloVerifyRequest"), vBool(false)},
			// consistent world: the peer did not send the extension
			atomAssume{func(v ssa.Value) bool {
				ex, ok := v.(*ssa.Extract)
				if !ok || ex.Index != 1 {
					return false
				}
				ta, ok := ex.Tuple.(*ssa.TypeAssert)
				return ok && strings.HasSuffix(namedOf(ta.AssertedType), "ExtendedMasterSecret")
			}, vBool(false)},
		)}).FromEntry()
		adv := ""
		for _, ro := range w.Returns {
			if isAdvanceReturn(ro.Ret) {
				adv = c.ipos(ro.Ret)
			}
		}
		r.Check(adv == "" && !w.overflow, rule, short(fn), c.pos(fn.Pos()), "policy Require and extension not negotiated: no advancing exit (full or abbreviated)", "with RequireExtendedMasterSecret the handshake can advance although the extension was not negotiated (advancing exit at "+adv+")")
	}
}

// ruleCurvePolicy (C11): the server's curve comes from the intersection of its list with the
// client's supported_groups, and no common curve is fatal for every suite.
func ruleCurvePolicy(c *Ctx, r *Report) {
	const rule = "curve-from-intersection"
	fn := c.need(r, rule, pkgF12+".flight0Parse")
	if fn == nil {
		return
	}
	// the selection may sit in a private helper of the parser
	host := fn
	sel := findCalls(fn, nameIs(pkgF12+".selectEllipticCurve"))
	if len(sel) == 0 {
		for _, u := range c.unitFuncs(fn) {
			if cs := findCalls(u, nameIs(pkgF12+".selectEllipticCurve")); len(cs) > 0 {
				host, sel = u, cs
			}
		}
	}
	if len(sel) != 1 {
		r.Bad(rule, short(fn), c.pos(fn.Pos()), "selectEllipticCurve is not called exactly once")
		return
	}
	r.Sites += len(host.Blocks)
	a := sel[0].Call.Args
	r.Check(c.allResolved(a[0], func(v ssa.Value) bool { return isFieldLoad(v, tCfg, "EllipticCurves") }) &&
		c.allResolved(a[1], func(v ssa.Value) bool { return isFieldLoad(v, "pkg/protocol/extension.SupportedGroups", "Groups") }), rule, short(fn)+":args", c.ipos(sel[0]), "selectEllipticCurve(cfg.EllipticCurves, client groups)", "the curve is not selected from (cfg.EllipticCurves, the client's supported_groups)")
	okV := resultValue(sel[0], 1)
	w := &Walk{Fn: host, Assume: failAssumption(okV)}
	hdr := loopHeaderOf(sel[0].Block())
	adv := false
	w.Visit = func(in ssa.Instruction, _ Env) bool {
		if hdr != nil && in == firstNonPhi(hdr) {
			adv = true // continued with the next extension: the failure was ignored
			return false
		}
		return true
	}
	w.After(sel[0])
	succ := map[ssa.Instruction]bool{}
	if host != fn {
		for _, ri := range possibleSuccessReturns(host) {
			succ[ri] = true
		}
	}
	for _, ro := range w.Returns {
		if host == fn && isAdvanceReturn(ro.Ret) {
			adv = true
		}
		if host != fn && succ[ro.Ret] {
			last := len(ro.Vals) - 1
			if !(last >= 0 && ro.Vals[last].Kind == 2 && !ro.Vals[last].B) {
				adv = true
			}
		}
	}
	if host != fn {
		// the parser gives up when the helper fails
		for _, hc := range findCalls(fn, func(n string) bool { return n == short(host) }) {
			errV := resultValue(hc, hc.Call.Signature().Results().Len()-1)
			wc := &Walk{Fn: fn, Assume: failAssumption(errV)}
			wc.After(hc)
			for _, ro := range wc.Returns {
				if isAdvanceReturn(ro.Ret) {
					adv = true
				}
			}
		}
	}
	r.Check(!adv, rule, short(fn)+":no-common-curve-fails", c.ipos(sel[0]), "no common curve: the parser fails for every suite", "when the client's groups and the server's curves are disjoint the handshake can continue (for some suites) with a curve the client never offered")
	// the stored curve is the selected one (or, before the extensions are looked at, the first
	// of the server's own list)
	for _, st := range c.StoresTo(tSt12, "NamedCurve") {
		if st.Fn != host {
			continue
		}
		leafOK := func(v ssa.Value) bool {
			if isCallResult(v, nameIs(pkgF12+".selectEllipticCurve")) {
				return true
			}
			// element of a list computed from cfg.EllipticCurves
			if cl, isCall := v.(*ssa.Call); isCall {
				for _, arg := range cl.Call.Args {
					if isFieldLoad(arg, tCfg, "EllipticCurves") {
						return instrReaches(st.Instr, sel[0])
					}
				}
			}
			if isFieldLoad(v, tCfg, "EllipticCurves") {
				return instrReaches(st.Instr, sel[0])
			}
			x := v
			if u, isU := x.(*ssa.UnOp); isU {
				x = u.X
			}
			if ia, isIA := x.(*ssa.IndexAddr); isIA {
				for _, l := range c.Origins(ia.X, 0) {
					if cl, isCall := l.(*ssa.Call); isCall {
						for _, arg := range cl.Call.Args {
							if isFieldLoad(arg, tCfg, "EllipticCurves") {
								return instrReaches(st.Instr, sel[0])
							}
						}
					}
					if isFieldLoad(l, tCfg, "EllipticCurves") {
						return instrReaches(st.Instr, sel[0])
					}
				}
			}
			return false
		}
		ok := allLeaves(c.Origins(st.Val, 0), leafOK)
		if !ok {
			// a merged value (the selection, or a placeholder on the path that fails): decide per
			// path which of the merged values the store sees
			visits, bad := 0, false
			w := &Walk{Fn: host}
			w.VisitRaw = func(in ssa.Instruction, _ Env, raw map[*ssa.Phi]ssa.Value) bool {
				if in != st.Instr {
					return true
				}
				visits++
				v := unspill(st.Val)
				for i := 0; i < 4; i++ {
					phi, isPhi := v.(*ssa.Phi)
					if !isPhi {
						break
					}
					rv, have := raw[phi]
					if !have {
						break
					}
					v = unspill(rv)
				}
				if !allLeaves(c.Origins(v, 0), leafOK) {
					bad = true
				}
				return true
			}
			w.FromEntry()
			ok = visits > 0 && !bad && !w.overflow
		}
		r.Check(ok, rule, short(fn)+":stored", c.ipos(st.Instr), "state.NamedCurve = selected curve", "the server stores a curve that is not the result of the intersection")
	}
}

// ruleALPNAndSRTP (C11): application protocol and SRTP profile are chosen by the intersection
// helpers from the local list and the peer's offer; failures carry the fatal alert.
func ruleALPNAndSRTP(c *Ctx, r *Report) {
	const rule = "alpn-srtp-from-intersection"
	n := 0
	for _, s := range c.CallsToName("pkg/protocol/extension.ALPNProtocolSelection") {
		call, ok := s.Call.(*ssa.Call)
		if !ok {
			continue
		}
		n++
		a := call.Call.Args
		r.Check(isFieldLoad(a[0], tCfg, "SupportedProtocols") && (isFieldLoad(a[1], tCom, "PeerSupportedProtocols") || strings.Contains(shapeOf(a[1], 0), "PeerSupportedProtocols")), rule, short(s.Fn)+":alpn-args", c.ipos(call), "ALPNProtocolSelection(cfg.SupportedProtocols, peer's offer)", "ALPN is not selected from (local list, peer's offer)")
		for _, st := range c.StoresTo(tCom, "NegotiatedProtocol") {
			if st.Fn == s.Fn {
				ok := allLeaves(c.Origins(st.Val, 0), func(v ssa.Value) bool { return isCallResult(v, nameIs("pkg/protocol/extension.ALPNProtocolSelection")) })
				// ... or what the finalised ServerHello says (the selection as sent, after the
				// message hook), or the reset to "no protocol" that precedes it
				if !ok {
					if k, isK := st.Val.(*ssa.Const); isK && k.Value != nil && k.Value.ExactString() == `""` {
						ok = true
					} else {
						fins := findCalls(s.Fn, nameIs("internal/negotiation.FinalizeServerHello"))
						ok = len(fins) == 1 && instrDominates(fins[0], st.Instr) && allLeaves(c.Origins(st.Val, 0), func(l ssa.Value) bool {
							o, f, _, okF := fieldLoad(l)
							return okF && f == "Protocol" && strings.HasSuffix(o, "extension.ALPNSelection")
						})
					}
				}
				r.Check(ok, rule, short(s.Fn)+":alpn-stored", c.ipos(st.Instr), "NegotiatedProtocol = selection result", "the server records an application protocol that is not the selection result (the two sides can disagree)")
				// stored on every path that put the protocol on the wire: the store dominates the success exit
				// whenever the selection is non-empty: same guard as the extension append
			}
		}
	}
	r.Floor(rule+":alpn", n, 2)
	m := 0
	for _, s := range c.CallsToName("internal/flight.CommitSRTP") {
		call, ok := s.Call.(*ssa.Call)
		if !ok {
			continue
		}
		m++
		ls := c.Origins(call.Call.Args[1], 0)
		var fromNegotiation func(v ssa.Value, d int) bool
		fromNegotiation = func(v ssa.Value, d int) bool {
			if isZeroStruct(v) {
				return true // "no SRTP"
			}
			if isCallResult(v, nameIs("internal/negotiation.NegotiateSRTP", "internal/negotiation.ValidateSRTPSelection")) {
				return true
			}
			// a helper of the same package between the negotiation and the commit: what it returns
			idx := 0
			inner, _ := v.(*ssa.Call)
			if ex, isEx := v.(*ssa.Extract); isEx {
				inner, _ = ex.Tuple.(*ssa.Call)
				idx = ex.Index
			}
			if inner == nil || d > 1 {
				return false
			}
			g := inner.Call.StaticCallee()
			if g == nil || g.Pkg != s.Fn.Pkg || len(g.Blocks) == 0 {
				return false
			}
			n := 0
			for _, b := range g.Blocks {
				ret, isRet := b.Instrs[len(b.Instrs)-1].(*ssa.Return)
				if !isRet || b == g.Recover || idx >= len(ret.Results) {
					continue
				}
				n++
				if !allLeaves(c.Origins(ret.Results[idx], 0), func(l ssa.Value) bool { return fromNegotiation(l, d+1) }) {
					return false
				}
			}
			return n > 0
		}
		ok2 := allLeaves(ls, func(v ssa.Value) bool { return fromNegotiation(v, 0) })
		r.Check(ok2, rule, short(s.Fn)+":srtp-commit", c.ipos(call), "committed SRTP decision comes from NegotiateSRTP / ValidateSRTPSelection", "an SRTP profile is committed that did not come from the negotiation helpers: "+c.describeAll(ls))
	}
	r.Floor(rule+":srtp", m, 5)
}

// ruleExactMembership (C11): "what both sides allow" is an intersection by equality. Wherever a
// value is looked up in a list with a predicate that compares a list element with a captured
// value of the same type (slices.ContainsFunc / IndexFunc and friends), the predicate must be
// equality of the whole value: comparing one field of a struct, or folding case, makes a value
// the peer never offered (or the local policy never allowed) count as common.
func ruleExactMembership(c *Ctx, r *Report) {
	const rule = "exact-membership"
	n := 0
	for _, s := range c.CallsTo(func(name string) bool {
		return strings.HasPrefix(name, "slices.ContainsFunc") || strings.HasPrefix(name, "slices.IndexFunc")
	}) {
		call, ok := s.Call.(*ssa.Call)
		if !ok || len(call.Call.Args) != 2 {
			continue
		}
		mc, ok := call.Call.Args[1].(*ssa.MakeClosure)
		if !ok {
			continue
		}
		pred := mc.Fn.(*ssa.Function)
		if len(pred.Params) != 1 {
			continue
		}
		pt := pred.Params[0].Type()
		// a captured value of the element type
		var captured []*ssa.FreeVar
		for _, fv := range pred.FreeVars {
			ft := fv.Type()
			if p, isPtr := ft.(*types.Pointer); isPtr && types.Identical(p.Elem(), pt) {
				captured = append(captured, fv)
			} else if types.Identical(ft, pt) {
				captured = append(captured, fv)
			}
		}
		if len(captured) != 1 {
			continue
		}
		n++
		r.Sites++
		key := short(s.Fn) + ":" + typeShort(pt)
		// which parts of the element are compared with the same parts of the captured value
		whole := false
		fields := map[string]bool{}
		weak := ""
		isElem := func(v ssa.Value) (string, bool) { // "" = whole value, "F" = field F
			v = stripConv(v)
			if v == ssa.Value(pred.Params[0]) {
				return "", true
			}
			if u, ok := v.(*ssa.UnOp); ok && u.Op == token.MUL {
				if al, isAl := u.X.(*ssa.Alloc); isAl {
					for _, ref := range *al.Referrers() {
						if st, isSt := ref.(*ssa.Store); isSt && st.Val == ssa.Value(pred.Params[0]) {
							return "", true
						}
					}
				}
			}
			if _, f, base, ok := fieldLoad(v); ok {
				if b2, isLoadP := isElemBase(base, pred.Params[0]); isLoadP {
					_ = b2
					return f, true
				}
			}
			return "", false
		}
		isCap := func(v ssa.Value) (string, bool) {
			v = stripConv(v)
			if u, ok := v.(*ssa.UnOp); ok && u.Op == token.MUL && u.X == ssa.Value(captured[0]) {
				return "", true
			}
			if v == ssa.Value(captured[0]) {
				return "", true
			}
			if _, f, base, ok := fieldLoad(v); ok {
				b := base
				if u, isU := b.(*ssa.UnOp); isU {
					b = u.X
				}
				if b == ssa.Value(captured[0]) {
					return f, true
				}
			}
			return "", false
		}
		if pred.Synthetic != "" {
			// a method value such as version.Equal: an equality method of the element type
			for _, b := range pred.Blocks {
				for _, in := range b.Instrs {
					if cl, ok := in.(*ssa.Call); ok && strings.HasSuffix(calleeName(&cl.Call), ").Equal") {
						whole = true
					}
				}
			}
		}
		for _, b := range pred.Blocks {
			for _, in := range b.Instrs {
				switch x := in.(type) {
				case *ssa.BinOp:
					if x.Op != token.EQL && x.Op != token.NEQ {
						continue
					}
					for _, pr := range [][2]ssa.Value{{x.X, x.Y}, {x.Y, x.X}} {
						// the identity accessor of an interface-typed element, called on both
						if me, okM := identityAccessor(pr[0], pt); okM {
							if mc2, okM2 := identityAccessor(pr[1], pt); okM2 {
								_, okE := isElem(me)
								_, okC := isCap(mc2)
								if okE && okC {
									whole = true
								}
							}
						}
						fe, okE := isElem(pr[0])
						fc, okC := isCap(pr[1])
						if okE && okC && fe == fc {
							if fe == "" {
								whole = true
							} else {
								fields[fe] = true
							}
						}
					}
				case *ssa.Call:
					name := calleeName(&x.Call)
					if name == "strings.EqualFold" || name == "bytes.EqualFold" || strings.HasPrefix(name, "strings.ToLower") || strings.HasPrefix(name, "strings.ToUpper") || strings.HasPrefix(name, "strings.HasPrefix") || strings.HasPrefix(name, "strings.Contains") {
						weak = name
					}
					if name == "bytes.Equal" {
						fe, okE := isElem(x.Call.Args[0])
						fc, okC := isCap(x.Call.Args[1])
						if okE && okC && fe == fc {
							if fe == "" {
								whole = true
							} else {
								fields[fe] = true
							}
						}
					}
				}
			}
		}
		exact := whole && weak == ""
		detail := "whole-value equality"
		if !exact && weak == "" {
			if st, isStruct := pt.Underlying().(*types.Struct); isStruct && len(fields) > 0 {
				var missing []string
				for i := 0; i < st.NumFields(); i++ {
					if !fields[fieldName(st.Field(i))] {
						missing = append(missing, fieldName(st.Field(i)))
					}
				}
				exact = len(missing) == 0
				detail = "all fields compared"
				if !exact {
					detail = "fields not compared: " + strings.Join(missing, ",")
				}
			} else {
				detail = "no equality between the element and the captured value found"
			}
		}
		if weak != "" {
			detail = "uses " + weak
		}
		r.Check(exact, rule, key, c.ipos(call), "membership test is equality of the whole value", "a list is searched for a value with a predicate weaker than equality ("+detail+"): a value that is not in the list counts as present, so a parameter outside the peer's offer or the local policy can be selected")
	}
	r.Extra["exact_membership_predicates"] = n
}

// identityAccessors: for an element type that is an interface, the method whose result is the
// identity of the value (two values are the same parameter exactly when it agrees). Confirmed by
// reading: a cipher suite is its IANA number, every comparison of two suites in the module is on ID().
var identityAccessors = map[string]string{
	"internal/ciphersuite.CipherSuite": "ID",
	".CipherSuite":                     "ID",
}

// identityAccessor: v is recv.M() for the identity accessor M of element type pt; returns recv.
func identityAccessor(v ssa.Value, pt types.Type) (ssa.Value, bool) {
	cl, ok := stripConv(v).(*ssa.Call)
	if !ok || !cl.Call.IsInvoke() || len(cl.Call.Args) != 0 {
		return nil, false
	}
	m, ok := identityAccessors[namedOrType(pt)]
	if !ok || cl.Call.Method.Name() != m || !types.Identical(cl.Call.Value.Type(), pt) {
		return nil, false
	}
	return cl.Call.Value, true
}

func isElemBase(base ssa.Value, p *ssa.Parameter) (ssa.Value, bool) {
	if base == ssa.Value(p) {
		return base, true
	}
	// value parameter spilled to a cell
	b := base
	if u, ok := b.(*ssa.UnOp); ok {
		b = u.X
	}
	if al, ok := b.(*ssa.Alloc); ok {
		for _, ref := range *al.Referrers() {
			if st, isSt := ref.(*ssa.Store); isSt && st.Val == ssa.Value(p) && st.Addr == ssa.Value(al) {
				return base, true
			}
		}
	}
	return nil, false
}

// ruleSignatureSchemePolicy (C11): the (hash, signature) pair a peer declares next to a handshake
// signature (ServerKeyExchange, CertificateVerify of either version) is accepted only if it is an
// element of the local signature scheme list (cfg.LocalSignatureSchemes): with every comparison
// of a list element against the declared pair assumed false, the verification of that signature -
// and with it every advancing exit behind it - is unreachable (helpers followed). A membership
// test over any other list (the certificate-chain schemes, the defaults) does not count.
func ruleSignatureSchemePolicy(c *Ctx, r *Report) {
	const rule = "signature-scheme-policy"
	isPolicyList := func(s ssa.Value) bool {
		ls := c.OriginsIP(s, 0)
		return len(ls) > 0 && allLeaves(ls, func(l ssa.Value) bool {
			_, f, _, ok := fieldLoad(l)
			return ok && f == "LocalSignatureSchemes"
		})
	}
	// the slice an element value was taken from
	var elemSlice func(v ssa.Value, d int) ssa.Value
	elemSlice = func(v ssa.Value, d int) ssa.Value {
		if d > 4 {
			return nil
		}
		switch x := v.(type) {
		case *ssa.Field:
			return elemSlice(x.X, d+1)
		case *ssa.UnOp:
			if x.Op == token.MUL {
				return elemSlice(x.X, d+1)
			}
		case *ssa.FieldAddr:
			return elemSlice(x.X, d+1)
		case *ssa.IndexAddr:
			return x.X
		case *ssa.Index:
			return x.X
		case *ssa.Alloc: // the range variable is a local cell filled from the slice element
			var found ssa.Value
			for _, ref := range *x.Referrers() {
				if st, ok := ref.(*ssa.Store); ok && st.Addr == ssa.Value(x) {
					sl := elemSlice(st.Val, d+1)
					if sl == nil || (found != nil && found != sl) {
						return nil
					}
					found = sl
				}
			}
			return found
		}
		return nil
	}
	n := 0
	for _, s := range c.CallsTo(nameIs("internal/handshakecrypto.VerifyKeySignature", "internal/handshakecrypto.VerifyCertificateVerify")) {
		call, ok := s.Call.(*ssa.Call)
		if !ok || !inModule(s.Fn) || strings.HasSuffix(s.Fn.Pkg.Pkg.Path(), "internal/handshakecrypto") {
			continue
		}
		fn := s.Fn
		r.Sites += len(fn.Blocks)
		n++
		matched := 0
		assume := func(v ssa.Value) (Val, bool) {
			switch x := v.(type) {
			case *ssa.BinOp:
				if x.Op != token.EQL && x.Op != token.NEQ {
					return unknown, false
				}
				for _, side := range []ssa.Value{x.X, x.Y} {
					_, f, _, ok := fieldLoad(side)
					if !ok || (f != "Hash" && f != "Signature") {
						continue
					}
					if sl := elemSlice(side, 0); sl != nil && isPolicyList(sl) {
						matched++
						return vBool(x.Op == token.NEQ), true
					}
				}
			case *ssa.Call:
				nm := calleeName(&x.Call)
				if (strings.HasPrefix(nm, "slices.Contains") || strings.HasPrefix(nm, "slices.Index")) && len(x.Call.Args) > 0 && isPolicyList(x.Call.Args[0]) {
					matched++
					if strings.HasPrefix(nm, "slices.Index") {
						return vInt(-1), true
					}
					return vBool(false), true
				}
			}
			return unknown, false
		}
		w := &Walk{Fn: fn, Follow: followSamePkg(fn), Assume: assume}
		w.FromEntry()
		key := short(fn) + ":" + strings.TrimPrefix(calleeName(&call.Call), "internal/handshakecrypto.")
		if matched == 0 {
			r.Bad(rule, key, c.ipos(call), "the declared (hash, signature) pair of the peer's handshake signature is never compared with the elements of cfg.LocalSignatureSchemes: a scheme outside the local policy (for instance one allowed only inside certificate chains) is accepted for the handshake signature")
			continue
		}
		r.Check(!w.Reached[call], rule, key, c.ipos(call), "unreachable when the declared pair is not in cfg.LocalSignatureSchemes", "the peer's handshake signature is verified (and the handshake advances) although the declared (hash, signature) pair matched no element of cfg.LocalSignatureSchemes")
	}
	r.Floor(rule, n, 3)
}

// ruleSuiteFitsKeyType (C11): the server's cipher-suite list is narrowed to the suites its
// certificate key can serve before any handshake starts, and the certificate consulted is the one
// the configuration would present (HandshakeConfig.GetCertificate, which also covers certificates
// supplied by a callback) - not a static list that may be empty while a callback serves an RSA key.
func ruleSuiteFitsKeyType(c *Ctx, r *Report) {
	const rule = "suite-fits-key-type"
	n := 0
	for _, s := range c.CallsTo(nameIs("dtls.filterCipherSuitesForCertificate")) {
		call, ok := s.Call.(*ssa.Call)
		if !ok {
			continue
		}
		fn := s.Fn
		r.Sites += len(fn.Blocks)
		n++
		ls := c.Origins(call.Call.Args[0], 0)
		var ds []string
		for _, l := range ls {
			ds = append(ds, c.describe(l))
		}
		fromGet := allLeaves(ls, func(l ssa.Value) bool {
			return isCallResult(l, func(nm string) bool { return strings.HasSuffix(nm, "HandshakeConfig).GetCertificate") })
		})
		r.Check(fromGet, rule, short(fn)+":certificate-source", c.ipos(call), "filtered by the certificate GetCertificate would present", "the suite list is filtered by ["+strings.Join(dedup(ds), ", ")+"], not by the certificate HandshakeConfig.GetCertificate presents: a certificate served by a callback is not taken into account and a suite its key cannot serve stays negotiable")
		// the filtered list is what the handshake uses
		stored := false
		for _, st := range c.StoresTo("internal/config.HandshakeConfig", "LocalCipherSuites") {
			if st.Fn == fn && anyLeaf(c.Origins(st.Val, 0), func(l ssa.Value) bool { return l == ssa.Value(call) }) {
				stored = true
			}
		}
		r.Check(stored, rule, short(fn)+":stored", c.ipos(call), "the filtered list replaces LocalCipherSuites", "the result of the key-type filter is not stored back into LocalCipherSuites")
		// a server cannot start a handshake without passing the filter (the filter may sit in a
		// private helper: then the function that starts the handshake is its caller)
		host := fn
		starts := findCalls(host, nameIs("(*dtls.Conn).handshake"))
		if len(starts) == 0 {
			if sites, closed := c.staticCallers(fn); closed && len(sites) == 1 {
				host = sites[0].Fn
				starts = findCalls(host, nameIs("(*dtls.Conn).handshake"))
			}
		}
		if len(starts) == 0 {
			r.Unk(rule, short(fn)+":before-start", c.pos(fn.Pos()), "the function that filters does not start the handshake: order not decided")
			continue
		}
		w := &Walk{Fn: host, Follow: followSamePkgExcept(host, "handshake"), Assume: func(v ssa.Value) (Val, bool) {
			if _, f, _, ok := fieldLoad(v); ok && f == "IsClient" {
				return vBool(false), true
			}
			return unknown, false
		}}
		w.VisitRaw = func(in ssa.Instruction, _ Env, _ map[*ssa.Phi]ssa.Value) bool { return in != ssa.Instruction(call) }
		w.FromEntry()
		by := false
		for _, st := range starts {
			if w.Reached[st] {
				by = true
			}
		}
		r.Check(!by, rule, short(fn)+":before-start", c.ipos(starts[0]), "a server always filters before the handshake starts", "a server can start its handshake on a path that skipped the key-type filter of the suite list")
	}
	r.Floor(rule, n, 1)
}

// followSamePkgExcept is followSamePkg minus the named functions.
func followSamePkgExcept(fn *ssa.Function, names ...string) func(*ssa.Function) bool {
	base := followSamePkg(fn)
	return func(callee *ssa.Function) bool {
		for _, n := range names {
			if callee.Name() == n {
				return false
			}
		}
		return base(callee)
	}
}
