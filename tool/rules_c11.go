package main

import (
	"strings"

	"golang.org/x/tools/go/ssa"
)

// ruleSuiteProvenance (C11): the negotiated cipher suite is stored only from the intersection
// helper applied to the peer's offer and the local (policy-filtered) list; the server filters
// the offer by protocol version.
func ruleSuiteProvenance(c *Ctx, r *Report) {
	const rule = "suite-from-intersection"
	n := 0
	isFMCS := nameIs("internal/flight.FindMatchingCipherSuite", pkgF13+".selectServerHelloCipherSuite")
	for _, st := range c.StoresTo(tCom, "CipherSuite") {
		fn := st.Fn
		key := short(fn)
		r.Sites++
		if strings.HasPrefix(key, "internal/state.") || strings.Contains(key, "generateInternalState") {
			r.Note(rule, key, c.ipos(st.Instr), "clone / import of an already negotiated suite")
			continue
		}
		n++
		ls := c.Origins(st.Val, 0)
		ok := allLeaves(ls, func(v ssa.Value) bool { return isCallResult(v, isFMCS) })
		if !ok {
			r.Bad(rule, key, c.ipos(st.Instr), "the negotiated cipher suite is stored from a value that is not the result of the offer/local-list intersection: "+c.describeAll(ls))
			continue
		}
		// the intersection call: local list argument, and the result is checked
		var call *ssa.Call
		for _, l := range ls {
			if ex, isEx := l.(*ssa.Extract); isEx {
				call, _ = ex.Tuple.(*ssa.Call)
			}
		}
		if call == nil {
			r.Unk(rule, key, c.ipos(st.Instr), "intersection call not found")
			continue
		}
		if calleeName(&call.Call) == "internal/flight.FindMatchingCipherSuite" {
			r.Check(isFieldLoad(call.Call.Args[1], tCfg, "LocalCipherSuites"), rule, key+":local-list", c.ipos(call), "intersected with cfg.LocalCipherSuites", "the offer is not intersected with the locally enabled suites (cfg.LocalCipherSuites)")
		}
		// every advancing exit after the store requires the match to have succeeded
		okRes := resultValue(call, 1)
		if calleeName(&call.Call) != "internal/flight.FindMatchingCipherSuite" {
			okRes = errResult(call)
		}
		w := (&Walk{Fn: fn, Assume: failAssumption(okRes)}).After(call)
		adv := false
		for _, ro := range w.Returns {
			if isAdvanceReturn(ro.Ret) {
				adv = true
			}
		}
		r.Check(!adv, rule, key+":no-match-fails", c.ipos(call), "no common suite: no advancing exit", "without a common cipher suite the handshake can still advance (out-of-policy suite)")
	}
	r.Floor(rule, n, 4)
	// server 1.2: the offer is filtered by IDSupportsVersion before the intersection
	if fn := c.need(r, rule, pkgF12+".flight0Parse"); fn != nil {
		calls := findCalls(fn, nameIs("internal/flight.FindMatchingCipherSuite"))
		filt := findCalls(fn, nameIs("internal/ciphersuite.IDSupportsVersion"))
		ok := len(calls) == 1 && len(filt) >= 1
		if ok {
			// the first argument is built only from elements that passed the filter: the append feeding
			// it is unreachable when IDSupportsVersion is false
			a0 := calls[0].Call.Args[0]
			var apps []*ssa.Call
			for _, l := range c.Origins(a0, 0) {
				if call, isCall := l.(*ssa.Call); isCall && calleeName(&call.Call) == "builtin:append" {
					apps = append(apps, call)
				}
			}
			w := (&Walk{Fn: fn, Assume: failAssumption(filt[0])}).After(filt[0])
			hdr := loopHeaderOf(filt[0].Block())
			_ = hdr
			for _, ap := range apps {
				if ap.Block() == filt[0].Block() || filt[0].Block().Dominates(ap.Block()) {
					// same iteration: must not be reached when the filter said no, before the next iteration
					w2 := &Walk{Fn: fn, Assume: failAssumption(filt[0])}
					reached := false
					w2.Visit = func(in ssa.Instruction, _ Env) bool {
						if in == ssa.Instruction(filt[0]) {
							return false // next iteration
						}
						if in == ssa.Instruction(ap) {
							reached = true
						}
						return true
					}
					w2.After(filt[0])
					if reached {
						ok = false
					}
				}
			}
			_ = w
		}
		r.Check(ok, rule, short(fn)+":version-filter", c.pos(fn.Pos()), "offered suites are filtered by IDSupportsVersion(…, 1.2) before the intersection", "the DTLS 1.2 server no longer filters the offered suites by protocol version before choosing")
	}
}

// ruleEMSPolicy (C11): a side that requires extended master secret never advances without it.
func ruleEMSPolicy(c *Ctx, r *Report) {
	const rule = "ems-required"
	ems := c.enumConsts("internal/config", "ExtendedMasterSecretType")
	req, ok := ems["RequireExtendedMasterSecret"]
	if !ok {
		r.Unk(rule, "enum", "", "ExtendedMasterSecretType enum not found")
		return
	}
	for _, name := range []string{pkgF12 + ".flight0Parse", pkgF12 + ".flight3Parse"} {
		fn := c.need(r, rule, name)
		if fn == nil {
			continue
		}
		r.Sites += len(fn.Blocks)
		w := (&Walk{Fn: fn, Assume: assumeAll(
			atomAssume{mLoad(tCfg, "ExtendedMasterSecret"), vInt(req)},
			atomAssume{mLoad(tSt12, "ExtendedMasterSecret"), vBool(false)},
			// the invocation that processes the peer's hello
			atomAssume{mTypeAssertOK("pkg/protocol/handshake.MessageServerHello"), vBool(true)},
			atomAssume{mTypeAssertOK("pkg/protocol/handshake.MessageHelloVerifyRequest"), vBool(false)},
			// consistent world: the peer did not send the extension
			atomAssume{func(v ssa.Value) bool {
				ex, ok := v.(*ssa.Extract)
				if !ok || ex.Index != 1 {
					return false
				}
				ta, ok := ex.Tuple.(*ssa.TypeAssert)
				return ok && strings.HasSuffix(namedOf(ta.AssertedType), "ExtendedMasterSecret")
			}, vBool(false)},
		)}).FromEntry()
		adv := ""
		for _, ro := range w.Returns {
			if isAdvanceReturn(ro.Ret) {
				adv = c.ipos(ro.Ret)
			}
		}
		r.Check(adv == "" && !w.overflow, rule, short(fn), c.pos(fn.Pos()), "policy Require and extension not negotiated: no advancing exit (full or abbreviated)", "with RequireExtendedMasterSecret the handshake can advance although the extension was not negotiated (advancing exit at "+adv+")")
	}
}

// ruleCurvePolicy (C11): the server's curve comes from the intersection of its list with the
// client's supported_groups, and no common curve is fatal for every suite.
func ruleCurvePolicy(c *Ctx, r *Report) {
	const rule = "curve-from-intersection"
	fn := c.need(r, rule, pkgF12+".flight0Parse")
	if fn == nil {
		return
	}
	sel := findCalls(fn, nameIs(pkgF12+".selectEllipticCurve"))
	if len(sel) != 1 {
		r.Bad(rule, short(fn), c.pos(fn.Pos()), "selectEllipticCurve is not called exactly once")
		return
	}
	r.Sites += len(fn.Blocks)
	a := sel[0].Call.Args
	r.Check(isFieldLoad(a[0], tCfg, "EllipticCurves") && isFieldLoad(a[1], "pkg/protocol/extension.SupportedGroups", "Groups"), rule, short(fn)+":args", c.ipos(sel[0]), "selectEllipticCurve(cfg.EllipticCurves, client groups)", "the curve is not selected from (cfg.EllipticCurves, the client's supported_groups)")
	okV := resultValue(sel[0], 1)
	w := &Walk{Fn: fn, Assume: failAssumption(okV)}
	hdr := loopHeaderOf(sel[0].Block())
	adv := false
	w.Visit = func(in ssa.Instruction, _ Env) bool {
		if hdr != nil && in == firstNonPhi(hdr) {
			adv = true // continued with the next extension: the failure was ignored
			return false
		}
		return true
	}
	w.After(sel[0])
	for _, ro := range w.Returns {
		if isAdvanceReturn(ro.Ret) {
			adv = true
		}
	}
	r.Check(!adv, rule, short(fn)+":no-common-curve-fails", c.ipos(sel[0]), "no common curve: the parser fails for every suite", "when the client's groups and the server's curves are disjoint the handshake can continue (for some suites) with a curve the client never offered")
	// the stored curve is the selected one
	for _, st := range c.StoresTo(tSt12, "NamedCurve") {
		if st.Fn != fn {
			continue
		}
		ok := allLeaves(c.Origins(st.Val, 0), func(v ssa.Value) bool { return isCallResult(v, nameIs(pkgF12+".selectEllipticCurve")) })
		r.Check(ok, rule, short(fn)+":stored", c.ipos(st.Instr), "state.NamedCurve = selected curve", "the server stores a curve that is not the result of the intersection")
	}
}

// ruleALPNAndSRTP (C11): application protocol and SRTP profile are chosen by the intersection
// helpers from the local list and the peer's offer; failures carry the fatal alert.
func ruleALPNAndSRTP(c *Ctx, r *Report) {
	const rule = "alpn-srtp-from-intersection"
	n := 0
	for _, s := range c.CallsToName("pkg/protocol/extension.ALPNProtocolSelection") {
		call, ok := s.Call.(*ssa.Call)
		if !ok {
			continue
		}
		n++
		a := call.Call.Args
		r.Check(isFieldLoad(a[0], tCfg, "SupportedProtocols") && (isFieldLoad(a[1], tCom, "PeerSupportedProtocols") || strings.Contains(shapeOf(a[1], 0), "PeerSupportedProtocols")), rule, short(s.Fn)+":alpn-args", c.ipos(call), "ALPNProtocolSelection(cfg.SupportedProtocols, peer's offer)", "ALPN is not selected from (local list, peer's offer)")
		for _, st := range c.StoresTo(tCom, "NegotiatedProtocol") {
			if st.Fn == s.Fn {
				ok := allLeaves(c.Origins(st.Val, 0), func(v ssa.Value) bool { return isCallResult(v, nameIs("pkg/protocol/extension.ALPNProtocolSelection")) })
				r.Check(ok, rule, short(s.Fn)+":alpn-stored", c.ipos(st.Instr), "NegotiatedProtocol = selection result", "the server records an application protocol that is not the selection result (the two sides can disagree)")
				// stored on every path that put the protocol on the wire: the store dominates the success exit
				// whenever the selection is non-empty: same guard as the extension append
			}
		}
	}
	r.Floor(rule+":alpn", n, 2)
	m := 0
	for _, s := range c.CallsToName("internal/flight.CommitSRTP") {
		call, ok := s.Call.(*ssa.Call)
		if !ok {
			continue
		}
		m++
		ls := c.Origins(call.Call.Args[1], 0)
		ok2 := allLeaves(ls, func(v ssa.Value) bool {
			if isZeroStruct(v) {
				return true // "no SRTP"
			}
			return isCallResult(v, nameIs("internal/negotiation.NegotiateSRTP", "internal/negotiation.ValidateSRTPSelection"))
		})
		r.Check(ok2, rule, short(s.Fn)+":srtp-commit", c.ipos(call), "committed SRTP decision comes from NegotiateSRTP / ValidateSRTPSelection", "an SRTP profile is committed that did not come from the negotiation helpers: "+c.describeAll(ls))
	}
	r.Floor(rule+":srtp", m, 5)
}
