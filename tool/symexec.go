package main

import (
	"go/token"
	"go/types"

	"golang.org/x/tools/go/ssa"
)

// Symbolic execution of slice arithmetic along explored paths (no concrete values, no
// solver): every []byte value is tracked as (base buffer, offset, length) with offset and
// length linear forms over the enclosing functions' parameters, through local variables
// (including variables captured and updated by function literals) and helper calls. It
// decides questions like "which bytes of the key block end up in which field" for both the
// straight-line and the cursor-style formulations of the same partition.

type symSlice struct {
	base ssa.Value
	off  lin
	ln   lin
}

type symState struct {
	cells map[ssa.Value]symSlice // local variables holding slices, keyed by their address (Alloc)
	vals  map[ssa.Value]symSlice // SSA values
	ints  map[ssa.Value]lin      // integer values bound by calls (callee parameters)
	// field stores observed on the path: "Type.Field" -> value
	fields map[string]symSlice
	order  []string
}

func newSymState() *symState {
	return &symState{cells: map[ssa.Value]symSlice{}, vals: map[ssa.Value]symSlice{}, ints: map[ssa.Value]lin{}, fields: map[string]symSlice{}}
}

func (s *symState) Fork() PathState {
	n := newSymState()
	for k, v := range s.cells {
		n.cells[k] = v
	}
	for k, v := range s.vals {
		n.vals[k] = v
	}
	for k, v := range s.ints {
		n.ints[k] = v
	}
	for k, v := range s.fields {
		n.fields[k] = v
	}
	n.order = append([]string{}, s.order...)
	return n
}

// cellOf resolves an address to the local variable it denotes (through closure captures).
func cellOf(addr ssa.Value) ssa.Value {
	switch x := addr.(type) {
	case *ssa.Alloc:
		return x
	case *ssa.FreeVar:
		fn := x.Parent()
		for i, fv := range fn.FreeVars {
			if fv != x || fn.Parent() == nil {
				continue
			}
			for _, b := range fn.Parent().Blocks {
				for _, in := range b.Instrs {
					if mc, ok := in.(*ssa.MakeClosure); ok && mc.Fn == ssa.Value(fn) && i < len(mc.Bindings) {
						return cellOf(mc.Bindings[i])
					}
				}
			}
		}
	}
	return nil
}

func (s *symState) intOf(v ssa.Value, d int) lin {
	if d > 8 {
		return bad()
	}
	if l, ok := s.ints[v]; ok {
		return l
	}
	switch x := v.(type) {
	case *ssa.Const:
		if k, ok := constInt(x); ok {
			return konst(k)
		}
	case *ssa.Parameter:
		return single(atom{k: akVal, v: x})
	case *ssa.Convert:
		if _, _, ok := isIntLike(x.Type()); ok {
			if _, _, ok2 := isIntLike(x.X.Type()); ok2 {
				return s.intOf(x.X, d+1)
			}
		}
	case *ssa.ChangeType:
		return s.intOf(x.X, d+1)
	case *ssa.BinOp:
		a, b := s.intOf(x.X, d+1), s.intOf(x.Y, d+1)
		if !a.ok || !b.ok {
			return bad()
		}
		switch x.Op {
		case token.ADD:
			return a.add(b, 1)
		case token.SUB:
			return a.add(b, -1)
		case token.MUL:
			if len(a.c) == 0 {
				return b.scale(a.k)
			}
			if len(b.c) == 0 {
				return a.scale(b.k)
			}
		}
	case *ssa.Call:
		if bi, ok := x.Call.Value.(*ssa.Builtin); ok && bi.Name() == "len" {
			if sv, ok := s.sliceOf(x.Call.Args[0]); ok && sv.ln.ok {
				return sv.ln
			}
			return single(atom{k: akLen, v: x.Call.Args[0]})
		}
	case *ssa.UnOp:
		if x.Op == token.MUL {
			if c := cellOf(x.X); c != nil {
				if l, ok := s.ints[c]; ok {
					return l
				}
			}
		}
	}
	return single(atom{k: akVal, v: v})
}

func (s *symState) sliceOf(v ssa.Value) (symSlice, bool) {
	if sv, ok := s.vals[v]; ok {
		return sv, true
	}
	return symSlice{}, false
}

func isByteSlice(t types.Type) bool {
	sl, ok := t.Underlying().(*types.Slice)
	if !ok {
		return false
	}
	b, ok := sl.Elem().Underlying().(*types.Basic)
	return ok && b.Kind() == types.Uint8
}

// step interprets one instruction.
func (s *symState) step(in ssa.Instruction, raw map[*ssa.Phi]ssa.Value) {
	switch x := in.(type) {
	case *ssa.Store:
		if c := cellOf(x.Addr); c != nil {
			if isByteSlice(x.Val.Type()) {
				if sv, ok := s.resolve(x.Val, raw); ok {
					s.cells[c] = sv
				} else {
					s.cells[c] = symSlice{base: x.Val, off: konst(0), ln: single(atom{k: akLen, v: x.Val})}
				}
			} else if _, _, isInt := isIntLike(x.Val.Type()); isInt {
				s.ints[c] = s.intOf(x.Val, 0)
			}
			return
		}
		if o, f, _, ok := fieldOfAddr(x.Addr); ok && isByteSlice(x.Val.Type()) {
			key := o + "." + f
			if sv, ok := s.resolve(x.Val, raw); ok {
				s.fields[key] = sv
			} else {
				s.fields[key] = symSlice{base: x.Val, off: konst(0), ln: bad()}
			}
			s.order = append(s.order, key)
		}
	case *ssa.UnOp:
		if x.Op == token.MUL && isByteSlice(x.Type()) {
			if c := cellOf(x.X); c != nil {
				if sv, ok := s.cells[c]; ok {
					s.vals[x] = sv
				}
			}
		}
	case *ssa.Slice:
		if !isByteSlice(x.Type()) {
			return
		}
		base, ok := s.resolve(x.X, raw)
		if !ok {
			base = symSlice{base: x.X, off: konst(0), ln: single(atom{k: akLen, v: x.X})}
		}
		lo := konst(0)
		if x.Low != nil {
			lo = s.intOf(x.Low, 0)
		}
		var ln lin
		if x.High != nil {
			ln = s.intOf(x.High, 0).add(lo, -1)
		} else {
			ln = base.ln.add(lo, -1)
		}
		s.vals[x] = symSlice{base: base.base, off: base.off.add(lo, 1), ln: ln}
	}
}

func (s *symState) resolve(v ssa.Value, raw map[*ssa.Phi]ssa.Value) (symSlice, bool) {
	for i := 0; i < 8; i++ {
		if sv, ok := s.vals[v]; ok {
			return sv, true
		}
		switch x := v.(type) {
		case *ssa.Phi:
			if r, ok := raw[x]; ok && r != v {
				v = r
				continue
			}
		case *ssa.ChangeType:
			v = x.X
			continue
		}
		break
	}
	return symSlice{}, false
}

// symRun executes fn symbolically and returns the path states at its successful returns
// (nil last result) together with the returned values.
func (c *Ctx) symRun(fn *ssa.Function, as []atomAssume, follow func(*ssa.Function) bool) []*RetOutcome {
	c.boundsInit()
	w := &Walk{Fn: fn, Assume: assumeAll(as...), Follow: follow, Init: newSymState()}
	w.Step = func(in ssa.Instruction, st PathState, raw map[*ssa.Phi]ssa.Value) bool {
		st.(*symState).step(in, raw)
		return true
	}
	w.OnCall = func(call *ssa.Call, callee *ssa.Function, st PathState) {
		s := st.(*symState)
		args := call.Call.Args
		// a closure value called directly has its receiver-less parameters aligned with args
		for i, p := range callee.Params {
			if i >= len(args) {
				break
			}
			if _, _, isInt := isIntLike(p.Type()); isInt {
				s.ints[p] = s.intOf(args[i], 0)
			} else if isByteSlice(p.Type()) {
				if sv, ok := s.resolve(args[i], nil); ok {
					s.vals[p] = sv
				} else {
					delete(s.vals, p)
				}
			}
		}
	}
	w.OnReturn = func(call *ssa.Call, ret *ssa.Return, st PathState, _ map[*ssa.Phi]ssa.Value) {
		s := st.(*symState)
		if len(ret.Results) == 1 && isByteSlice(ret.Results[0].Type()) {
			if sv, ok := s.resolve(ret.Results[0], nil); ok {
				s.vals[call] = sv
			} else {
				delete(s.vals, call)
			}
		}
	}
	w.FromEntry()
	var out []*RetOutcome
	for _, ro := range w.Returns {
		n := len(ro.Ret.Results)
		if n > 0 && isErrorType(ro.Ret.Results[n-1].Type()) && !isNilConst(unspill(ro.Ret.Results[n-1])) {
			continue
		}
		out = append(out, ro)
	}
	return out
}
