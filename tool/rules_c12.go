package main

import (
	"fmt"
	"go/token"
	"go/types"
	"strings"

	"golang.org/x/tools/go/ssa"
)

// ruleFragmentSender (C12): fragment headers repeat the message's type/length/sequence and carry
// offset = running sum of the previous fragment lengths and length = len(fragment); fragments are
// cut no larger than the MTU.
func ruleFragmentSender(c *Ctx, r *Report) {
	const rule = "fragment-header"
	fn := c.need(r, rule, "(*dtls.Conn).fragmentHandshake")
	if fn == nil {
		return
	}
	r.Sites += len(fn.Blocks)
	hdrT := "pkg/protocol/handshake.Header"
	var lit *ssa.Alloc
	for _, b := range fn.Blocks {
		for _, in := range b.Instrs {
			if al, ok := in.(*ssa.Alloc); ok && namedOf(al.Type()) == hdrT {
				lit = al
			}
		}
	}
	if lit == nil {
		r.Unk(rule, short(fn), c.pos(fn.Pos()), "fragment header literal not found")
		return
	}
	f := litFields(lit)
	// the header may start as a copy of the whole message's header, of which only the
	// fragment's own position and size are then overwritten
	copiedWhole := false
	for _, ref := range *lit.Referrers() {
		if st, ok := ref.(*ssa.Store); ok && st.Addr == ssa.Value(lit) {
			copiedWhole = isFieldLoad(st.Val, "pkg/protocol/handshake.Handshake", "Header")
		}
	}
	for _, whole := range []string{"Type", "Length", "MessageSequence"} {
		v := f[whole]
		ok := v != nil && allLeaves(c.Origins(v, 0), func(l ssa.Value) bool { return isFieldLoad(l, hdrT, whole) })
		if v == nil && copiedWhole {
			ok = true
		}
		r.Check(ok, rule, short(fn)+":"+whole, c.ipos(lit), whole+" copied from the whole message's header", "fragment header field "+whole+" is not copied from the message header")
	}
	// FragmentLength = len(contentFragment)
	fl := f["FragmentLength"]
	okLen := false
	var frag ssa.Value
	if fl != nil {
		for _, l := range c.Origins(fl, 0) {
			if call, ok := l.(*ssa.Call); ok && calleeName(&call.Call) == "builtin:len" {
				frag = call.Call.Args[0]
				okLen = true
			} else {
				okLen = false
				break
			}
		}
	}
	r.Check(okLen, rule, short(fn)+":FragmentLength", c.ipos(lit), "FragmentLength = len(fragment)", "FragmentLength is not the length of the fragment that follows the header")
	// the fragment appended after the header is that same fragment
	if frag != nil {
		okBody := false
		for _, ci := range callsIn(fn, nameIs("builtin:append")) {
			call := ci.(*ssa.Call)
			if sameValue(call.Call.Args[1], frag) {
				okBody = true
			}
		}
		if !okBody {
			// the header is marshalled and the body appended in a helper that is handed both
			for _, hc := range findCalls(fn, func(string) bool { return true }) {
				h := hc.Call.StaticCallee()
				if h == nil || h.Pkg != fn.Pkg || len(h.Blocks) == 0 {
					continue
				}
				bi, hi := -1, -1
				for i, a := range hc.Call.Args {
					if sameValue(a, frag) {
						bi = i
					}
					if u, isU := a.(*ssa.UnOp); isU && u.X == ssa.Value(lit) {
						hi = i
					}
					if a == ssa.Value(lit) {
						hi = i
					}
				}
				if bi < 0 || hi < 0 || bi >= len(h.Params) || hi >= len(h.Params) {
					continue
				}
				for _, ci := range callsIn(h, nameIs("builtin:append")) {
					ap := ci.(*ssa.Call)
					if ap.Call.Args[1] != ssa.Value(h.Params[bi]) {
						continue
					}
					fromHeader := allLeaves(c.Origins(ap.Call.Args[0], 0), func(l ssa.Value) bool {
						ex, isEx := l.(*ssa.Extract)
						if !isEx || ex.Index != 0 {
							return false
						}
						mc, isCall := ex.Tuple.(*ssa.Call)
						if !isCall || !strings.HasSuffix(calleeName(&mc.Call), "handshake.Header).Marshal") {
							return false
						}
						recv := mc.Call.Args[0]
						if al, isAl := recv.(*ssa.Alloc); isAl {
							return spilledParam(al) == h.Params[hi]
						}
						return recv == ssa.Value(h.Params[hi])
					})
					if fromHeader && successValueIs(h, ap) {
						okBody = true
					}
				}
			}
		}
		r.Check(okBody, rule, short(fn)+":body", c.ipos(lit), "the body appended after the header is the measured fragment", "the bytes appended after the fragment header are not the fragment whose length was written")
	}
	// FragmentOffset = running sum: a loop phi initialised with 0 and advanced by len(fragment)
	fo := f["FragmentOffset"]
	okOff := false
	if fo != nil {
		v := fo
		if cv, ok := v.(*ssa.Convert); ok {
			v = cv.X
		}
		if phi, ok := v.(*ssa.Phi); ok && len(phi.Edges) == 2 {
			var init, step ssa.Value
			for _, e := range phi.Edges {
				if k, isC := constInt(e); isC && k == 0 {
					init = e
				} else {
					step = e
				}
			}
			if bo, ok := step.(*ssa.BinOp); ok && init != nil && bo.Op == token.ADD && bo.X == ssa.Value(phi) {
				if call, ok := bo.Y.(*ssa.Call); ok && calleeName(&call.Call) == "builtin:len" && frag != nil && sameValue(call.Call.Args[0], frag) {
					okOff = true
				}
			}
		}
	}
	r.Check(okOff, rule, short(fn)+":FragmentOffset", c.ipos(lit), "FragmentOffset starts at 0 and advances by len(fragment)", "FragmentOffset is not the running sum of the preceding fragment lengths")
	// fragments come from SplitBytes(content, MTU)
	sp := findCalls(fn, nameIs("internal/util.SplitBytes"))
	okSplit := len(sp) == 1 && isFieldLoad(sp[0].Call.Args[1], "dtls.Conn", "maximumTransmissionUnit")
	if okSplit {
		okSplit = allLeaves(c.Origins(sp[0].Call.Args[0], 0), func(l ssa.Value) bool {
			return isCallResult(l, func(n string) bool { return strings.HasSuffix(n, "Message.Marshal") })
		})
	}
	r.Check(okSplit, rule, short(fn)+":split", c.pos(fn.Pos()), "body = Message.Marshal() split by Conn.maximumTransmissionUnit", "the message body is not split by the configured MTU")
	// SplitBytes: every chunk is bytes[i:j] with j-i <= splitLen (linear fact)
	if sb := c.need(r, rule, "internal/util.SplitBytes"); sb != nil {
		c.boundsInit()
		a := getAn(sb)
		n := 0
		for _, b := range sb.Blocks {
			for _, in := range b.Instrs {
				sl, ok := in.(*ssa.Slice)
				if !ok || sl.High == nil || sl.Low == nil {
					continue
				}
				n++
				facts := append([]cons{}, a.blockFacts(sl.Block())...)
				facts = append(facts, a.inv...)
				hi, lo := a.linOf(sl.High, 0), a.linOf(sl.Low, 0)
				lim := a.linOf(sb.Params[1], 0)
				// splitLen - (hi - lo) >= 0
				goal := lim.add(hi, -1).add(lo, 1)
				r.Check(a.prove(facts, goal, 0), rule, short(sb)+":chunk<=splitLen", c.ipos(sl), "chunk length proven <= splitLen", "a chunk produced by SplitBytes can be longer than splitLen (fragment body exceeds the MTU)")
			}
		}
		r.Floor(rule+":SplitBytes-slices", n, 1)
	}
}

// ruleFragmentPop (C12): Pop surfaces a message only when complete, and only that path removes the
// entry and advances the delivery cursor; one consumer feeds the transcript cache once per pop.
func ruleFragmentPop(c *Ctx, r *Report) {
	const rule = "reassembly-complete"
	fn := c.need(r, rule, "(*internal/fragmentbuffer.FragmentBuffer).Pop")
	if fn == nil {
		return
	}
	r.Sites += len(fn.Blocks)
	tFr, tFB := "internal/fragmentbuffer.fragments", "internal/fragmentbuffer.FragmentBuffer"
	var succ []*ssa.Return
	for _, b := range fn.Blocks {
		if ret, ok := b.Instrs[len(b.Instrs)-1].(*ssa.Return); ok && !isNilConst(unspill(ret.Results[0])) {
			succ = append(succ, ret)
		}
	}
	if len(succ) == 0 {
		r.Unk(rule, short(fn), c.pos(fn.Pos()), "no non-nil return")
		return
	}
	type guard struct {
		name  string
		match func(bo *ssa.BinOp) bool
	}
	isLoad := func(v ssa.Value, f string) bool {
		if cv, ok := v.(*ssa.Convert); ok {
			v = cv.X
		}
		return isFieldLoad(v, tFr, f)
	}
	isLenRaw := func(v ssa.Value) bool {
		call, ok := v.(*ssa.Call)
		return ok && calleeName(&call.Call) == "builtin:len"
	}
	guards := []guard{
		{"len(reassembled body) == message length", func(bo *ssa.BinOp) bool {
			return (isLoad(bo.X, "handshakeLength") && isLenRaw(bo.Y)) || (isLoad(bo.Y, "handshakeLength") && isLenRaw(bo.X))
		}},
	}
	// the body may be put together by a helper of the package that Pop calls: the obligations on
	// how it is put together then hold in that helper, whose failure must make Pop return nil
	hasAssembly := func(g *ssa.Function) bool {
		for _, app := range findCalls(g, nameIs("builtin:append")) {
			if len(app.Call.Args) == 2 {
				if sl, ok := app.Call.Args[1].(*ssa.Slice); ok {
					if _, f, _, ok := fieldLoad(sl.X); ok && f == "data" {
						return true
					}
				}
			}
		}
		return false
	}
	asm, asmCall := fn, (*ssa.Call)(nil)
	if !hasAssembly(fn) {
		for _, b := range fn.Blocks {
			for _, in := range b.Instrs {
				if cl, ok := in.(*ssa.Call); ok {
					if g := cl.Call.StaticCallee(); g != nil && g.Pkg == fn.Pkg && len(g.Blocks) > 0 && hasAssembly(g) {
						asm, asmCall = g, cl
					}
				}
			}
		}
	}
	boolIdx := -1
	if asm != fn {
		r.Sites += len(asm.Blocks)
		res := asm.Signature.Results()
		for i := 0; i < res.Len(); i++ {
			if bt, ok := res.At(i).Type().Underlying().(*types.Basic); ok && bt.Kind() == types.Bool {
				boolIdx = i
			}
		}
	}
	var asmSucc []*ssa.Return
	for _, b := range asm.Blocks {
		if ret, ok := b.Instrs[len(b.Instrs)-1].(*ssa.Return); ok && len(ret.Results) > 0 && !isNilConst(unspill(ret.Results[0])) {
			asmSucc = append(asmSucc, ret)
		}
	}
	// delivers: the exploration ends in a return of the assembler that hands a body back (and, when
	// the assembler reports completeness as a flag, does not report false)
	delivers := func(w *Walk) bool {
		for _, ro := range w.Returns {
			if len(ro.Ret.Results) == 0 || isNilConst(unspill(ro.Ret.Results[0])) {
				continue
			}
			if boolIdx >= 0 && boolIdx < len(ro.Vals) && ro.Vals[boolIdx] == vBool(false) {
				continue
			}
			return true
		}
		return false
	}
	if asmCall != nil {
		var failed atomAssume
		if boolIdx >= 0 {
			failed = atomAssume{mValue(resultValue(asmCall, boolIdx)), vBool(false)}
		} else {
			failed = atomAssume{mValue(resultValue(asmCall, 0)), vNil(true)}
		}
		w := (&Walk{Fn: fn, Assume: assumeAll(failed)}).After(asmCall)
		reach := false
		for _, s := range succ {
			if w.Reached[s] || !mustPass(asmCall, s) {
				reach = true
			}
		}
		r.Check(!reach, rule, short(fn)+":assembler-failure-is-nil", c.ipos(asmCall), "Pop returns nil when "+asm.Name()+" reports an incomplete message", "Pop can return a message although "+asm.Name()+" reported that the fragments do not make up the message")
	}
	for _, g := range guards {
		var cmp *ssa.BinOp
		for _, b := range asm.Blocks {
			for _, in := range b.Instrs {
				if bo, ok := in.(*ssa.BinOp); ok && (bo.Op == token.NEQ || bo.Op == token.EQL) && g.match(bo) {
					cmp = bo
				}
			}
		}
		if cmp == nil {
			r.Bad(rule, short(fn)+":"+g.name, c.pos(fn.Pos()), "Pop no longer tests that "+g.name+": an incomplete or inconsistent fragment set can be surfaced as a message")
			continue
		}
		unequal := cmp.Op == token.NEQ
		w := (&Walk{Fn: asm, Assume: assumeAll(atomAssume{mValue(cmp), vBool(unequal)})}).FromEntry()
		r.Check(!delivers(w) && instrDominatesAny(cmp, asmSucc), rule, short(fn)+":"+g.name, c.ipos(cmp), "a message is returned only when "+g.name, "Pop can return a message although the test '"+g.name+"' fails")
	}
	// the body is assembled from offset 0 upwards without a gap. Two forms are recognised: a chain of
	// presence-tested lookups by the running offset (fragments that abut exactly), and a coverage
	// walk that, at every position, takes a stored fragment that starts at or before the position
	// and reaches beyond it (overlapping ranges, RFC 6347 4.2.3)
	var chainOK ssa.Value
	for _, b := range asm.Blocks {
		for _, in := range b.Instrs {
			if lk, ok := in.(*ssa.Lookup); ok && lk.CommaOk && isFieldLoad(lk.X, tFr, "fragmentByOffset") {
				if _, isConst := lk.Index.(*ssa.Const); isConst {
					continue
				}
				for _, ref := range *lk.Referrers() {
					if ex, ok := ref.(*ssa.Extract); ok && ex.Index == 1 {
						chainOK = ex
					}
				}
			}
		}
	}
	if chainOK != nil {
		w := (&Walk{Fn: asm, Assume: assumeAll(atomAssume{mValue(chainOK), vBool(false)})}).After(chainOK.(ssa.Instruction))
		r.Check(!delivers(w), rule, short(fn)+":offset-chain", c.ipos(chainOK.(ssa.Instruction)), "a gap in the offset chain yields nil", "a gap in the offset chain does not stop Pop from returning a message")
	} else {
		c.coverageWalk(r, rule, short(fn), asm, delivers)
	}
	// a fragment set whose lengths add up to more than the message (overlapping ranges, a longer
	// fragment that replaced a shorter one) can still be surfaced: with every comparison of the
	// stored total against the message length answering "larger", a message is reachable
	{
		isTot := func(v ssa.Value) bool { return isLoad(v, "fragmentsLength") }
		isLen := func(v ssa.Value) bool { return isLoad(v, "handshakeLength") }
		w := (&Walk{Fn: fn, Follow: followSamePkg(fn), Assume: func(v ssa.Value) (Val, bool) {
			bo, ok := v.(*ssa.BinOp)
			if !ok {
				return unknown, false
			}
			var totLeft bool
			switch {
			case isTot(bo.X) && isLen(bo.Y):
				totLeft = true
			case isTot(bo.Y) && isLen(bo.X):
				totLeft = false
			default:
				return unknown, false
			}
			switch bo.Op { // stored total > message length
			case token.EQL:
				return vBool(false), true
			case token.NEQ:
				return vBool(true), true
			case token.GTR, token.GEQ:
				return vBool(totLeft), true
			case token.LSS, token.LEQ:
				return vBool(!totLeft), true
			}
			return unknown, false
		}}).FromEntry()
		reach := false
		for _, s := range succ {
			if w.Reached[s] {
				reach = true
			}
		}
		r.Check(reach, rule, short(fn)+":overlap-tolerated", c.pos(fn.Pos()), "a complete message is surfaced although the stored fragment lengths add up to more than its length", "Pop refuses every fragment set whose lengths add up to more than the message length: after a retransmission with a different fragmentation (overlapping ranges, RFC 6347 4.2.3) all bytes are present but the message is never surfaced, and nothing the peer sends afterwards repairs it")
	}
	// only the success path deletes the entry and advances the cursor
	var effects []ssa.Instruction
	for _, cd := range c.cacheDeletes(fn) {
		effects = append(effects, cd.at)
	}
	nAdv := 0
	for _, b := range fn.Blocks {
		for _, in := range b.Instrs {
			if st, ok := in.(*ssa.Store); ok {
				if o, f, _, ok := fieldOfAddr(st.Addr); ok && o == tFB && f == "currentMessageSequenceNumber" {
					effects = append(effects, in)
					nAdv++
					bo, isAdd := st.Val.(*ssa.BinOp)
					k := int64(0)
					if isAdd {
						k, _ = constInt(bo.Y)
					}
					r.Check(isAdd && bo.Op == token.ADD && k == 1, rule, short(fn)+":cursor+1", c.ipos(in), "delivery cursor advances by exactly one", "the delivery cursor does not advance by exactly one per delivered message")
				}
			}
		}
	}
	r.Check(nAdv == 1 && len(effects) >= 2, rule, short(fn)+":effects", c.pos(fn.Pos()), "one delete and one cursor advance", "Pop does not delete the delivered entry / advance the cursor exactly once")
	for _, e := range effects {
		okDom := true
		for _, s := range succ {
			if !instrDominates(e, s) {
				okDom = false
			}
		}
		// and no nil return after the effect
		nilAfter := false
		for _, b := range fn.Blocks {
			if ret, ok := b.Instrs[len(b.Instrs)-1].(*ssa.Return); ok && isNilConst(unspill(ret.Results[0])) && instrReaches(e, ret) {
				nilAfter = true
			}
		}
		r.Check(okDom && !nilAfter, rule, short(fn)+":effect-on-success-only", c.ipos(e), "entry removal / cursor advance happen exactly on the delivering path", "the entry is removed or the cursor advanced on a path that does not deliver the message (message lost or delivered twice)")
	}
	// retransmission detection: fragments below the cursor are flagged and not stored
	if pf := c.need(r, rule, "(*internal/fragmentbuffer.FragmentBuffer).pushHandshakeFragments"); pf != nil {
		var cmp *ssa.BinOp
		for _, b := range pf.Blocks {
			for _, in := range b.Instrs {
				if bo, ok := in.(*ssa.BinOp); ok && bo.Op == token.LSS && isFieldLoad(bo.X, "pkg/protocol/handshake.Header", "MessageSequence") && isFieldLoad(bo.Y, tFB, "currentMessageSequenceNumber") {
					cmp = bo
				}
			}
		}
		if cmp == nil {
			r.Bad(rule, short(pf)+":retransmit", c.pos(pf.Pos()), "fragments of already delivered messages are no longer recognised (no MessageSequence < cursor test)")
		} else {
			w := (&Walk{Fn: pf, Assume: assumeAll(atomAssume{mValue(cmp), vBool(true)})}).After(cmp)
			stored := false
			for in := range w.Reached {
				if _, ok := in.(*ssa.MapUpdate); ok && in.Block() != nil {
					// reached map updates belong to later loop iterations only if the loop continues; the
					// iteration of this fragment must not reach them before the back edge
					_ = in
				}
			}
			// precise: from the true edge, before returning to the loop header no MapUpdate executes
			w2 := &Walk{Fn: pf, Assume: assumeAll(atomAssume{mValue(cmp), vBool(true)})}
			hdr := loopHeaderOf(cmp.Block())
			w2.Visit = func(in ssa.Instruction, _ Env) bool {
				if in.Block() == hdr && hdr != nil && in == firstNonPhi(hdr) && w2.steps > 1 {
					return false
				}
				if _, ok := in.(*ssa.MapUpdate); ok {
					stored = true
				}
				return true
			}
			w2.After(cmp)
			r.Check(!stored, rule, short(pf)+":retransmit", c.ipos(cmp), "a fragment below the delivery cursor is flagged as retransmission and not stored", "a fragment of an already delivered message is stored again")
		}
	}
	// a fragment whose offset is already stored is not always discarded: a longer one takes the place
	// of a shorter (or empty) one, otherwise an empty fragment that arrives first shadows the real
	// fragment of its offset and every retransmission of it
	if pf := c.Fn("(*internal/fragmentbuffer.FragmentBuffer).pushHandshakeFragments"); pf != nil {
		var present ssa.Value
		var ups []*ssa.MapUpdate
		for _, b := range pf.Blocks {
			for _, in := range b.Instrs {
				switch x := in.(type) {
				case *ssa.Lookup:
					if x.CommaOk && isFieldLoad(x.X, tFr, "fragmentByOffset") {
						for _, ref := range *x.Referrers() {
							if ex, ok := ref.(*ssa.Extract); ok && ex.Index == 1 {
								present = ex
							}
						}
					}
				case *ssa.MapUpdate:
					if isFieldLoad(x.Map, tFr, "fragmentByOffset") {
						ups = append(ups, x)
					}
				}
			}
		}
		if present != nil && len(ups) > 0 {
			w := (&Walk{Fn: pf, Assume: assumeAll(atomAssume{mValue(present), vBool(true)})}).FromEntry()
			replaced := false
			for _, u := range ups {
				if w.Reached[u] {
					replaced = true
				}
			}
			r.Check(replaced, rule, short(pf)+":longer-fragment-wins", c.ipos(ups[0]), "a stored fragment can be replaced by a longer one of the same offset", "a fragment whose offset is already stored is always discarded, whatever the two lengths: a zero-length (or shorter) fragment that arrives first occupies the offset, the fragment that carries the bytes and every retransmission of it are dropped as duplicates, and the message is never surfaced although all its bytes arrived")
		}
	}
	// single consumer: Pop is called only by the record-buffering function and its private helpers
	var bhUnit map[*ssa.Function]bool
	if bh := c.Fn("(*dtls.Conn).bufferHandshakeRecord"); bh != nil {
		bhUnit = map[*ssa.Function]bool{}
		for _, u := range c.unitFuncs(bh) {
			bhUnit[u] = true
		}
	}
	for _, s := range c.CallsTo(nameHasSuffix("FragmentBuffer).Pop")) {
		r.Check(bhUnit[s.Fn], rule, "Pop<-"+short(s.Fn), c.ipos(s.Call), "single consumer", "Pop is called from a second place: messages can be consumed without entering the transcript cache")
	}
	if bh := c.need(r, rule, "(*dtls.Conn).bufferHandshakeRecord"); bh != nil {
		var pushes, pops []*ssa.Call
		for _, u := range c.unitFuncs(bh) {
			pushes = append(pushes, findCalls(u, nameHasSuffix("Cache).Push"))...)
			pops = append(pops, findCalls(u, nameHasSuffix("FragmentBuffer).Pop"))...)
		}
		r.Check(len(pushes) == 1 && len(pops) >= 1, rule, short(bh)+":cache-push", c.pos(bh.Pos()), "each popped message is pushed to the transcript cache at one site", fmt.Sprintf("%d cache pushes / %d pops in bufferHandshakeRecord", len(pushes), len(pops)))
		if len(pushes) == 1 {
			ok := allLeaves(c.Origins(pushes[0].Call.Args[1], 0), func(l ssa.Value) bool { return isCallResult(l, nameHasSuffix("FragmentBuffer).Pop")) })
			r.Check(ok, rule, short(bh)+":cache-push-source", c.ipos(pushes[0]), "cached bytes = Pop result", "the bytes pushed to the transcript cache are not the reassembled message")
		}
	}
}

func instrDominatesAny(a ssa.Instruction, rets []*ssa.Return) bool {
	for _, r := range rets {
		if !instrDominates(a, r) {
			return false
		}
	}
	return true
}

// loopHeaderOf: innermost loop header (a block with a back edge) dominating b, if any.
func loopHeaderOf(b *ssa.BasicBlock) *ssa.BasicBlock {
	for h := b; h != nil; h = h.Idom() {
		for _, p := range h.Preds {
			if h.Dominates(p) {
				return h
			}
		}
	}
	return nil
}

// ruleHandshakeHeaderLayout (C12 / C18): the 12-byte handshake header on the wire is
// msg_type(1) length(3) message_seq(2) fragment_offset(3) fragment_length(3), each taken from the
// field of the same name, most significant byte first (RFC 6347 4.2.2). A fragment offset or
// length with a byte from the wrong field reassembles to a different message, or never.
func ruleHandshakeHeaderLayout(c *Ctx, r *Report) {
	const rule = "handshake-header-layout"
	fn := c.need(r, rule, "(*pkg/protocol/handshake.Header).Marshal")
	if fn == nil {
		return
	}
	r.Sites += len(fn.Blocks)
	v, ret := singleReturn(fn, 0)
	if v == nil {
		r.Unk(rule, short(fn), c.pos(fn.Pos()), "no unique returned value")
		return
	}
	l, err := c.LayoutOf(v, ret, 0)
	c.checkLayout(r, rule, short(fn), ret, l, err,
		"h.Type[0] h.Length[2..0] h.MessageSequence[1..0] h.FragmentOffset[2..0] h.FragmentLength[2..0]",
		"RFC 6347 4.2.2 handshake header: msg_type, uint24 length, uint16 message_seq, uint24 fragment_offset, uint24 fragment_length")
}

// rulePopAfterPush (C12): once a record's fragments were pushed into the reassembly buffer, the
// receiver drains the buffer (Pop until empty) before it reports the record as handled - also for
// a record that contained an already seen fragment, because such a record may still carry the
// fragment that completes the next message (a peer is free to re-pack fragments on retransmission).
func rulePopAfterPush(c *Ctx, r *Report) {
	const rule = "pop-after-push"
	fn := c.need(r, rule, "(*dtls.Conn).bufferHandshakeRecord")
	if fn == nil {
		return
	}
	r.Sites += len(fn.Blocks)
	follow := followSamePkg(fn)
	pushes := callsReached(fn, follow, func(cl *ssa.Call) bool { return strings.HasSuffix(calleeName(&cl.Call), "FragmentBuffer).Push") })
	pops := map[ssa.Instruction]bool{}
	for _, p := range callsReached(fn, follow, func(cl *ssa.Call) bool { return strings.HasSuffix(calleeName(&cl.Call), "FragmentBuffer).Pop") }) {
		pops[p] = true
	}
	if len(pushes) != 1 || len(pops) == 0 || pushes[0].Parent() != fn {
		r.Unk(rule, short(fn), c.pos(fn.Pos()), "expected one Push (in the function itself) and at least one Pop call")
		return
	}
	errV := errResult(pushes[0])
	isHS := resultValue(pushes[0], 0) // "the record was a handshake record and was buffered"
	w := &Walk{Fn: fn, Follow: follow, Assume: func(v ssa.Value) (Val, bool) {
		if v == errV {
			return vNil(true), true
		}
		if isHS != nil && v == isHS {
			return vBool(true), true
		}
		return unknown, false
	}, Visit: func(in ssa.Instruction, _ Env) bool { return !pops[in] }}
	w.After(pushes[0])
	var bad []string
	for _, ro := range w.Returns {
		bad = append(bad, c.ipos(ro.Ret))
	}
	r.Check(len(bad) == 0, rule, short(fn), c.ipos(pushes[0]), "after a successful Push every return is preceded by a Pop", "a record whose fragments were buffered can be reported as handled without draining the reassembly buffer (returns at "+strings.Join(bad, ", ")+"): a message completed by that record is never delivered")
}

// ruleAdvanceKeepsCurrent (C12): a function that moves the delivery cursor forward to a given
// message sequence and discards buffered fragments discards only what lies *before* the new cursor:
// with the discarded key equal to (or beyond) the new cursor value the deletion is unreachable.
// Otherwise an early fragment of the message the cursor now points at is lost although every byte
// of it was received.
func ruleAdvanceKeepsCurrent(c *Ctx, r *Report) {
	const rule = "advance-keeps-current"
	n := 0
	for _, fn := range c.fnsOfPkg("internal/fragmentbuffer") {
		if len(fn.Blocks) == 0 {
			continue
		}
		// the new cursor value: a store to currentMessageSequenceNumber that is not cursor+1
		var newCur ssa.Value
		for _, st := range c.StoresTo("internal/fragmentbuffer.FragmentBuffer", "currentMessageSequenceNumber") {
			if st.Fn != fn {
				continue
			}
			if bo, ok := st.Val.(*ssa.BinOp); ok && bo.Op == token.ADD {
				continue
			}
			newCur = st.Val
		}
		if newCur == nil {
			continue
		}
		dels := c.cacheDeletes(fn)
		if len(dels) == 0 {
			continue
		}
		r.Sites += len(fn.Blocks)
		for _, cdel := range dels {
			del := cdel.at
			keyLeaves := c.Origins(cdel.key, 0)
			curLeaves := c.Origins(newCur, 0)
			derives := func(v ssa.Value, leaves []ssa.Value) bool {
				ls := c.Origins(v, 0)
				if len(ls) == 0 {
					return false
				}
				for _, l := range ls {
					found := false
					for _, k := range leaves {
						if l == k {
							found = true
						}
					}
					if !found {
						return false
					}
				}
				return true
			}
			for _, rel := range []string{"equal to", "beyond"} {
				relv := rel
				matched := false
				w := &Walk{Fn: fn, Assume: func(v ssa.Value) (Val, bool) {
					bo, ok := v.(*ssa.BinOp)
					if !ok {
						return unknown, false
					}
					var keyLeft bool
					switch {
					case derives(bo.X, keyLeaves) && derives(bo.Y, curLeaves):
						keyLeft = true
					case derives(bo.Y, keyLeaves) && derives(bo.X, curLeaves):
						keyLeft = false
					default:
						return unknown, false
					}
					// cmp = sign(key - cursor)
					cmp := 0
					if relv == "beyond" {
						cmp = 1
					}
					if !keyLeft {
						cmp = -cmp
					}
					var b bool
					switch bo.Op {
					case token.EQL:
						b = cmp == 0
					case token.NEQ:
						b = cmp != 0
					case token.LSS:
						b = cmp < 0
					case token.LEQ:
						b = cmp <= 0
					case token.GTR:
						b = cmp > 0
					case token.GEQ:
						b = cmp >= 0
					default:
						return unknown, false
					}
					matched = true
					return vBool(b), true
				}}
				w.FromEntry()
				n++
				key := fmt.Sprintf("%s:key-%s-new-cursor", short(fn), strings.ReplaceAll(relv, " ", "-"))
				if !matched {
					r.Bad(rule, key, c.ipos(del), "buffered fragments are discarded without comparing their message sequence with the new cursor")
					continue
				}
				r.Check(!w.Reached[del], rule, key, c.ipos(del), "a buffered message "+relv+" the new cursor is kept", "fragments of a message whose sequence is "+relv+" the new cursor are discarded: every byte of that message may have been received, yet it is never delivered")
			}
		}
	}
	r.Floor(rule, n, 2)
}

// cacheDelete is a removal of an entry from FragmentBuffer.cache: the builtin delete itself, or a
// call to a same-package helper that deletes the key it is given.
type cacheDelete struct {
	at  ssa.Instruction
	key ssa.Value
}

func (c *Ctx) cacheDeletes(fn *ssa.Function) []cacheDelete {
	var out []cacheDelete
	for _, b := range fn.Blocks {
		for _, in := range b.Instrs {
			call, ok := in.(*ssa.Call)
			if !ok {
				continue
			}
			if bi, isB := call.Call.Value.(*ssa.Builtin); isB && bi.Name() == "delete" && len(call.Call.Args) == 2 {
				if isFieldLoad(call.Call.Args[0], "internal/fragmentbuffer.FragmentBuffer", "cache") {
					out = append(out, cacheDelete{call, call.Call.Args[1]})
				}
				continue
			}
			callee := call.Call.StaticCallee()
			if callee == nil || callee == fn || callee.Pkg != fn.Pkg || len(callee.Blocks) == 0 {
				continue
			}
			for _, b2 := range callee.Blocks {
				for _, in2 := range b2.Instrs {
					c2, ok := in2.(*ssa.Call)
					if !ok {
						continue
					}
					if bi, isB := c2.Call.Value.(*ssa.Builtin); isB && bi.Name() == "delete" && len(c2.Call.Args) == 2 && isFieldLoad(c2.Call.Args[0], "internal/fragmentbuffer.FragmentBuffer", "cache") {
						if p, isP := c2.Call.Args[1].(*ssa.Parameter); isP {
							if pi := paramIndex(p); pi >= 0 && pi < len(call.Call.Args) {
								out = append(out, cacheDelete{call, call.Call.Args[pi]})
							}
						}
					}
				}
			}
		}
	}
	return out
}

// coverageWalk checks the coverage form of reassembly: the body grows only by appends of
// fragment.data[position-offset:] where position is the current length of the body, the fragment
// taken is assigned only under (offset <= position) and (offset + length > position), and a
// position no stored fragment covers yields nil.
func (c *Ctx) coverageWalk(r *Report, rule string, keyFn string, fn *ssa.Function, delivers func(w *Walk) bool) {
	key := keyFn + ":coverage"
	var isLenOfBody func(v ssa.Value, body ssa.Value) bool
	isLenOfBody = func(v ssa.Value, body ssa.Value) bool {
		v = stripConv(v)
		// a running copy of the length: 0 on entry (the body starts empty), the length afterwards
		if phi, ok := v.(*ssa.Phi); ok {
			zero, length := 0, 0
			for _, e := range phi.Edges {
				if k, isK := constInt(stripConv(e)); isK && k == 0 {
					zero++
				} else if _, isPhi := stripConv(e).(*ssa.Phi); !isPhi && isLenOfBody(e, body) {
					length++
				} else {
					return false
				}
			}
			return zero > 0 && length > 0 && startsEmpty(body)
		}
		call, ok := v.(*ssa.Call)
		if !ok || calleeName(&call.Call) != "builtin:len" {
			return false
		}
		return sameAccumulator(call.Call.Args[0], body)
	}
	n := 0
	for _, app := range findCalls(fn, nameIs("builtin:append")) {
		if len(app.Call.Args) != 2 || app.Block() == nil {
			continue
		}
		inLoop := false
		for _, l := range naturalLoops(fn) {
			if l.blocks[app.Block()] {
				inLoop = true
			}
		}
		if !inLoop {
			continue
		}
		sl, ok := app.Call.Args[1].(*ssa.Slice)
		if !ok {
			continue
		}
		_, f, fragBase, ok := fieldLoad(sl.X)
		if !ok || f != "data" {
			continue
		}
		n++
		body := app.Call.Args[0]
		// low bound = position - offset of the same fragment
		good := false
		var chosen ssa.Value
		if sl.Low != nil && sl.High == nil {
			for _, l := range c.Origins(stripConv(sl.Low), 0) {
				sb, ok := stripConv(l).(*ssa.BinOp)
				if !ok || sb.Op != token.SUB {
					continue
				}
				_, fo, offBase, okO := fieldLoad(sb.Y)
				if okO && fo == "FragmentOffset" && isLenOfBody(sb.X, body) && rootValueDeep(offBase) == rootValueDeep(fragBase) {
					good = true
					chosen = rootValueDeep(fragBase)
				}
			}
		}
		r.Check(good, rule, key+":append", c.ipos(app), "appended bytes = fragment.data[position - fragment offset:] with position = length of the body so far", "the reassembled body is extended by bytes that are not the part of a stored fragment behind the current position (position - fragment offset): bytes are duplicated, skipped or taken from the wrong place")
		if !good {
			continue
		}
		// the chosen fragment: assigned only under offset <= position and offset+length > position
		isPosHere := func(v ssa.Value) bool {
			v = stripConv(v)
			if isLenOfBody(v, body) {
				return true
			}
			for _, l := range c.Origins(v, 0) {
				if isLenOfBody(l, body) {
					return true
				}
			}
			return false
		}
		sel := ""
		switch ch := chosen.(type) {
		case *ssa.Phi:
			sel = c.selectionGuards(fn, ch, isPosHere)
		case *ssa.Call:
			// selected by a helper of the package that is handed the position
			g := ch.Call.StaticCallee()
			pi := -1
			for i, a := range ch.Call.Args {
				if isPosHere(a) {
					pi = i
				}
			}
			var selPhi *ssa.Phi
			if g != nil && g.Pkg == fn.Pkg && len(g.Blocks) > 0 && pi >= 0 && pi < len(g.Params) {
				for _, b := range g.Blocks {
					if ret, ok := b.Instrs[len(b.Instrs)-1].(*ssa.Return); ok && len(ret.Results) == 1 {
						if p, ok := rootValueDeep(unspill(ret.Results[0])).(*ssa.Phi); ok {
							selPhi = p
						}
					}
				}
			}
			if selPhi == nil {
				r.Unk(rule, key+":selection", c.ipos(app), "the fragment taken comes from a call that is not a selection over the stored fragments by position")
				continue
			}
			par := g.Params[pi]
			sel = c.selectionGuards(g, selPhi, func(v ssa.Value) bool {
				v = stripConv(v)
				if v == ssa.Value(par) {
					return true
				}
				for _, l := range c.Origins(v, 0) {
					if stripConv(l) == ssa.Value(par) {
						return true
					}
				}
				return false
			})
		default:
			r.Unk(rule, key+":selection", c.ipos(app), "the fragment taken is not selected in a loop over the stored fragments")
			continue
		}
		r.Check(sel == "", rule, key+":selection", c.ipos(app), "a fragment is taken only if it starts at or before the position and reaches beyond it", "the fragment appended at a position "+sel+": the body is assembled with a gap or does not advance")
		// nothing covers the position: nil
		var nilTest *ssa.BinOp
		for _, ref := range *chosen.Referrers() {
			if bo, ok := ref.(*ssa.BinOp); ok && (bo.Op == token.EQL || bo.Op == token.NEQ) && (isNilConst(bo.X) || isNilConst(bo.Y)) {
				nilTest = bo
			}
		}
		if nilTest == nil {
			r.Bad(rule, key+":gap", c.ipos(app), "the fragment taken is never compared with nil: a position that no stored fragment covers is not detected")
			continue
		}
		w := (&Walk{Fn: fn, Assume: assumeAll(atomAssume{mValue(nilTest), vBool(nilTest.Op == token.EQL)})}).After(nilTest)
		r.Check(!delivers(w), rule, key+":gap", c.ipos(nilTest), "a position that no stored fragment covers yields nil", "a position that no stored fragment covers does not stop Pop from returning a message")
	}
	if n == 0 {
		r.Bad(rule, keyFn+":offset-chain", c.pos(fn.Pos()), "Pop neither walks the fragments by offset nor assembles the body from fragment data by position: the rule cannot recognise how the message is put together")
	}
}

// rootValue strips loads, field addresses and fields down to the value they hang off.
func rootValue(v ssa.Value) ssa.Value {
	for i := 0; i < 8 && v != nil; i++ {
		switch x := v.(type) {
		case *ssa.UnOp:
			if x.Op != token.MUL {
				return v
			}
			v = x.X
		case *ssa.FieldAddr:
			v = x.X
		case *ssa.Field:
			v = x.X
		default:
			return v
		}
	}
	return v
}

// sameAccumulator: a and b are the same slice variable across a loop (equal, or joined by phis /
// appends).
func sameAccumulator(a, b ssa.Value) bool {
	reach := func(from ssa.Value) map[ssa.Value]bool {
		seen := map[ssa.Value]bool{}
		var visit func(v ssa.Value, d int)
		visit = func(v ssa.Value, d int) {
			if v == nil || seen[v] || d > 8 {
				return
			}
			seen[v] = true
			switch x := v.(type) {
			case *ssa.Phi:
				for _, e := range x.Edges {
					visit(e, d+1)
				}
			case *ssa.Call:
				if calleeName(&x.Call) == "builtin:append" && len(x.Call.Args) > 0 {
					visit(x.Call.Args[0], d+1)
				}
			}
		}
		visit(from, 0)
		return seen
	}
	ra, rb := reach(a), reach(b)
	for v := range ra {
		if rb[v] {
			return true
		}
	}
	return false
}

// selectionGuards: the selection phi takes a stored fragment (an incoming edge whose value is
// neither nil nor a phi) on no path on which that fragment starts behind the position, and on no
// path on which it ends at or before it: with every comparison of the candidate's offset (or offset
// + length) against the position answering that way, none of those edges is taken. Returns a
// description of what is missing, or "".
func (c *Ctx) selectionGuards(fn *ssa.Function, sel *ssa.Phi, isPos func(ssa.Value) bool) string {
	phis := map[*ssa.Phi]bool{}
	var collect func(p *ssa.Phi, d int)
	collect = func(p *ssa.Phi, d int) {
		if phis[p] || d > 4 {
			return
		}
		phis[p] = true
		for _, e := range p.Edges {
			if q, ok := e.(*ssa.Phi); ok {
				collect(q, d+1)
			}
		}
	}
	collect(sel, 0)
	type assign struct {
		edge [2]*ssa.BasicBlock
		cand ssa.Value
	}
	var assigns []assign
	for p := range phis {
		for i, e := range p.Edges {
			if _, isPhi := e.(*ssa.Phi); isPhi || isNilConst(e) {
				continue
			}
			assigns = append(assigns, assign{[2]*ssa.BasicBlock{p.Block().Preds[i], p.Block()}, rootValueDeep(e)})
		}
	}
	if len(assigns) == 0 {
		return "is never selected from the stored fragments"
	}
	isCand := func(base ssa.Value) bool {
		rv := rootValueDeep(base)
		for _, a := range assigns {
			if a.cand == rv {
				return true
			}
		}
		return false
	}
	isOff := func(v ssa.Value) bool {
		_, f, base, ok := fieldLoad(stripConv(v))
		return ok && f == "FragmentOffset" && isCand(base)
	}
	isLenTerm := func(x ssa.Value) bool {
		x = stripConv(x)
		if _, f, base, ok := fieldLoad(x); ok && f == "FragmentLength" && isCand(base) {
			return true
		}
		if cl, ok := x.(*ssa.Call); ok && calleeName(&cl.Call) == "builtin:len" {
			if _, f, base, ok := fieldLoad(cl.Call.Args[0]); ok && f == "data" && isCand(base) {
				return true
			}
		}
		return false
	}
	isEnd := func(v ssa.Value) bool {
		ad, ok := stripConv(v).(*ssa.BinOp)
		if !ok || ad.Op != token.ADD {
			return false
		}
		return (isOff(ad.X) && isLenTerm(ad.Y)) || (isOff(ad.Y) && isLenTerm(ad.X))
	}
	// value of "L op R" when L > R ("gt"), L < R ("lt") or L == R ("eq")
	ordVal := func(op token.Token, rel string) (bool, bool) {
		switch op {
		case token.GTR:
			return rel == "gt", true
		case token.GEQ:
			return rel != "lt", true
		case token.LSS:
			return rel == "lt", true
		case token.LEQ:
			return rel != "gt", true
		case token.EQL:
			return rel == "eq", true
		case token.NEQ:
			return rel != "eq", true
		}
		return false, false
	}
	flip := map[string]string{"gt": "lt", "lt": "gt", "eq": "eq"}
	// kind "start": offset > position; "end": offset+length < position; "end-eq": offset+length == position
	run := func(kind string) string {
		matched := 0
		w := &Walk{Fn: fn, Assume: func(v ssa.Value) (Val, bool) {
			bo, ok := v.(*ssa.BinOp)
			if !ok {
				return unknown, false
			}
			isTerm := isOff
			rel := "gt" // term relative to position
			switch kind {
			case "end":
				isTerm, rel = isEnd, "lt"
			case "end-eq":
				isTerm, rel = isEnd, "eq"
			}
			switch {
			case isTerm(bo.X) && isPos(bo.Y):
			case isPos(bo.X) && isTerm(bo.Y):
				rel = flip[rel]
			default:
				return unknown, false
			}
			val, ok := ordVal(bo.Op, rel)
			if !ok {
				return unknown, false
			}
			matched++
			return vBool(val), true
		}}
		w.FromEntry()
		if matched == 0 {
			if kind == "start" {
				return "may start behind the position (its offset is never compared with the position)"
			}
			return "may end at or before the position (offset + length is never compared with the position)"
		}
		for _, a := range assigns {
			if w.Edges[a.edge] {
				if kind == "start" {
					return "is taken although it starts behind the position"
				}
				return "is taken although it ends at or before the position"
			}
		}
		return ""
	}
	for _, kind := range []string{"start", "end", "end-eq"} {
		if m := run(kind); m != "" {
			return m
		}
	}
	return ""
}

// rootValueDeep is rootValue that also looks through a local copy of a struct (a cell with one
// store of a loaded value).
func rootValueDeep(v ssa.Value) ssa.Value {
	for i := 0; i < 6; i++ {
		v = rootValue(v)
		al, ok := v.(*ssa.Alloc)
		if !ok || al.Referrers() == nil {
			return v
		}
		var src ssa.Value
		n := 0
		for _, ref := range *al.Referrers() {
			if st, ok := ref.(*ssa.Store); ok && st.Addr == ssa.Value(al) {
				n++
				src = st.Val
			}
		}
		if n != 1 {
			return v
		}
		v = src
	}
	return v
}

// startsEmpty: every non-append, non-phi source of the accumulated slice is empty (nil, or made
// with length 0).
func startsEmpty(body ssa.Value) bool {
	seen := map[ssa.Value]bool{}
	ok := true
	var visit func(v ssa.Value, d int)
	visit = func(v ssa.Value, d int) {
		if v == nil || seen[v] || d > 8 {
			return
		}
		seen[v] = true
		switch x := v.(type) {
		case *ssa.Phi:
			for _, e := range x.Edges {
				visit(e, d+1)
			}
		case *ssa.Call:
			if calleeName(&x.Call) == "builtin:append" && len(x.Call.Args) > 0 {
				visit(x.Call.Args[0], d+1)
				return
			}
			ok = false
		case *ssa.MakeSlice:
			if k, isK := constInt(x.Len); !isK || k != 0 {
				ok = false
			}
		case *ssa.Const:
			if !isNilConst(x) {
				ok = false
			}
		default:
			ok = false
		}
	}
	visit(body, 0)
	return ok
}
