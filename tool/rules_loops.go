package main

import (
	"fmt"
	"go/constant"
	"go/token"
	"go/types"
	"strings"

	"golang.org/x/tools/go/ssa"
)

type natLoop struct {
	header  *ssa.BasicBlock
	blocks  map[*ssa.BasicBlock]bool
	latches []*ssa.BasicBlock
}

func naturalLoops(fn *ssa.Function) []*natLoop {
	byHeader := map[*ssa.BasicBlock]*natLoop{}
	var order []*ssa.BasicBlock
	for _, b := range fn.Blocks {
		for _, s := range b.Succs {
			if s.Dominates(b) { // back edge b -> s
				l := byHeader[s]
				if l == nil {
					l = &natLoop{header: s, blocks: map[*ssa.BasicBlock]bool{s: true}}
					byHeader[s] = l
					order = append(order, s)
				}
				l.latches = append(l.latches, b)
				// collect body: blocks that reach b without passing s
				stack := []*ssa.BasicBlock{b}
				for len(stack) > 0 {
					x := stack[len(stack)-1]
					stack = stack[:len(stack)-1]
					if l.blocks[x] {
						continue
					}
					l.blocks[x] = true
					stack = append(stack, x.Preds...)
				}
			}
		}
	}
	var out []*natLoop
	for _, h := range order {
		out = append(out, byHeader[h])
	}
	return out
}

func (l *natLoop) definedOutside(v ssa.Value) bool {
	switch x := v.(type) {
	case *ssa.Const, *ssa.Parameter, *ssa.FreeVar, *ssa.Global, *ssa.Function:
		return true
	case ssa.Instruction:
		return !l.blocks[x.Block()]
	}
	return false
}

// invariant: v does not change across iterations (syntactic approximation: defined outside the
// loop, or len/load/convert/arith of invariant operands with no store to the same field in the loop).
func (l *natLoop) invariant(v ssa.Value, d int) bool {
	if l.definedOutside(v) {
		return true
	}
	if d > 6 {
		return false
	}
	switch x := v.(type) {
	case *ssa.Convert:
		return l.invariant(x.X, d+1)
	case *ssa.ChangeType:
		return l.invariant(x.X, d+1)
	case *ssa.BinOp:
		return l.invariant(x.X, d+1) && l.invariant(x.Y, d+1)
	case *ssa.Call:
		if b, ok := x.Call.Value.(*ssa.Builtin); ok && (b.Name() == "len" || b.Name() == "cap" || b.Name() == "min" || b.Name() == "max") {
			for _, a := range x.Call.Args {
				if !l.invariant(a, d+1) {
					return false
				}
			}
			return true
		}
	case *ssa.FieldAddr:
		return l.invariant(x.X, d+1)
	case *ssa.UnOp:
		if x.Op == token.MUL {
			if al, isAlloc := x.X.(*ssa.Alloc); isAlloc && l.definedOutside(al) {
				for b := range l.blocks {
					for _, in := range b.Instrs {
						if st, ok := in.(*ssa.Store); ok && st.Addr == al {
							return false
						}
					}
				}
				return true
			}
			if _, f, _, ok := fieldOfAddr(x.X); ok {
				if !l.invariant(x.X, d+1) {
					return false
				}
				// no store to a field of that name, no map update / delete on it, inside the loop
				for b := range l.blocks {
					for _, in := range b.Instrs {
						switch y := in.(type) {
						case *ssa.Store:
							if _, f2, _, ok := fieldOfAddr(y.Addr); ok && f2 == f {
								return false
							}
						case *ssa.MapUpdate:
							if _, f2, _, ok := fieldLoad(y.Map); ok && f2 == f {
								return false
							}
						}
					}
				}
				return true
			}
		}
	}
	return false
}

// classifyLoop returns a non-empty reason when the loop has a recognised termination argument.
func (c *Ctx) classifyLoop(fn *ssa.Function, l *natLoop) string {
	// 1. service loops: block on channels / I/O, progress is event driven
	for b := range l.blocks {
		for _, in := range b.Instrs {
			switch x := in.(type) {
			case *ssa.Select:
				if x.Blocking {
					return "service loop: blocks in select"
				}
			case *ssa.UnOp:
				if x.Op == token.ARROW {
					return "service loop: blocks on a channel receive"
				}
			case *ssa.Send:
				return "service loop: blocks on a channel send"
			case *ssa.Next:
				// the iterator is advanced in the header of *this* loop (an inner range loop does
				// not bound the loop around it)
				if l.header == b {
					return "range over a map/string (finite iteration)"
				}
			case *ssa.Call:
				name := calleeName(&x.Call)
				if strings.Contains(name, "sync/atomic.CompareAndSwap") {
					return "lock-free retry loop (compare-and-swap)"
				}
				if strings.HasSuffix(name, ".ReadFromContext") || strings.HasSuffix(name, ".ReadFrom") || strings.HasSuffix(name, ".Accept") ||
					strings.HasSuffix(name, "(*sync.Cond).Wait") || blocksInRead(x.Call.StaticCallee(), 0) {
					return "service loop: blocks in a read"
				}
			}
		}
	}
	if why := c.cryptobyteLoop(fn, l); why != "" {
		return why
	}
	if why := appendGrowthLoop(l); why != "" {
		return why
	}
	// exit tests that dominate every latch
	c.boundsInit()
	a := getAn(fn)
	for b := range l.blocks {
		iff, ok := b.Instrs[len(b.Instrs)-1].(*ssa.If)
		if !ok {
			continue
		}
		exitsOnFalse := !l.blocks[b.Succs[1]]
		exitsOnTrue := !l.blocks[b.Succs[0]]
		if !exitsOnFalse && !exitsOnTrue {
			continue
		}
		domAll := true
		for _, lt := range l.latches {
			if !(b == lt || b.Dominates(lt)) {
				domAll = false
			}
		}
		if !domAll {
			continue
		}
		bo, ok := iff.Cond.(*ssa.BinOp)
		if !ok {
			continue
		}
		// normalise to "continue while X < Y" / "X > Y" etc.
		op := bo.Op
		if exitsOnTrue {
			switch op {
			case token.LSS:
				op = token.GEQ
			case token.LEQ:
				op = token.GTR
			case token.GTR:
				op = token.LEQ
			case token.GEQ:
				op = token.LSS
			case token.EQL:
				op = token.NEQ
			case token.NEQ:
				op = token.EQL
			}
		}
		// increasing counter bounded above: continue while phi < inv (or <=)
		try := func(phiV, bound ssa.Value, increasing bool) string {
			pv := stripConv(phiV)
			// the test may use phi+k (range loops compare the incremented index)
			if bo2, isB := pv.(*ssa.BinOp); isB && (bo2.Op == token.ADD || bo2.Op == token.SUB) {
				if _, isC := constInt(bo2.Y); isC {
					pv = stripConv(bo2.X)
				}
			}
			phi, ok := pv.(*ssa.Phi)
			if !ok || phi.Block() != l.header || !l.invariant(bound, 0) {
				return ""
			}
			for i, p := range l.header.Preds {
				if !l.blocks[p] {
					continue
				}
				e := phi.Edges[i]
				facts := append([]cons{}, a.blockFacts(p)...)
				facts = append(facts, a.inv...)
				var goal lin
				if increasing {
					goal = a.linOf(e, 0).add(a.linOf(phi, 0), -1).add(konst(1), -1)
				} else {
					goal = a.linOf(phi, 0).add(a.linOf(e, 0), -1).add(konst(1), -1)
				}
				if !a.prove(facts, goal, 0) {
					// constant step in a narrow type: phi + c with c >= 1
					if bo2, ok := stripConv(e).(*ssa.BinOp); ok && stripConv(bo2.X) == ssa.Value(phi) {
						if k, isC := constInt(bo2.Y); isC && ((increasing && bo2.Op == token.ADD && k >= 1) || (!increasing && bo2.Op == token.SUB && k >= 1)) {
							continue
						}
					}
					return ""
				}
			}
			if increasing {
				return "counter strictly increases towards a loop-invariant bound"
			}
			return "counter strictly decreases towards a loop-invariant bound"
		}
		// "continue while counter <= bound" on an unsigned counter ends only if the bound is below
		// the type's maximum: at the maximum the increment wraps to zero and the test holds for ever
		// (a bound taken from serialised or received bytes can be exactly that)
		wrapSafe := func(counter, bound ssa.Value) bool {
			bt, ok := counter.Type().Underlying().(*types.Basic)
			if !ok || bt.Info()&types.IsUnsigned == 0 {
				return true
			}
			if k, isK := bound.(*ssa.Const); isK && k.Value != nil {
				return true // a constant below the maximum is what the compiler would accept anyway
			}
			// the smaller of something and a constant (which is below the type's maximum, or the
			// compiler would have refused it in a comparison that can be true)
			if cl, ok := bound.(*ssa.Call); ok && calleeName(&cl.Call) == "builtin:min" {
				for _, a := range cl.Call.Args {
					if k, isK := a.(*ssa.Const); isK && k.Value != nil {
						if u, okU := constant.Uint64Val(k.Value); okU && u < ^uint64(0) && sizeOfBasic(bt) == 8 {
							return true
						}
					}
				}
			}
			// widened from a narrower unsigned type, or a length
			switch x := bound.(type) {
			case *ssa.Convert:
				if st, ok := x.X.Type().Underlying().(*types.Basic); ok && st.Info()&types.IsInteger != 0 {
					if sizeOfBasic(st) < sizeOfBasic(bt) {
						return true
					}
				}
				if cl, ok := x.X.(*ssa.Call); ok && calleeName(&cl.Call) == "builtin:len" {
					return true
				}
			}
			return false
		}
		switch op {
		case token.LSS, token.LEQ:
			if op == token.LSS || wrapSafe(stripConv(bo.X), bo.Y) {
				if why := try(bo.X, bo.Y, true); why != "" {
					return why
				}
			}
			if why := try(bo.Y, bo.X, false); why != "" {
				return why
			}
		case token.GTR, token.GEQ:
			if why := try(bo.X, bo.Y, false); why != "" {
				return why
			}
			if why := try(bo.Y, bo.X, true); why != "" {
				return why
			}
		}
		switch op {
		case token.LSS, token.LEQ:
			// for len(acc) < bound { ...; acc = append(acc, s...) } with len(s) >= 1 on every way round
			if call, ok := stripConv(bo.X).(*ssa.Call); ok && calleeName(&call.Call) == "builtin:len" && l.invariant(bo.Y, 0) {
				if phi, ok := call.Call.Args[0].(*ssa.Phi); ok && phi.Block() == l.header {
					grows := true
					for i, p := range l.header.Preds {
						if !l.blocks[p] {
							continue
						}
						facts := append([]cons{}, a.blockFacts(p)...)
						facts = append(facts, a.inv...)
						goal := a.lenOf(phi.Edges[i], 0).add(a.lenOf(phi, 0), -1).add(konst(1), -1)
						if !a.prove(facts, goal, 0) {
							grows = false
						}
					}
					if grows {
						return "accumulated output strictly grows towards a loop-invariant bound"
					}
				}
			}
			// the same with a running copy of the length: for n := 0; n < bound; n = len(acc) { ...;
			// acc = append(acc, s...) } where acc starts empty
			if np, ok := stripConv(bo.X).(*ssa.Phi); ok && np.Block() == l.header && l.invariant(bo.Y, 0) {
				var acc *ssa.Phi
				good := true
				for i, p := range l.header.Preds {
					e := stripConv(np.Edges[i])
					if !l.blocks[p] {
						if k, isK := constInt(e); !isK || k != 0 {
							good = false
						}
						continue
					}
					call, isCall := e.(*ssa.Call)
					if !isCall || calleeName(&call.Call) != "builtin:len" {
						good = false
						continue
					}
					// the measured slice is what the accumulator phi receives on this edge
					found := false
					for _, in := range l.header.Instrs {
						ap, isPhi := in.(*ssa.Phi)
						if !isPhi {
							break
						}
						if ap.Edges[i] == call.Call.Args[0] && (acc == nil || acc == ap) {
							acc, found = ap, true
						}
					}
					if !found {
						good = false
					}
				}
				if good && acc != nil && startsEmpty(acc) {
					for i, p := range l.header.Preds {
						if !l.blocks[p] {
							continue
						}
						facts := append([]cons{}, a.blockFacts(p)...)
						facts = append(facts, a.inv...)
						goal := a.lenOf(acc.Edges[i], 0).add(a.lenOf(acc, 0), -1).add(konst(1), -1)
						if !a.prove(facts, goal, 0) {
							good = false
						}
					}
					if good {
						return "accumulated output strictly grows towards a loop-invariant bound (running copy of its length)"
					}
				}
			}
		}
		switch op {
		case token.NEQ:
			// for off := 0; len(buf) != off; { ...; off += n } with n >= 1 and off+n <= len(buf) established
			for _, pair := range [][2]ssa.Value{{bo.X, bo.Y}, {bo.Y, bo.X}} {
				phi, ok := stripConv(pair[0]).(*ssa.Phi)
				if !ok || phi.Block() != l.header || !l.invariant(pair[1], 0) {
					continue
				}
				good := true
				for i, p := range l.header.Preds {
					if !l.blocks[p] {
						continue
					}
					facts := append([]cons{}, a.blockFacts(p)...)
					facts = append(facts, a.inv...)
					e := a.linOf(phi.Edges[i], 0)
					if !a.prove(facts, e.add(a.linOf(phi, 0), -1).add(konst(1), -1), 0) || !a.prove(facts, a.linOf(pair[1], 0).add(e, -1), 0) {
						good = false
					}
				}
				if good {
					return "offset strictly increases and never passes the loop-invariant end it is compared with"
				}
			}
		}
		switch op {
		case token.NEQ, token.GTR, token.GEQ:
			// for len(buf) != 0 / > 0 / >= k { ...; buf = buf[n:] } with n >= 1
			for _, side := range []ssa.Value{bo.X, bo.Y} {
				call, ok := side.(*ssa.Call)
				if !ok || calleeName(&call.Call) != "builtin:len" {
					continue
				}
				phi, ok := call.Call.Args[0].(*ssa.Phi)
				if !ok || phi.Block() != l.header {
					continue
				}
				shr := true
				for i, p := range l.header.Preds {
					if !l.blocks[p] {
						continue
					}
					facts := append([]cons{}, a.blockFacts(p)...)
					facts = append(facts, a.inv...)
					goal := a.lenOf(phi, 0).add(a.lenOf(phi.Edges[i], 0), -1).add(konst(1), -1)
					if !a.prove(facts, goal, 0) {
						shr = false
					}
				}
				if shr {
					return "remaining input strictly shrinks on every iteration"
				}
				// or the remainder is what a cutting helper hands back: on success a slice of its
				// argument that starts at least one byte in; on failure the loop is left
				cut := true
				nLatch := 0
				for i, p := range l.header.Preds {
					if !l.blocks[p] {
						continue
					}
					nLatch++
					ex, isEx := phi.Edges[i].(*ssa.Extract)
					if !isEx {
						cut = false
						continue
					}
					hc, isCall := ex.Tuple.(*ssa.Call)
					if !isCall {
						cut = false
						continue
					}
					h := hc.Call.StaticCallee()
					pi := -1
					for j, arg := range hc.Call.Args {
						if arg == ssa.Value(phi) {
							pi = j
						}
					}
					if h == nil || !inModule(h) || len(h.Blocks) == 0 || pi < 0 || pi >= len(h.Params) || !cutsAtLeastOne(c, h, ex.Index, h.Params[pi]) {
						cut = false
						continue
					}
					last := hc.Call.Signature().Results().Len() - 1
					flag := resultValue(hc, last)
					if flag == nil {
						cut = false
						continue
					}
					w := (&Walk{Fn: fn, Assume: failAssumption(flag)}).After(hc)
					for _, lt := range l.latches {
						if w.Reached[lt.Instrs[len(lt.Instrs)-1]] {
							cut = false
						}
					}
				}
				if cut && nLatch > 0 {
					return "remaining input is what a cutting helper leaves: at least one byte shorter on success, and a failure leaves the loop"
				}
			}
		}
	}
	return ""
}

func stripConv(v ssa.Value) ssa.Value {
	for {
		switch x := v.(type) {
		case *ssa.Convert:
			v = x.X
		case *ssa.ChangeType:
			v = x.X
		default:
			return v
		}
	}
}

// ruleLoopsTerminate (C08: "cannot wedge"): every loop in the attacker-reachable scope has a
// recognised termination argument (bounded counter, shrinking input, finite range, or an
// event-driven service loop), or is listed in the reviewed table.
func ruleLoopsTerminate(c *Ctx, r *Report) {
	const rule = "loop-terminates"
	scope := c.attackerScope(r, rule)
	n, okN := 0, 0
	for _, fn := range c.Fns {
		if !scope[fn] {
			continue
		}
		loops := naturalLoops(fn)
		for i, l := range loops {
			n++
			r.Sites += len(l.blocks)
			key := fmt.Sprintf("%s:loop%d", short(fn), i+1)
			pos := c.ipos(l.header.Instrs[len(l.header.Instrs)-1])
			if why := c.classifyLoop(fn, l); why != "" {
				okN++
				r.OK(rule, key, pos, why)
				continue
			}
			if rs, ok := otherReviewed(c, rule, short(fn), fmt.Sprint(i+1)); ok {
				r.OKTrivial(rule, key, pos, "reviewed: "+rs)
				continue
			}
			r.Bad(rule, key, pos, "loop reachable from the network entry points without a recognised termination argument (no strictly monotone counter against a loop-invariant bound, no shrinking input, not a finite range, not an event-driven service loop): hostile input may keep it spinning")
		}
	}
	r.Extra["loops_in_scope"] = n
	r.Extra["loops_classified"] = okN
	_ = types.Typ
}

// cryptobyteLoop: `for !s.Empty() { ... s.ReadX(...) ... }` where a failed read leaves the loop.
func (c *Ctx) cryptobyteLoop(fn *ssa.Function, l *natLoop) string {
	for b := range l.blocks {
		iff, ok := b.Instrs[len(b.Instrs)-1].(*ssa.If)
		if !ok {
			continue
		}
		cond := iff.Cond
		if u, isNot := cond.(*ssa.UnOp); isNot && u.Op == token.NOT {
			cond = u.X
		}
		call, ok := cond.(*ssa.Call)
		if !ok || !strings.HasSuffix(calleeName(&call.Call), "cryptobyte.String).Empty") {
			continue
		}
		if l.blocks[b.Succs[0]] && l.blocks[b.Succs[1]] {
			continue
		}
		recv := call.Call.Args[0]
		if u, isLoad := recv.(*ssa.UnOp); isLoad && u.Op == token.MUL {
			recv = u.X // value receiver: Empty(*s)
		}
		// a consuming read on the same String inside the loop whose failure exits the loop
		for b2 := range l.blocks {
			for _, in := range b2.Instrs {
				rd, ok := in.(*ssa.Call)
				if !ok || len(rd.Call.Args) == 0 {
					continue
				}
				name := calleeName(&rd.Call)
				if rd.Call.Args[0] != recv || (!strings.Contains(name, "cryptobyte.String).Read") && !strings.Contains(name, "cryptobyte.String).Skip")) {
					// or a helper of the module that is handed the String and reports success only
					// after a read on it succeeded
					if !consumingHelper(rd, recv) {
						continue
					}
				}
				domAll := true
				for _, lt := range l.latches {
					if !(rd.Block() == lt || rd.Block().Dominates(lt)) {
						domAll = false
					}
				}
				if !domAll {
					continue
				}
				w := (&Walk{Fn: fn, Assume: failAssumption(rd)}).After(rd)
				exits := true
				for _, lt := range l.latches {
					if w.Reached[lt.Instrs[len(lt.Instrs)-1]] {
						exits = false
					}
				}
				if exits {
					return "cryptobyte.String is consumed by a read in every iteration; a failed read leaves the loop"
				}
			}
		}
	}
	return ""
}

// consumingHelper: the call hands the *cryptobyte.String to a module function with a bool result
// that cannot return true unless one of its reads on that parameter succeeded.
func consumingHelper(call *ssa.Call, str ssa.Value) bool {
	g := call.Call.StaticCallee()
	if g == nil || len(g.Blocks) == 0 || !inModule(g) || g.Signature.Results().Len() != 1 {
		return false
	}
	if bt, ok := g.Signature.Results().At(0).Type().Underlying().(*types.Basic); !ok || bt.Kind() != types.Bool {
		return false
	}
	pi := -1
	for i, a := range call.Call.Args {
		if a == str {
			pi = i
		}
	}
	if pi < 0 || pi >= len(g.Params) {
		return false
	}
	param := g.Params[pi]
	reads := 0
	w := (&Walk{Fn: g, Assume: func(v ssa.Value) (Val, bool) {
		rd, ok := v.(*ssa.Call)
		if !ok || len(rd.Call.Args) == 0 || rd.Call.Args[0] != ssa.Value(param) {
			return unknown, false
		}
		name := calleeName(&rd.Call)
		if strings.Contains(name, "cryptobyte.String).Read") || strings.Contains(name, "cryptobyte.String).Skip") {
			reads++
			return vBool(false), true
		}
		return unknown, false
	}}).FromEntry()
	if reads == 0 || w.overflow || len(w.Returns) == 0 {
		return false
	}
	for _, ro := range w.Returns {
		if len(ro.Vals) != 1 || ro.Vals[0].Kind != 1 || ro.Vals[0].B {
			return false
		}
	}
	return true
}

// appendGrowthLoop: `for len(x.f) <= bound { x.f = append(x.f, ...) }` and
// `for len(x.f) != 0 { ...; x.f = x.f[k:] }` (k >= 1 constant).
func appendGrowthLoop(l *natLoop) string {
	for b := range l.blocks {
		iff, ok := b.Instrs[len(b.Instrs)-1].(*ssa.If)
		if !ok {
			continue
		}
		bo, ok := iff.Cond.(*ssa.BinOp)
		if !ok || (bo.Op != token.NEQ && bo.Op != token.GTR) {
			continue
		}
		call, ok := bo.X.(*ssa.Call)
		if !ok || calleeName(&call.Call) != "builtin:len" {
			continue
		}
		if k, isC := constInt(bo.Y); !isC || k != 0 {
			continue
		}
		_, f, _, ok := fieldLoad(call.Call.Args[0])
		if !ok {
			continue
		}
		// stores to f inside the loop: at least one `f = f[k:]` dominating every latch, no growth
		shrinks, other := false, false
		for b2 := range l.blocks {
			for _, in := range b2.Instrs {
				st, ok := in.(*ssa.Store)
				if !ok {
					continue
				}
				if _, f2, _, ok := fieldOfAddr(st.Addr); !ok || f2 != f {
					continue
				}
				sl, isSl := st.Val.(*ssa.Slice)
				k := int64(0)
				if isSl && sl.Low != nil {
					k, _ = constInt(sl.Low)
				}
				_, f3, _, okL := fieldLoad(func() ssa.Value {
					if isSl {
						return sl.X
					}
					return nil
				}())
				if isSl && okL && f3 == f && k >= 1 {
					dom := true
					for _, lt := range l.latches {
						if !(st.Block() == lt || st.Block().Dominates(lt)) {
							dom = false
						}
					}
					if dom {
						shrinks = true
					}
				} else {
					other = true
				}
			}
		}
		if shrinks && !other {
			return "queue slice loses its head element in every iteration"
		}
	}
	if why := queueHelperLoop(l); why != "" {
		return why
	}
	return appendGrowth2(l)
}

// queueHelperLoop: `for { x, ok := h(); if !ok { return }; ... }` where h is a method of the
// module that answers false without touching the queue, or true after cutting at least one
// element off the front of a queue field (f = f[k:], k >= 1): every turn that goes round has
// shortened the queue.
func queueHelperLoop(l *natLoop) string {
	for b := range l.blocks {
		for _, in := range b.Instrs {
			call, ok := in.(*ssa.Call)
			if !ok {
				continue
			}
			h := call.Call.StaticCallee()
			if h == nil || !inModule(h) || len(h.Blocks) == 0 {
				continue
			}
			res := h.Signature.Results()
			if res.Len() < 1 {
				continue
			}
			if bt, isB := res.At(res.Len() - 1).Type().Underlying().(*types.Basic); !isB || bt.Kind() != types.Bool {
				continue
			}
			dom := true
			for _, lt := range l.latches {
				if !(b == lt || b.Dominates(lt)) {
					dom = false
				}
			}
			if !dom {
				continue
			}
			// a false answer leaves the loop
			flag := resultValue(call, res.Len()-1)
			if flag == nil {
				continue
			}
			w := (&Walk{Fn: call.Parent(), Assume: failAssumption(flag)}).After(call)
			leaves := true
			for _, lt := range l.latches {
				if w.Reached[lt.Instrs[len(lt.Instrs)-1]] {
					leaves = false
				}
			}
			if !leaves {
				continue
			}
			// every true return of h lies behind a store f = f[k:]
			okAll, n := true, 0
			for _, hb := range h.Blocks {
				ret, isRet := hb.Instrs[len(hb.Instrs)-1].(*ssa.Return)
				if !isRet || hb == h.Recover {
					continue
				}
				rv := unspill(ret.Results[len(ret.Results)-1])
				if k, isK := constBool(rv); isK && !k {
					continue
				}
				n++
				cut := false
				for _, hb2 := range h.Blocks {
					for _, in2 := range hb2.Instrs {
						st, isSt := in2.(*ssa.Store)
						if !isSt {
							continue
						}
						_, f, _, okF := fieldOfAddr(st.Addr)
						sl, isSl := st.Val.(*ssa.Slice)
						if !okF || !isSl || sl.Low == nil || sl.High != nil {
							continue
						}
						k, isK := constInt(sl.Low)
						_, f2, _, okL := fieldLoad(sl.X)
						if isK && k >= 1 && okL && f2 == f && (hb2 == hb || hb2.Dominates(hb)) {
							cut = true
						}
					}
				}
				if !cut {
					okAll = false
				}
			}
			if okAll && n > 0 {
				return "a helper takes the head off a queue on every turn that goes round, and its refusal leaves the loop"
			}
		}
	}
	return ""
}

func appendGrowth2(l *natLoop) string {
	for b := range l.blocks {
		iff, ok := b.Instrs[len(b.Instrs)-1].(*ssa.If)
		if !ok {
			continue
		}
		bo, ok := iff.Cond.(*ssa.BinOp)
		if !ok || (bo.Op != token.LEQ && bo.Op != token.LSS) {
			continue
		}
		call, ok := bo.X.(*ssa.Call)
		if !ok || calleeName(&call.Call) != "builtin:len" {
			continue
		}
		_, f, _, ok := fieldLoad(call.Call.Args[0])
		if !ok || !l.invariant(bo.Y, 0) {
			continue
		}
		// every latch is preceded by a store of append(load f, elems...) into f
		for b2 := range l.blocks {
			for _, in := range b2.Instrs {
				st, ok := in.(*ssa.Store)
				if !ok {
					continue
				}
				if _, f2, _, ok := fieldOfAddr(st.Addr); !ok || f2 != f {
					continue
				}
				ap, ok := st.Val.(*ssa.Call)
				if !ok || calleeName(&ap.Call) != "builtin:append" {
					continue
				}
				if _, f3, _, ok := fieldLoad(ap.Call.Args[0]); !ok || f3 != f {
					continue
				}
				domAll := true
				for _, lt := range l.latches {
					if !(st.Block() == lt || st.Block().Dominates(lt)) {
						domAll = false
					}
				}
				if domAll {
					return "slice grows by append in every iteration until its length passes the loop-invariant bound"
				}
			}
		}
	}
	return ""
}

func sizeOfBasic(b *types.Basic) int {
	switch b.Kind() {
	case types.Int8, types.Uint8:
		return 1
	case types.Int16, types.Uint16:
		return 2
	case types.Int32, types.Uint32:
		return 4
	}
	return 8
}

var blocksInReadCache = map[*ssa.Function]bool{}

// blocksInRead: the module function reads a datagram from the transport on every path that
// returns without an error... approximated structurally as: it, or a function it calls (three
// levels), calls ReadFromContext / ReadFrom / Accept of the transport, outside any branch, i.e. in
// a block that dominates all its successful returns.
func blocksInRead(fn *ssa.Function, d int) bool {
	if fn == nil || !inModule(fn) || len(fn.Blocks) == 0 || d > 3 {
		return false
	}
	if v, ok := blocksInReadCache[fn]; ok {
		return v
	}
	blocksInReadCache[fn] = false
	succ := possibleSuccessReturns(fn)
	res := false
	for _, b := range fn.Blocks {
		for _, in := range b.Instrs {
			cl, ok := in.(*ssa.Call)
			if !ok {
				continue
			}
			name := calleeName(&cl.Call)
			hit := strings.HasSuffix(name, ".ReadFromContext") || strings.HasSuffix(name, ".ReadFrom") || strings.HasSuffix(name, ".Accept") || blocksInRead(cl.Call.StaticCallee(), d+1)
			if !hit {
				continue
			}
			all := true
			for _, ri := range succ {
				if !instrDominates(cl, ri) {
					all = false
				}
			}
			if all {
				res = true
			}
		}
	}
	blocksInReadCache[fn] = res
	return res
}

// cutsAtLeastOne: every non-nil value the function returns as result #k is par[e:] with e >= 1.
func cutsAtLeastOne(c *Ctx, h *ssa.Function, k int, par *ssa.Parameter) bool {
	n := 0
	for _, b := range h.Blocks {
		ret, ok := b.Instrs[len(b.Instrs)-1].(*ssa.Return)
		if !ok || b == h.Recover || k >= len(ret.Results) {
			continue
		}
		rv := unspill(ret.Results[k])
		if isNilConst(rv) {
			continue
		}
		sl, isSl := rv.(*ssa.Slice)
		if !isSl || sl.X != ssa.Value(par) || sl.Low == nil || sl.High != nil || !atLeastOne(c, sl.Low, 0, map[ssa.Value]bool{}) {
			return false
		}
		n++
	}
	return n > 0
}

// atLeastOne / nonNegative: cheap sign arguments for cursor arithmetic (constants, zero
// extensions of unsigned values, sums, ors and constant shifts of such, lengths; a loop
// accumulator is judged by its initial value and its step; a parameter of an unexported function
// by the arguments at all of its call sites). Overflow is not considered.
func atLeastOne(c *Ctx, v ssa.Value, d int, busy map[ssa.Value]bool) bool {
	if d > 8 {
		return false
	}
	if k, ok := constInt(v); ok {
		return k >= 1
	}
	switch x := v.(type) {
	case *ssa.BinOp:
		if x.Op == token.ADD {
			return (atLeastOne(c, x.X, d+1, busy) && nonNegative(c, x.Y, d+1, busy)) || (atLeastOne(c, x.Y, d+1, busy) && nonNegative(c, x.X, d+1, busy))
		}
	case *ssa.Phi:
		if busy[x] {
			return false
		}
		busy[x] = true
		defer delete(busy, x)
		for _, e := range x.Edges {
			if !atLeastOne(c, e, d+1, busy) {
				return false
			}
		}
		return len(x.Edges) > 0
	case *ssa.Parameter:
		return c.allResolved(x, func(a ssa.Value) bool {
			if a == ssa.Value(x) {
				return false
			}
			k, ok := constInt(a)
			return ok && k >= 1
		})
	}
	return false
}

func nonNegative(c *Ctx, v ssa.Value, d int, busy map[ssa.Value]bool) bool {
	if d > 10 {
		return false
	}
	if k, ok := constInt(v); ok {
		return k >= 0
	}
	switch x := v.(type) {
	case *ssa.Convert:
		sb, ssigned, sok := isIntLike(x.X.Type())
		db, _, dok := isIntLike(x.Type())
		if sok && dok && !ssigned && db > sb {
			return true // zero extension of an unsigned value into a wider type
		}
		if sok && dok && db >= sb {
			return nonNegative(c, x.X, d+1, busy)
		}
	case *ssa.BinOp:
		switch x.Op {
		case token.OR, token.ADD, token.AND:
			return nonNegative(c, x.X, d+1, busy) && nonNegative(c, x.Y, d+1, busy)
		case token.SHL, token.MUL:
			if k, ok := constInt(x.Y); ok && k >= 0 && k < 32 {
				return nonNegative(c, x.X, d+1, busy)
			}
		}
	case *ssa.Phi:
		if busy[x] {
			return true // the accumulator itself, assumed on the way round
		}
		busy[x] = true
		defer delete(busy, x)
		for _, e := range x.Edges {
			if !nonNegative(c, e, d+1, busy) {
				return false
			}
		}
		return len(x.Edges) > 0
	case *ssa.Call:
		if calleeName(&x.Call) == "builtin:len" {
			return true
		}
	case *ssa.UnOp:
		if bt, ok := x.Type().Underlying().(*types.Basic); ok && bt.Info()&types.IsUnsigned != 0 {
			return true
		}
	case *ssa.Parameter:
		return c.allResolved(x, func(a ssa.Value) bool {
			k, ok := constInt(a)
			return ok && k >= 0
		})
	}
	return false
}
