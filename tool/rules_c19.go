package main

import (
	"fmt"
	"go/token"
	"go/types"
	"regexp"
	"sort"
	"strings"

	"golang.org/x/tools/go/ssa"
)

func structFields(t types.Type) []string {
	st, ok := derefType(t).Underlying().(*types.Struct)
	if !ok {
		return nil
	}
	var out []string
	for i := 0; i < st.NumFields(); i++ {
		out = append(out, fieldName(st.Field(i)))
	}
	return out
}

// returnedLiteral finds the composite literal cell returned (result idx) on the success path.
func returnedLiteral(fn *ssa.Function, idx int, typeName string) *ssa.Alloc {
	for _, b := range fn.Blocks {
		ret, ok := b.Instrs[len(b.Instrs)-1].(*ssa.Return)
		if !ok || idx >= len(ret.Results) {
			continue
		}
		v := unspill(ret.Results[idx])
		if al := allocOf(v); al != nil && namedOf(al.Type()) == typeName {
			return al
		}
	}
	return nil
}

// fieldsLoadedFrom: set of fields of the struct (pointed to) by base that are loaded in fn.
func fieldsLoadedFrom(fn *ssa.Function, base ssa.Value) map[string][]ssa.Value {
	out := map[string][]ssa.Value{}
	for _, b := range fn.Blocks {
		for _, in := range b.Instrs {
			switch x := in.(type) {
			case *ssa.FieldAddr:
				if x.X == base {
					_, f, _, _ := fieldOfAddr(x)
					for _, ref := range *x.Referrers() {
						if u, ok := ref.(*ssa.UnOp); ok {
							out[f] = append(out[f], u)
						} else if _, isStore := ref.(*ssa.Store); !isStore {
							// address passed on (method call on the field etc.): counts as a use
							if v, ok := ref.(ssa.Value); ok {
								out[f] = append(out[f], v)
							} else {
								out[f] = append(out[f], x)
							}
						}
					}
				}
			case *ssa.Field:
				if x.X == base {
					_, f, _, _ := fieldLoad(x)
					out[f] = append(out[f], x)
				}
			}
		}
	}
	return out
}

// ruleStateCoverage (C19, C01-5, C07-4): the public State snapshot, its serialised form and
// the inverse expansion cover every field, each field taken from its own source.
func ruleStateCoverage(c *Ctx, r *Report) {
	const rule = "state-coverage"
	stFields := structFields(c.Named("", "State"))
	serFields := structFields(c.Named("", "serializedState"))
	if len(stFields) < 15 || len(serFields) < 15 {
		r.Unk(rule, "types", "", "State / serializedState struct types not found")
		return
	}
	// fields that exist for DTLS 1.3 only: set by the DTLS 1.3 snapshot, not by the DTLS 1.2 one. A
	// DTLS 1.3 state is refused at all four serialisation entry points (checked below), so such a
	// field has no place in the DTLS 1.2 snapshot, the serialised form or the import.
	only13 := map[string]bool{}
	if g12, g13 := c.Fn("dtls.generateState"), c.Fn("dtls.generateState13"); g12 != nil && g13 != nil {
		a12, a13 := returnedLiteral(g12, 0, "dtls.State"), returnedLiteral(g13, 0, "dtls.State")
		if a12 != nil && a13 != nil {
			s12, s13 := litFields(a12), litFields(a13)
			for f := range s13 {
				if _, in12 := s12[f]; !in12 {
					only13[f] = true
				}
			}
		}
	}
	// --- generateState: every State field set, from its own source
	src12 := map[string][]string{
		"localEpoch":            {"call (*internal/state.Common).LocalEpoch"},
		"remoteEpoch":           {"call (*internal/state.Common).RemoteEpoch"},
		"localRandom":           {"load internal/state.Common.LocalRandom"},
		"remoteRandom":          {"load internal/state.Common.RemoteRandom"},
		"masterSecret":          {"load internal/state.State12.MasterSecret"},
		"sequenceNumber":        {"call sync/atomic.LoadUint64", "const 0:uint64"},
		"remoteSequenceNumber":  {"call sync/atomic.LoadUint64", "const 0:uint64"},
		"srtpProtectionProfile": {"call (*internal/state.Common).SRTPProtectionProfile"},
		"peerSRTPMKI":           {"load internal/state.Common.RemoteSRTPMasterKeyIdentifier", "const nil:[]byte"},
		"localConnectionID":     {"call (*internal/state.Common).LocalConnectionID"},
		"remoteConnectionID":    {"load internal/state.Common.RemoteConnectionID"},
		"rrcNegotiated":         {"load internal/state.Common.RRCNegotiated"},
		"isClient":              {"load internal/state.Common.IsClient"},
		"version":               {"load *Version1_2", "global Version1_2"},
		"CipherSuiteID":         {"call iface:internal/ciphersuite.CipherSuite.ID"},
		"PeerCertificates":      {"load internal/state.Common.PeerCertificates"},
		"IdentityHint":          {"load internal/state.Common.IdentityHint"},
		"SessionID":             {"load internal/state.Common.SessionID"},
		"NegotiatedProtocol":    {"load internal/state.Common.NegotiatedProtocol"},
	}
	for _, gen := range []struct {
		fn      string
		missing map[string]string // fields allowed to be absent, with reason
	}{
		{"dtls.generateState", nil},
		{"dtls.generateState13", map[string]string{"peerSRTPMKI": "not exported for DTLS 1.3", "masterSecret": "", "remoteSequenceNumber": "a DTLS 1.3 state cannot be serialised, so it needs no receive position"}},
	} {
		fn := c.need(r, rule, gen.fn)
		if fn == nil {
			continue
		}
		r.Sites += len(fn.Blocks)
		al := returnedLiteral(fn, 0, "dtls.State")
		if al == nil {
			r.Unk(rule, short(fn), c.pos(fn.Pos()), "returned State literal not found")
			continue
		}
		set := litFields(al)
		for _, f := range stFields {
			v, ok := set[f]
			key := short(fn) + ":" + f
			if only13[f] && (gen.fn == "dtls.generateState" || ok) {
				continue // DTLS 1.3 only; its source is decided by the exporter obligations
			}
			if !ok {
				if why, allowed := gen.missing[f]; allowed && why != "" {
					r.Note(rule, key, c.ipos(al), "not set: "+why)
					continue
				}
				if f == "masterSecret" && gen.fn == "dtls.generateState13" {
					// the exporter would be keyed by an empty secret unless ExportKeyingMaterial refuses 1.3
					c.exporter13(r, al)
					continue
				}
				r.Bad(rule, key, c.ipos(al), "the snapshot does not set State."+f+": the value is lost on export / for ConnectionState")
				continue
			}
			if gen.fn != "dtls.generateState" {
				r.OKTrivial(rule, key, c.ipos(al), "set")
				continue
			}
			want := src12[f]
			ls := c.OriginsThrough(v, 0)
			var descs []string
			okAll := len(ls) > 0
			for _, l := range ls {
				d := c.describe(l)
				if ld, isLoad := l.(*ssa.UnOp); isLoad {
					if g, isG := ld.X.(*ssa.Global); isG {
						d = "global " + g.Name()
					}
				}
				descs = append(descs, d)
				hit := false
				for _, w := range want {
					if d == w || strings.HasPrefix(d, w) {
						hit = true
					}
				}
				if !hit {
					okAll = false
				}
			}
			sort.Strings(descs)
			r.Check(okAll, rule, key, c.ipos(al), "from "+strings.Join(dedup(descs), ", "), "State."+f+" is not taken (only) from its own source "+strings.Join(want, " | ")+": got "+strings.Join(dedup(descs), ", "))
		}
	}
	// --- serialize: every serializedState field set from the State field of the same name
	if fn := c.need(r, rule, "(*dtls.State).serialize"); fn != nil {
		r.Sites += len(fn.Blocks)
		al := returnedLiteral(fn, 0, "dtls.serializedState")
		if al == nil {
			r.Unk(rule, short(fn), c.pos(fn.Pos()), "returned serializedState literal not found")
		} else {
			set := litFields(al)
			for _, f := range serFields {
				v, ok := set[f]
				key := short(fn) + ":" + f
				if !ok {
					r.Bad(rule, key, c.ipos(al), "serialize does not write serializedState."+f)
					continue
				}
				want := strings.ToLower(f[:1]) + f[1:]
				if f == "CipherSuiteID" || f == "PeerCertificates" || f == "IdentityHint" || f == "SessionID" || f == "NegotiatedProtocol" {
					want = f
				}
				if f == "SRTPProtectionProfile" {
					want = "srtpProtectionProfile"
				}
				if f == "PeerSRTPMKI" {
					want = "peerSRTPMKI"
				}
				if f == "RRCNegotiated" {
					want = "rrcNegotiated"
				}
				good := false
				var descs []string
				for _, l := range c.OriginsThrough(v, 0) {
					descs = append(descs, c.describe(l))
					if isFieldLoad(l, "dtls.State", want) {
						good = true
					}
					// randoms go through MarshalFixed on the field address; version may be defaulted
					if call, ok := l.(*ssa.Call); ok && len(call.Call.Args) > 0 {
						if _, ff, _, ok := fieldOfAddr(call.Call.Args[0]); ok && ff == want {
							good = true
						}
					}
				}
				if f == "Version" {
					good = anyLeaf(c.OriginsThrough(v, 0), func(l ssa.Value) bool { return isFieldLoad(l, "dtls.State", "version") })
				}
				r.Check(good, rule, key, c.ipos(al), "from State."+want, "serializedState."+f+" does not come from State."+want+": "+strings.Join(descs, ", "))
			}
		}
	}
	// --- deserialize: reads every serialised field and writes every State field
	if fn := c.need(r, rule, "(*dtls.State).deserialize"); fn != nil {
		// the import may be cut into methods of the State that deserialize calls on itself and
		// hands the serialised form (or its address): they are part of it
		unit := []*ssa.Function{fn}
		isSer := func(t types.Type) bool { return namedOf(derefType(t)) == "dtls.serializedState" }
		for d := 0; d < 2; d++ {
			for _, u := range unit {
				for _, call := range findCalls(u, func(string) bool { return true }) {
					g := call.Call.StaticCallee()
					if g == nil || g.Pkg != fn.Pkg || len(g.Blocks) == 0 || g.Signature.Recv() == nil || len(call.Call.Args) == 0 {
						continue
					}
					if p, isP := call.Call.Args[0].(*ssa.Parameter); !isP || paramIndex(p) != 0 || namedOf(derefType(g.Params[0].Type())) != "dtls.State" {
						continue
					}
					takesSer, known := false, false
					for _, gp := range g.Params[1:] {
						if isSer(gp.Type()) {
							takesSer = true
						}
					}
					for _, x := range unit {
						if x == g {
							known = true
						}
					}
					if takesSer && !known {
						unit = append(unit, g)
					}
				}
			}
		}
		loaded := map[string][]ssa.Value{}
		for _, g := range unit {
			r.Sites += len(g.Blocks)
			for _, gp := range g.Params[1:] {
				if !isSer(gp.Type()) {
					continue
				}
				for k, v := range fieldsLoadedFrom(g, gp) {
					loaded[k] = append(loaded[k], v...)
				}
			}
			// struct parameters are spilled to a local cell: find it
			for _, b := range g.Blocks {
				for _, in := range b.Instrs {
					if al, ok := in.(*ssa.Alloc); ok && isSer(al.Type()) {
						for k, v := range fieldsLoadedFrom(g, al) {
							loaded[k] = append(loaded[k], v...)
						}
					}
				}
			}
		}
		for _, f := range serFields {
			r.Check(len(loaded[f]) > 0, rule, short(fn)+":reads:"+f, c.pos(fn.Pos()), "read", "deserialize never reads serializedState."+f+": the exported value is dropped on import")
		}
		written := map[string]bool{}
		var unitBlocks []*ssa.BasicBlock
		for _, g := range unit {
			unitBlocks = append(unitBlocks, g.Blocks...)
		}
		for _, b := range unitBlocks {
			for _, in := range b.Instrs {
				if st, ok := in.(*ssa.Store); ok {
					if o, f, _, ok := fieldOfAddr(st.Addr); ok && o == "dtls.State" {
						written[f] = true
					}
				}
				if call, ok := in.(*ssa.Call); ok && len(call.Call.Args) > 0 {
					if o, f, _, ok := fieldOfAddr(call.Call.Args[0]); ok && o == "dtls.State" {
						written[f] = true // method with pointer receiver on the field (UnmarshalFixed)
					}
				}
			}
		}
		for _, f := range stFields {
			if only13[f] {
				continue
			}
			r.Check(written[f], rule, short(fn)+":writes:"+f, c.pos(fn.Pos()), "written", "deserialize never writes State."+f)
		}
		// the imported values are taken as they are: no arithmetic on the way in (the record counter in
		// particular must keep a value beyond 2^48-1, which is what makes the next write fail)
		for _, b := range unitBlocks {
			for _, in := range b.Instrs {
				st, ok := in.(*ssa.Store)
				if !ok {
					continue
				}
				o, f, _, okF := fieldOfAddr(st.Addr)
				if !okF || o != "dtls.State" {
					continue
				}
				v := stripConv(st.Val)
				if _, _, isInt := isIntLike(v.Type()); !isInt {
					continue
				}
				_, isArith := v.(*ssa.BinOp)
				if cl, isCall := v.(*ssa.Call); isCall && f == "sequenceNumber" {
					// the send counter is the next number to use: clamped, an exhausted epoch
					// comes back with its last number free again
					if nm := calleeName(&cl.Call); nm == "builtin:min" || nm == "builtin:max" {
						isArith = true
					}
				}
				r.Check(!isArith, rule, short(fn)+":verbatim:"+f, c.ipos(in), "State."+f+" is the serialised value as it is", "State."+f+" is computed from the serialised value ("+shapeOf(v, 0)+") instead of being taken as it is: an exported counter at or beyond its limit can come back as a small, already used value")
			}
		}
	}
	// --- generateInternalState consumes every State field
	if fn := c.need(r, rule, "(*dtls.State).generateInternalState"); fn != nil {
		r.Sites += len(fn.Blocks)
		loaded := fieldsLoadedFrom(fn, fn.Params[0])
		// the import may be cut into methods of the State that the importer calls on itself
		importUnit := []*ssa.Function{fn}
		for _, g := range c.unitFuncs(fn) {
			if g == fn || g.Signature.Recv() == nil || len(g.Params) == 0 {
				continue
			}
			onSelf := false
			for _, u := range c.unitFuncs(fn) {
				for _, call := range findCalls(u, nameIs(short(g))) {
					if p, isP := call.Call.Args[0].(*ssa.Parameter); isP && namedOf(derefType(p.Type())) == "dtls.State" {
						onSelf = true
					}
				}
			}
			if !onSelf || namedOf(derefType(g.Params[0].Type())) != "dtls.State" {
				continue
			}
			importUnit = append(importUnit, g)
			for f, us := range fieldsLoadedFrom(g, g.Params[0]) {
				loaded[f] = append(loaded[f], us...)
			}
		}
		inImport := map[*ssa.Function]bool{}
		for _, g := range importUnit {
			inImport[g] = true
		}
		for _, f := range stFields {
			if only13[f] {
				continue
			}
			key := short(fn) + ":consumes:" + f
			uses := loaded[f]
			if len(uses) == 0 {
				r.Bad(rule, key, c.pos(fn.Pos()), "the import path never reads State."+f+": the resumed connection loses it (for masterSecret: the exporter and rekeying of a resumed connection run on an empty secret)")
				continue
			}
			// the value must reach a store into the internal state or a call on it, not just a guard
			reaches := false
			for _, u := range uses {
				if flowsToStateSink(u, 0) {
					reaches = true
				}
			}
			if f == "version" || f == "CipherSuiteID" {
				// guards / registry lookup
				r.OKTrivial(rule, key, c.pos(fn.Pos()), "read for the version guard / suite lookup")
				continue
			}
			r.Check(reaches, rule, key, c.pos(fn.Pos()), "flows into the internal state", "State."+f+" is read on import but never stored into the internal state")
		}
		// the master secret lands in State12.MasterSecret
		okMS := false
		for _, st := range c.StoresTo(tSt12, "MasterSecret") {
			if inImport[st.Fn] && allLeaves(c.Origins(st.Val, 0), func(v ssa.Value) bool { return isFieldLoad(v, "dtls.State", "masterSecret") }) {
				okMS = true
			}
		}
		r.Check(okMS, "exporter-secret", short(fn), c.pos(fn.Pos()), "resumed State12.MasterSecret = State.masterSecret", "the resumed connection's master secret is not restored from the serialised state: its exporter is keyed by nothing")
		// counter restored at the index of the serialised epoch
		var importBlocks []*ssa.BasicBlock
		for _, g := range importUnit {
			importBlocks = append(importBlocks, g.Blocks...)
		}
		for _, b := range importBlocks {
			for _, in := range b.Instrs {
				call, ok := in.(*ssa.Call)
				if !ok || calleeName(&call.Call) != "sync/atomic.StoreUint64" {
					continue
				}
				ia, ok := call.Call.Args[0].(*ssa.IndexAddr)
				if !ok {
					continue
				}
				if addrIntoField(ia, tCom, "RemoteSequenceNumber") {
					// the receive position: restored at the serialised remote epoch
					idxR := allLeaves(c.Origins(ia.Index, 0), func(v ssa.Value) bool { return isFieldLoad(v, "dtls.State", "remoteEpoch") })
					r.Check(idxR, "seq-carried", short(fn)+":receive-position", c.ipos(call), "receive position restored at RemoteSequenceNumber[State.remoteEpoch]", "the serialised receive position is restored at an index that is not the serialised remote epoch")
					continue
				}
				idxOK := allLeaves(c.Origins(ia.Index, 0), func(v ssa.Value) bool { return isFieldLoad(v, "dtls.State", "localEpoch") })
				r.Check(idxOK, "seq-carried", short(fn), c.ipos(call), "counter restored at LocalSequenceNumber[State.localEpoch]", "the serialised record counter is restored at an index that is not the serialised local epoch")
			}
		}
	}
	// the exported counter is the counter of the current epoch
	if fn := c.Fn("dtls.generateState"); fn != nil {
		for _, ci := range callsIn(fn, nameIs("sync/atomic.LoadUint64")) {
			call := ci.(*ssa.Call)
			ia, ok := call.Call.Args[0].(*ssa.IndexAddr)
			if !ok {
				continue
			}
			if addrIntoField(ia, tCom, "RemoteSequenceNumber") {
				idxR := allLeaves(c.Origins(ia.Index, 0), func(v ssa.Value) bool { return isCallResult(v, nameHasSuffix("Common).RemoteEpoch")) })
				r.Check(idxR, "seq-carried", short(fn)+":receive-position", c.ipos(call), "exported receive position = RemoteSequenceNumber[RemoteEpoch()]", "the exported receive position is not the one of the current remote epoch")
				continue
			}
			idxOK := allLeaves(c.Origins(ia.Index, 0), func(v ssa.Value) bool { return isCallResult(v, nameHasSuffix("Common).LocalEpoch")) })
			r.Check(idxOK && addrIntoField(ia, tCom, "LocalSequenceNumber"), "seq-carried", short(fn), c.ipos(call), "exported counter = LocalSequenceNumber[LocalEpoch()]", "the exported record counter is not the counter of the current local epoch")
		}
	}
	// exporter keyed by the master secret
	if fn := c.need(r, "exporter-secret", "(*dtls.State).ExportKeyingMaterial"); fn != nil {
		for _, ci := range callsIn(fn, nameIs(pkgPRF+".PHash")) {
			call := ci.(*ssa.Call)
			r.Check(isFieldLoad(call.Call.Args[0], "dtls.State", "masterSecret"), "exporter-secret", short(fn), c.ipos(call), "exporter PRF keyed by State.masterSecret", "the keying-material exporter is not keyed by the master secret")
			l, err := c.LayoutOf(call.Call.Args[1], call, 0)
			if err == nil {
				// seed = label + client_random + server_random, role-mirrored: checked through the two branches
				_ = l
			}
		}
		// role mirror of the seed
		c.exporterSeedMirror(r, fn)
	}
}

// flowsToStateSink: the value (transitively through conversions, clones, calls' arguments)
// is stored into memory or passed to a call.
func flowsToStateSink(v ssa.Value, d int) bool {
	if d > 5 || v == nil {
		return false
	}
	refs := v.Referrers()
	if refs == nil {
		return false
	}
	for _, ref := range *refs {
		switch x := ref.(type) {
		case *ssa.Store:
			if x.Val == v {
				return true
			}
		case *ssa.Call:
			name := calleeName(&x.Call)
			if strings.HasSuffix(name, "Version).Equal") || name == "builtin:len" {
				continue
			}
			if name == "bytes.Clone" || strings.HasPrefix(name, "builtin:") {
				if flowsToStateSink(x, d+1) {
					return true
				}
				continue
			}
			return true
		case *ssa.BinOp, *ssa.If:
			continue
		case ssa.Value:
			if flowsToStateSink(x, d+1) {
				return true
			}
		}
	}
	return false
}

// exporter13: generateState13 sets no master secret; the exporter must then refuse DTLS 1.3
// states (or be keyed by the exporter master secret).
func (c *Ctx) exporter13(r *Report, al *ssa.Alloc) {
	fn := c.Fn("(*dtls.State).ExportKeyingMaterial")
	if fn == nil {
		r.Unk("exporter-secret", "dtls.generateState13", c.ipos(al), "ExportKeyingMaterial not found")
		return
	}
	// is the PHash call unreachable when version == 1.3?
	w := (&Walk{Fn: fn, Assume: assumeAll(version13Atom(true))}).FromEntry()
	reach := false
	for _, ci := range callsIn(fn, nameIs(pkgPRF+".PHash")) {
		if w.Reached[ci] {
			reach = true
		}
	}
	hasGuard := false
	for _, b := range fn.Blocks {
		for _, in := range b.Instrs {
			if v, ok := in.(ssa.Value); ok && version13Atom(true).match(v) {
				hasGuard = true
			}
		}
	}
	if r.Prop != "C07" {
		r.Note("exporter-secret", "dtls.generateState13:masterSecret", c.ipos(al), "DTLS 1.3 snapshot carries no exporter secret (decided under C07)")
		return
	}
	// ... or, better, keyed by the connection's exporter_master_secret (RFC 8446 7.5): the snapshot
	// takes it from the key schedule, and with the version bound to 1.3 the exporter reaches
	// Derive-Secret over that field and an expansion under the label "exporter"
	if hasGuard && !reach {
		fields := litFields(al)
		fromSchedule := false
		if v, ok := fields["exporterMasterSecret"]; ok {
			for _, l := range c.OriginsThrough(v, 0) {
				if cl, isCall := l.(*ssa.Call); isCall && calleeName(&cl.Call) == "bytes.Clone" {
					for _, l2 := range c.Origins(cl.Call.Args[0], 0) {
						if _, f, _, ok := fieldLoad(l2); ok && f == "ExporterMasterSecret" {
							fromSchedule = true
						}
					}
				}
				if _, f, _, ok := fieldLoad(l); ok && f == "ExporterMasterSecret" {
					fromSchedule = true
				}
			}
		}
		w13 := (&Walk{Fn: fn, Follow: followSamePkg(fn), Assume: assumeAll(version13Atom(true))}).FromEntry()
		keyed, labelled := false, false
		for in := range w13.Reached {
			cl, ok := in.(*ssa.Call)
			if !ok {
				continue
			}
			switch nm := calleeName(&cl.Call); {
			case strings.HasSuffix(nm, "keyschedule.DeriveSecret") && len(cl.Call.Args) >= 2:
				if _, f, _, ok := fieldLoad(cl.Call.Args[1]); ok && f == "exporterMasterSecret" {
					keyed = true
				}
			case strings.HasSuffix(nm, "keyschedule.HkdfExpandLabel") && len(cl.Call.Args) >= 3:
				if k, isK := cl.Call.Args[2].(*ssa.Const); isK && k.Value != nil && k.Value.ExactString() == `"exporter"` {
					labelled = true
				}
			}
		}
		if fromSchedule || keyed || labelled {
			r.Check(fromSchedule && keyed && labelled, "exporter-secret", "dtls.generateState13:exporter13", c.ipos(al), "the DTLS 1.3 exporter is keyed by the key schedule's exporter_master_secret (Derive-Secret, then the label exporter)", fmt.Sprintf("the DTLS 1.3 exporter is not the RFC 8446 7.5 construction over the connection's exporter_master_secret (secret from the key schedule: %v, Derive-Secret over it: %v, expansion under the label exporter: %v)", fromSchedule, keyed, labelled))
		}
	}
	r.Check(hasGuard && !reach, "exporter-secret", "dtls.generateState13:masterSecret", c.ipos(al), "DTLS 1.3 states are refused by the exporter", "the DTLS 1.3 snapshot carries no secret and ExportKeyingMaterial has no DTLS 1.3 guard: exported keying material is PRF(empty secret, label + public hello randoms), computable by any observer; the derived exporter_master_secret is never used")
}

// version13Atom: `x.Equal(protocol.Version1_3)`.
func version13Atom(val bool) atomAssume {
	return atomAssume{func(v ssa.Value) bool {
		call, ok := v.(*ssa.Call)
		if !ok || !strings.HasSuffix(calleeName(&call.Call), "Version).Equal") || len(call.Call.Args) != 2 {
			return false
		}
		for _, a := range call.Call.Args {
			if u, ok := a.(*ssa.UnOp); ok {
				if g, ok := u.X.(*ssa.Global); ok && g.Name() == "Version1_3" {
					return true
				}
			}
		}
		return false
	}, vBool(val)}
}

// marshalFixedOfField: the descriptor of x.<field>.MarshalFixed(), whatever the receiver is called.
var marshalFixedOfField = regexp.MustCompile(`\(\*pkg/protocol/handshake\.Random\)\.MarshalFixed\(&[\w.()*]+\.(\w+)\)`)

func (c *Ctx) exporterSeedMirror(r *Report, fn *ssa.Function) {
	calls := callsIn(fn, nameIs(pkgPRF+".PHash"))
	if len(calls) != 1 {
		return
	}
	call := calls[0].(*ssa.Call)
	// RFC 5705 4: label + client_random + server_random, whichever side exports
	want := map[bool]string{
		true:  "label[*] localRandom[31..0] remoteRandom[31..0]",
		false: "label[*] remoteRandom[31..0] localRandom[31..0]",
	}
	var got []string
	for _, role := range []bool{true, false} {
		as := []atomAssume{{mLoad("dtls.State", "isClient"), vBool(role)}}
		var l []seg
		var err *layoutErr
		withAssume(as, func() { l, err = c.pathLayout(fn, as, call.Call.Args[1], call, 0) })
		key := fmt.Sprintf("%s:isClient=%v", short(fn), role)
		if err != nil {
			r.Unk("exporter-seed", key, c.ipos(call), "seed layout not extractable: "+err.msg)
			continue
		}
		g := layoutString(l)
		got = append(got, g)
		// reduce the random descriptors to the State field they are marshalled from
		norm := g
		norm = marshalFixedOfField.ReplaceAllString(norm, "$1")
		r.Check(norm == want[role], "exporter-seed", key, c.ipos(call), "seed = "+g, "exporter seed deviates from RFC 5705 4 (label + client_random + server_random): got ["+norm+"] want ["+want[role]+"]")
	}
	r.Extra["exporter_seed_layouts"] = got
}

// pathLayout extracts the byte layout of v as it is at instruction `at` of fn on the paths
// allowed by the assumptions `as` (phis are resolved by the path taken; all such paths must
// agree). A value produced by a module helper is described from the helper's return value,
// explored under the same assumptions.
func (c *Ctx) pathLayout(fn *ssa.Function, as []atomAssume, v ssa.Value, at ssa.Instruction, depth int) ([]seg, *layoutErr) {
	if depth > 3 {
		return nil, &layoutErr{"helper nesting too deep"}
	}
	if call, ok := v.(*ssa.Call); ok {
		if g := call.Call.StaticCallee(); g != nil && len(g.Blocks) > 0 && g.Pkg != nil && strings.HasPrefix(g.Pkg.Pkg.Path(), modPath) && g.Signature.Results().Len() == 1 {
			w := (&Walk{Fn: g, Assume: assumeAll(as...)}).FromEntry()
			var out []seg
			seen := ""
			for _, ro := range w.Returns {
				var l []seg
				var err *layoutErr
				withPath(w, func() { l, err = c.pathLayoutAt(ro.Raw[0], ro.Ret, ro.RawEnv) })
				if err != nil {
					return nil, err
				}
				s := layoutString(l)
				if seen != "" && s != seen {
					return nil, &layoutErr{"helper " + short(g) + " returns different layouts on different paths: [" + seen + "] / [" + s + "]"}
				}
				seen, out = s, l
			}
			if seen == "" {
				return nil, &layoutErr{"helper " + short(g) + " has no return under the assumptions"}
			}
			return out, nil
		}
	}
	var out []seg
	seen := ""
	var lerr *layoutErr
	w := &Walk{Fn: fn, Assume: assumeAll(as...)}
	w.VisitRaw = func(in ssa.Instruction, _ Env, raw map[*ssa.Phi]ssa.Value) bool {
		if in != at || lerr != nil {
			return true
		}
		var l []seg
		var err *layoutErr
		withPath(w, func() { l, err = c.pathLayoutAt(v, at, raw) })
		if err != nil {
			lerr = err
			return true
		}
		s := layoutString(l)
		if seen != "" && s != seen {
			lerr = &layoutErr{"different layouts on different paths: [" + seen + "] / [" + s + "]"}
		}
		seen, out = s, l
		return true
	}
	w.FromEntry()
	if lerr != nil {
		return nil, lerr
	}
	if seen == "" {
		return nil, &layoutErr{"the use is unreachable under the assumptions"}
	}
	return out, nil
}

func (c *Ctx) pathLayoutAt(v ssa.Value, at ssa.Instruction, raw map[*ssa.Phi]ssa.Value) (l []seg, err *layoutErr) {
	withPhis(raw, func() {
		if p, ok := v.(*ssa.Phi); ok {
			if rv, ok := raw[p]; ok {
				v = rv
			}
		}
		l, err = c.LayoutOf(v, at, 0)
	})
	return
}

// ruleVersion13Refused (C19): DTLS 1.3 state is refused by serialize, UnmarshalBinary,
// generateInternalState and generateState.
func ruleVersion13Refused(c *Ctx, r *Report) {
	const rule = "dtls13-state-refused"
	for _, name := range []string{"(*dtls.State).serialize", "(*dtls.State).UnmarshalBinary", "(*dtls.State).generateInternalState", "dtls.generateState"} {
		fn := c.need(r, rule, name)
		if fn == nil {
			continue
		}
		r.Sites += len(fn.Blocks)
		at := version13Atom(true)
		has := false
		for _, b := range fn.Blocks {
			for _, in := range b.Instrs {
				if v, ok := in.(ssa.Value); ok && at.match(v) {
					has = true
				}
			}
		}
		if !has {
			r.Bad(rule, short(fn), c.pos(fn.Pos()), "no comparison against protocol.Version1_3: DTLS 1.3 state is not refused here")
			continue
		}
		w := (&Walk{Fn: fn, Assume: assumeAll(at)}).FromEntry()
		succ := false
		for _, ro := range w.Returns {
			res := retResults(ro.Ret)
			if isNilConst(res[len(res)-1]) {
				succ = true
			}
		}
		r.Check(!succ && len(w.Returns) > 0, rule, short(fn), c.pos(fn.Pos()), "version 1.3 leads only to error returns", "a DTLS 1.3 state can pass through "+name+" with a nil error")
	}
	// resumed connections start in the finished state at the role's last flight
	if fn := c.need(r, "resume-start", "(*dtls.Conn).prepareHandshakeStart12"); fn != nil {
		st := c.enumConsts("internal/handshake", "State")
		fl := c.enumConsts(pkgF12, "Flight")
		for _, role := range []bool{true, false} {
			rl := role
			w := &Walk{Fn: fn, Follow: followSamePkgExcept(fn, "restoreReplayWindow"), Assume: assumeAll(
				atomAssume{mLoad(tCfg, "ResumeState"), vNil(false)},
				atomAssume{mLoad(tCom, "IsClient"), vBool(rl)},
			)}
			// the handshakeStart value is followed along each path: the last constant stored into
			// each of its fields (a literal per return, or one value adjusted per role)
			w.Init = constFields{}
			w.Step = func(in ssa.Instruction, st PathState, _ map[*ssa.Phi]ssa.Value) bool {
				if store, ok := in.(*ssa.Store); ok {
					if o, f, _, ok := fieldOfAddr(store.Addr); ok && o == "dtls.handshakeStart" {
						if k, isK := constInt(store.Val); isK {
							st.(constFields)[f] = k
						} else {
							delete(st.(constFields), f)
						}
					}
				}
				return true
			}
			w.FromEntry()
			good := len(w.Returns) == 1
			desc := ""
			if good {
				f := map[string]ssa.Value{}
				cf, _ := w.Returns[0].St.(constFields)
				_ = f
				fs, okS := cf["fsmState"]
				fv, okF := cf["flight12"]
				if !okS || !okF {
					fs, fv = -1, -1
				}
				wantF := fl["Flight6"]
				if rl {
					wantF = fl["Flight5"]
				}
				desc = fmt.Sprintf("fsmState=%d flight=%d", fs, fv)
				good = fs == st["StateFinished"] && fv == wantF
			}
			r.Check(good, "resume-start", fmt.Sprintf("%s:isClient=%v", short(fn), rl), c.pos(fn.Pos()), "resumed connection starts finished at the role's last flight ("+desc+")", "a resumed connection does not start in StateFinished at the role's final flight: "+desc)
		}
	}
}

// ruleSnapshotLive (C09 / C19): ConnectionState hands out a snapshot taken from the live state
// during this very call. The snapshot carries the record sequence counter that an importer
// continues from; a snapshot served from a cache would make a resumed connection reuse
// (epoch, sequence) pairs the original already emitted.
func ruleSnapshotLive(c *Ctx, r *Report) {
	const rule = "snapshot-live"
	fn := c.need(r, rule, "(*dtls.Conn).ConnectionState")
	if fn == nil {
		return
	}
	r.Sites += len(fn.Blocks)
	n := 0
	for _, b := range fn.Blocks {
		ret, ok := b.Instrs[len(b.Instrs)-1].(*ssa.Return)
		if !ok || len(ret.Results) != 2 || b == fn.Recover {
			continue
		}
		res := retResults(ret)
		if k, isC := constBool(res[1]); isC && !k {
			continue
		}
		n++
		good := false
		why := "the returned State is not the result of a generateState call made in this invocation"
		for _, l := range c.Origins(res[0], 0) {
			u, isLoad := l.(*ssa.UnOp)
			if !isLoad {
				good = false
				why = "returned value originates from " + c.describe(l)
				break
			}
			call, _ := callOfResult(u.X)
			if call == nil || !strings.Contains(calleeName(&call.Call), "generateState") {
				good = false
				why = "returned value is loaded from " + c.describe(u.X) + ", not from a fresh generateState result"
				break
			}
			if !instrDominates(call, ret) {
				good = false
				why = "the generateState call does not precede this return on every path"
				break
			}
			good = allLeaves(c.Origins(call.Call.Args[0], 0), func(v ssa.Value) bool { return isFieldLoad(v, "dtls.Conn", "state") })
			if !good {
				why = "generateState is not applied to Conn.state"
			}
		}
		r.Check(good, rule, fmt.Sprintf("%s:return%d", short(fn), n), c.ipos(ret), "the snapshot is generated from Conn.state during this call", "ConnectionState can return a State that was not generated from the live connection state during this call (cached or stale snapshot: the exported sequence counter lags behind the records already sent): "+why)
	}
	r.Floor(rule, n, 1)
}

// ruleImportMirrorsExport (C19, C15): what generateState takes out of an internal slot (a field of
// state.Common, or a getter on it) generateInternalState puts back into that same slot (the field,
// or the matching setter) and from the State field of that name only. The slot pairs are read off
// the export function; nothing is listed by hand. A restore that goes through a helper is followed
// one call deep with closed-world argument substitution.
func ruleImportMirrorsExport(c *Ctx, r *Report) {
	const rule = "import-mirrors-export"
	exp := c.need(r, rule, "dtls.generateState")
	imp := c.need(r, rule, "(*dtls.State).generateInternalState")
	if exp == nil || imp == nil {
		return
	}
	al := returnedLiteral(exp, 0, "dtls.State")
	if al == nil {
		r.Unk(rule, short(exp), c.pos(exp.Pos()), "returned State literal not found")
		return
	}
	var deep func(v ssa.Value, d int) []ssa.Value
	deep = func(v ssa.Value, d int) []ssa.Value {
		var out []ssa.Value
		for _, l := range c.OriginsIP(v, 0) {
			if call, ok := l.(*ssa.Call); ok && d < 4 {
				n := calleeName(&call.Call)
				if n == "bytes.Clone" || n == "slices.Clone" || strings.HasSuffix(n, ".CloneByteSlices") {
					out = append(out, deep(call.Call.Args[0], d+1)...)
					continue
				}
			}
			out = append(out, l)
		}
		return out
	}
	callees := map[*ssa.Function]bool{}
	for _, call := range findCalls(imp, func(string) bool { return true }) {
		if cal := call.Call.StaticCallee(); cal != nil && inModule(cal) && len(cal.Blocks) > 0 {
			callees[cal] = true
		}
	}
	r.Sites += len(imp.Blocks)
	n := 0
	set := litFields(al)
	for _, f := range sortedKeys(set) {
		// the slot this State field is exported from
		var slotField, slotSetter string
		for _, l := range c.Origins(set[f], 0) {
			if o, ff, _, ok := fieldLoad(l); ok && o == "internal/state.Common" {
				slotField = ff
			}
			if call, ok := l.(*ssa.Call); ok {
				if cal := call.Call.StaticCallee(); cal != nil && cal.Signature.Recv() != nil && namedOrType(cal.Signature.Recv().Type()) == "internal/state.Common" {
					slotSetter = "Set" + cal.Name()
				}
			}
		}
		if slotField == "" && slotSetter == "" {
			continue
		}
		fromOwn := func(v ssa.Value) (bool, string) {
			ls := deep(v, 0)
			var ds []string
			ok := len(ls) > 0
			for _, l := range ls {
				ds = append(ds, c.describe(l))
				if !isFieldLoad(l, "dtls.State", f) {
					ok = false
				}
			}
			sort.Strings(ds)
			return ok, strings.Join(dedup(ds), ", ")
		}
		type wr struct {
			v   ssa.Value
			at  ssa.Instruction
			own bool // written in the import function itself
		}
		var writes []wr
		if slotField != "" {
			for _, st := range c.StoresTo("internal/state.Common", slotField) {
				if st.Fn == imp {
					writes = append(writes, wr{st.Val, st.Instr, true})
				}
			}
			if len(writes) == 0 {
				for _, st := range c.StoresTo("internal/state.Common", slotField) {
					if callees[st.Fn] {
						writes = append(writes, wr{st.Val, st.Instr, false})
					}
				}
			}
		} else {
			collect := func(fn *ssa.Function, own bool) {
				for _, call := range findCalls(fn, func(n string) bool { return n == "(*internal/state.Common)."+slotSetter }) {
					if len(call.Call.Args) >= 2 {
						writes = append(writes, wr{call.Call.Args[1], call, own})
					}
				}
			}
			collect(imp, true)
			if len(writes) == 0 {
				for cal := range callees {
					collect(cal, false)
				}
			}
		}
		slot := "Common." + slotField
		if slotField == "" {
			slot = "Common." + slotSetter + "()"
		}
		key := short(imp) + ":" + f
		n++
		if len(writes) == 0 {
			r.Bad(rule, key, c.pos(imp.Pos()), "State."+f+" is exported from "+slot+" but the import path never writes that slot")
			continue
		}
		good := true
		var bad string
		var badAt ssa.Instruction
		for _, w := range writes {
			if ok, d := fromOwn(w.v); !ok {
				good = false
				bad = d
				badAt = w.at
			}
		}
		pos := c.ipos(writes[0].at)
		if badAt != nil {
			pos = c.ipos(badAt)
		}
		r.Check(good, rule, key, pos, slot+" <- State."+f, "the import path fills "+slot+" from ["+bad+"], not (only) from State."+f+" which was exported from that slot: a resumed endpoint comes back with a different value in it (for the connection IDs: its own ID on outgoing records, the peer's expected on incoming)")
	}
	r.Floor(rule, n, 10)
}

// ruleResumeKeepsNegotiated (C19): between the installation of a resumed state and the return of
// Handshake nothing writes the slots the export/import pair carries (the set is read off
// generateState): in the functions that start a handshake, a write to such a slot of state.Common
// must not be able to reach a successful return. A connection resumed from exported state starts in
// the finished state, no flight runs, and whatever such a write wipes stays wiped.
func ruleResumeKeepsNegotiated(c *Ctx, r *Report) {
	const rule = "resume-keeps-negotiated"
	exp := c.need(r, rule, "dtls.generateState")
	if exp == nil {
		return
	}
	al := returnedLiteral(exp, 0, "dtls.State")
	if al == nil {
		r.Unk(rule, short(exp), c.pos(exp.Pos()), "returned State literal not found")
		return
	}
	slotField := map[string]string{}
	slotSetter := map[string]string{}
	for f, v := range litFields(al) {
		for _, l := range c.Origins(v, 0) {
			if o, ff, _, ok := fieldLoad(l); ok && o == "internal/state.Common" {
				slotField[ff] = f
			}
			if call, ok := l.(*ssa.Call); ok {
				if cal := call.Call.StaticCallee(); cal != nil && cal.Signature.Recv() != nil && namedOrType(cal.Signature.Recv().Type()) == "internal/state.Common" {
					slotSetter["Set"+cal.Name()] = f
				}
			}
		}
	}
	if len(slotField)+len(slotSetter) < 8 {
		r.Unk(rule, "slots", "", "fewer exported slots than expected")
		return
	}
	n := 0
	for _, name := range []string{"(*dtls.Conn).HandshakeContext", "(*dtls.Conn).prepareHandshakeStart", "(*dtls.Conn).prepareHandshakeStart12", "(*dtls.Conn).handshake"} {
		fn := c.Fn(name)
		if fn == nil {
			continue
		}
		n++
		r.Sites += len(fn.Blocks)
		succ := possibleSuccessReturns(fn)
		bad := 0
		check := func(in ssa.Instruction, slot, stateField string) {
			for _, ret := range succ {
				if instrReaches(in, ret) {
					bad++
					r.Bad(rule, fmt.Sprintf("%s:%s", short(fn), slot), c.ipos(in), fmt.Sprintf("%s writes %s (exported as State.%s) on a path that can return success: a connection resumed from exported state has that value wiped, since no flight runs to negotiate it again", short(fn), slot, stateField))
					return
				}
			}
		}
		for _, b := range fn.Blocks {
			for _, in := range b.Instrs {
				switch x := in.(type) {
				case *ssa.Store:
					if o, f, _, ok := fieldOfAddr(x.Addr); ok && o == "internal/state.Common" {
						if sf, isSlot := slotField[f]; isSlot {
							check(in, "Common."+f, sf)
						}
					}
				case *ssa.Call:
					if cal := x.Call.StaticCallee(); cal != nil && cal.Signature.Recv() != nil && namedOrType(cal.Signature.Recv().Type()) == "internal/state.Common" {
						if sf, isSlot := slotSetter[cal.Name()]; isSlot {
							check(in, "Common."+cal.Name()+"()", sf)
						}
					}
				}
			}
		}
		if bad == 0 {
			r.OK(rule, short(fn), c.pos(fn.Pos()), "no write to an exported slot can reach a successful return")
		}
	}
	r.Floor(rule, n, 2)
}

// constFields is a per-path record of the constants last stored into the fields of one struct.
type constFields map[string]int64

func (c constFields) Fork() PathState {
	d := make(constFields, len(c))
	for k, v := range c {
		d[k] = v
	}
	return d
}

// ruleResumeStateAlwaysConsulted (C19): a connection that was given a serialised state continues
// that session whatever version range it was resumed with, as long as the range allows DTLS 1.2
// (a serialised state is always a DTLS 1.2 state). In the function that picks the handshake start,
// with a resume state present and the range set to 1.2..1.3, no version negotiation is reachable
// and the DTLS 1.2 start - the only one that reads the resume state - is.
func ruleResumeStateAlwaysConsulted(c *Ctx, r *Report) {
	const rule = "resume-state-always-consulted"
	fn := c.need(r, rule, "(*dtls.Conn).prepareHandshakeStart")
	if fn == nil {
		return
	}
	r.Sites += len(fn.Blocks)
	globalName := func(v ssa.Value) string {
		if u, ok := v.(*ssa.UnOp); ok && u.Op == token.MUL {
			if g, ok := u.X.(*ssa.Global); ok {
				return g.Name()
			}
		}
		return ""
	}
	w := &Walk{Fn: fn, Assume: func(v ssa.Value) (Val, bool) {
		if _, f, _, ok := fieldLoad(v); ok && f == "ResumeState" {
			return vNil(false), true
		}
		bo, ok := v.(*ssa.BinOp)
		if !ok || (bo.Op != token.EQL && bo.Op != token.NEQ) {
			return unknown, false
		}
		field, ver := "", ""
		for _, pr := range [][2]ssa.Value{{bo.X, bo.Y}, {bo.Y, bo.X}} {
			if _, f, _, ok := fieldLoad(pr[0]); ok && (f == "MaxVersion" || f == "MinVersion") {
				field, ver = f, globalName(pr[1])
			}
		}
		if field == "" || ver == "" {
			return unknown, false
		}
		// the range 1.2..1.3
		eq := (field == "MinVersion" && ver == "Version1_2") || (field == "MaxVersion" && ver == "Version1_3")
		return vBool(eq == (bo.Op == token.EQL)), true
	}}
	w.FromEntry()
	consults, negotiates := false, ""
	for in := range w.Reached {
		cl, ok := in.(*ssa.Call)
		if !ok {
			continue
		}
		callee := cl.Call.StaticCallee()
		if callee == nil {
			continue
		}
		// does the callee read the resume state?
		reads := false
		for _, b := range callee.Blocks {
			for _, ci := range b.Instrs {
				if u, ok := ci.(*ssa.UnOp); ok {
					if _, f, _, ok := fieldLoad(u); ok && f == "ResumeState" {
						reads = true
					}
				}
			}
		}
		if reads {
			consults = true
		} else if inModule(callee) && strings.Contains(strings.ToLower(callee.Name()), "handshakestart") {
			negotiates = callee.Name()
		}
	}
	r.Check(consults && negotiates == "", rule, short(fn), c.pos(fn.Pos()), "with a resume state and a 1.2..1.3 range only the start that reads the resume state is reachable", "a connection resumed with a version range that also allows DTLS 1.3 takes the start "+negotiates+", which never looks at the serialised state: the resumed connection sends a fresh ClientHello to a peer that is in an established session and never exchanges data")
}

// ruleExportCarriesReplayPosition (C19, C06): the exported state carries the position of the
// receive side - what the connection has accepted so far - so that the resumed connection can
// refuse records that were delivered before the export: the function that builds the exported
// state reads the per-epoch highest accepted sequence number (Common.RemoteSequenceNumber) or
// the replay detector. Without it the resumed connection starts with an empty window and every
// record captured before the export is delivered again.
func ruleExportCarriesReplayPosition(c *Ctx, r *Report) {
	const rule = "export-carries-replay-position"
	fn := c.need(r, rule, "dtls.generateState")
	if fn == nil {
		return
	}
	r.Sites += len(fn.Blocks)
	reads := false
	for _, u := range c.unitFuncs(fn) {
		for _, b := range u.Blocks {
			for _, in := range b.Instrs {
				var v ssa.Value
				switch x := in.(type) {
				case *ssa.UnOp:
					v = x
				case *ssa.FieldAddr:
					if st, _ := derefType(x.X.Type()).Underlying().(*types.Struct); st != nil {
						f := fieldName(st.Field(x.Field))
						if f == "RemoteSequenceNumber" || f == "ReplayDetector" {
							reads = true
						}
					}
					continue
				default:
					continue
				}
				if _, f, _, ok := fieldLoad(v); ok && (f == "RemoteSequenceNumber" || f == "ReplayDetector") {
					reads = true
				}
			}
		}
	}
	// ... and the resumed connection uses it: where the resume state is installed, a function is
	// called that marks, in the replay detector, numbers taken from that position
	if reads {
		installs := 0
		marked := false
		var marker *ssa.Function
		for _, f := range c.Fns {
			if !inModule(f) || len(f.Blocks) == 0 {
				continue
			}
			var store ssa.Instruction
			for _, b := range f.Blocks {
				for _, in := range b.Instrs {
					if st, ok := in.(*ssa.Store); ok {
						if _, fld, _, okF := fieldOfAddr(st.Addr); okF && fld == "state" {
							for _, l := range c.Origins(st.Val, 0) {
								if _, lf, _, okL := fieldLoad(l); okL && lf == "ResumeState" {
									store = in
								}
							}
						}
					}
				}
			}
			if store == nil {
				continue
			}
			installs++
			for _, b := range f.Blocks {
				for _, in := range b.Instrs {
					if cl, ok := in.(*ssa.Call); ok && instrReaches(store, cl) {
						if callee := cl.Call.StaticCallee(); callee != nil && c.marksOwnRecord(callee) {
							marked = true
							marker = callee
						}
					}
				}
			}
		}
		if marker != nil {
			why, decided := c.windowCoverage(marker)
			switch {
			case !decided:
				r.Unk(rule, short(marker)+":window-restored-whole", c.pos(marker.Pos()), why)
			default:
				r.Check(why == "", rule, short(marker)+":window-restored-whole", c.pos(marker.Pos()), "the numbers marked run from the old edge of the window (position - window + 1, or 0) up to the exported position, without a gap", "the resumed connection does not mark the whole part of the replay window the exported position implies: "+why)
			}
		}
		r.Check(installs > 0 && marked, rule, short(fn)+":receive-position-restored", c.pos(fn.Pos()), "the function that installs the resume state marks the exported receive position in the replay detector", "the receive position is exported but the resumed connection never marks it in its replay detector: a record delivered before the export is delivered again after the resume")
	}
	// ... and with which of the numbers below that position were accepted: a record the exported
	// connection never saw, inside the window, is one the resumed connection has to deliver. The
	// exported state is built from the replay detector's accepted set (a field loaded from
	// Common.ReplayDetector), not from the highest number alone.
	if reads && r.Prop == "C06" {
		fromDetector := false
		for _, b := range fn.Blocks {
			for _, in := range b.Instrs {
				if v, ok := in.(ssa.Value); ok {
					if _, f, _, okF := fieldLoad(v); okF && f == "ReplayDetector" {
						fromDetector = true
					}
				}
			}
		}
		r.Check(fromDetector, rule, short(fn)+":accepted-set", c.pos(fn.Pos()), "the exported state carries which numbers inside the window were accepted", "the exported state carries the highest accepted record number only; the resumed connection marks the whole window below it as received, delivered or not, so a datagram that was delayed across the export and arrives well inside the window is refused although it was never delivered")
	}
	r.Check(reads, rule, short(fn)+":receive-position", c.pos(fn.Pos()), "the exported state is built from the receive position too", "the exported state is built without looking at what the connection has received (neither Common.RemoteSequenceNumber nor the replay detector is read): the resumed connection starts with an empty replay window and a record that was delivered before the export is delivered again when it is replayed after the resume")
}
