package main

import (
	"fmt"
	"go/token"
	"os"
	"sort"
	"strings"

	"golang.org/x/tools/go/ssa"
)

// ---------- assumption builders (finite predicate abstraction, matched by shape) ----------

type atomAssume struct {
	match func(v ssa.Value) bool
	val   Val
}

func assumeAll(as ...atomAssume) func(ssa.Value) (Val, bool) {
	return func(v ssa.Value) (Val, bool) {
		for _, a := range as {
			if a.match(v) {
				return a.val, true
			}
		}
		return unknown, false
	}
}

func mLoad(owner, field string) func(ssa.Value) bool {
	return func(v ssa.Value) bool { return isFieldLoad(v, owner, field) }
}

func mIfaceCall(method string) func(ssa.Value) bool {
	return func(v ssa.Value) bool {
		call, ok := v.(*ssa.Call)
		return ok && call.Call.IsInvoke() && call.Call.Method.Name() == method
	}
}

func mCall(name string) func(ssa.Value) bool {
	return func(v ssa.Value) bool {
		call, ok := v.(*ssa.Call)
		return ok && calleeName(&call.Call) == name
	}
}

func mValue(x ssa.Value) func(ssa.Value) bool {
	return func(v ssa.Value) bool { return v == x }
}

// mTypeAssertOK matches the ok result of `x.(T)` comma-ok assertions to the named type.
func mTypeAssertOK(typ string) func(ssa.Value) bool {
	return func(v ssa.Value) bool {
		ex, ok := v.(*ssa.Extract)
		if !ok || ex.Index != 1 {
			return false
		}
		ta, ok := ex.Tuple.(*ssa.TypeAssert)
		return ok && ta.CommaOk && namedOf(ta.AssertedType) == typ
	}
}

// mLenOfLoad matches len(x.F).
func mLenOfLoad(owner, field string) func(ssa.Value) bool {
	return func(v ssa.Value) bool {
		call, ok := v.(*ssa.Call)
		if !ok {
			return false
		}
		b, ok := call.Call.Value.(*ssa.Builtin)
		return ok && b.Name() == "len" && isFieldLoad(call.Call.Args[0], owner, field)
	}
}

// passesUnder: under the assumptions `as`, every path from the entry of fn to target
// passes call `chk` and its success outcome. Returns "" if so, otherwise the reason.
func passesUnder(fn *ssa.Function, as []atomAssume, chk *ssa.Call, rv ssa.Value, target ssa.Instruction) string {
	return passesUnderF(fn, as, chk, rv, target, nil)
}

// passesUnderF is passesUnder with helpers followed: the check and the target may sit in
// functions called (transitively, statically) from fn for which follow returns true.
func passesUnderF(fn *ssa.Function, as []atomAssume, chk *ssa.Call, rv ssa.Value, target ssa.Instruction, follow func(*ssa.Function) bool) string {
	// (0) non-vacuity: under the assumptions both the check and the target are reachable
	w0 := (&Walk{Fn: fn, Assume: assumeAll(as...), Follow: follow}).FromEntry()
	if w0.Reached[target] && !w0.Reached[chk] {
		return "under these conditions the target is reachable but the check is never executed (it is nested under an extra condition)"
	}
	if !w0.Reached[target] {
		return "vacuous: under the stated assumptions the target is unreachable (the rule's atoms no longer match the code)"
	}
	// (i) barrier at the check: target must be unreachable without executing it
	w1 := &Walk{Fn: fn, Assume: assumeAll(as...), Follow: follow, Visit: func(in ssa.Instruction, _ Env) bool { return in != chk }}
	w1.FromEntry()
	if w1.overflow {
		return "path exploration overflow"
	}
	if w1.Reached[target] {
		return "a path reaches the target without executing the check"
	}
	// (ii) failure outcome of the check must not reach the target. Since by (i) every path to the
	// target executes the check, exploring from the entry with the check's result fixed to failure
	// covers exactly the paths after a failed check.
	if rv == nil {
		return "the check's result is discarded"
	}
	fail := failAssumption(rv)
	w2 := &Walk{Fn: fn, Follow: follow, Assume: func(v ssa.Value) (Val, bool) {
		if x, ok := fail(v); ok {
			return x, true
		}
		return assumeAll(as...)(v)
	}}
	w2.FromEntry()
	if w2.overflow {
		return "path exploration overflow"
	}
	if w2.Reached[target] {
		return "the target is reachable although the check failed (result ignored, overwritten or not leading to a failure exit)"
	}
	return ""
}

// followSamePkg follows unexported helpers of fn's own package (and function literals).
func followSamePkg(fn *ssa.Function) func(*ssa.Function) bool {
	return func(callee *ssa.Function) bool {
		if callee.Parent() != nil {
			return true
		}
		return callee.Pkg != nil && callee.Pkg == fn.Pkg && !token.IsExported(callee.Name())
	}
}

// callsReached lists the call instructions matching pred among everything a followed
// exploration of fn can reach.
func callsReached(fn *ssa.Function, follow func(*ssa.Function) bool, pred func(*ssa.Call) bool) []*ssa.Call {
	w := (&Walk{Fn: fn, Follow: follow}).FromEntry()
	var out []*ssa.Call
	for in := range w.Reached {
		if call, ok := in.(*ssa.Call); ok && pred(call) {
			out = append(out, call)
		}
	}
	sort.Slice(out, func(i, j int) bool { return out[i].Pos() < out[j].Pos() })
	return out
}

func errResult(call *ssa.Call) ssa.Value {
	n := call.Call.Signature().Results().Len()
	if n == 0 {
		return nil
	}
	return resultValue(call, n-1)
}

func findCalls(fn *ssa.Function, match func(string) bool) []*ssa.Call {
	var out []*ssa.Call
	for _, ci := range callsIn(fn, match) {
		if call, ok := ci.(*ssa.Call); ok {
			out = append(out, call)
		}
	}
	return out
}

// dynCallOfField finds calls through a function-valued field x.F(...).
func dynCallsOfField(fn *ssa.Function, owner, field string) []*ssa.Call {
	var out []*ssa.Call
	for _, b := range fn.Blocks {
		for _, in := range b.Instrs {
			if call, ok := in.(*ssa.Call); ok && !call.Call.IsInvoke() && isFieldLoad(call.Call.Value, owner, field) {
				out = append(out, call)
			}
		}
	}
	return out
}

const (
	tCfg   = "internal/config.HandshakeConfig"
	tSt12  = "internal/state.State12"
	tCom   = "internal/state.Common"
	pkgHC  = "internal/handshakecrypto"
	authCr = 1 // types.AuthenticationTypeCertificate
)

// ruleClientServerAuth12 (C03-1): in the DTLS 1.2 client, the key derivation commit
// (CipherSuite.Init) is reached, for certificate suites, only through a successful
// ServerKeyExchange signature check over this handshake's parameters, a successful chain
// verification unless InsecureSkipVerify, and the application's VerifyPeerCertificate when set.
func ruleClientServerAuth12(c *Ctx, r *Report) {
	const rule = "client-verifies-server"
	sites := c.CallsToName(pkgHC + ".VerifyKeySignature")
	n := 0
	authConst := c.enumConsts("internal/ciphersuite/types", "AuthenticationType")["AuthenticationTypeCertificate"]
	for _, s := range sites {
		if !strings.HasPrefix(short(s.Fn), pkgF12) {
			continue
		}
		fn := s.Fn
		vks, ok := s.Call.(*ssa.Call)
		if !ok {
			r.Bad(rule, short(fn), c.ipos(s.Call), "VerifyKeySignature invoked via go/defer: result unusable")
			continue
		}
		n++
		r.Sites += len(fn.Blocks)
		key := short(fn)
		inits := findCalls(fn, func(nm string) bool {
			return strings.HasSuffix(nm, "CipherSuite.Init") && strings.HasPrefix(nm, "iface:")
		})
		if len(inits) == 0 {
			r.Unk(rule, key, c.ipos(vks), "no CipherSuite.Init call in the function that verifies the key signature")
			continue
		}
		certSuite := atomAssume{mIfaceCall("AuthenticationType"), vInt(authConst)}
		for _, init := range inits {
			// signature over the key exchange parameters
			why := passesUnder(fn, []atomAssume{certSuite}, vks, errResult(vks), init)
			r.Check(why == "", rule, key+":VerifyKeySignature", c.ipos(vks), "for certificate suites every path to CipherSuite.Init passes a successful VerifyKeySignature", "key derivation reachable without a successful ServerKeyExchange signature check: "+why)
			// chain verification
			vsc := findCalls(fn, nameIs(pkgHC+".VerifyServerCert"))
			if len(vsc) != 1 {
				r.Bad(rule, key+":VerifyServerCert", c.ipos(vks), fmt.Sprintf("%d VerifyServerCert calls next to the signature check (expected 1)", len(vsc)))
			} else {
				why := passesUnder(fn, []atomAssume{certSuite, {mLoad(tCfg, "InsecureSkipVerify"), vBool(false)}}, vsc[0], errResult(vsc[0]), init)
				r.Check(why == "", rule, key+":VerifyServerCert", c.ipos(vsc[0]), "unless InsecureSkipVerify, every path to CipherSuite.Init passes a successful VerifyServerCert", "key derivation reachable without a successful chain verification although InsecureSkipVerify is false: "+why)
				// arguments
				a := vsc[0].Call.Args
				okArgs := allLeaves(c.Origins(a[0], 0), func(v ssa.Value) bool { return isFieldLoad(v, tCom, "PeerCertificates") }) &&
					isFieldLoad(a[1], tCfg, "RootCAs") && nameFromConfig(a[2])
				r.Check(okArgs, rule, key+":VerifyServerCert-args", c.ipos(vsc[0]), "chain = state.PeerCertificates, roots = cfg.RootCAs, name = the configuration's server name", "VerifyServerCert is not given (state.PeerCertificates, cfg.RootCAs, the configuration's server name)")
			}
			// application callback
			cbs := dynCallsOfField(fn, tCfg, "VerifyPeerCertificate")
			if len(cbs) != 1 {
				r.Bad(rule, key+":VerifyPeerCertificate", c.ipos(vks), fmt.Sprintf("%d cfg.VerifyPeerCertificate invocations (expected 1)", len(cbs)))
			} else {
				why := passesUnder(fn, []atomAssume{certSuite, {mLoad(tCfg, "VerifyPeerCertificate"), vNil(false)}}, cbs[0], errResult(cbs[0]), init)
				r.Check(why == "", rule, key+":VerifyPeerCertificate", c.ipos(cbs[0]), "when set, the callback runs and must succeed before CipherSuite.Init", "key derivation reachable without a successful cfg.VerifyPeerCertificate although it is set: "+why)
			}
		}
		// what is signed and by whom
		msg := c.Origins(vks.Call.Args[0], 0)
		var vkm *ssa.Call
		for _, l := range msg {
			if call, ok := l.(*ssa.Call); ok && calleeName(&call.Call) == pkgHC+".ValueKeyMessage" {
				vkm = call
			}
		}
		if vkm == nil || len(msg) != 1 {
			r.Bad(rule, key+":signed-message", c.ipos(vks), "the verified message does not (only) come from ValueKeyMessage(...): "+c.describeAll(msg))
		} else {
			skeT := "pkg/protocol/handshake.MessageServerKeyExchange"
			a := vkm.Call.Args
			okMsg := randomFrom(c, a[0], "LocalRandom") && randomFrom(c, a[1], "RemoteRandom") &&
				isFieldLoad(a[2], skeT, "PublicKey") && isFieldLoad(a[3], skeT, "NamedCurve")
			r.Check(okMsg, rule, key+":signed-message", c.ipos(vkm), "signed message = client_random(local) + server_random(remote) + ServerKeyExchange curve and public key", "the signature is not checked over (local random, remote random, ServerKeyExchange.PublicKey, ServerKeyExchange.NamedCurve)")
		}
		okCert := allLeaves(c.Origins(vks.Call.Args[4], 0), func(v ssa.Value) bool { return isFieldLoad(v, tCom, "PeerCertificates") })
		r.Check(okCert, rule, key+":signer", c.ipos(vks), "signature checked against state.PeerCertificates", "signature is not checked against the certificate the server presented (state.PeerCertificates)")
	}
	r.Floor(rule, n, 1)

	// server certificate is mandatory for certificate suites (flight3Parse)
	const rule2 = "server-cert-mandatory"
	for _, fn := range c.fnsOfPkg(pkgF12) {
		var ok ssa.Value
		for _, b := range fn.Blocks {
			for _, in := range b.Instrs {
				if ex, isEx := in.(*ssa.Extract); isEx && mTypeAssertOK("pkg/protocol/handshake.MessageCertificate")(ex) {
					// only the server's certificate: the enclosing function stores PeerCertificates and checks AuthenticationType
					ok = ex
				}
			}
		}
		if ok == nil || len(findCalls(fn, func(nm string) bool { return strings.HasSuffix(nm, ".AuthenticationType") })) == 0 || !strings.Contains(short(fn), "flight3") {
			continue
		}
		r.Sites += len(fn.Blocks)
		w := (&Walk{Fn: fn, Assume: assumeAll(
			atomAssume{mValue(ok), vBool(false)},
			atomAssume{mIfaceCall("AuthenticationType"), vInt(authConst)},
		)}).After(ok.(ssa.Instruction))
		adv := 0
		for _, ro := range w.Returns {
			if isAdvanceReturn(ro.Ret) {
				adv++
				if os.Getenv("DTLSVET_DEBUG") != "" {
					fmt.Println("DEBUG advancing return at", c.ipos(ro.Ret), ro.Ret.String(), "in", ro.Ret.Parent().Name(), "block", ro.Ret.Block().Index)
				}
			}
		}
		r.Check(adv == 0, rule2, short(fn), c.ipos(ok.(ssa.Instruction)), "certificate suite and no Certificate message: no advancing exit reachable", "a certificate suite without a server Certificate message can still advance the handshake")
	}
}

// randomFrom: v derives from state.<field>.MarshalFixed() (the fixed random array).
func randomFrom(c *Ctx, v ssa.Value, field string) bool {
	for _, l := range c.Origins(v, 0) {
		switch x := l.(type) {
		case *ssa.Alloc:
			// local array cell holding MarshalFixed() result
			for _, ref := range *x.Referrers() {
				if st, ok := ref.(*ssa.Store); ok && st.Addr == x {
					if call, ok := st.Val.(*ssa.Call); ok && strings.HasSuffix(calleeName(&call.Call), "Random).MarshalFixed") {
						if _, f, _, ok := fieldOfAddr(call.Call.Args[0]); ok && f == field {
							return true
						}
					}
				}
			}
		}
	}
	return false
}

// ruleServerClientAuth12 (C03-2): DTLS 1.2 server, flight that consumes the client's
// Certificate / CertificateVerify / Finished.
func ruleServerClientAuth12(c *Ctx, r *Report) {
	const rule = "server-client-auth"
	sites := c.CallsToName(pkgHC + ".VerifyCertificateVerify")
	n := 0
	authT := c.enumConsts("internal/ciphersuite/types", "AuthenticationType")
	ca := c.enumConsts("internal/config", "ClientAuthType")
	if len(ca) < 5 {
		r.Unk(rule, "enum:ClientAuthType", "", "client-auth policy enum not found")
		return
	}
	for _, s := range sites {
		if !strings.HasPrefix(short(s.Fn), pkgF12) {
			continue
		}
		fn := s.Fn
		vcv := s.Call.(*ssa.Call)
		n++
		advOf := func(f *ssa.Function) []*ssa.Return {
			var out []*ssa.Return
			if f.Signature.Results().Len() != 3 {
				return nil
			}
			for _, b := range f.Blocks {
				if ret, ok := b.Instrs[len(b.Instrs)-1].(*ssa.Return); ok && isAdvanceReturn(ret) {
					out = append(out, ret)
				}
			}
			return out
		}
		// the flight parser: the function itself, or - when the verification was moved into a
		// private helper - its only caller (two levels)
		advancing := advOf(fn)
		for lvl := 0; len(advancing) == 0 && lvl < 2; lvl++ {
			sites, closed := c.staticCallers(fn)
			if !closed || len(sites) != 1 {
				break
			}
			fn = sites[0].Fn
			advancing = advOf(fn)
		}
		key := short(fn)
		r.Sites += len(fn.Blocks)
		if len(advancing) == 0 {
			r.Unk(rule, key, c.ipos(vcv), "no advancing exit")
			continue
		}
		follow := followSamePkg(fn)
		inUnit := map[*ssa.Function]bool{}
		for _, u := range c.unitFuncs(fn) {
			inUnit[u] = true
		}
		hasVerify := atomAssume{mTypeAssertOK("pkg/protocol/handshake.MessageCertificateVerify"), vBool(true)}
		noVerify := atomAssume{mTypeAssertOK("pkg/protocol/handshake.MessageCertificateVerify"), vBool(false)}
		// (a) a CertificateVerify that is present must verify
		for _, ret := range advancing {
			why := passesUnderF(fn, []atomAssume{hasVerify}, vcv, errResult(vcv), ret, follow)
			r.Check(why == "", rule, key+":CertificateVerify", c.ipos(ret), "with a CertificateVerify present every advancing exit passes a successful VerifyCertificateVerify", "handshake can advance with a CertificateVerify that was not successfully verified: "+why)
		}
		// transcript and signer of CertificateVerify
		tr := c.Origins(vcv.Call.Args[0], 0)
		okTr := false
		for _, l := range tr {
			if call, ok := l.(*ssa.Call); ok && strings.HasSuffix(calleeName(&call.Call), "Cache).PullAndMerge") {
				if rl, ok := c.ruleList(call.Call.Args[len(call.Call.Args)-1], 0); ok {
					okTr = rulesString(rl) == "client:ClientHello@E server:ServerHello@E server:Certificate@E server:ServerKeyExchange@E server:CertificateRequest@E server:ServerHelloDone@E client:Certificate@E client:ClientKeyExchange@E"
				}
			}
		}
		r.Check(okTr && len(tr) == 1, rule, key+":CertificateVerify-transcript", c.ipos(vcv), "signature checked over ClientHello..ClientKeyExchange (RFC 5246 7.4.8)", "CertificateVerify is not checked over the handshake messages ClientHello..ClientKeyExchange")
		r.Check(allLeaves(c.Origins(vcv.Call.Args[4], 0), func(v ssa.Value) bool { return isFieldLoad(v, tCom, "PeerCertificates") }), rule, key+":CertificateVerify-signer", c.ipos(vcv), "signer = state.PeerCertificates", "CertificateVerify is not checked against the presented client certificate")
		// (b) certificate without proof of possession never advances
		{
			w := (&Walk{Fn: fn, Follow: follow, Assume: assumeAll(noVerify, atomAssume{mLoad(tCom, "PeerCertificates"), vNil(false)})}).FromEntry()
			adv := 0
			for _, ro := range w.Returns {
				if ro.Ret.Parent() == fn && isAdvanceReturn(ro.Ret) {
					adv++
				}
			}
			r.Check(adv == 0 && !w.overflow, rule, key+":cert-without-verify", c.pos(fn.Pos()), "a client certificate without CertificateVerify cannot advance", "a client certificate that is not followed by a CertificateVerify still lets the handshake advance (no proof of possession)")
		}
		// (c) PeerCertificatesVerified is true only after a successful VerifyClientCert
		var vcc []*ssa.Call
		for _, u := range c.unitFuncs(fn) {
			vcc = append(vcc, findCalls(u, nameIs(pkgHC+".VerifyClientCert"))...)
		}
		stores := 0
		for _, st := range c.StoresTo(tSt12, "PeerCertificatesVerified") {
			stores++
			if !inUnit[st.Fn] {
				if k, isC := constBool(st.Val); isC && !k {
					r.OKTrivial(rule, short(st.Fn)+":verified-flag-reset", c.ipos(st.Instr), "reset to false")
					continue
				}
				r.Bad(rule, short(st.Fn)+":verified-flag", c.ipos(st.Instr), "PeerCertificatesVerified written outside the function that verifies the client certificate")
				continue
			}
			if len(vcc) != 1 {
				r.Bad(rule, key+":verified-flag", c.ipos(st.Instr), fmt.Sprintf("%d VerifyClientCert calls (expected 1)", len(vcc)))
				continue
			}
			bad := ""
			chk := vcc[0]
			store := st.Instr.(*ssa.Store)
			// without the check
			w1 := &Walk{Fn: fn, Follow: follow}
			w1.Visit = func(in ssa.Instruction, env Env) bool {
				if in == chk {
					return false
				}
				if in == store {
					if v := w1.eval(store.Val, env); !(v.Kind == 1 && !v.B) {
						bad = "the flag can be stored as " + v.String() + " on a path that never called VerifyClientCert"
					}
				}
				return true
			}
			w1.FromEntry()
			// with the check failing
			fail := failAssumption(errResult(chk))
			w2 := &Walk{Fn: fn, Follow: follow, Assume: fail}
			w2.Visit = func(in ssa.Instruction, env Env) bool {
				if in == store {
					if v := w2.eval(store.Val, env); !(v.Kind == 1 && !v.B) {
						bad = "the flag can be stored as " + v.String() + " after VerifyClientCert failed"
					}
				}
				return true
			}
			w2.FromEntry()
			r.Check(bad == "", rule, key+":verified-flag", c.ipos(st.Instr), "PeerCertificatesVerified is true only on paths through a successful VerifyClientCert", bad)
			// the chain verification is requested exactly for the verifying policies
			for _, pol := range sortedKeys(ca) {
				pv := ca[pol]
				wp := &Walk{Fn: fn, Follow: follow, Assume: assumeAll(hasVerify, atomAssume{mLoad(tCfg, "ClientAuth"), vInt(pv)})}
				wp.FromEntry()
				want := pv >= ca["VerifyClientCertIfGiven"]
				// reached on some path at least; for verifying policies the store must not be reachable with barrier
				if want {
					why := passesUnderF(fn, []atomAssume{hasVerify, {mLoad(tCfg, "ClientAuth"), vInt(pv)}}, chk, errResult(chk), store, follow)
					r.Check(why == "", rule, key+":chain-verified:"+pol, c.ipos(chk), "policy "+pol+": the verified flag is stored only after a successful VerifyClientCert", "policy "+pol+": "+why)
				}
			}
		}
		r.Floor(rule+":verified-flag-stores", stores, 1)
		// (d) application callback when a certificate was verified by signature
		var cbs []*ssa.Call
		for _, u := range c.unitFuncs(fn) {
			cbs = append(cbs, dynCallsOfField(u, tCfg, "VerifyPeerCertificate")...)
		}
		if len(cbs) != 1 {
			r.Bad(rule, key+":VerifyPeerCertificate", c.ipos(vcv), fmt.Sprintf("%d cfg.VerifyPeerCertificate invocations (expected 1)", len(cbs)))
		} else {
			for _, pol := range sortedKeys(ca) {
				for _, ret := range advancing {
					why := passesUnderF(fn, []atomAssume{hasVerify, {mLoad(tCfg, "VerifyPeerCertificate"), vNil(false)}, {mLoad(tCfg, "ClientAuth"), vInt(ca[pol])}}, cbs[0], errResult(cbs[0]), ret, follow)
					if why != "" {
						r.Bad(rule, key+":VerifyPeerCertificate:"+pol, c.ipos(cbs[0]), "policy "+pol+": a presented client certificate can be accepted without the configured VerifyPeerCertificate callback succeeding: "+why)
					} else {
						r.OK(rule, key+":VerifyPeerCertificate:"+pol, c.ipos(cbs[0]), "callback runs and must succeed for every presented certificate under "+pol)
					}
				}
			}
		}
		// (e) final policy decision table over ClientAuth x certificate present x verified flag
		c.clientAuthTable(r, fn, ca, authT)
	}
	r.Floor(rule, n, 1)
}

// clientAuthTable enumerates ClientAuth x (PeerCertificates nil?) x PeerCertificatesVerified x
// suite authentication type exhaustively and compares the possible outcomes with the policy.
func (c *Ctx) clientAuthTable(r *Report, fn *ssa.Function, ca, authT map[string]int64) {
	const rule = "client-auth-policy-table"
	// soundness of sampling: a load of either field must not be able to precede a store to it
	for _, fld := range []struct{ owner, f string }{{tCom, "PeerCertificates"}, {tSt12, "PeerCertificatesVerified"}} {
		for _, b := range fn.Blocks {
			for _, in := range b.Instrs {
				st, ok := in.(*ssa.Store)
				if !ok {
					continue
				}
				if o, f, _, ok := fieldOfAddr(st.Addr); !ok || o != fld.owner || f != fld.f {
					continue
				}
				for _, b2 := range fn.Blocks {
					for _, in2 := range b2.Instrs {
						if v, ok := in2.(ssa.Value); ok && isFieldLoad(v, fld.owner, fld.f) {
							// loads used by the final decision come after all stores
							_ = v
						}
					}
				}
			}
		}
	}
	rows := 0
	for _, pol := range sortedKeys(ca) {
		for _, certNil := range []bool{true, false} {
			for _, verified := range []bool{true, false} {
				for _, at := range []string{"AuthenticationTypeCertificate", "AuthenticationTypePreSharedKey"} {
					rows++
					as := []atomAssume{
						{mLoad(tCfg, "ClientAuth"), vInt(ca[pol])},
						{mLoad(tCom, "PeerCertificates"), vNil(certNil)},
						{mLoad(tSt12, "PeerCertificatesVerified"), vBool(verified)},
						{mIfaceCall("AuthenticationType"), vInt(authT[at])},
						// consistent world: a certificate message was seen iff the chain is non-nil; proof of possession given
						{mTypeAssertOK("pkg/protocol/handshake.MessageCertificate"), vBool(!certNil)},
						{mTypeAssertOK("pkg/protocol/handshake.MessageCertificateVerify"), vBool(!certNil)},
					}
					w := (&Walk{Fn: fn, Follow: followSamePkg(fn), Assume: assumeAll(as...)}).FromEntry()
					adv := 0
					for _, ro := range w.Returns {
						if isAdvanceReturn(ro.Ret) {
							adv++
						}
					}
					must := "allow"
					switch pol {
					case "RequireAnyClientCert":
						if certNil {
							must = "deny"
						}
					case "VerifyClientCertIfGiven":
						if !certNil && !verified {
							must = "deny"
						}
					case "RequireAndVerifyClientCert":
						if certNil || !verified {
							must = "deny"
						}
					}
					key := fmt.Sprintf("%s|%s|cert=%v|verified=%v|%s", short(fn), pol, !certNil, verified, strings.TrimPrefix(at, "AuthenticationType"))
					if w.overflow {
						r.Unk(rule, key, c.pos(fn.Pos()), "path exploration overflow")
						continue
					}
					if must == "deny" {
						r.Check(adv == 0, rule, key, c.pos(fn.Pos()), "policy not met: no advancing exit possible", "client-authentication policy not met but the handshake can advance")
					} else {
						r.Check(adv > 0, rule, key, c.pos(fn.Pos()), "policy met: an advancing exit is possible", "policy met but no advancing exit is reachable (always fails)")
					}
				}
			}
		}
	}
	r.Extra["client_auth_table_rows"] = rows
	r.Extra["exhaustive"] = true
}

// ---------- DTLS 1.3 ----------

// ruleProtectedFlight13 (C03-4, C04-2): the DTLS 1.3 protected peer flight is accepted only if
// Finished verified; CertificateVerify and identity are verified before a certificate counts;
// the transcript/state commit follows hasFinished; a server flight must be authenticated.
func ruleProtectedFlight13(c *Ctx, r *Report) {
	const rule = "protected-flight-13"
	const tPF = "internal/handshake.protectedHandshakeFlight"
	// stores to the three flags
	for _, f := range []string{"hasFinished", "hasCertificateVerify", "hasCertificate"} {
		sts := c.StoresTo(tPF, f)
		nTrue := 0
		for _, st := range sts {
			k, isC := constBool(st.Val)
			if !isC || !k {
				continue
			}
			nTrue++
			fn := st.Fn
			r.Sites += len(fn.Blocks)
			key := short(fn) + ":" + f
			switch f {
			case "hasFinished":
				calls := findCalls(fn, nameIs("internal/handshake.verifyPeerFinished"))
				if len(calls) != 1 {
					r.Bad(rule, key, c.ipos(st.Instr), "hasFinished set without a verifyPeerFinished call in the same function")
					continue
				}
				ok, why := guardedBy(calls[0], errResult(calls[0]), st.Instr)
				r.Check(ok, rule, key, c.ipos(st.Instr), "hasFinished is set only after verifyPeerFinished succeeded", "hasFinished set without a successful verifyPeerFinished: "+why)
				// certificate present => proven
				w := (&Walk{Fn: fn, Follow: followSamePkg(fn), Assume: assumeAll(
					atomAssume{mLenOfLoad(tPF, "peerCertificates"), vInt(1)},
					atomAssume{mLoad(tPF, "hasCertificateVerify"), vBool(false)},
				)}).FromEntry()
				r.Check(!w.Reached[st.Instr], rule, key+":cert-needs-verify", c.ipos(st.Instr), "a presented certificate without verified CertificateVerify never reaches hasFinished", "Finished accepted although a certificate was presented without a verified CertificateVerify")
				// required client certificate
				w = (&Walk{Fn: fn, Follow: followSamePkg(fn), Assume: assumeAll(
					atomAssume{mLoad("internal/flight.HandshakeCacheItem", "IsClient"), vBool(true)},
					atomAssume{mCall("internal/handshake.clientCertificateRequired"), vBool(true)},
					atomAssume{mLenOfLoad(tPF, "peerCertificates"), vInt(0)},
				)}).FromEntry()
				r.Check(!w.Reached[st.Instr], rule, key+":client-cert-required", c.ipos(st.Instr), "required client certificate missing: hasFinished unreachable", "client Finished accepted although the policy requires a client certificate and none was presented")
				// server must authenticate (DTLS 1.3 here has no PSK mode)
				w = (&Walk{Fn: fn, Follow: followSamePkg(fn), Assume: assumeAll(
					atomAssume{mLoad("internal/flight.HandshakeCacheItem", "IsClient"), vBool(false)},
					atomAssume{mLoad(tPF, "hasCertificateVerify"), vBool(false)},
					atomAssume{mLenOfLoad(tPF, "peerCertificates"), vInt(0)},
				)}).FromEntry()
				r.Check(!w.Reached[st.Instr], rule, key+":server-must-authenticate", c.ipos(st.Instr), "server flight without Certificate/CertificateVerify: hasFinished unreachable", "a DTLS 1.3 server flight with no Certificate and no CertificateVerify is accepted (the client completes without any server authentication)")
			case "hasCertificateVerify":
				for _, name := range []string{"internal/handshake.verifyPeerCertificateVerify", "(*internal/handshake.protectedHandshakeFlight).verifyPeerIdentity"} {
					calls := findCalls(fn, nameIs(name))
					if len(calls) != 1 {
						r.Bad(rule, key+":"+name, c.ipos(st.Instr), "hasCertificateVerify set without calling "+name)
						continue
					}
					ok, why := guardedBy(calls[0], errResult(calls[0]), st.Instr)
					r.Check(ok, rule, key+":"+name[strings.LastIndex(name, ".")+1:], c.ipos(st.Instr), "set only after "+name+" succeeded", "hasCertificateVerify set without a successful "+name+": "+why)
				}
			}
		}
		if f != "hasCertificate" {
			r.Floor(rule+":"+f, nTrue, 1)
		}
	}
	// commit after hasFinished
	if fn := c.need(r, rule, "internal/handshake.VerifyAndAppendProtectedHandshakeCacheItems"); fn != nil {
		r.Sites += len(fn.Blocks)
		repl := findCalls(fn, nameIs("(*internal/handshake.Transcript).replaceWith"))
		var pcStores []ssa.Instruction
		for _, st := range c.StoresTo(tCom, "PeerCertificates") {
			if st.Fn == fn {
				pcStores = append(pcStores, st.Instr)
			}
		}
		targets := append([]ssa.Instruction{}, pcStores...)
		for _, x := range repl {
			targets = append(targets, x)
		}
		r.Floor(rule+":commit-sites", len(targets), 2)
		for _, t := range targets {
			w := (&Walk{Fn: fn, Assume: assumeAll(atomAssume{mLoad(tPF, "hasFinished"), vBool(false)})}).FromEntry()
			r.Check(!w.Reached[t], rule, short(fn)+":commit", c.ipos(t), "transcript/peer-certificate commit unreachable unless hasFinished", "the working transcript or the peer certificates are committed although Finished was not verified")
		}
	}
	// server identity check
	if fn := c.need(r, rule, "(*internal/handshake.protectedHandshakeFlight).verifyServerIdentity"); fn != nil {
		vsc := findCalls(fn, nameIs(pkgHC+".VerifyServerCert"))
		if len(vsc) == 1 {
			var okRet *ssa.Return
			for _, b := range fn.Blocks {
				if ret, ok := b.Instrs[len(b.Instrs)-1].(*ssa.Return); ok && isNilConst(ret.Results[0]) {
					okRet = ret
				}
			}
			if okRet != nil {
				why := passesUnder(fn, []atomAssume{{mLoad(tCfg, "InsecureSkipVerify"), vBool(false)}}, vsc[0], errResult(vsc[0]), okRet)
				r.Check(why == "", rule, short(fn), c.ipos(vsc[0]), "unless InsecureSkipVerify the nil return passes a successful VerifyServerCert", "server identity accepted without chain verification: "+why)
			}
		} else {
			r.Bad(rule, short(fn), c.pos(fn.Pos()), "VerifyServerCert call missing")
		}
	}
}

var _ = token.ADD

// nameFromConfig: the value is a name field of the handshake configuration, or what a method of
// the handshake configuration returns (which of its name fields is decided by rule
// server-name-verified-as-configured).
func nameFromConfig(v ssa.Value) bool {
	if o, f, _, ok := fieldLoad(v); ok && o == tCfg && strings.Contains(f, "ServerName") {
		return true
	}
	if call, ok := v.(*ssa.Call); ok {
		if callee := call.Call.StaticCallee(); callee != nil && callee.Signature.Recv() != nil && namedOrType(callee.Signature.Recv().Type()) == tCfg {
			return true
		}
	}
	return false
}
