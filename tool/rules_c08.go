package main

import (
	"encoding/json"
	"fmt"
	"go/token"
	"go/types"
	"os"
	"path/filepath"
	"sort"
	"strings"

	"golang.org/x/tools/go/ssa"
)

// boundsInit fills the interprocedural indexes of the bounds engine.
func (c *Ctx) boundsInit() {
	if c.boundsReady {
		return
	}
	c.boundsReady = true
	pc.assumedNonNeg = map[string][]int{}
	if b, err := os.ReadFile(filepath.Join(c.VerifDir, "spec", "reviewed_safe.json")); err == nil {
		var t struct {
			Pre []struct {
				Function string `json:"function"`
				Param    int    `json:"param_index"`
			} `json:"assumed_preconditions"`
		}
		if json.Unmarshal(b, &t) == nil {
			for _, p := range t.Pre {
				pc.assumedNonNeg[p.Function] = append(pc.assumedNonNeg[p.Function], p.Param)
			}
		}
	}
	for _, fn := range c.Fns {
		for _, b := range fn.Blocks {
			for _, ins := range b.Instrs {
				if ci, ok := ins.(ssa.CallInstruction); ok {
					if callee := ci.Common().StaticCallee(); callee != nil {
						pc.callers[callee] = append(pc.callers[callee], ci)
					}
					if ci.Common().IsInvoke() {
						pc.dynMethods[ci.Common().Method.Name()] = true
					}
				}
				for _, op := range ins.Operands(nil) {
					if f, ok := (*op).(*ssa.Function); ok {
						if ci, isCall := ins.(ssa.CallInstruction); isCall && ci.Common().Value == f {
							continue
						}
						pc.addrTaken[f] = true
					}
				}
			}
		}
	}
}

// attackerScope: functions reachable (CHA) from the network entry points, not following
// the emit roots (whose inputs are locally generated).
func (c *Ctx) attackerScope(r *Report, rule string) map[*ssa.Function]bool {
	rootNames := []string{
		"(*dtls.Conn).readAndBuffer", "(*dtls.Conn).readAndBufferNoFSM", "(*dtls.Conn).handleQueuedPackets",
		"(*dtls.Conn).pickVersionFromClientHello", "(*dtls.Conn).pickVersionFromServerResponse",
		"internal/flight/flight12.Parse", "internal/flight/flight13.Parse",
		"(*internal/net/udp.listener).readLoop", "(*dtls.State).UnmarshalBinary",
		"dtls.cidDatagramRouter", "dtls.cidConnIdentifier",
		"(*internal/handshake.fsm13).handleReceivedFlight", "(*internal/handshake.postHandshake).handlePostHandshakeReceive",
	}
	stopNames := []string{
		"(*dtls.Conn).notify", "(*dtls.Conn).writePackets", "(*dtls.Conn).writePacketsWithResult", "(dtls.returnRoutabilityConn).WriteRRC",
		"(*dtls.Conn).close",
	}
	stops := map[*ssa.Function]bool{}
	for _, n := range stopNames {
		if f := c.need(r, rule, n); f != nil {
			stops[f] = true
		}
	}
	var roots []*ssa.Function
	for _, n := range rootNames {
		if f := c.need(r, rule, n); f != nil {
			roots = append(roots, f)
		}
	}
	// the import side of a serialised state is input too (its bytes may be corrupted): the
	// functions that take the resume state into use, found by role - they load
	// HandshakeConfig.ResumeState - and the one that expands the public State
	for _, f := range c.Fns {
		if f.Parent() != nil || len(f.Blocks) == 0 || !inModule(f) {
			continue
		}
		if strings.HasSuffix(short(f), "dtls.State).generateInternalState") {
			roots = append(roots, f)
			continue
		}
		for _, b := range f.Blocks {
			for _, in := range b.Instrs {
				if u, ok := in.(*ssa.UnOp); ok {
					if _, fld, _, okF := fieldLoad(u); okF && fld == "ResumeState" {
						roots = append(roots, f)
					}
				}
			}
		}
	}
	cg := c.CG()
	seen := map[*ssa.Function]bool{}
	work := append([]*ssa.Function{}, roots...)
	for len(work) > 0 {
		f := work[len(work)-1]
		work = work[:len(work)-1]
		if f == nil || seen[f] || stops[f] || !inModule(f) {
			continue
		}
		seen[f] = true
		work = append(work, f.AnonFuncs...)
		if n := cg.Nodes[f]; n != nil {
			for _, e := range n.Out {
				work = append(work, e.Callee.Func)
			}
		}
	}
	return seen
}

func ruleBounds(c *Ctx, r *Report) {
	const rule = "bounds"
	c.boundsInit()
	scope := c.attackerScope(r, rule)
	var all []bSite
	nf := 0
	for _, fn := range c.Fns {
		if !scope[fn] {
			continue
		}
		nf++
		all = append(all, boundsAnalyse(fn, c.Fset)...)
	}
	r.Extra["bounds_scope_functions"] = nf
	sort.Slice(all, func(i, j int) bool {
		if all[i].pos.Filename != all[j].pos.Filename {
			return all[i].pos.Filename < all[j].pos.Filename
		}
		if all[i].pos.Line != all[j].pos.Line {
			return all[i].pos.Line < all[j].pos.Line
		}
		return all[i].pos.Column < all[j].pos.Column
	})
	reviewed, rerr := loadReviewed(c.VerifDir)
	if rerr != nil {
		r.Unk(rule, "reviewed-safe-table", "", "cannot read spec/reviewed_safe.json: "+rerr.Error())
	}
	base := loadBoundsBaseline(c.VerifDir)
	used := map[string]bool{}
	trustedWhole := map[string][]string{}
	for _, es := range reviewed {
		for _, e := range es {
			if e.Verdict == "trusted-input" && len(e.TrustedParams) > 0 {
				trustedWhole[e.Function] = e.TrustedParams
			}
		}
	}
	proved, nReviewed, nMoved, nNew := 0, 0, 0, 0
	// which (kind|nshape) each function still contains, to tell "moved" from "duplicated"
	has := map[string]bool{}
	for _, s := range all {
		has[short(s.f)+"|"+s.what+"|"+normSiteShape(s.ins)] = true
	}
	recut := map[string]int{}
	unitOf := map[*ssa.Function]map[*ssa.Function]bool{}
	inUnit := func(owner, g *ssa.Function) bool {
		m, ok := unitOf[owner]
		if !ok {
			m = map[*ssa.Function]bool{}
			for _, f := range c.unitFuncs(owner) {
				m[f] = true
			}
			unitOf[owner] = m
		}
		return m[g]
	}
	for _, s := range all {
		r.Sites++
		if s.ok {
			proved++
			continue
		}
		f := strings.TrimPrefix(s.pos.Filename, c.Repo+"/")
		pos := fmt.Sprintf("%s:%d", f, s.pos.Line)
		fnName := short(s.f)
		shape := siteShape(s.ins)
		nshape := normSiteShape(s.ins)
		k := fnName + "|" + s.what + "|" + nshape
		key := fmt.Sprintf("%s:%s", fnName, s.what)
		if rv, ok := coveredBy(reviewed[k], s.goal); ok {
			// the checks that were in force when the site was reviewed must still be in force
			lostGuard := ""
			if st, okB := base[k]; okB && st.Status == "reviewed" {
				have := map[string]bool{}
				for _, g := range s.relFacts {
					have[g] = true
				}
				for _, g := range st.Guards {
					if !have[g] {
						lostGuard = g
						break
					}
				}
			}
			if lostGuard != "" {
				r.Bad(rule, key, pos, "reviewed-safe site, but a check that was in force when it was reviewed no longer is ("+lostGuard+"): "+shape)
				continue
			}
			nReviewed++
			used[k] = true
			r.OKTrivial("bounds-reviewed", key, pos, rv.Verdict+": "+rv.Reason)
			continue
		}
		// the reviewed code was moved into a private helper of the reviewed function (or the
		// reviewed function was folded into its caller): the judgement follows the code
		moved := false
		for rk, es := range reviewed {
			if moved {
				break
			}
			parts := strings.SplitN(rk, "|", 3)
			if len(parts) != 3 || parts[1] != s.what || parts[2] != nshape || has[rk] {
				continue
			}
			rv, ok := coveredBy(es, s.goal)
			if !ok {
				continue
			}
			owner := c.Fn(parts[0])
			switch {
			case owner != nil && (inUnit(owner, s.f) || inUnit(s.f, owner)):
				moved = true
			case owner == nil && pkgOfName(parts[0]) == pkgOfName(fnName):
				moved = true
			}
			if moved {
				nMoved++
				used[rk] = true
				r.OKTrivial("bounds-reviewed", key, pos, "moved from "+parts[0]+": "+rv.Verdict+": "+rv.Reason)
			}
		}
		if !moved {
			// a complete re-cut: the site sits in a function literal / private helper of a reviewed
			// function ALL of whose reviewed sites of this kind are gone from it (the reviewed slicing
			// was rewritten in another form, e.g. a cursor closure). At most as many new sites are
			// accepted as reviewed ones vanished.
			for owner := s.f.Parent(); owner != nil && !moved; owner = owner.Parent() {
				on := short(owner)
				total, gone := 0, 0
				var sample reviewedSite
				for rk, es := range reviewed {
					parts := strings.SplitN(rk, "|", 3)
					if len(parts) != 3 || parts[0] != on || parts[1] != s.what {
						continue
					}
					total += len(es)
					if !has[rk] {
						gone += len(es)
						sample = es[0]
					}
				}
				if total > 0 && gone == total && recut[on+"|"+s.what] < gone {
					recut[on+"|"+s.what]++
					moved = true
					nMoved++
					r.OKTrivial("bounds-reviewed", key, pos, "re-cut of the reviewed "+s.what+" sites of "+on+" (all "+fmt.Sprint(total)+" are gone from it): "+sample.Verdict+": "+sample.Reason)
				}
			}
		}
		if !moved {
			// the reviewed expression now sits in a helper that is handed its container: at every
			// call site of the helper, with the argument written in place of the parameter, it is
			// the expression that was reviewed in that caller
			if sites, closed := c.staticCallers(s.f); closed && len(sites) > 0 && len(s.f.Params) > 0 {
				all := true
				from := ""
				for _, cs := range sites {
					call, isCall := cs.Call.(*ssa.Call)
					if !isCall {
						all = false
						break
					}
					subst := map[*ssa.Parameter]string{}
					for i, p := range s.f.Params {
						if i < len(call.Call.Args) {
							subst[p] = normShapeOf(call.Call.Args[i])
						}
					}
					shapeParamSubst = subst
					inCaller := normSiteShape(s.ins)
					shapeParamSubst = nil
					rk := short(cs.Fn) + "|" + s.what + "|" + inCaller
					if _, ok := coveredBy(reviewed[rk], s.goal); !ok || inCaller == nshape {
						all = false
						break
					}
					// the checks that were in force at the reviewed expression are in force at the call
					if st, okB := base[rk]; okB && st.Status == "reviewed" {
						have := map[string]bool{}
						for _, f := range getAn(cs.Fn).branchFacts(call.Block()) {
							have[normFact(f)] = true
						}
						for _, g := range st.Guards {
							if !have[g] {
								all = false
							}
						}
						if !all {
							break
						}
					}
					used[rk] = true
					from = short(cs.Fn)
				}
				if all {
					moved = true
					nMoved++
					r.OKTrivial("bounds-reviewed", key, pos, "the expression reviewed in "+from+" (and every other caller), moved into a helper that is handed its container")
				}
			}
		}
		if moved {
			continue
		}
		// a site the reviewed tree proved (same function, same expression) that is no longer
		// proven: a guard was removed or weakened
		if st, ok := base[k]; ok && st.Status == "proved" {
			r.Bad(rule, key, pos, "index/slice was proven in range on the reviewed tree and no longer is (unproven sub-goals "+s.goal+" of: index>=0,index<len | lo>=0,hi>=lo,hi<=cap | len>=n): a bounds check was removed or weakened: "+shape)
			continue
		}
		if st, ok := base[k]; ok && st.Status == "reviewed" {
			r.Bad(rule, key, pos, "index/slice needs more than its review covered (unproven sub-goals "+s.goal+"; reviewed: "+st.Goals+"): "+shape)
			continue
		}
		// an expression that did not exist on the reviewed tree (new or re-cut code): it must at
		// least be related to a check that is in force at the site; the residual proof obligation
		// is listed as information with its sub-goals
		// a function all of whose inputs were reviewed as trusted (a locally configured key, say):
		// the review does not depend on how its arithmetic is written
		if tp := trustedWhole[short(s.f)]; len(tp) > 0 {
			all := len(s.f.Params) > 0
			for _, prm := range s.f.Params {
				in := false
				for _, t := range tp {
					if t == prm.Name() {
						in = true
					}
				}
				if !in {
					all = false
				}
			}
			if all {
				r.Note("bounds-trusted-input", key+":"+nshape, pos, "re-cut expression in a function whose only inputs ("+strings.Join(tp, ", ")+") were reviewed as trusted local configuration: "+shape)
				continue
			}
		}
		if !s.rel && checkedInHelper(s.ins) {
			// the related check sits in a helper that is handed the container's address and the
			// index (a grow-to-cover helper): listed like any other unproven new expression
			s.rel = true
		}
		if !s.rel {
			r.Bad(rule, key, pos, "new index/slice expression with no bounds check in force that mentions its index or its container (unproven sub-goals "+s.goal+"): "+shape+"  [nshape "+nshape+"]")
			continue
		}
		nNew++
		r.Note("bounds-unproven-new", key+":"+nshape, pos, "expression not present on the reviewed tree; related checks are in force but the linear prover cannot conclude (sub-goals "+s.goal+"): "+shape)
	}
	stale := 0
	for k := range reviewed {
		if !used[k] {
			stale++
		}
	}
	r.Extra["bounds_reviewed_moved"] = nMoved
	r.Extra["bounds_unproven_new_guarded"] = nNew
	r.Extra["bounds_sites"] = len(all)
	r.Extra["bounds_proved"] = proved
	r.Extra["bounds_reviewed_safe"] = nReviewed
	r.Extra["reviewed_safe_entries_unused"] = stale
	r.OK(rule, "summary", "", fmt.Sprintf("%d index/slice/encoding-binary sites in %d attacker-reachable functions: %d proved by the linear prover, %d reviewed-safe (table), rest reported", len(all), nf, proved, nReviewed))
	r.Floor(rule, len(all), 1000)
}

type reviewedSite struct {
	Function string `json:"function"`
	Kind     string `json:"kind"`
	Shape    string `json:"shape"`
	NShape   string `json:"nshape"`
	Unproven string `json:"unproven"`
	Verdict  string `json:"verdict"`
	Reason   string `json:"reason"`
	// TrustedParams, on a trusted-input entry: the review holds for the function as a whole as
	// long as these are all the parameters it has (every index in it is computed from them)
	TrustedParams []string `json:"trusted_params,omitempty"`
}

// coveredBy: a reviewed entry covers the site when every unproven sub-goal of the site is among
// the sub-goals the review covered (a subset is fine: another platform may prove more).
func coveredBy(entries []reviewedSite, goal string) (reviewedSite, bool) {
	for _, e := range entries {
		cov := map[string]bool{}
		for _, g := range strings.Split(e.Unproven, ",") {
			cov[g] = true
		}
		ok := true
		for _, g := range strings.Split(goal, ",") {
			if g != "" && !cov[g] {
				ok = false
			}
		}
		if ok {
			return e, true
		}
	}
	return reviewedSite{}, false
}

func loadReviewed(verif string) (map[string][]reviewedSite, error) {
	b, err := os.ReadFile(filepath.Join(verif, "spec", "reviewed_safe.json"))
	if err != nil {
		return nil, err
	}
	var t struct {
		Sites []reviewedSite `json:"sites"`
	}
	if err := json.Unmarshal(b, &t); err != nil {
		return nil, err
	}
	out := map[string][]reviewedSite{}
	for _, s := range t.Sites {
		k := s.Function + "|" + s.Kind + "|" + s.NShape
		out[k] = append(out[k], s)
	}
	return out, nil
}

// rulePanicClasses: nil map-element dereference, unchecked type assertion, explicit panic and
// division by a non-constant in the attacker-reachable scope.
func rulePanicClasses(c *Ctx, r *Report) {
	scope := c.attackerScope(r, "panic-classes")
	nLookup, nTA, nPanic, nDiv := 0, 0, 0, 0
	for _, fn := range c.Fns {
		if !scope[fn] {
			continue
		}
		for _, b := range fn.Blocks {
			for _, in := range b.Instrs {
				switch x := in.(type) {
				case *ssa.Lookup:
					mt, ok := x.X.Type().Underlying().(*types.Map)
					if !ok {
						continue
					}
					if _, isPtr := mt.Elem().Underlying().(*types.Pointer); !isPtr {
						continue
					}
					nLookup++
					c.checkMapDeref(r, fn, x)
				case *ssa.TypeAssert:
					if x.CommaOk {
						continue
					}
					nTA++
					key := fmt.Sprintf("%s:%s", short(fn), typeShort(x.AssertedType))
					if why := c.typeAssertSafe(x); why != "" {
						r.OK("type-assert", key, c.ipos(x), why)
					} else if rs, ok := otherReviewed(c, "type-assert", short(fn), typeShort(x.AssertedType)); ok {
						r.OKTrivial("type-assert", key, c.ipos(x), "reviewed: "+rs)
					} else {
						r.Bad("type-assert", key, c.ipos(x), "type assertion without comma-ok on a value whose dynamic type is not established on this path: panics on a mismatching input: "+shapeOf(x.X, 0))
					}
				case *ssa.Panic:
					if mi, ok := x.X.(*ssa.MakeInterface); ok {
						if str, ok := constString(mi.X); ok && strings.HasPrefix(str, "blocking select") {
							continue // go/ssa's unreachable arm of a select without default
						}
					}
					nPanic++
					if rs, ok := otherReviewed(c, "explicit-panic", short(fn), ""); ok {
						r.OKTrivial("explicit-panic", short(fn), c.ipos(x), "reviewed: "+rs)
					} else {
						r.Bad("explicit-panic", short(fn), c.ipos(x), "explicit panic reachable from the network entry points")
					}
				case *ssa.BinOp:
					if x.Op == token.QUO || x.Op == token.REM {
						if _, _, isInt := isIntLike(x.Type()); !isInt {
							continue
						}
						if k, isC := constInt(x.Y); isC && k != 0 {
							continue
						}
						nDiv++
						c.boundsInit()
						a := getAn(fn)
						facts := append([]cons{}, a.blockFacts(x.Block())...)
						facts = append(facts, a.inv...)
						d := a.linOf(x.Y, 0)
						if a.prove(facts, d.add(konst(1), -1), 0) {
							r.OK("div-by-zero", short(fn)+":"+shapeOf(x.Y, 0), c.ipos(x), "divisor proven >= 1")
						} else if rs, ok := otherReviewed(c, "div-by-zero", short(fn), shapeOf(x.Y, 0)); ok {
							r.OKTrivial("div-by-zero", short(fn)+":"+shapeOf(x.Y, 0), c.ipos(x), "reviewed: "+rs)
						} else {
							r.Bad("div-by-zero", short(fn)+":"+shapeOf(x.Y, 0), c.ipos(x), "integer division/modulo by a value not proven non-zero")
						}
					}
				case *ssa.Call:
					name := calleeName(&x.Call)
					if strings.HasSuffix(name, "OrPanic") || strings.HasPrefix(name, "regexp.Must") {
						nPanic++
						if rs, ok := otherReviewed(c, "explicit-panic", short(fn), name); ok {
							r.OKTrivial("explicit-panic", short(fn)+":"+name, c.ipos(x), "reviewed: "+rs)
						} else {
							r.Bad("explicit-panic", short(fn)+":"+name, c.ipos(x), "call to a panicking helper reachable from the network entry points")
						}
					}
				}
			}
		}
	}
	r.Extra["panic_class_sites"] = map[string]int{"pointer-map-lookups": nLookup, "unchecked-type-asserts": nTA, "explicit-panics": nPanic, "divisions": nDiv}
	r.Sites += nLookup + nTA + nPanic + nDiv
}

// otherReviewed looks up the reviewed-safe table for non-bounds panic classes.
func otherReviewed(c *Ctx, rule, fn, what string) (string, bool) {
	if c.otherRev == nil {
		c.otherRev = map[string]string{}
		b, err := os.ReadFile(filepath.Join(c.VerifDir, "spec", "reviewed_safe.json"))
		if err == nil {
			var t struct {
				Other []struct{ Rule, Function, What, Reason string } `json:"other_sites"`
			}
			if json.Unmarshal(b, &t) == nil {
				for _, o := range t.Other {
					c.otherRev[o.Rule+"|"+o.Function+"|"+o.What] = o.Reason
				}
			}
		}
	}
	if rs, ok := c.otherRev[rule+"|"+fn+"|"+what]; ok {
		return rs, true
	}
	// the reviewed construct moved into an unexported helper of the reviewed function
	g := c.Fn(fn)
	if g == nil {
		return "", false
	}
	for k, rs := range c.otherRev {
		parts := strings.SplitN(k, "|", 3)
		if len(parts) != 3 || parts[0] != rule || parts[2] != what {
			continue
		}
		owner := c.Fn(parts[1])
		if owner == nil || owner == g {
			continue
		}
		for _, u := range c.unitFuncs(owner) {
			if u == g {
				return "moved from " + parts[1] + ": " + rs, true
			}
		}
	}
	return "", false
}

// typeAssertSafe: a non-comma-ok assertion is fine when the operand's dynamic type is
// established: it is a MakeInterface of that type, or the result of a sync.Pool Get whose New
// returns that type (pools are typed by construction in this code base).
func (c *Ctx) typeAssertSafe(ta *ssa.TypeAssert) string {
	for _, l := range c.Origins(ta.X, 0) {
		switch x := l.(type) {
		case *ssa.MakeInterface:
			if types.Identical(x.X.Type(), ta.AssertedType) {
				continue
			}
			return ""
		case *ssa.Call:
			if calleeName(&x.Call) == "(*sync.Pool).Get" {
				continue
			}
			return ""
		default:
			return ""
		}
	}
	return "operand's dynamic type is fixed (constructed with that type / sync.Pool of that type)"
}

// checkMapDeref: m[k] with pointer elements must not be dereferenced on a path where the
// element may be absent (nil).
func (c *Ctx) checkMapDeref(r *Report, fn *ssa.Function, lk *ssa.Lookup) {
	const rule = "nil-map-deref"
	var val ssa.Value = lk
	var okV ssa.Value
	if lk.CommaOk {
		val = nil
		for _, ref := range *lk.Referrers() {
			if ex, ok := ref.(*ssa.Extract); ok {
				if ex.Index == 0 {
					val = ex
				} else {
					okV = ex
				}
			}
		}
		if val == nil {
			return
		}
	}
	// dereferences of val
	var derefs []ssa.Instruction
	var visit func(v ssa.Value, d int)
	visit = func(v ssa.Value, d int) {
		if d > 3 || v.Referrers() == nil {
			return
		}
		for _, ref := range *v.Referrers() {
			switch x := ref.(type) {
			case *ssa.FieldAddr:
				if x.X == v {
					derefs = append(derefs, x)
				}
			case *ssa.UnOp:
				if x.Op == token.MUL && x.X == v {
					derefs = append(derefs, x)
				}
			case *ssa.Phi:
				visit(x, d+1)
			}
		}
	}
	visit(val, 0)
	if len(derefs) == 0 {
		return
	}
	key := short(fn) + ":" + shapeOf(lk, 0)
	assume := func(v ssa.Value) (Val, bool) {
		if okV != nil && v == okV {
			return vBool(false), true
		}
		if v == val {
			return vNil(true), true
		}
		return unknown, false
	}
	isDeref := map[ssa.Instruction]ssa.Value{}
	for _, d := range derefs {
		switch x := d.(type) {
		case *ssa.FieldAddr:
			isDeref[d] = x.X
		case *ssa.UnOp:
			isDeref[d] = x.X
		}
	}
	bad := false
	// helpers of the package are followed: a nil-safe method that is handed the element decides
	// the test, and a dereference of its (nil) parameter inside it counts like one here
	w := &Walk{Fn: fn, Assume: assume, Follow: followSamePkg(fn)}
	w.Visit = func(in ssa.Instruction, env Env) bool {
		base, ok := isDeref[in]
		if !ok && in.Parent() != fn {
			switch x := in.(type) {
			case *ssa.FieldAddr:
				if _, isP := x.X.(*ssa.Parameter); isP {
					base, ok = x.X, true
				}
			case *ssa.UnOp:
				if _, isP := x.X.(*ssa.Parameter); isP && x.Op == token.MUL {
					base, ok = x.X, true
				}
			}
		}
		if ok {
			if v := w.eval(base, env); v.Kind == 2 && v.B {
				if !bad {
					r.Bad(rule, key, c.ipos(in), "element of a map with pointer values is dereferenced on a path where the key may be absent (nil pointer dereference)")
				}
				bad = true
			}
		}
		return true
	}
	w.After(lk)
	if !bad {
		r.OK(rule, key, c.ipos(lk), "every dereference is guarded by a presence/nil test")
	}
}

// lenOfFieldLoad matches len(x.F) for the given owner/field.
func isLenOfField(v ssa.Value, owner, field string) bool {
	call, ok := v.(*ssa.Call)
	if !ok {
		return false
	}
	b, ok := call.Call.Value.(*ssa.Builtin)
	return ok && b.Name() == "len" && isFieldLoad(call.Call.Args[0], owner, field)
}

// ruleBufferLimits (C08-2): the two buffering limits the property names are enforced before
// every growth, and the reassembly counters move exactly with inserts and deletes.
func ruleBufferLimits(c *Ctx, r *Report) {
	// ---- Conn.encryptedPackets <= maxAppDataPacketQueueSize
	const rule = "queue-limit"
	grow := 0
	for _, st := range c.StoresTo("dtls.Conn", "encryptedPackets") {
		if isNilConst(st.Val) {
			continue // drained
		}
		fn := st.Fn
		r.Sites += len(fn.Blocks)
		isAppend := false
		for _, l := range []ssa.Value{st.Val} {
			if call, ok := l.(*ssa.Call); ok && calleeName(&call.Call) == "builtin:append" && isFieldLoad(call.Call.Args[0], "dtls.Conn", "encryptedPackets") {
				isAppend = true
			}
		}
		if !isAppend {
			r.Bad(rule, short(fn)+":store", c.ipos(st.Instr), "Conn.encryptedPackets is replaced by a value that is neither nil nor an append to itself")
			continue
		}
		grow++
		// find the limit comparison
		var cmp *ssa.BinOp
		var limit int64
		for _, b := range fn.Blocks {
			for _, in := range b.Instrs {
				if bo, ok := in.(*ssa.BinOp); ok && (bo.Op == token.GEQ || bo.Op == token.GTR) && isLenOfField(bo.X, "dtls.Conn", "encryptedPackets") {
					if k, isC := constInt(bo.Y); isC {
						cmp, limit = bo, k
						if bo.Op == token.GTR {
							limit = k + 1
						}
					}
				}
			}
		}
		if cmp == nil {
			r.Bad(rule, short(fn), c.ipos(st.Instr), "queue of undecryptable records grows without a comparison of its length against a constant limit")
			continue
		}
		w := (&Walk{Fn: fn, Assume: assumeAll(atomAssume{mValue(cmp), vBool(true)})}).FromEntry()
		r.Check(!w.Reached[st.Instr] && limit <= 100 && limit > 0, rule, short(fn), c.ipos(st.Instr), fmt.Sprintf("growth unreachable once len >= %d", limit), fmt.Sprintf("queue can grow although the limit comparison is true, or the limit (%d) exceeds the documented 100 records", limit))
		res := c.mustHold("dtls.Conn.lock", 2, []ssa.Instruction{st.Instr})
		r.Check(len(res.Failures) == 0, rule, short(fn)+":locked", c.ipos(st.Instr), "test and growth under Conn.lock", "length test and append are not under Conn.lock (check-then-act race lets the queue exceed the limit)")
	}
	r.Floor(rule, grow, 1)

	// ---- FragmentBuffer limits and counters
	const rule2 = "reassembly-limit"
	tFB, tFr := "internal/fragmentbuffer.FragmentBuffer", "internal/fragmentbuffer.fragments"
	push := c.need(r, rule2, "(*internal/fragmentbuffer.FragmentBuffer).Push")
	if push == nil {
		return
	}
	r.Sites += len(push.Blocks)
	// all map inserts into cache / fragmentByOffset
	type upd struct {
		fn *ssa.Function
		in *ssa.MapUpdate
		f  string
	}
	var ups []upd
	for _, fn := range c.fnsOfPkg("internal/fragmentbuffer") {
		for _, b := range fn.Blocks {
			for _, in := range b.Instrs {
				if mu, ok := in.(*ssa.MapUpdate); ok {
					if isFieldLoad(mu.Map, tFB, "cache") {
						ups = append(ups, upd{fn, mu, "cache"})
					} else if isFieldLoad(mu.Map, tFr, "fragmentByOffset") {
						ups = append(ups, upd{fn, mu, "fragmentByOffset"})
					} else if _, isAlloc := mu.Map.(*ssa.MakeMap); !isAlloc {
						r.Note(rule2, short(fn)+":other-map", c.ipos(mu), "map insert into another map")
					}
				}
			}
		}
	}
	r.Floor(rule2+":inserts", len(ups), 2)
	// inserts happen only below Push, after the limit test
	var limitCmps []*ssa.BinOp
	consts := map[int64]bool{}
	// the comparisons sit in Push or in a yes/no helper of the package that Push asks
	limitFns := []*ssa.Function{push}
	limitHelper := map[*ssa.Function]bool{}
	for _, b := range push.Blocks {
		for _, in := range b.Instrs {
			if cl, ok := in.(*ssa.Call); ok {
				if g := cl.Call.StaticCallee(); g != nil && g.Pkg == push.Pkg && len(g.Blocks) > 0 && isBoolResult(g) && !limitHelper[g] {
					limitHelper[g] = true
					limitFns = append(limitFns, g)
				}
			}
		}
	}
	followLimit := func(g *ssa.Function) bool { return limitHelper[g] }
	for _, lf := range limitFns {
		for _, b := range lf.Blocks {
			for _, in := range b.Instrs {
				if bo, ok := in.(*ssa.BinOp); ok && (bo.Op == token.GEQ || bo.Op == token.GTR) {
					if k, isC := constInt(bo.Y); isC && k >= 100 {
						limitCmps = append(limitCmps, bo)
						consts[k] = true
					}
				}
			}
		}
	}
	r.Check(len(limitCmps) >= 2 && consts[2000000] && consts[1000], rule2, short(push)+":limits", c.pos(push.Pos()), "size limit 2000000 bytes and count limit 1000 fragments compared in Push", fmt.Sprintf("Push no longer compares against both documented limits (2 MB, 1000 fragments): found %d comparisons %v", len(limitCmps), consts))
	for _, u := range ups {
		key := short(u.fn) + ":" + u.f
		if u.fn == push {
			continue
		}
		// the inserting function is reached only through Push (directly or through other helpers
		// that are), and Push calls down only when under the limits
		var underLimit func(fn *ssa.Function, d int) bool
		underLimit = func(fn *ssa.Function, d int) bool {
			sites := c.CallsToName(short(fn))
			if len(sites) == 0 || d > 3 {
				return false
			}
			if _, closed := c.staticCallers(fn); !closed {
				return false
			}
			for _, s := range sites {
				if s.Fn != push {
					if s.Fn == fn || !underLimit(s.Fn, d+1) {
						return false
					}
					continue
				}
				for _, cmp := range limitCmps {
					w := (&Walk{Fn: push, Follow: followLimit, Assume: assumeAll(atomAssume{mValue(cmp), vBool(true)})}).FromEntry()
					if w.Reached[s.Call] || w.overflow {
						return false
					}
				}
			}
			return true
		}
		okCallers := underLimit(u.fn, 0)
		r.Check(okCallers, rule2, key+":after-limit", c.ipos(u.in), "insert reachable only through Push after both limit tests passed", "a fragment can be stored without passing the reassembly limits (size / count)")
	}
	// a fragment is stored under an offset that is not stored yet, or replaces a stored fragment of
	// that offset only when it is longer; the accounting moves with it: a new fragment adds its
	// length and one to the count, a replacement adds the difference of the two lengths and leaves
	// the count alone
	isFragLen := func(v ssa.Value) bool {
		_, f, _, ok := fieldLoad(v)
		return ok && f == "FragmentLength"
	}
	for _, u := range ups {
		if u.f != "fragmentByOffset" {
			continue
		}
		fn := u.fn
		key := short(fn)
		var present, storedFrag ssa.Value
		for _, b := range fn.Blocks {
			for _, in := range b.Instrs {
				if lk, ok := in.(*ssa.Lookup); ok && lk.CommaOk && isFieldLoad(lk.X, tFr, "fragmentByOffset") {
					for _, ref := range *lk.Referrers() {
						if ex, ok := ref.(*ssa.Extract); ok {
							if ex.Index == 1 {
								present = ex
							} else {
								storedFrag = ex
							}
						}
					}
				}
			}
		}
		if present == nil {
			r.Bad(rule2, key+":insert-once", c.ipos(u.in), "fragments are stored without first testing whether that offset is already stored (duplicates are counted again and the limits drift)")
			continue
		}
		w := (&Walk{Fn: fn, Assume: assumeAll(atomAssume{mValue(present), vBool(true)})}).FromEntry()
		counters := []struct{ owner, f string }{{tFr, "fragmentsLength"}, {tFB, "totalBufferSize"}, {tFB, "totalFragmentCount"}}
		storesOf := func(owner, f string) []*ssa.Store {
			var out []*ssa.Store
			for _, b := range fn.Blocks {
				for _, in := range b.Instrs {
					if st, ok := in.(*ssa.Store); ok {
						if o, ff, _, ok := fieldOfAddr(st.Addr); ok && o == owner && ff == f {
							out = append(out, st)
						}
					}
				}
			}
			return out
		}
		sameRegion := func(in ssa.Instruction) bool {
			return in.Block() == u.in.Block() || in.Block().Dominates(u.in.Block()) || u.in.Block().Dominates(in.Block())
		}
		if !w.Reached[u.in] {
			// a new offset
			r.OK(rule2, key+":insert-once", c.ipos(u.in), "this store is unreachable for an offset that is already stored")
			for _, cnt := range counters {
				found := false
				for _, st := range storesOf(cnt.owner, cnt.f) {
					if !sameRegion(st) {
						continue
					}
					if w.Reached[st] {
						continue // belongs to the replacement branch
					}
					found = true
					bo, isAdd := st.Val.(*ssa.BinOp)
					r.Check(isAdd && bo.Op == token.ADD, rule2, key+":accounting:"+cnt.f, c.ipos(st), cnt.f+" increases exactly when a new fragment is stored", cnt.f+" is not increased together with the store of a new fragment")
				}
				r.Check(found, rule2, key+":accounting-present:"+cnt.f, c.ipos(u.in), "counter maintained", cnt.f+" is not increased when a fragment is stored")
			}
			continue
		}
		// a replacement: only by a strictly longer fragment
		isStored := func(v ssa.Value) bool {
			_, _, base, ok := fieldLoad(v)
			if !ok || storedFrag == nil {
				return false
			}
			for _, l := range c.Origins(base, 0) {
				if l == storedFrag {
					return true
				}
			}
			for i := 0; i < 4 && base != nil; i++ {
				if base == storedFrag {
					return true
				}
				switch x := base.(type) {
				case *ssa.FieldAddr:
					base = x.X
				case *ssa.UnOp:
					base = x.X
				case *ssa.Field:
					base = x.X
				default:
					base = nil
				}
			}
			return false
		}
		compared := 0
		shorter := func(v ssa.Value) (Val, bool) {
			if v == present {
				return vBool(true), true
			}
			bo, ok := v.(*ssa.BinOp)
			if !ok || !isFragLen(bo.X) || !isFragLen(bo.Y) || isStored(bo.X) == isStored(bo.Y) {
				return unknown, false
			}
			newOnLeft := isStored(bo.Y)
			// the new fragment is strictly shorter than the stored one
			var val bool
			switch bo.Op {
			case token.GTR, token.GEQ:
				val = !newOnLeft
			case token.LSS, token.LEQ:
				val = newOnLeft
			case token.EQL:
				val = false
			case token.NEQ:
				val = true
			default:
				return unknown, false
			}
			compared++
			return vBool(val), true
		}
		w2 := (&Walk{Fn: fn, Assume: shorter}).FromEntry()
		if compared == 0 {
			r.Bad(rule2, key+":replace-only-longer", c.ipos(u.in), "a fragment replaces the stored fragment of the same offset without their lengths being compared: a retransmitted or empty fragment can displace bytes already received")
		} else {
			r.Check(!w2.Reached[u.in], rule2, key+":replace-only-longer", c.ipos(u.in), "a stored fragment is replaced only by a longer one of the same offset", "a fragment that is shorter than the stored fragment of its offset replaces it: bytes already received are lost and the message no longer completes")
		}
		for _, cnt := range counters {
			for _, st := range storesOf(cnt.owner, cnt.f) {
				if st.Block() != u.in.Block() {
					continue
				}
				if cnt.f == "totalFragmentCount" {
					r.Bad(rule2, key+":replace-accounting:"+cnt.f, c.ipos(st), "the fragment count is increased when a stored fragment is replaced: the count limit is reached with fewer fragments stored than counted")
					continue
				}
				bo, isAdd := st.Val.(*ssa.BinOp)
				diff := false
				if isAdd && bo.Op == token.ADD {
					for _, side := range []ssa.Value{bo.X, bo.Y} {
						for _, l := range c.Origins(stripConv(side), 0) {
							if sb, ok := stripConv(l).(*ssa.BinOp); ok && sb.Op == token.SUB && isFragLen(sb.X) && isFragLen(sb.Y) && !isStored(sb.X) && isStored(sb.Y) {
								diff = true
							}
						}
					}
				}
				r.Check(diff, rule2, key+":replace-accounting:"+cnt.f, c.ipos(st), cnt.f+" grows by the difference of the two lengths", cnt.f+" is not adjusted by (new length - stored length) when a stored fragment is replaced: the size accounting drifts from what is stored")
			}
		}
	}
	// deletes give the bytes and the count back
	for _, fn := range c.fnsOfPkg("internal/fragmentbuffer") {
		for _, ci := range callsIn(fn, nameIs("builtin:delete")) {
			call := ci.(*ssa.Call)
			if !isFieldLoad(call.Call.Args[0], tFB, "cache") {
				continue
			}
			for _, f := range []string{"totalBufferSize", "totalFragmentCount"} {
				ok := false
				for _, b := range fn.Blocks {
					for _, in := range b.Instrs {
						if st, isSt := in.(*ssa.Store); isSt {
							if o, ff, _, okF := fieldOfAddr(st.Addr); okF && o == tFB && ff == f {
								if bo, isSub := st.Val.(*ssa.BinOp); isSub && bo.Op == token.SUB && (in.Block() == call.Block() || in.Block().Dominates(call.Block())) {
									ok = true
								}
							}
						}
					}
				}
				r.Check(ok, rule2, short(fn)+":delete-returns:"+f, c.ipos(call), f+" decreased before the entry is deleted", "a reassembly entry is deleted without giving "+f+" back: the buffer limit is eventually hit with an empty buffer (endpoint stops accepting handshake messages)")
			}
		}
	}
}

// ruleDropNotFail (C08-3): decode failures are dropped; ErrInvalidPacketLength keeps the read loop alive.
func ruleDropNotFail(c *Ctx, r *Report) {
	const rule = "decode-errors-dropped"
	if fn := c.need(r, rule, "(*dtls.Conn).classifyReadLoopError"); fn != nil {
		r.Sites += len(fn.Blocks)
		actions := c.enumConsts("", "readLoopErrorAction")
		// errors.Is(err, recordlayer.ErrInvalidPacketLength) == true  => readLoopContinue
		isInvalidLen := func(v ssa.Value) bool {
			call, ok := v.(*ssa.Call)
			if !ok || calleeName(&call.Call) != "errors.Is" {
				return false
			}
			u, ok := call.Call.Args[1].(*ssa.UnOp)
			if !ok {
				return false
			}
			g, ok := u.X.(*ssa.Global)
			return ok && g.Name() == "ErrInvalidPacketLength"
		}
		isMatcherOfInvalidLen := func(v ssa.Value) bool {
			call, ok := v.(*ssa.Call)
			if !ok {
				return false
			}
			callee := call.Call.StaticCallee()
			if callee == nil || !inModule(callee) {
				return false
			}
			set, ok := c.sentinelMatcher(callee)
			return ok && set["ErrInvalidPacketLength"]
		}
		w := (&Walk{Fn: fn, Follow: followSamePkg(fn), Assume: assumeAll(
			atomAssume{isInvalidLen, vBool(true)},
			atomAssume{isMatcherOfInvalidLen, vBool(true)},
			atomAssume{mCall("errors.As"), vBool(false)},
		)}).FromEntry()
		good := len(w.Returns) > 0
		for _, ro := range w.Returns {
			if k, ok := retInt(ro, 0); !ok || k != actions["readLoopContinue"] {
				good = false
			}
		}
		r.Check(good, rule, short(fn)+":ErrInvalidPacketLength", c.pos(fn.Pos()), "undecodable datagram -> readLoopContinue", "a datagram that cannot be split into records stops or closes the read loop instead of being dropped")
		// a received fatal alert / close_notify closes
		var fatalAtom = func(v ssa.Value) bool {
			call, ok := v.(*ssa.Call)
			return ok && strings.HasSuffix(calleeName(&call.Call), "alertError).IsFatalOrCloseNotify")
		}
		w2 := (&Walk{Fn: fn, Follow: followSamePkg(fn), Assume: assumeAll(atomAssume{mCall("errors.As"), vBool(true)}, atomAssume{fatalAtom, vBool(true)})}).FromEntry()
		good = len(w2.Returns) > 0
		for _, ro := range w2.Returns {
			if k, ok := retInt(ro, 0); !ok || k != actions["readLoopCloseAndStop"] {
				good = false
			}
		}
		r.Check(good, "alert-closes", short(fn), c.pos(fn.Pos()), "fatal alert / close_notify -> readLoopCloseAndStop", "a received fatal alert or close_notify does not close the connection")
	}
	// ... and the loop that asked for the classification does close on that verdict: with the action
	// equal to close-and-stop no path leaves the loop function without having called (*Conn).close
	for _, s := range c.CallsTo(nameIs("(*dtls.Conn).classifyReadLoopError")) {
		call, ok := s.Call.(*ssa.Call)
		if !ok {
			continue
		}
		loop := s.Fn
		// the obligation is the read loop's: a helper that classifies one datagram's error and
		// hands everything but "drop" back to its caller has no loop to leave
		inLoop := false
		for _, l := range naturalLoops(loop) {
			if l.blocks[call.Block()] {
				inLoop = true
			}
		}
		if !inLoop {
			continue
		}
		actions := c.enumConsts("", "readLoopErrorAction")
		closeAct, okA := actions["readLoopCloseAndStop"]
		if !okA {
			r.Unk("alert-closes", short(loop)+":closes", c.ipos(call), "readLoopCloseAndStop constant not found")
			continue
		}
		isAction := func(v ssa.Value) bool {
			return anyLeaf(c.Origins(v, 0), func(l ssa.Value) bool { return l == ssa.Value(call) })
		}
		w := &Walk{Fn: loop, Follow: followSamePkg(loop), Assume: func(v ssa.Value) (Val, bool) {
			if isAction(v) {
				if _, isBin := v.(*ssa.BinOp); !isBin {
					return vInt(closeAct), true
				}
			}
			return unknown, false
		}}
		w.VisitRaw = func(in ssa.Instruction, _ Env, _ map[*ssa.Phi]ssa.Value) bool {
			if cl, ok := in.(*ssa.Call); ok && strings.HasSuffix(calleeName(&cl.Call), "dtls.Conn).close") {
				return false
			}
			return true
		}
		w.After(call)
		leaves := false
		for in := range w.Reached {
			if ret, ok := in.(*ssa.Return); ok && ret.Parent() == loop {
				leaves = true
			}
		}
		r.Check(!leaves, "alert-closes", short(loop)+":closes", c.ipos(call), "the close-and-stop verdict always reaches (*Conn).close before the loop ends", "the read loop can end on the close-and-stop verdict (received fatal alert, close_notify, handshake timeout) without closing the connection: Write keeps succeeding and the transport stays open")
	}
	// header / fragment decode failures are "handled, no error"
	if fn := c.need(r, rule, "(*dtls.Conn).bufferHandshakeRecord"); fn != nil {
		pushes := findCalls(fn, nameHasSuffix("FragmentBuffer).Push"))
		if len(pushes) == 1 {
			w := (&Walk{Fn: fn, Assume: failAssumption(errResult(pushes[0]))}).After(pushes[0])
			good := len(w.Returns) > 0
			for _, ro := range w.Returns {
				res := retResults(ro.Ret)
				handled, isC := constBool(res[1])
				if !(isZeroStruct(res[0]) && isC && handled) {
					good = false
				}
			}
			r.Check(good, rule, short(fn)+":push-error", c.ipos(pushes[0]), "reassembly error -> (no outcome, handled)", "a malformed handshake fragment produces an outcome or is passed on instead of being dropped")
		} else {
			r.Unk(rule, short(fn), c.pos(fn.Pos()), "FragmentBuffer.Push call not found")
		}
	}
}

// rulePacketQueueProgress (C08): a consumer of the listener's packet ring either consumes the
// head packet or leaves an error that a retry can get past.
func rulePacketQueueProgress(c *Ctx, r *Report) {
	const rule = "queue-progress"
	fn := c.need(r, rule, "(*internal/net.PacketBuffer).ReadFrom")
	if fn == nil {
		return
	}
	r.Sites += len(fn.Blocks)
	tPB := "internal/net.PacketBuffer"
	// the region where a head packet was selected: after the load of b.packets[b.read]
	var advance []ssa.Instruction
	for _, b := range fn.Blocks {
		for _, in := range b.Instrs {
			if st, ok := in.(*ssa.Store); ok {
				if o, f, _, ok := fieldOfAddr(st.Addr); ok && o == tPB && f == "read" {
					advance = append(advance, in)
				}
			}
		}
	}
	var head ssa.Instruction
	for _, b := range fn.Blocks {
		for _, in := range b.Instrs {
			if ia, ok := in.(*ssa.IndexAddr); ok && isFieldLoad(ia.X, tPB, "packets") && isFieldLoad(ia.Index, tPB, "read") {
				head = ia
			}
		}
	}
	if head == nil || len(advance) == 0 {
		r.Unk(rule, short(fn), c.pos(fn.Pos()), "head selection / cursor advance not found")
		return
	}
	n := 0
	for _, b := range fn.Blocks {
		ret, ok := b.Instrs[len(b.Instrs)-1].(*ssa.Return)
		if !ok || !head.Block().Dominates(b) {
			continue
		}
		// returns after a head packet was selected
		adv := false
		for _, a := range advance {
			if instrDominates(a, ret) {
				adv = true
			}
		}
		res := retResults(ret)
		errV := res[len(res)-1]
		// io.ErrShortBuffer is retryable with a bigger buffer: allowed without advancing
		short1 := false
		if u, ok := errV.(*ssa.UnOp); ok {
			if g, ok := u.X.(*ssa.Global); ok && g.Name() == "ErrShortBuffer" {
				short1 = true
			}
		}
		n++
		key := fmt.Sprintf("%s:return%d", short(fn), n)
		if adv || short1 {
			r.OK(rule, key, c.ipos(ret), "cursor advanced (or retryable short-buffer error)")
		} else {
			r.Bad(rule, key, c.ipos(ret), "ReadFrom returns an error for the head packet without advancing the read cursor: every later read fails the same way (a zero-length datagram makes bytes.Buffer.Read return io.EOF and wedges the connection)")
		}
	}
	r.Floor(rule, n, 2)
}

type baseSite struct {
	Status string   `json:"status"` // proved | reviewed
	Goals  string   `json:"goals,omitempty"`
	Guards []string `json:"guards,omitempty"` // reviewed sites: the checks in force that mention the index or the container
}

// loadBoundsBaseline: function|kind|nshape -> how the reviewed tree decided that site.
func loadBoundsBaseline(verif string) map[string]baseSite {
	out := map[string]baseSite{}
	b, err := os.ReadFile(filepath.Join(verif, "spec", "bounds_baseline.json"))
	if err != nil {
		return out
	}
	var t struct {
		Sites map[string]baseSite `json:"sites"`
	}
	if json.Unmarshal(b, &t) == nil {
		out = t.Sites
	}
	return out
}

// genBoundsBaseline records the decision of every site in scope on the reviewed tree and
// (first run after a change of the shape notation) fills the normalised shape of the reviewed
// entries. Used only through `dtlsvet -gen-bounds-baseline`.
func (c *Ctx) genBoundsBaseline() error {
	c.boundsInit()
	r := newReport("C08")
	scope := c.attackerScope(r, "bounds")
	path := filepath.Join(c.VerifDir, "spec", "reviewed_safe.json")
	raw, err := os.ReadFile(path)
	if err != nil {
		return err
	}
	var doc map[string]json.RawMessage
	if err := json.Unmarshal(raw, &doc); err != nil {
		return err
	}
	var sites []reviewedSite
	if err := json.Unmarshal(doc["sites"], &sites); err != nil {
		return err
	}
	byOld := map[string][]int{}
	for i, s := range sites {
		byOld[s.Function+"|"+s.Kind+"|"+s.Shape] = append(byOld[s.Function+"|"+s.Kind+"|"+s.Shape], i)
	}
	base := map[string]baseSite{}
	for _, fn := range c.Fns {
		if !scope[fn] {
			continue
		}
		for _, s := range boundsAnalyse(fn, c.Fset) {
			k := short(fn) + "|" + s.what + "|" + normSiteShape(s.ins)
			if s.ok {
				if _, dup := base[k]; !dup {
					base[k] = baseSite{Status: "proved"}
				}
				continue
			}
			for _, i := range byOld[short(fn)+"|"+s.what+"|"+siteShape(s.ins)] {
				sites[i].NShape = normSiteShape(s.ins)
			}
			if len(byOld[short(fn)+"|"+s.what+"|"+siteShape(s.ins)]) == 0 {
				fmt.Println("not proven and not reviewed:", k, "goals", s.goal)
				continue
			}
			prev := base[k]
			guards := s.relFacts
			if prev.Status == "reviewed" {
				// several sites share the key: keep what all of them have
				var both []string
				for _, g := range prev.Guards {
					for _, h := range s.relFacts {
						if g == h {
							both = append(both, g)
						}
					}
				}
				guards = both
			}
			base[k] = baseSite{Status: "reviewed", Goals: mergeGoals(prev.Goals, s.goal), Guards: guards}
		}
	}
	sb, _ := json.MarshalIndent(sites, " ", " ")
	doc["sites"] = sb
	keys := []string{"_comment", "assumed_preconditions", "sites", "other_sites"}
	var out strings.Builder
	out.WriteString("{\n")
	first := true
	for _, k := range keys {
		v, ok := doc[k]
		if !ok {
			continue
		}
		if !first {
			out.WriteString(",\n")
		}
		first = false
		out.WriteString(fmt.Sprintf(" %q: %s", k, string(v)))
	}
	out.WriteString("\n}\n")
	if err := os.WriteFile(path, []byte(out.String()), 0o644); err != nil {
		return err
	}
	bb, _ := json.MarshalIndent(map[string]any{
		"_comment": "How the reviewed tree decided every index/slice/encoding-binary site in the attacker-reachable scope, keyed function|kind|normalised shape. Generated by `dtlsvet -gen-bounds-baseline`; a site listed as proved that is no longer proven is a regression.",
		"sites":    base,
	}, "", " ")
	if err := os.WriteFile(filepath.Join(c.VerifDir, "spec", "bounds_baseline.json"), append(bb, '\n'), 0o644); err != nil {
		return err
	}
	// narrowing sites proved lossless on the reviewed tree
	narrowMode = true
	defer func() { narrowMode = false }()
	var nk []string
	allOK := map[string]bool{}
	for _, fn := range c.Fns {
		if fn.Pkg == nil || len(fn.Blocks) == 0 || !strings.Contains(fn.Pkg.Pkg.Path(), "/pkg/protocol") {
			continue
		}
		for _, s := range boundsAnalyse(fn, c.Fset) {
			k := short(fn) + "|" + s.what + "|" + normSiteShape(s.ins)
			if prev, seen := allOK[k]; seen {
				allOK[k] = prev && s.ok
			} else {
				allOK[k] = s.ok
			}
		}
	}
	for k, ok := range allOK {
		if ok {
			nk = append(nk, k)
		}
	}
	sort.Strings(nk)
	nb, _ := json.MarshalIndent(map[string]any{
		"_comment": "Length narrowings (integer -> 8/16-bit wire length field) in the codec packages that the reviewed tree proves lossless, keyed function|kind|normalised shape. Generated by `dtlsvet -gen-bounds-baseline`; a listed site that is still present but no longer proven is a regression.",
		"proved":   dedup(nk),
	}, "", " ")
	return os.WriteFile(filepath.Join(c.VerifDir, "spec", "narrowing_baseline.json"), append(nb, '\n'), 0o644)
}

func mergeGoals(a, b string) string {
	m := map[string]bool{}
	for _, g := range strings.Split(a+","+b, ",") {
		if g != "" {
			m[g] = true
		}
	}
	var out []string
	for g := range m {
		out = append(out, g)
	}
	sort.Strings(out)
	return strings.Join(out, ",")
}

// errSentinels: the package-level error values that can reach error result of fn (through its
// own returns, %w wrapping, and the error results of statically resolved module callees).
// Anything else is reported as "?<shape>".
func (c *Ctx) errSentinels(fn *ssa.Function, depth int, seen map[*ssa.Function]bool) map[string]bool {
	out := map[string]bool{}
	if fn == nil || len(fn.Blocks) == 0 || depth > 5 || seen[fn] {
		return out
	}
	seen[fn] = true
	var addVal func(v ssa.Value, d int)
	addVal = func(v ssa.Value, d int) {
		if d > 6 {
			out["?deep"] = true
			return
		}
		for _, l := range c.Origins(v, 0) {
			switch x := l.(type) {
			case *ssa.Const:
				// nil
			case *ssa.UnOp:
				if g, ok := x.X.(*ssa.Global); ok && x.Op == token.MUL {
					out[g.Name()] = true
					continue
				}
				out["?"+shapeOf(l, 0)] = true
			case *ssa.Call, *ssa.Extract:
				call, _ := callOfResult(l)
				if call == nil {
					out["?"+shapeOf(l, 0)] = true
					continue
				}
				name := calleeName(&call.Call)
				if name == "fmt.Errorf" {
					// wrapped operands
					for _, a := range call.Call.Args[1:] {
						if sl, ok := a.(*ssa.Slice); ok {
							if al, ok := sl.X.(*ssa.Alloc); ok {
								for _, ref := range *al.Referrers() {
									if ia, ok := ref.(*ssa.IndexAddr); ok {
										for _, r2 := range *ia.Referrers() {
											if st, ok := r2.(*ssa.Store); ok {
												ev := st.Val
												if mi, ok := ev.(*ssa.MakeInterface); ok {
													ev = mi.X
												}
												if ct, ok := ev.(*ssa.ChangeInterface); ok {
													ev = ct.X
												}
												if isErrorType(ev.Type()) {
													addVal(ev, d+1)
												}
											}
										}
									}
								}
							}
						}
					}
					continue
				}
				if callee := call.Call.StaticCallee(); callee != nil && inModule(callee) && len(callee.Blocks) > 0 {
					for k := range c.errSentinels(callee, depth+1, seen) {
						out[k] = true
					}
					continue
				}
				out["?"+name] = true
			default:
				out["?"+shapeOf(l, 0)] = true
			}
		}
	}
	res := fn.Signature.Results()
	if res.Len() == 0 || !isErrorType(res.At(res.Len()-1).Type()) {
		return out
	}
	for _, b := range fn.Blocks {
		if ret, ok := b.Instrs[len(b.Instrs)-1].(*ssa.Return); ok {
			addVal(unspill(ret.Results[len(ret.Results)-1]), 0)
		}
	}
	delete(seen, fn)
	return out
}

// ruleUnpackErrorsDropped (C08, "undecodable input is dropped, the connection lives on"): every
// error value a datagram unpacker can return is one that the read loop's classifier maps to
// "continue" regardless of the connection's state.
func ruleUnpackErrorsDropped(c *Ctx, r *Report) {
	const rule = "unpack-errors-dropped"
	cls := c.need(r, rule, "(*dtls.Conn).classifyReadLoopError")
	if cls == nil {
		return
	}
	actions := c.enumConsts("", "readLoopErrorAction")
	// sentinels the classifier tests with errors.Is
	tested := map[string]bool{}
	for _, call := range findCalls(cls, nameIs("errors.Is")) {
		if u, ok := call.Call.Args[1].(*ssa.UnOp); ok {
			if g, ok := u.X.(*ssa.Global); ok {
				tested[g.Name()] = true
			}
		}
	}
	continues := func(sentinel string) bool {
		w := (&Walk{Fn: cls, Assume: func(v ssa.Value) (Val, bool) {
			call, ok := v.(*ssa.Call)
			if !ok {
				return unknown, false
			}
			switch calleeName(&call.Call) {
			case "errors.As":
				return vBool(false), true
			case "errors.Is":
				if u, ok := call.Call.Args[1].(*ssa.UnOp); ok {
					if g, ok := u.X.(*ssa.Global); ok {
						return vBool(g.Name() == sentinel), true
					}
				}
			}
			if callee := call.Call.StaticCallee(); callee != nil && inModule(callee) {
				if set, ok := c.sentinelMatcher(callee); ok {
					return vBool(set[sentinel]), true
				}
			}
			return unknown, false
		}}).FromEntry()
		if len(w.Returns) == 0 {
			return false
		}
		for _, ro := range w.Returns {
			if k, ok := constInt(ro.Raw[0]); !ok || k != actions["readLoopContinue"] {
				return false
			}
		}
		return true
	}
	n := 0
	for _, name := range []string{"pkg/protocol/recordlayer.UnpackDatagram", "pkg/protocol/recordlayer.ContentAwareUnpackDatagram", "pkg/protocol/recordlayer.UnpackDatagram13"} {
		fn := c.need(r, rule, name)
		if fn == nil {
			continue
		}
		r.Sites += len(fn.Blocks)
		set := c.errSentinels(fn, 0, map[*ssa.Function]bool{})
		var names []string
		for k := range set {
			names = append(names, k)
		}
		sort.Strings(names)
		for _, s := range names {
			n++
			key := short(fn) + ":" + s
			if strings.HasPrefix(s, "?") {
				r.Unk(rule, key, c.pos(fn.Pos()), "an error of unknown origin can be returned by the unpacker: "+s)
				continue
			}
			r.Check(continues(s), rule, key, c.pos(fn.Pos()), "the read loop drops the datagram and continues", "the unpacker can return "+s+", which the read loop does not map to \"continue\": one undecodable datagram from anyone stops the read loop or is delivered as a read error (tested sentinels: "+strings.Join(sortedBoolKeys(tested), ",")+")")
		}
	}
	r.Floor(rule, n, 2)
}

func sortedBoolKeys(m map[string]bool) []string {
	var out []string
	for k := range m {
		out = append(out, k)
	}
	sort.Strings(out)
	return out
}

// isErrorList reports whether a package-level variable is a slice or array of errors.
func isErrorList(g *ssa.Global) bool {
	switch t := derefType(g.Type()).Underlying().(type) {
	case *types.Slice:
		return isErrorType(t.Elem())
	case *types.Array:
		return isErrorType(t.Elem())
	}
	return false
}

// sentinelListElems resolves the elements of a package-level list of sentinel errors:
// the list is assigned once, in the package initialiser, from a literal whose elements
// are loads of sentinel variables, and nothing else in the module stores to it or to
// one of its elements.
func (c *Ctx) sentinelListElems(g *ssa.Global) ([]string, bool) {
	var names []string
	assigned := 0
	for _, fn := range c.Fns {
		for _, b := range fn.Blocks {
			for _, in := range b.Instrs {
				st, ok := in.(*ssa.Store)
				if !ok {
					continue
				}
				root, _ := accessPath(st.Addr)
				if ld, isLd := root.(*ssa.UnOp); isLd {
					root = ld.X
				}
				if root != ssa.Value(g) {
					continue
				}
				if st.Addr != ssa.Value(g) {
					// an element written in place
					if ia, isIA := st.Addr.(*ssa.IndexAddr); isIA && ia.X == ssa.Value(g) && fn.Name() == "init" {
						u, isU := st.Val.(*ssa.UnOp)
						if !isU {
							return nil, false
						}
						eg, isG := u.X.(*ssa.Global)
						if !isG {
							return nil, false
						}
						names = append(names, eg.Name())
						continue
					}
					return nil, false
				}
				if fn.Name() != "init" || fn.Pkg == nil || fn.Pkg != g.Pkg {
					return nil, false
				}
				assigned++
				sl, isSl := st.Val.(*ssa.Slice)
				if !isSl {
					return nil, false
				}
				al, isAl := sl.X.(*ssa.Alloc)
				if !isAl {
					return nil, false
				}
				for _, ref := range *al.Referrers() {
					ia, isIA := ref.(*ssa.IndexAddr)
					if !isIA {
						continue
					}
					for _, r2 := range *ia.Referrers() {
						est, isSt := r2.(*ssa.Store)
						if !isSt {
							continue
						}
						u, isU := est.Val.(*ssa.UnOp)
						if !isU {
							return nil, false
						}
						eg, isG := u.X.(*ssa.Global)
						if !isG {
							return nil, false
						}
						names = append(names, eg.Name())
					}
				}
			}
		}
	}
	if len(names) == 0 || assigned > 1 {
		return nil, false
	}
	return names, true
}

// sentinelMatcher recognises a helper of the form
//
//	func(err error) bool { for _, s := range [...]error{A, B, ...} { if errors.Is(err, s) { return true } }; return false }
//
// (or a chain of errors.Is tests joined by ||) and returns the set of sentinels it matches.
// ok is false when the function has another shape.
func (c *Ctx) sentinelMatcher(fn *ssa.Function) (map[string]bool, bool) {
	if fn == nil || len(fn.Blocks) == 0 || len(fn.Params) != 1 || !isErrorType(fn.Params[0].Type()) {
		return nil, false
	}
	res := fn.Signature.Results()
	if res.Len() != 1 {
		return nil, false
	}
	if bt, ok := res.At(0).Type().Underlying().(*types.Basic); !ok || bt.Kind() != types.Bool {
		return nil, false
	}
	set := map[string]bool{}
	calls := findCalls(fn, nameIs("errors.Is"))
	if len(calls) == 0 {
		return nil, false
	}
	for _, call := range calls {
		if call.Call.Args[0] != ssa.Value(fn.Params[0]) {
			return nil, false
		}
		for _, l := range c.Origins(call.Call.Args[1], 0) {
			// an element of a local array literal (by value): t = *lit; t[i]
			if ix, isIx := l.(*ssa.Index); isIx {
				if ld, isLd := ix.X.(*ssa.UnOp); isLd {
					if al, isAl := ld.X.(*ssa.Alloc); isAl {
						okLit := true
						for _, ref := range *al.Referrers() {
							ia2, isIA := ref.(*ssa.IndexAddr)
							if !isIA {
								continue
							}
							for _, r2 := range *ia2.Referrers() {
								st, isSt := r2.(*ssa.Store)
								if !isSt {
									continue
								}
								u, isU := st.Val.(*ssa.UnOp)
								if !isU {
									okLit = false
									continue
								}
								g, isG := u.X.(*ssa.Global)
								if !isG {
									okLit = false
									continue
								}
								set[g.Name()] = true
							}
						}
						if okLit {
							continue
						}
					}
				}
				return nil, false
			}
			switch x := l.(type) {
			case *ssa.UnOp:
				if g, ok := x.X.(*ssa.Global); ok {
					if isErrorList(g) {
						// a package-level list of sentinels: its elements, as the package initialiser sets them
						names, okList := c.sentinelListElems(g)
						if !okList {
							return nil, false
						}
						for _, n := range names {
							set[n] = true
						}
						continue
					}
					set[g.Name()] = true
					continue
				}
				// an element of a local array literal: every element stored is a sentinel load
				if ia, ok := x.X.(*ssa.IndexAddr); ok {
					base := ia.X
					if sl, isSl := base.(*ssa.Slice); isSl {
						base = sl.X
					}
					al, isAl := base.(*ssa.Alloc)
					if !isAl {
						return nil, false
					}
					for _, ref := range *al.Referrers() {
						ia2, isIA := ref.(*ssa.IndexAddr)
						if !isIA {
							continue
						}
						for _, r2 := range *ia2.Referrers() {
							st, isSt := r2.(*ssa.Store)
							if !isSt {
								continue
							}
							u, isU := st.Val.(*ssa.UnOp)
							if !isU {
								return nil, false
							}
							g, isG := u.X.(*ssa.Global)
							if !isG {
								return nil, false
							}
							set[g.Name()] = true
						}
					}
					continue
				}
				return nil, false
			default:
				return nil, false
			}
		}
	}
	// semantics: no match -> false; a match -> true
	w0 := (&Walk{Fn: fn, Assume: func(v ssa.Value) (Val, bool) {
		if cl, ok := v.(*ssa.Call); ok && calleeName(&cl.Call) == "errors.Is" {
			return vBool(false), true
		}
		return unknown, false
	}}).FromEntry()
	if len(w0.Returns) == 0 {
		return nil, false
	}
	for _, ro := range w0.Returns {
		if len(ro.Vals) != 1 || ro.Vals[0].Kind != 1 || ro.Vals[0].B {
			return nil, false
		}
	}
	for _, call := range calls {
		cl := call
		w1 := (&Walk{Fn: fn, Assume: func(v ssa.Value) (Val, bool) {
			if v == ssa.Value(cl) {
				return vBool(true), true
			}
			return unknown, false
		}}).After(cl)
		if len(w1.Returns) == 0 {
			return nil, false
		}
		for _, ro := range w1.Returns {
			if len(ro.Vals) != 1 || ro.Vals[0].Kind != 1 || !ro.Vals[0].B {
				return nil, false
			}
		}
	}
	return set, len(set) > 0
}

// retInt: the integer a path returned in result i: the constant itself, or the value computed
// along the path (a followed helper's result).
func retInt(ro *RetOutcome, i int) (int64, bool) {
	if i < len(ro.Raw) {
		if k, ok := constInt(ro.Raw[i]); ok {
			return k, true
		}
	}
	if i < len(ro.Vals) && ro.Vals[i].Kind == 3 {
		return ro.Vals[i].I, true
	}
	return 0, false
}

// checkedInHelper: the indexed container is loaded from an address that a dominating call hands
// to a module function together with the index value, and that function compares the length of
// what the address holds with (something computed from) its index parameter.
func checkedInHelper(in ssa.Instruction) bool {
	ia, ok := in.(*ssa.IndexAddr)
	if !ok {
		return false
	}
	ld, ok := ia.X.(*ssa.UnOp)
	if !ok || ld.Op != token.MUL {
		return false
	}
	sameAddr := func(a, b ssa.Value) bool {
		if a == b {
			return true
		}
		o1, f1, b1, ok1 := fieldOfAddr(a)
		o2, f2, b2, ok2 := fieldOfAddr(b)
		return ok1 && ok2 && o1 == o2 && f1 == f2 && sameValue(stripLoadOnce(b1), stripLoadOnce(b2))
	}
	idx := stripConv(ia.Index)
	fn := in.Parent()
	for _, b := range fn.Blocks {
		for _, other := range b.Instrs {
			call, isCall := other.(*ssa.Call)
			if !isCall || !instrDominates(call, in) {
				continue
			}
			g := call.Call.StaticCallee()
			if g == nil || !inModule(g) || len(g.Blocks) == 0 {
				continue
			}
			pa, pi := -1, -1
			for i, a := range call.Call.Args {
				if sameAddr(a, ld.X) {
					pa = i
				}
				if sameValue(stripConv(a), idx) || (shapeOf(stripConv(a), 0) == shapeOf(idx, 0) && !strings.Contains(shapeOf(idx, 0), "φ")) {
					pi = i
				}
			}
			if pa < 0 || pi < 0 || pa >= len(g.Params) || pi >= len(g.Params) {
				continue
			}
			// a comparison in g that involves len(*p) and derives from the index parameter
			for _, gb := range g.Blocks {
				for _, gi := range gb.Instrs {
					bo, isBo := gi.(*ssa.BinOp)
					if !isBo {
						continue
					}
					switch bo.Op {
					case token.LSS, token.LEQ, token.GTR, token.GEQ:
					default:
						continue
					}
					sh := shapeOf(bo, 0)
					if strings.Contains(sh, "len(") && mentionsValue(bo, g.Params[pa], 0) && mentionsValue(bo, g.Params[pi], 0) {
						return true
					}
				}
			}
		}
	}
	return false
}

func stripLoadOnce(v ssa.Value) ssa.Value {
	if u, ok := v.(*ssa.UnOp); ok && u.Op == token.MUL {
		return u.X
	}
	return v
}

// mentionsValue: the expression tree of v (operands of arithmetic, conversions, len, loads)
// contains x.
func mentionsValue(v, x ssa.Value, d int) bool {
	if v == x {
		return true
	}
	if d > 8 {
		return false
	}
	switch y := v.(type) {
	case *ssa.BinOp:
		return mentionsValue(y.X, x, d+1) || mentionsValue(y.Y, x, d+1)
	case *ssa.UnOp:
		return mentionsValue(y.X, x, d+1)
	case *ssa.Convert:
		return mentionsValue(y.X, x, d+1)
	case *ssa.Call:
		if calleeName(&y.Call) == "builtin:len" {
			return mentionsValue(y.Call.Args[0], x, d+1)
		}
	case *ssa.Phi:
		for _, e := range y.Edges {
			if mentionsValue(e, x, d+1) {
				return true
			}
		}
	}
	return false
}
