package main

import (
	"fmt"
	"sort"
	"strings"

	"golang.org/x/tools/go/ssa"
)

// boundsInit fills the interprocedural indexes of the bounds engine.
func (c *Ctx) boundsInit() {
	if c.boundsReady {
		return
	}
	c.boundsReady = true
	for _, fn := range c.Fns {
		for _, b := range fn.Blocks {
			for _, ins := range b.Instrs {
				if ci, ok := ins.(ssa.CallInstruction); ok {
					if callee := ci.Common().StaticCallee(); callee != nil {
						pc.callers[callee] = append(pc.callers[callee], ci)
					}
				}
				for _, op := range ins.Operands(nil) {
					if f, ok := (*op).(*ssa.Function); ok {
						if ci, isCall := ins.(ssa.CallInstruction); isCall && ci.Common().Value == f {
							continue
						}
						pc.addrTaken[f] = true
					}
				}
			}
		}
	}
}

// attackerScope: functions reachable (CHA) from the network entry points, not following
// the emit roots (whose inputs are locally generated).
func (c *Ctx) attackerScope(r *Report, rule string) map[*ssa.Function]bool {
	rootNames := []string{
		"(*dtls.Conn).readAndBuffer", "(*dtls.Conn).readAndBufferNoFSM", "(*dtls.Conn).handleQueuedPackets",
		"(*dtls.Conn).pickVersionFromClientHello", "(*dtls.Conn).pickVersionFromServerResponse",
		"internal/flight/flight12.Parse", "internal/flight/flight13.Parse",
		"(*internal/net/udp.listener).readLoop", "(*dtls.State).UnmarshalBinary",
		"dtls.cidDatagramRouter", "dtls.cidConnIdentifier",
		"(*internal/handshake.fsm13).handleReceivedFlight", "(*internal/handshake.postHandshake).handlePostHandshakeReceive",
	}
	stopNames := []string{
		"(*dtls.Conn).notify", "(*dtls.Conn).writePackets", "(*dtls.Conn).writePacketsWithResult", "(dtls.returnRoutabilityConn).WriteRRC",
		"(*dtls.Conn).close",
	}
	stops := map[*ssa.Function]bool{}
	for _, n := range stopNames {
		if f := c.need(r, rule, n); f != nil {
			stops[f] = true
		}
	}
	var roots []*ssa.Function
	for _, n := range rootNames {
		if f := c.need(r, rule, n); f != nil {
			roots = append(roots, f)
		}
	}
	cg := c.CG()
	seen := map[*ssa.Function]bool{}
	work := append([]*ssa.Function{}, roots...)
	for len(work) > 0 {
		f := work[len(work)-1]
		work = work[:len(work)-1]
		if f == nil || seen[f] || stops[f] || !inModule(f) {
			continue
		}
		seen[f] = true
		work = append(work, f.AnonFuncs...)
		if n := cg.Nodes[f]; n != nil {
			for _, e := range n.Out {
				work = append(work, e.Callee.Func)
			}
		}
	}
	return seen
}

func ruleBounds(c *Ctx, r *Report) {
	const rule = "bounds"
	c.boundsInit()
	scope := c.attackerScope(r, rule)
	var all []bSite
	nf := 0
	for _, fn := range c.Fns {
		if !scope[fn] {
			continue
		}
		nf++
		all = append(all, boundsAnalyse(fn, c.Fset)...)
	}
	r.Extra["bounds_scope_functions"] = nf
	sort.Slice(all, func(i, j int) bool {
		if all[i].pos.Filename != all[j].pos.Filename {
			return all[i].pos.Filename < all[j].pos.Filename
		}
		if all[i].pos.Line != all[j].pos.Line {
			return all[i].pos.Line < all[j].pos.Line
		}
		return all[i].pos.Column < all[j].pos.Column
	})
	proved := 0
	for _, s := range all {
		r.Sites++
		if s.ok {
			proved++
			continue
		}
		f := strings.TrimPrefix(s.pos.Filename, c.Repo+"/")
		r.Bad(rule, fmt.Sprintf("%s:%s", strings.ReplaceAll(strings.ReplaceAll(s.fn, modPath+"/", ""), modPath+".", "dtls."), s.what), fmt.Sprintf("%s:%d", f, s.pos.Line), "unproven: "+siteShape(s.ins))
	}
	r.OK(rule, "summary", "", fmt.Sprintf("%d of %d sites proved", proved, len(all)))
}
