package main

import (
	"fmt"
	"go/constant"
	"go/token"
	"go/types"
	"sort"
	"strings"

	"golang.org/x/tools/go/ssa"
)

// enumConsts returns the package-level constants of the named type.
func (c *Ctx) enumConsts(rel, typeName string) map[string]int64 {
	p := c.Pkg(rel)
	if p == nil {
		return nil
	}
	out := map[string]int64{}
	sc := p.Pkg.Scope()
	for _, n := range sc.Names() {
		k, ok := sc.Lookup(n).(*types.Const)
		if !ok {
			continue
		}
		nt, ok := k.Type().(*types.Named)
		if !ok || nt.Obj().Name() != typeName || nt.Obj().Pkg() != p.Pkg {
			continue
		}
		if v, ok := constant.Int64Val(k.Val()); ok {
			out[n] = v
		}
	}
	return out
}

func sortedKeys[V any](m map[string]V) []string {
	ks := make([]string, 0, len(m))
	for k := range m {
		ks = append(ks, k)
	}
	sort.Strings(ks)
	return ks
}

// switchTable evaluates fn for each value of its paramIdx-th parameter and
// returns the (unique) return outcome per value; nil entry if not unique.
func switchTable(fn *ssa.Function, paramIdx int, values map[string]int64) map[string]*RetOutcome {
	out := map[string]*RetOutcome{}
	if fn == nil || paramIdx >= len(fn.Params) {
		return out
	}
	p := fn.Params[paramIdx]
	for name, k := range values {
		kk := k
		w := (&Walk{Fn: fn, Assume: func(v ssa.Value) (Val, bool) {
			if v == p {
				return vInt(kk), true
			}
			return unknown, false
		}}).FromEntry()
		if len(w.Returns) == 1 {
			out[name] = w.Returns[0]
		} else {
			out[name] = nil
		}
	}
	return out
}

// funcOfValue resolves a value to the function it denotes (function constant,
// closure, or ChangeType/MakeInterface of those).
func funcOfValue(v ssa.Value) *ssa.Function {
	switch x := v.(type) {
	case *ssa.Function:
		return x
	case *ssa.MakeClosure:
		f, _ := x.Fn.(*ssa.Function)
		return f
	case *ssa.ChangeType:
		return funcOfValue(x.X)
	case *ssa.MakeInterface:
		return funcOfValue(x.X)
	}
	return nil
}

// ---------- pull-rule lists ----------

// PullRule is one dtlsflight.HandshakeCachePullRule literal, symbolically.
type PullRule struct {
	Typ      int64
	Epoch    string // "E" (base epoch expression) or "E+1" or "?"
	IsClient bool
	Optional bool
	ok       bool
}

func (p PullRule) String() string {
	side := "server"
	if p.IsClient {
		side = "client"
	}
	o := ""
	if p.Optional {
		o = "?"
	}
	return fmt.Sprintf("%s:%s@%s%s", side, hsTypeName(p.Typ), p.Epoch, o)
}

var hsTypeNames = map[int64]string{0: "HelloRequest", 1: "ClientHello", 2: "ServerHello", 3: "HelloVerifyRequest", 4: "NewSessionTicket",
	8: "EncryptedExtensions", 11: "Certificate", 12: "ServerKeyExchange", 13: "CertificateRequest", 14: "ServerHelloDone",
	15: "CertificateVerify", 16: "ClientKeyExchange", 20: "Finished", 24: "KeyUpdate"}

func hsTypeName(t int64) string {
	if n, ok := hsTypeNames[t]; ok {
		return n
	}
	return fmt.Sprintf("type%d", t)
}

func rulesString(rs []PullRule) string {
	var s []string
	for _, r := range rs {
		s = append(s, r.String())
	}
	return strings.Join(s, " ")
}

// ruleList symbolically evaluates a value of type []HandshakeCachePullRule:
// slice-of-array literals, calls to module helpers returning such lists, and append.
func (c *Ctx) ruleList(v ssa.Value, depth int) ([]PullRule, bool) {
	if depth > 6 {
		return nil, false
	}
	switch x := v.(type) {
	case *ssa.Slice:
		if x.Low != nil || x.High != nil {
			return nil, false
		}
		return c.ruleList(x.X, depth+1)
	case *ssa.Alloc:
		arr, ok := derefType(x.Type()).Underlying().(*types.Array)
		if !ok {
			return nil, false
		}
		rules := make([]PullRule, arr.Len())
		for i := range rules {
			rules[i].Epoch = "0"
			rules[i].ok = true
		}
		for _, ref := range *x.Referrers() {
			ia, ok := ref.(*ssa.IndexAddr)
			if !ok {
				continue
			}
			idx, ok := constInt(ia.Index)
			if !ok || idx < 0 || idx >= int64(len(rules)) {
				return nil, false
			}
			for _, r2 := range *ia.Referrers() {
				switch y := r2.(type) {
				case *ssa.FieldAddr:
					st, _ := derefType(y.X.Type()).Underlying().(*types.Struct)
					fname := fieldName(st.Field(y.Field))
					for _, r3 := range *y.Referrers() {
						s, ok := r3.(*ssa.Store)
						if !ok {
							continue
						}
						setRuleField(&rules[idx], fname, s.Val)
					}
				case *ssa.Store:
					// whole-struct store: a constant/zero value, or a loaded composite literal cell
					if y.Addr == ia {
						if _, isConst := y.Val.(*ssa.Const); isConst {
							continue
						}
						if !parseRuleComplit(&rules[idx], y.Val) {
							rules[idx].ok = false
						}
					}
				}
			}
		}
		for _, r := range rules {
			if !r.ok {
				return rules, false
			}
		}
		return rules, true
	case *ssa.Call:
		if b, ok := x.Call.Value.(*ssa.Builtin); ok && b.Name() == "append" {
			a, ok1 := c.ruleList(x.Call.Args[0], depth+1)
			bb, ok2 := c.ruleList(x.Call.Args[1], depth+1)
			return append(append([]PullRule{}, a...), bb...), ok1 && ok2
		}
		callee := x.Call.StaticCallee()
		if callee == nil || callee.Blocks == nil {
			return nil, false
		}
		var rets []*ssa.Return
		for _, b := range callee.Blocks {
			if r, ok := b.Instrs[len(b.Instrs)-1].(*ssa.Return); ok {
				rets = append(rets, r)
			}
		}
		if len(rets) != 1 || len(rets[0].Results) != 1 {
			return nil, false
		}
		return c.ruleList(rets[0].Results[0], depth+1)
	case *ssa.Const:
		if x.Value == nil {
			return nil, true
		}
	}
	return nil, false
}

// parseRuleComplit reads a struct value that is the load of a local composite-literal cell.
func parseRuleComplit(r *PullRule, v ssa.Value) bool {
	u, ok := v.(*ssa.UnOp)
	if !ok || u.Op != token.MUL {
		return false
	}
	al, ok := u.X.(*ssa.Alloc)
	if !ok {
		return false
	}
	for _, ref := range *al.Referrers() {
		switch y := ref.(type) {
		case *ssa.FieldAddr:
			st, _ := derefType(y.X.Type()).Underlying().(*types.Struct)
			fname := fieldName(st.Field(y.Field))
			for _, r3 := range *y.Referrers() {
				if s, ok := r3.(*ssa.Store); ok {
					setRuleField(r, fname, s.Val)
				}
			}
		case *ssa.Store:
			if y.Addr == al {
				if _, isConst := y.Val.(*ssa.Const); !isConst {
					return false
				}
			}
		}
	}
	return true
}

func setRuleField(r *PullRule, fname string, v ssa.Value) {
	switch fname {
	case "Typ":
		if k, ok := constInt(v); ok {
			r.Typ = k
		} else {
			r.ok = false
		}
	case "IsClient":
		if b, ok := constBool(v); ok {
			r.IsClient = b
		} else {
			r.ok = false
		}
	case "Optional":
		if b, ok := constBool(v); ok {
			r.Optional = b
		} else {
			r.ok = false
		}
	case "Epoch":
		r.Epoch = epochExpr(v)
	}
}

// epochExpr normalises an epoch expression: a base epoch (parameter or
// cfg.InitialEpoch load) is "E", base+1 is "E+1", constants by value.
func epochExpr(v ssa.Value) string {
	if k, ok := constInt(v); ok {
		return fmt.Sprint(k)
	}
	if b, ok := v.(*ssa.BinOp); ok && b.Op == token.ADD {
		if k, ok := constInt(b.Y); ok {
			if base := epochExpr(b.X); base == "E" {
				return fmt.Sprintf("E+%d", k)
			}
		}
		return "?"
	}
	if _, ok := v.(*ssa.Parameter); ok {
		return "E"
	}
	if _, f, _, ok := fieldLoad(v); ok && f == "InitialEpoch" {
		return "E"
	}
	return "?"
}

func isPullRuleSliceType(t types.Type) bool {
	s, ok := t.Underlying().(*types.Slice)
	return ok && namedOf(s.Elem()) == "internal/flight.HandshakeCachePullRule"
}
