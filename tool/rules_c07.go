package main

import (
	"fmt"
	"strings"

	"golang.org/x/tools/go/ssa"
)

// litFields collects the field stores of a composite literal cell.
func litFields(al *ssa.Alloc) map[string]ssa.Value {
	out := map[string]ssa.Value{}
	for _, ref := range *al.Referrers() {
		// whole-struct initialisation from another literal cell: `x := T{...}` then `&x`
		if st, ok := ref.(*ssa.Store); ok && st.Addr == al {
			if u, ok := st.Val.(*ssa.UnOp); ok {
				if src, ok := u.X.(*ssa.Alloc); ok && src != al {
					for k, v := range litFields(src) {
						out[k] = v
					}
				}
			}
		}
	}
	for _, ref := range *al.Referrers() {
		fa, ok := ref.(*ssa.FieldAddr)
		if !ok {
			continue
		}
		_, f, _, _ := fieldOfAddr(fa)
		for _, r2 := range *fa.Referrers() {
			if st, ok := r2.(*ssa.Store); ok && st.Addr == fa {
				out[f] = st.Val
			}
		}
		// nested struct field (Header inside RecordLayer): record sub-fields as "Header.Epoch"
		for _, r2 := range *fa.Referrers() {
			if fa2, ok := r2.(*ssa.FieldAddr); ok {
				_, f2, _, _ := fieldOfAddr(fa2)
				for _, r3 := range *fa2.Referrers() {
					if st, ok := r3.(*ssa.Store); ok && st.Addr == fa2 {
						out[f+"."+f2] = st.Val
					}
				}
			}
		}
	}
	return out
}

func allocOf(v ssa.Value) *ssa.Alloc {
	for i := 0; i < 4; i++ {
		switch x := v.(type) {
		case *ssa.Alloc:
			return x
		case *ssa.MakeInterface:
			v = x.X
		case *ssa.ChangeType:
			v = x.X
		default:
			return nil
		}
	}
	return nil
}

type pktLit struct {
	fn       *ssa.Function
	al       *ssa.Alloc
	fields   map[string]ssa.Value
	content  string // named type of the record content
	message  string // for handshake content: named type of the message ("param" if a parameter)
	recField map[string]ssa.Value
}

func (c *Ctx) packetLiterals() []pktLit {
	var out []pktLit
	for _, fn := range c.Fns {
		for _, b := range fn.Blocks {
			for _, in := range b.Instrs {
				al, ok := in.(*ssa.Alloc)
				if !ok || namedOf(al.Type()) != "internal/flight.Packet" {
					continue
				}
				p := pktLit{fn: fn, al: al, fields: litFields(al)}
				if len(p.fields) == 0 {
					continue
				}
				if rec := allocOf(p.fields["Record"]); rec != nil {
					p.recField = litFields(rec)
					if hv, ok := p.recField["Header"].(*ssa.UnOp); ok {
						if hal, ok := hv.X.(*ssa.Alloc); ok {
							for k, v := range litFields(hal) {
								p.recField["Header."+k] = v
							}
						}
					}
					cv := p.recField["Content"]
					if mi, ok := cv.(*ssa.MakeInterface); ok {
						p.content = namedOf(mi.X.Type())
						hs := allocOf(mi.X)
						if hs == nil && p.content == "pkg/protocol/handshake.Handshake" {
							for _, l := range c.Origins(mi.X, 0) {
								if a, ok := l.(*ssa.Alloc); ok {
									hs = a
								}
							}
						}
						if hs != nil && p.content == "pkg/protocol/handshake.Handshake" {
							hf := litFields(hs)
							switch m := hf["Message"].(type) {
							case *ssa.MakeInterface:
								p.message = namedOf(m.X.Type())
							case *ssa.Parameter:
								p.message = "param"
							case nil:
								p.message = ""
							default:
								p.message = "dynamic"
							}
						}
					} else if cv != nil {
						p.content = "dynamic"
					}
				}
				out = append(out, p)
			}
		}
	}
	return out
}

// cleartextHelperCallers: the packet literal's handshake message is a parameter of its function;
// classify what each call site of the function passes for it.
func (c *Ctx) cleartextHelperCallers(p pktLit) (ok bool, why string, sites int) {
	idx := -1
	if rec := allocOf(p.fields["Record"]); rec != nil {
		if mi, isMI := litFields(rec)["Content"].(*ssa.MakeInterface); isMI {
			hs := allocOf(mi.X)
			if hs == nil {
				for _, l := range c.Origins(mi.X, 0) {
					if a, isA := l.(*ssa.Alloc); isA {
						hs = a
					}
				}
			}
			if hs != nil {
				if par, isP := litFields(hs)["Message"].(*ssa.Parameter); isP {
					idx = paramIndex(par)
				}
			}
		}
	}
	if idx < 0 {
		return false, "", 0
	}
	ok = true
	for _, s := range c.CallsToName(short(p.fn)) {
		call, isCall := s.Call.(*ssa.Call)
		if !isCall || !inModule(s.Fn) || idx >= len(call.Call.Args) {
			return false, "the helper is used other than by a plain call at " + c.ipos(s.Call), sites + 1
		}
		sites++
		is13 := strings.Contains(short(s.Fn), pkgF13+".") || strings.Contains(short(s.Fn), "internal/handshake.")
		var ls []ssa.Value
		seen := map[ssa.Value]bool{}
		var expand func(x ssa.Value)
		expand = func(x ssa.Value) {
			x = unspill(x)
			if seen[x] {
				return
			}
			seen[x] = true
			if phi, isPhi := x.(*ssa.Phi); isPhi {
				for _, e := range phi.Edges {
					expand(e)
				}
				return
			}
			ls = append(ls, x)
		}
		expand(call.Call.Args[idx])
		for _, l := range ls {
			mi, isMI := l.(*ssa.MakeInterface)
			if !isMI {
				ok, why = false, "message of unknown type at "+c.ipos(call)
				continue
			}
			m := namedOf(mi.X.Type())
			switch {
			case m == "pkg/protocol/handshake.MessageFinished":
				ok, why = false, "Finished at "+c.ipos(call)
			case is13 && m != "pkg/protocol/handshake.MessageClientHello" && m != "pkg/protocol/handshake.MessageServerHello":
				ok, why = false, "DTLS 1.3 "+strings.TrimPrefix(m, "pkg/protocol/handshake.")+" at "+c.ipos(call)
			}
		}
	}
	return ok, why, sites
}

// rulePacketLiterals (C07-1): every flight.Packet literal whose content must stay secret
// requests encryption; DTLS 1.2 Finished is stamped epoch 1; alerts encrypt iff established.
func rulePacketLiterals(c *Ctx, r *Report) {
	const rule = "packet-literal"
	lits := c.packetLiterals()
	n := 0
	for _, p := range lits {
		r.Sites++
		key := fmt.Sprintf("%s:%s", short(p.fn), strings.TrimPrefix(p.content, "pkg/protocol/"))
		if p.message != "" {
			key += "/" + strings.TrimPrefix(p.message, "pkg/protocol/handshake.")
		}
		se := p.fields["ShouldEncrypt"]
		seTrue := false
		if k, ok := constBool(se); ok && k {
			seTrue = true
		}
		is13 := strings.Contains(short(p.fn), pkgF13+".") || strings.Contains(short(p.fn), "internal/handshake.")
		secret := false
		why := ""
		switch p.content {
		case "pkg/protocol.ApplicationData":
			secret, why = true, "application data"
		case "pkg/protocol.ACK":
			secret, why = true, "DTLS 1.3 ACK"
		case "pkg/protocol.ReturnRoutabilityCheck":
			secret, why = true, "return-routability message"
		case "pkg/protocol/handshake.Handshake":
			switch {
			case p.message == "pkg/protocol/handshake.MessageFinished":
				secret, why = true, "Finished"
			case p.message == "param" || p.message == "dynamic":
				secret, why = true, "handshake message passed by the caller (helper for protected flights)"
			case is13 && p.message != "pkg/protocol/handshake.MessageClientHello" && p.message != "pkg/protocol/handshake.MessageServerHello":
				secret, why = true, "DTLS 1.3 handshake message after ServerHello"
			}
		case "pkg/protocol/alert.Alert":
			n++
			// a packet built by a private helper takes the flag from its callers
			ls := c.OriginsIP(se, 0)
			ok := allLeaves(ls, func(v ssa.Value) bool {
				return isCallResult(v, func(nm string) bool {
					return strings.HasSuffix(nm, ".isHandshakeCompletedSuccessfully") || strings.HasSuffix(nm, "Establishment).Established")
				})
			})
			r.Check(ok, rule, key, c.ipos(p.al), "alert encrypted iff the handshake completed", "alert packet's ShouldEncrypt does not follow handshake completion: "+c.describeAll(ls))
			continue
		case "", "dynamic":
			// a packet re-built from another packet must inherit that packet's protection flags
			copied := false
			if rec, has := p.fields["Record"]; has {
				for _, l := range c.Origins(rec, 0) {
					o, f, base, isLoad := fieldLoad(l)
					if !isLoad || f != "Record" || !strings.HasSuffix(o, "flight.Packet") {
						continue
					}
					copied = true
					n++
					for _, flag := range []string{"ShouldEncrypt", "ShouldWrapCID"} {
						good := false
						if fv, hasF := p.fields[flag]; hasF {
							good = allLeaves(c.Origins(fv, 0), func(v ssa.Value) bool {
								o2, f2, b2, ok2 := fieldLoad(v)
								return ok2 && f2 == flag && o2 == o && sameValue(b2, base)
							})
						}
						r.Check(good, rule, key+":copy:"+flag, c.ipos(p.al), "a packet re-built from another packet copies its "+flag, "a packet is re-built around another packet's record without copying "+flag+": the record is sent with the flag's zero value (in clear / without its connection ID) whatever the original packet required")
					}
				}
			}
			if !copied {
				r.Note(rule, key, c.ipos(p.al), "packet content not a literal here")
			}
			continue
		}
		if !secret {
			r.Note(rule, key, c.ipos(p.al), "cleartext-by-design content")
			continue
		}
		n++
		if !seTrue && p.message == "param" && p.fields["ShouldEncrypt"] == nil {
			// a helper for cleartext handshake messages: then every caller hands it a message
			// that is cleartext by design (DTLS 1.2: anything but Finished; DTLS 1.3: the hellos)
			if okH, whyH, sites := c.cleartextHelperCallers(p); sites > 0 {
				r.Check(okH, rule, key, c.ipos(p.al), fmt.Sprintf("cleartext helper: all %d callers pass a message that is cleartext by design", sites), "a helper that builds unprotected handshake packets is handed a message that must be protected: "+whyH)
				continue
			}
		}
		r.Check(seTrue, rule, key, c.ipos(p.al), why+": ShouldEncrypt is the constant true", why+" packet literal without ShouldEncrypt: true (content would leave unprotected)")
		if p.message == "pkg/protocol/handshake.MessageFinished" && strings.HasPrefix(short(p.fn), pkgF12) {
			ep, isC := constInt(p.recField["Header.Epoch"])
			r.Check(isC && ep == 1, rule, key+":epoch", c.ipos(p.al), "DTLS 1.2 Finished stamped epoch 1", "DTLS 1.2 Finished packet is not stamped with epoch 1 (it would be sent under the null cipher)")
		}
	}
	r.Floor(rule, n, 11)
	// HandshakePacket callers in flight13: everything but hellos goes through the helper
	hp := c.CallsToName(pkgF13 + ".HandshakePacket")
	r.Floor(rule+":HandshakePacket-calls", len(hp), 8)
}

// ruleWritePath (C07-2): Write reaches the record writer only after a successful Handshake();
// the epoch stamped on DTLS 1.2 application records is the current local epoch.
func ruleWritePath(c *Ctx, r *Report) {
	const rule = "write-path"
	fn := c.need(r, rule, "(*dtls.Conn).Write")
	if fn == nil {
		return
	}
	r.Sites += len(fn.Blocks)
	hs := findCalls(fn, nameIs("(*dtls.Conn).Handshake"))
	wr := findCalls(fn, nameIs("(*dtls.Conn).writeApplicationData"))
	if len(hs) != 1 || len(wr) != 1 {
		r.Unk(rule, short(fn), c.pos(fn.Pos()), "expected one Handshake() and one writeApplicationData call")
	} else {
		ok, why := guardedBy(hs[0], hs[0], wr[0])
		r.Check(ok, rule, short(fn), c.ipos(wr[0]), "application data is written only after Handshake() returned nil", "Write can emit application data before/without a completed handshake: "+why)
	}
	// every read of the connection state that shapes the record (CID wrapping, epoch) happens
	// after Handshake(): a resumed connection only receives its real state inside the first Handshake()
	if len(hs) == 1 {
		for _, b := range fn.Blocks {
			for _, in := range b.Instrs {
				call, ok := in.(*ssa.Call)
				if !ok || call == hs[0] {
					continue
				}
				callee := call.Call.StaticCallee()
				if callee == nil || !inModule(callee) {
					continue
				}
				readsState := false
				for _, u := range c.unitFuncs(callee) {
					for _, ub := range u.Blocks {
						for _, ui := range ub.Instrs {
							if _, f, _, okF := fieldLoad(valueOfInstr(ui)); okF && f == "state" {
								readsState = true
							}
						}
					}
				}
				if !readsState || short(callee) == "(*dtls.Conn).Handshake" {
					continue
				}
				ok2, why := guardedBy(hs[0], hs[0], call)
				r.Check(ok2, rule, short(fn)+":state-read:"+callee.Name(), c.ipos(call), "reads Conn.state only after Handshake() returned nil", "Write consults the connection state through "+short(callee)+" before/without Handshake(): on a resumed connection the state is still the placeholder, so the first record is built from it (no connection ID, wrong epoch): "+why)
			}
		}
	}
	for _, s := range c.CallsToName("(*dtls.Conn).writeApplicationData") {
		r.Check(s.Fn == fn, rule, "writeApplicationData<-"+short(s.Fn), c.ipos(s.Call), "only Write sends application data", "application data writer called from outside Write (bypasses the handshake gate)")
	}
	for _, s := range c.CallsToName("(*dtls.Conn).newApplicationDataPacket") {
		r.Check(s.Fn == fn, rule, "newApplicationDataPacket<-"+short(s.Fn), c.ipos(s.Call), "only Write builds application data packets", "application data packet built outside Write")
	}
	if wfn := c.need(r, rule, "(*dtls.Conn).writeApplicationData"); wfn != nil {
		n := 0
		var unitInstrs []ssa.Instruction
		for _, u := range c.unitFuncs(wfn) {
			for _, b := range u.Blocks {
				unitInstrs = append(unitInstrs, b.Instrs...)
			}
		}
		for _, blk := range [][]ssa.Instruction{unitInstrs} {
			for _, in := range blk {
				st, ok := in.(*ssa.Store)
				if !ok {
					continue
				}
				if o, f, _, ok := fieldOfAddr(st.Addr); ok && o == "pkg/protocol/recordlayer.Header" && f == "Epoch" {
					n++
					ls := c.OriginsIP(st.Val, 0)
					r.Check(allLeaves(ls, func(v ssa.Value) bool { return isCallResult(v, nameHasSuffix("Common).LocalEpoch")) }), rule, short(wfn)+":epoch", c.ipos(in), "record epoch = LocalEpoch()", "application records are stamped with an epoch that is not the current local epoch: "+c.describeAll(ls))
				}
			}
		}
		r.Floor(rule+":epoch-stamp", n, 1)
	}
	// encrypted branch of processPacket / processHandshakePacket: when ShouldEncrypt, the value
	// returned derives from CipherSuite.Encrypt / the 1.3 seal
	for _, name := range []string{"(*dtls.Conn).processPacket"} {
		pf := c.need(r, rule, name)
		if pf == nil {
			continue
		}
		r.Sites += len(pf.Blocks)
		w := (&Walk{Fn: pf, Assume: assumeAll(atomAssume{mLoad("internal/flight.Packet", "ShouldEncrypt"), vBool(true)})}).FromEntry()
		okAll := len(w.Returns) > 0
		for _, ro := range w.Returns {
			if !isNilConst(unspill(ro.Ret.Results[1])) {
				continue // error return
			}
			v := ro.Raw[0]
			good := false
			for _, l := range c.Origins(v, 0) {
				if isCallResult(l, func(nm string) bool {
					return strings.HasSuffix(nm, "CipherSuite.Encrypt") || nm == "(*dtls.Conn).processProtectedPacket"
				}) {
					good = true
				} else {
					good = false
					break
				}
			}
			if !good {
				okAll = false
			}
		}
		r.Check(okAll, rule, short(pf)+":encrypted-output", c.pos(pf.Pos()), "with ShouldEncrypt every successful return value comes from CipherSuite.Encrypt / the DTLS 1.3 seal", "a packet that requests encryption can be returned without passing through CipherSuite.Encrypt / seal")
	}
	if pf := c.need(r, rule, "(*dtls.Conn).processHandshakePacket"); pf != nil {
		// every append to rawPackets in the ShouldEncrypt world comes from Encrypt
		w := (&Walk{Fn: pf, Assume: assumeAll(atomAssume{mLoad("internal/flight.Packet", "ShouldEncrypt"), vBool(true)})}).FromEntry()
		enc := findCalls(pf, nameHasSuffix("CipherSuite.Encrypt"))
		apps := 0
		okAll := true
		for _, ci := range callsIn(pf, nameIs("builtin:append")) {
			call := ci.(*ssa.Call)
			if !w.Reached[call] || typeShort(call.Type()) != "[][]byte" {
				continue
			}
			apps++
			// under ShouldEncrypt the Encrypt call must be executed on every path to the append
			w2 := &Walk{Fn: pf, Assume: assumeAll(atomAssume{mLoad("internal/flight.Packet", "ShouldEncrypt"), vBool(true)}),
				Visit: func(in ssa.Instruction, _ Env) bool { return len(enc) != 1 || in != enc[0] }}
			w2.FromEntry()
			good := len(enc) == 1 && !w2.Reached[call]
			if !good {
				okAll = false
			}
		}
		r.Check(okAll && apps > 0, rule, short(pf)+":encrypted-output", c.pos(pf.Pos()), "with ShouldEncrypt every record appended to the output passed CipherSuite.Encrypt", "a handshake record that requests encryption can be emitted without CipherSuite.Encrypt")
	}
}

func valueOfInstr(in ssa.Instruction) ssa.Value {
	if v, ok := in.(ssa.Value); ok {
		return v
	}
	return nil
}
