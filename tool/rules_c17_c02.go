package main

import (
	"fmt"
	"go/token"
	"go/types"
	"sort"
	"strings"

	"golang.org/x/tools/go/ssa"
)

const pkgHS = "internal/handshake"

// ruleBackoffLaw (C17): doubling unless disabled, 60 s cap, both in the handshake timer and in the
// post-handshake flight timer; the next deadline is computed from the updated interval.
func ruleBackoffLaw(c *Ctx, r *Report) {
	const rule = "backoff-law"
	sixty := int64(60e9)
	// The law is decided on the value the interval location holds when the function returns,
	// as a symbolic function of the value it held on entry (I): with backoff enabled it is 2*I,
	// or 60 s when 2*I exceeds 60 s; with backoff disabled it is I. Helpers are followed, so it
	// does not matter whether the doubling and the cap are written in place or in a function.
	check := func(fn *ssa.Function, disableAtom atomAssume, isLoc func(addr ssa.Value) bool) {
		if fn == nil {
			return
		}
		r.Sites += len(fn.Blocks)
		key := short(fn)
		final := func(disabled bool, exceeds *bool) (map[string]bool, bool) {
			out := map[string]bool{}
			sawCmp := false
			w := &Walk{Fn: fn, Follow: followSamePkg(fn), Init: &ivState{cur: "I", vals: map[ssa.Value]string{}, exceeds: exceeds, sawCmp: &sawCmp}}
			da := disableAtom
			da.val = vBool(disabled)
			w.Assume = func(v ssa.Value) (Val, bool) {
				if da.match(v) {
					return da.val, true
				}
				if p, ok := v.(*ssa.Parameter); ok && p == fn.Params[0] && types.Identical(v.Type(), types.Typ[types.Bool]) {
					return vBool(true), true // handleRetransmitTimeout(retransmit=true, ...)
				}
				if bo, ok := v.(*ssa.BinOp); ok && exceeds != nil {
					if _, limit, when, ok := limitCmp(bo); ok && limit == sixty {
						sawCmp = true
						return vBool(when == *exceeds), true
					}
				}
				return unknown, false
			}
			w.Step = func(in ssa.Instruction, st PathState, raw map[*ssa.Phi]ssa.Value) bool {
				st.(*ivState).step(in, raw, isLoc, sixty)
				return true
			}
			w.OnCall = func(call *ssa.Call, callee *ssa.Function, st PathState) {
				s := st.(*ivState)
				for i, p := range callee.Params {
					if i < len(call.Call.Args) {
						s.vals[p] = s.sym(call.Call.Args[i], nil, sixty)
					}
				}
			}
			w.OnReturn = func(call *ssa.Call, ret *ssa.Return, st PathState, raw map[*ssa.Phi]ssa.Value) {
				s := st.(*ivState)
				if len(ret.Results) == 1 {
					s.vals[call] = s.sym(ret.Results[0], raw, sixty)
				}
			}
			w.FromEntry()
			for _, ro := range w.Returns {
				// error exits leave the schedule as it was; the law is about the exits that sent
				if n := len(ro.Ret.Results); n > 0 && isErrorType(ro.Ret.Results[n-1].Type()) && !(ro.Vals[n-1].Kind == 2 && ro.Vals[n-1].B) {
					continue
				}
				out[ro.St.(*ivState).cur] = true
			}
			return out, sawCmp
		}
		show := func(m map[string]bool) string { return strings.Join(sortedBoolKeys(m), " | ") }
		yes, no := true, false
		offSet, _ := final(true, nil)
		okOff := offSet["I"]
		for k := range offSet {
			if k != "I" && k != "60s" {
				okOff = false
			}
		}
		r.Check(okOff, rule, key+":disabled", c.pos(fn.Pos()), "with backoff disabled the interval is left as it is (at most cut to 60 s)", "with backoff disabled the interval becomes "+show(offSet)+" instead of staying unchanged")
		lo, sawLo := final(false, &no)
		hi, sawHi := final(false, &yes)
		r.Check(sawLo && len(lo) == 1 && lo["2*I"], rule, key+":doubling", c.pos(fn.Pos()), "with backoff enabled and 2*I <= 60 s the interval becomes 2*I", "with backoff enabled (and the doubled value within 60 s) the interval becomes "+show(lo)+" instead of 2*I")
		r.Check(sawHi && len(hi) == 1 && hi["60s"], rule, key+":cap", c.pos(fn.Pos()), "when 2*I exceeds 60 s the interval becomes 60 s", "when the doubled interval exceeds 60 s the interval becomes "+show(hi)+" instead of 60 s (or the doubled value is never compared with 60 s)")
	}
	fn := c.need(r, rule, pkgHS+".handleRetransmitTimeout")
	check(fn, atomAssume{mLoad(tCfg, "DisableRetransmitBackoff"), unknown}, func(addr ssa.Value) bool {
		p, ok := addr.(*ssa.Parameter)
		if !ok {
			return false
		}
		_, isPtr := p.Type().Underlying().(*types.Pointer)
		return isPtr && strings.Contains(typeShort(p.Type()), "Duration")
	})
	pf := c.need(r, rule, "(*"+pkgHS+".postHandshake).retransmitPostHandshakeFlight")
	if pf != nil {
		var disable *ssa.Parameter
		for _, p := range pf.Params {
			if p.Name() == "disableRetransmitBackoff" {
				disable = p
			}
		}
		check(pf, atomAssume{func(v ssa.Value) bool { return disable != nil && v == ssa.Value(disable) }, unknown}, func(addr ssa.Value) bool {
			_, f, _, ok := fieldOfAddr(addr)
			return ok && f == "RetransmitInterval"
		})
		// the next deadline uses the interval after the update
		for _, b := range pf.Blocks {
			for _, in := range b.Instrs {
				st, ok := in.(*ssa.Store)
				if !ok {
					continue
				}
				if _, f, _, ok := fieldOfAddr(st.Addr); !ok || f != "NextRetransmit" {
					continue
				}
				good := false
				for _, l := range c.Origins(st.Val, 0) {
					if call, ok := l.(*ssa.Call); ok && strings.HasSuffix(calleeName(&call.Call), "time.Time).Add") {
						arg := call.Call.Args[1]
						if ld, ok := arg.(*ssa.UnOp); ok {
							if _, f, _, ok := fieldOfAddr(ld.X); ok && f == "RetransmitInterval" {
								good = true
								// no store to the interval can follow this load
								for _, b2 := range pf.Blocks {
									for _, in2 := range b2.Instrs {
										if s2, ok := in2.(*ssa.Store); ok {
											if _, f2, _, ok := fieldOfAddr(s2.Addr); ok && f2 == "RetransmitInterval" && instrReaches(ld, s2) {
												good = false
											}
										}
									}
								}
							}
						}
					}
				}
				r.Check(good, rule, short(pf)+":next-deadline", c.ipos(in), "next deadline = now + the updated interval", "the next retransmission deadline is computed from the interval before it was doubled (the schedule repeats its first interval)")
			}
		}
	}
}

// ruleIntervalReset (C17): the interval is restored to the initial value only when new (not
// retransmitted) data arrived; the set of interval writers is closed.
func ruleIntervalReset(c *Ctx, r *Report) {
	const rule = "interval-reset"
	n := 0
	for _, fsm := range []string{"fsm12", "fsm13"} {
		for _, st := range c.StoresTo(pkgHS+"."+fsm, "retransmitInterval") {
			fn := st.Fn
			key := fsm + ".retransmitInterval<-" + short(fn)
			r.Sites++
			isInit := isFieldLoad(st.Val, tCfg, "InitialRetransmitInterval")
			if allocOf(st.Base) != nil {
				r.OKTrivial(rule, key+":constructor", c.ipos(st.Instr), "initial value")
				continue
			}
			if !isInit {
				r.Bad(rule, key, c.ipos(st.Instr), "the interval is assigned a value other than cfg.InitialRetransmitInterval outside the timeout handler")
				continue
			}
			n++
			// unreachable when the received state is a retransmission
			has := false
			for _, b := range fn.Blocks {
				for _, in := range b.Instrs {
					if v, ok := in.(ssa.Value); ok && isFieldLoad(v, pkgHS+".RecvHandshakeState", "IsRetransmit") {
						has = true
					}
				}
			}
			if !has {
				r.Bad(rule, key, c.ipos(st.Instr), "the interval is reset in a function that does not look at RecvHandshakeState.IsRetransmit (reset on every datagram: a peer repeating stale flights pins the timer at its minimum)")
				continue
			}
			w := (&Walk{Fn: fn, Assume: assumeAll(atomAssume{mLoad(pkgHS+".RecvHandshakeState", "IsRetransmit"), vBool(true)})}).FromEntry()
			r.Check(!w.Reached[st.Instr], rule, key, c.ipos(st.Instr), "reset only for non-retransmitted input", "the retransmission interval is reset although the received data is a retransmission")
		}
	}
	r.Floor(rule, n, 2)
	// other writers through the pointer: only the timeout / cancellation helpers receive &s.retransmitInterval
	for _, fsm := range []string{"fsm12", "fsm13"} {
		for _, u := range c.AddrUses(pkgHS+"."+fsm, "retransmitInterval") {
			call, ok := u.Instr.(*ssa.Call)
			name := ""
			if ok {
				name = calleeName(&call.Call)
			}
			r.Check(ok && (name == pkgHS+".handleRetransmitTimeout" || name == pkgHS+".handleWaitCancellation"), rule, fsm+":addr-passed-to:"+name, c.ipos(u.Instr), "interval address passed only to the timeout / cancellation helpers", "the address of the retransmission interval escapes to an unexpected writer")
		}
	}
}

// handlerStates: the constant State values a handler can return (following tail calls).
func (c *Ctx) handlerStates(fn *ssa.Function, d int) []int64 {
	set := map[int64]bool{}
	var visit func(v ssa.Value, d int)
	visit = func(v ssa.Value, d int) {
		v = unspill(v)
		if k, ok := constInt(v); ok {
			set[k] = true
			return
		}
		if d > 3 {
			set[-1] = true
			return
		}
		switch x := v.(type) {
		case *ssa.Phi:
			for _, e := range x.Edges {
				if e != ssa.Value(x) {
					visit(e, d+1)
				}
			}
		case *ssa.Call:
			if callee := x.Call.StaticCallee(); callee != nil && callee.Blocks != nil {
				for _, k := range c.handlerStates(callee, d+1) {
					set[k] = true
				}
				return
			}
			set[-1] = true
		case *ssa.Extract:
			if call, ok := x.Tuple.(*ssa.Call); ok {
				if callee := call.Call.StaticCallee(); callee != nil && callee.Blocks != nil {
					for _, b := range callee.Blocks {
						if ret, ok := b.Instrs[len(b.Instrs)-1].(*ssa.Return); ok && x.Index < len(ret.Results) {
							visit(ret.Results[x.Index], d+1)
						}
					}
					return
				}
			}
			set[-1] = true
		case *ssa.UnOp, *ssa.Field:
			// state carried in a struct (fsm13 transitions): unknown here
			set[-1] = true
		default:
			set[-1] = true
		}
	}
	for _, b := range fn.Blocks {
		if ret, ok := b.Instrs[len(b.Instrs)-1].(*ssa.Return); ok && len(ret.Results) >= 1 {
			visit(ret.Results[0], d)
		}
	}
	var out []int64
	for k := range set {
		out = append(out, k)
	}
	sort.Slice(out, func(i, j int) bool { return out[i] < out[j] })
	return out
}

// alwaysBlocks: every path from the entry to a return passes a blocking select / receive.
func alwaysBlocks(fn *ssa.Function) bool {
	w := &Walk{Fn: fn}
	w.Visit = func(in ssa.Instruction, _ Env) bool {
		switch x := in.(type) {
		case *ssa.Select:
			if x.Blocking {
				return false
			}
		case *ssa.UnOp:
			if x.Op == token.ARROW {
				return false
			}
		}
		return true
	}
	w.FromEntry()
	return len(w.Returns) == 0
}

// ruleNoSpin (C17): in the DTLS 1.2 handshake state machine every cycle of states contains a state
// whose handler always blocks on an event; the finished state has no timer and re-sends only when
// this side sent the last flight.
func ruleNoSpin(c *Ctx, r *Report) {
	const rule = "fsm-no-spin"
	st := c.enumConsts(pkgHS, "State")
	names := map[int64]string{}
	for n, v := range st {
		names[v] = n
	}
	handlers := map[string]string{"StatePreparing": "prepare", "StateSending": "send", "StateWaiting": "wait", "StateFinished": "finish"}
	edges := map[string][]string{}
	blocking := map[string]bool{}
	for sname, h := range handlers {
		fn := c.need(r, rule, "(*"+pkgHS+".fsm12)."+h)
		if fn == nil {
			return
		}
		r.Sites += len(fn.Blocks)
		for _, k := range c.handlerStates(fn, 0) {
			if k < 0 {
				r.Unk(rule, "fsm12."+h, c.pos(fn.Pos()), "handler returns a state that is not a constant")
				continue
			}
			edges[sname] = append(edges[sname], names[k])
		}
		blocking[sname] = alwaysBlocks(fn)
	}
	r.Extra["fsm12_transitions"] = edges
	r.Extra["fsm12_blocking_states"] = blocking
	// cycles avoiding blocking states
	var cyc []string
	color := map[string]int{}
	var dfs func(s string, path []string)
	dfs = func(s string, path []string) {
		if blocking[s] || s == "StateErrored" {
			return
		}
		if color[s] == 1 {
			cyc = append(cyc, strings.Join(append(path, s), " -> "))
			return
		}
		if color[s] == 2 {
			return
		}
		color[s] = 1
		for _, t := range edges[s] {
			dfs(t, append(path, s))
		}
		color[s] = 2
	}
	for s := range handlers {
		dfs(s, nil)
	}
	r.Check(len(cyc) == 0 && blocking["StateWaiting"] && blocking["StateFinished"], rule, "fsm12:cycles", "", fmt.Sprintf("every cycle passes a blocking state; transitions %v", edges), "the state machine has a cycle that never blocks (retransmission storm / busy loop): "+strings.Join(cyc, "; "))
	// send emits once per visit
	if fn := c.Fn("(*" + pkgHS + ".fsm12).send"); fn != nil {
		wr := findCalls(fn, nameHasSuffix("Conn.WritePackets"))
		inLoop := false
		for _, l := range naturalLoops(fn) {
			for _, x := range wr {
				if l.blocks[x.Block()] {
					inLoop = true
				}
			}
		}
		r.Check(len(wr) == 1 && !inLoop, rule, "fsm12.send:one-emission", c.pos(fn.Pos()), "one WritePackets per visit of the sending state", "the sending state emits more than once per visit")
	}
	// finish: no timer; resend only for the side that sent the last flight
	if fn := c.Fn("(*" + pkgHS + ".fsm12).finish"); fn != nil {
		timer := false
		for _, b := range fn.Blocks {
			for _, in := range b.Instrs {
				if sel, ok := in.(*ssa.Select); ok {
					for _, s := range sel.States {
						if strings.Contains(shapeOf(s.Chan, 0), "Timer") || strings.Contains(typeShort(s.Chan.Type()), "time.Time") {
							timer = true
						}
					}
				}
				if call, ok := in.(*ssa.Call); ok && strings.HasPrefix(calleeName(&call.Call), "time.") {
					timer = true
				}
			}
		}
		r.Check(!timer, "final-flight-resend", short(fn)+":no-timer", c.pos(fn.Pos()), "the finished state has no timer", "the finished state re-sends on a timer (RFC 6347 4.2.4: only in response to the peer's retransmission)")
		isLast := func(v ssa.Value) bool {
			call, ok := v.(*ssa.Call)
			return ok && strings.HasSuffix(calleeName(&call.Call), "Flight).IsLastSendFlight")
		}
		has := false
		for _, b := range fn.Blocks {
			for _, in := range b.Instrs {
				if v, ok := in.(ssa.Value); ok && isLast(v) {
					has = true
				}
			}
		}
		good := has
		if has {
			for _, last := range []bool{true, false} {
				w := (&Walk{Fn: fn, Assume: assumeAll(atomAssume{isLast, vBool(last)})}).FromEntry()
				for _, ro := range w.Returns {
					k, isC := constInt(ro.Raw[0])
					if !isC {
						continue
					}
					if k == st["StateSending"] && !last {
						good = false
					}
					if k == st["StateFinished"] && last {
						good = false
					}
				}
			}
		}
		r.Check(good, "final-flight-resend", short(fn), c.pos(fn.Pos()), "on a peer retransmission the side that sent the last flight re-sends it, the other side does not", "the finished state does not decide the re-send by who sent the last flight: a lost final flight of one role is never repeated (or the other role answers stale flights)")
	}
}

// ruleRecoverability (C02): structural necessary conditions of completion under loss.
func ruleRecoverability(c *Ctx, r *Report) {
	const rule = "regenerable-flight"
	// a flight that the timer does not repeat must be regenerated when the peer repeats its own
	for _, pkg := range []string{pkgF12, pkgF13} {
		tbl := c.generatorTable(r, rule, pkg)
		for _, name := range sortedKeys(tbl) {
			if tbl[name].retransmit != vBool(false) {
				continue
			}
			parser := c.Fn(pkg + ".flight2Parse")
			if name != "Flight2" || parser == nil {
				r.Unk(rule, pkg+":"+name, "", "a non-retransmitted flight other than Flight2: no rule instance")
				continue
			}
			r.Sites += len(parser.Blocks)
			// when the expected second hello is not there yet, the parser re-enters the previous flight's parser
			w := (&Walk{Fn: parser, Assume: assumeAll(atomAssume{mLoad("internal/flight.HandshakeCachePullResult", "Ready"), vBool(false)}, atomAssume{mLoad("internal/flight.HandshakeCachePullResult", "Err"), vNil(true)})}).FromEntry()
			good := len(w.Returns) > 0
			for _, ro := range w.Returns {
				if !isCallResult(unspill(ro.Ret.Results[0]), nameIs(pkg+".flight0Parse")) {
					good = false
				}
			}
			if !good && pkg == pkgF13 {
				// the other form: the state machine itself sends the cookie request again when the
				// peer repeats a handshake message while it sits in that flight
				if tr := c.Fn("(*" + pkgHS + ".fsm13).transitionAfterACK"); tr != nil {
					flights := c.enumConsts(pkgF13, "Flight")
					states := c.enumConsts(pkgHS, "State")
					isStateT := func(t types.Type) bool { return namedOrType(t) == pkgHS+".State" }
					w2 := &Walk{Fn: tr, Follow: func(f *ssa.Function) bool { return inModule(f) }, Assume: func(x ssa.Value) (Val, bool) {
						if o, f, _, ok := fieldLoad(x); ok && o == pkgHS+".fsm13" {
							switch f {
							case "retransmit":
								return vBool(false), true
							case "currentFlight":
								return vInt(flights["Flight2"]), true
							}
						}
						if p, ok := x.(*ssa.Parameter); ok {
							if bt, isB := p.Type().Underlying().(*types.Basic); isB && bt.Kind() == types.Bool {
								return vBool(true), true // the peer repeated a handshake message
							}
						}
						return unknown, false
					}}
					if producesState(w2, tr, isStateT, states["StateSending"]) != nil {
						r.OK(rule, pkg+".flight2Parse", c.pos(tr.Pos()), "a repeated ClientHello makes the state machine send the cookie request again (transitionAfterACK, peer retransmission)")
						continue
					}
				}
			}
			r.Check(good, rule, pkg+".flight2Parse", c.pos(parser.Pos()), "a repeated first ClientHello re-enters flight0Parse, which makes the FSM send the cookie request again", "the cookie request is never re-sent: the timer skips it (by design) and the parser of the second ClientHello does not fall back to the first-ClientHello parser when the client repeats its first hello, so a single lost cookie request stalls the handshake")
		}
	}
	// records one epoch ahead are queued, and replayed after every read-key installation
	const rule2 = "queued-records-replayed"
	if fn := c.need(r, rule2, "(*dtls.Conn).handleFutureLegacyPacket"); fn != nil {
		// (directly, or in a helper of the connection that holds the lease check)
		enq := callsReached(fn, followSamePkg(fn), func(cl *ssa.Call) bool {
			return strings.HasSuffix(calleeName(&cl.Call), "readBufferLease).enqueue")
		})
		r.Check(len(enq) == 1, rule2, short(fn)+":enqueue", c.pos(fn.Pos()), "future-epoch records are queued", "records of the next epoch are no longer queued (a Finished overtaking its ChangeCipherSpec is lost)")
	}
	n := 0
	for _, fn := range c.fnsOfPkg(pkgF12) {
		inits := findCalls(fn, func(nm string) bool {
			return (strings.HasPrefix(nm, "iface:") && strings.HasSuffix(nm, "CipherSuite.Init")) || strings.HasSuffix(nm, "State12).InitCipherSuite")
		})
		if len(inits) == 0 {
			continue
		}
		// functions that go on to pull an epoch+1 message after installing keys
		// (the pull itself, or the call of a helper of the package that does the pulling)
		var pulls []*ssa.Call
		protectedPull := func(p *ssa.Call) bool {
			if rl, ok := c.ruleList(p.Call.Args[len(p.Call.Args)-1], 0); ok {
				for _, pr := range rl {
					if pr.Epoch == "E+1" {
						return true
					}
				}
			}
			return false
		}
		for _, p := range findCalls(fn, func(string) bool { return true }) {
			if strings.HasSuffix(calleeName(&p.Call), "Cache).FullPullMapItems") {
				if protectedPull(p) {
					pulls = append(pulls, p)
				}
				continue
			}
			if g := p.Call.StaticCallee(); g != nil && g.Pkg == fn.Pkg && len(g.Blocks) > 0 && !isParser12(g) {
				for _, hp := range findCalls(g, nameHasSuffix("Cache).FullPullMapItems")) {
					if protectedPull(hp) {
						pulls = append(pulls, p)
						break
					}
				}
			}
		}
		if len(pulls) == 0 {
			continue
		}
		n++
		r.Sites += len(fn.Blocks)
		hq := findCalls(fn, nameHasSuffix("Conn.HandleQueuedPackets"))
		ok := len(hq) == 1
		if ok {
			for _, p := range pulls {
				g, _ := guardedBy(hq[0], errResult(hq[0]), p)
				if !g {
					ok = false
				}
			}
			// ... after the keys: the replay is reached only behind a successful key installation
			// (replayed before it, the queued records cannot be opened and are thrown away)
			// (the installation may be skipped when the keys are there already: what is
			// demanded is that no installation can still follow the replay, and that a failed
			// installation does not go on to it)
			for _, init := range inits {
				if instrReaches(hq[0], init) {
					ok = false
				}
				wf := (&Walk{Fn: fn, Assume: failAssumption(errResult(init))}).After(init)
				if wf.Reached[hq[0]] {
					ok = false
				}
			}
		}
		r.Check(ok, rule2, short(fn), c.pos(fn.Pos()), "queued records are replayed (HandleQueuedPackets) after the read keys are installed and before the protected message is awaited", "after installing the read keys the queued next-epoch records are not replayed before waiting for the protected message (a Finished that arrived early is never processed)")
	}
	r.Floor(rule2, n, 2)

	// DTLS 1.3: a partially acknowledged message stays in the retransmission list
	const rule3 = "partial-ack-keeps-message"
	if fn := c.need(r, rule3, "(*"+pkgHS+".fsm13).applyACKProgress"); fn != nil {
		r.Sites += len(fn.Blocks)
		top := fn
		collect := func(g *ssa.Function) (*natLoop, []ssa.Instruction) {
			var inner *natLoop
			for _, l := range naturalLoops(g) {
				if inner == nil || len(l.blocks) < len(inner.blocks) {
					inner = l
				}
			}
			var keeps []ssa.Instruction
			for _, ci := range callsIn(g, nameIs("builtin:append")) {
				call := ci.(*ssa.Call)
				if inner != nil && inner.blocks[call.Block()] && typeShort(call.Type()) == "[]*internal/flight.Packet" {
					keeps = append(keeps, call)
				}
			}
			return inner, keeps
		}
		inner, keeps := collect(fn)
		if len(keeps) == 0 {
			// the filtering may sit in a helper of the package that is called per acknowledged message
			for _, ci := range callsIn(top, func(string) bool { return true }) {
				if g := ci.Common().StaticCallee(); g != nil && g.Pkg == top.Pkg && len(g.Blocks) > 0 {
					if in2, k2 := collect(g); len(k2) > 0 {
						fn, inner, keeps = g, in2, k2
						r.Sites += len(g.Blocks)
					}
				}
			}
		}
		if inner == nil || len(keeps) == 0 {
			r.Bad(rule3, short(top), c.pos(top.Pos()), "no loop that re-collects the packets still to be retransmitted")
		} else {
			isKeep := map[ssa.Instruction]bool{}
			for _, k := range keeps {
				isKeep[k] = true
			}
			w := &Walk{Fn: fn, Assume: assumeAll(atomAssume{mLoad(pkgHS+".ACKMessageProgress", "Complete"), vBool(false)},
				atomAssume{func(v ssa.Value) bool { _, f, _, ok := fieldLoad(v); return ok && f == "Complete" }, vBool(false)})}
			dropped := false
			first := true
			var hdrFirst ssa.Instruction
			for _, x := range inner.header.Instrs {
				if _, isPhi := x.(*ssa.Phi); !isPhi {
					hdrFirst = x
					break
				}
			}
			w.Visit = func(in ssa.Instruction, _ Env) bool {
				if isKeep[in] {
					return false
				}
				if in == hdrFirst {
					if !first {
						dropped = true // next iteration reached without keeping the packet
						return false
					}
					first = false
				}
				return true
			}
			// start at the loop body: the successor of the header that is inside the loop
			var body *ssa.BasicBlock
			for _, sc := range inner.header.Succs {
				if inner.blocks[sc] && sc != inner.header {
					body = sc
				}
			}
			if body != nil {
				first = false
				w.FromEdge(inner.header, body)
			}
			r.Check(body != nil && !dropped, rule3, short(top), c.pos(fn.Pos()), "a message that is not completely acknowledged is kept for retransmission on every path", "a partially acknowledged message can be dropped from the retransmission list: its missing fragments are never sent again")
		}
	}
}

// ruleWaitKeepsTimer (C02/C17): the waiting state arms its retransmission timer once, outside
// its receive loop, and a received datagram that does not advance the handshake keeps waiting on
// that same timer: the handler never returns "waiting" to itself (which would arm a fresh timer
// and let a retransmitting peer postpone this side's own retransmission for ever).
func ruleWaitKeepsTimer(c *Ctx, r *Report) {
	const rule = "wait-keeps-timer"
	waiting := c.enumConsts(pkgHS, "State")["StateWaiting"]
	n := 0
	for _, name := range []string{"(*" + pkgHS + ".fsm12).wait", "(*" + pkgHS + ".fsm13).wait"} {
		fn := c.need(r, rule, name)
		if fn == nil {
			continue
		}
		r.Sites += len(fn.Blocks)
		n++
		// the timer is created outside every loop
		inLoop := map[*ssa.BasicBlock]bool{}
		for _, l := range naturalLoops(fn) {
			for b := range l.blocks {
				inLoop[b] = true
			}
		}
		timers := findCalls(fn, nameIs("time.NewTimer"))
		okT := len(timers) == 1 && !inLoop[timers[0].Block()]
		for _, u := range c.unitFuncs(fn)[1:] {
			if len(findCalls(u, nameIs("time.NewTimer", "time.After", "time.AfterFunc"))) > 0 {
				okT = false
			}
		}
		for _, rs := range findCalls(fn, nameHasSuffix("time.Timer).Reset")) {
			_ = rs
			okT = false
		}
		r.Check(okT, rule, short(fn)+":armed-once", c.pos(fn.Pos()), "one NewTimer, outside the receive loop, never Reset", "the retransmission timer is (re)armed inside the receive loop of the waiting state")
		// no return of StateWaiting on the receive path (the select case that receives from RecvHandshake)
		var sel *ssa.Select
		recvCase := -1
		for _, b := range fn.Blocks {
			for _, in := range b.Instrs {
				if x, ok := in.(*ssa.Select); ok {
					for i, st := range x.States {
						if call, ok := st.Chan.(*ssa.Call); ok && call.Call.IsInvoke() && call.Call.Method.Name() == "RecvHandshake" {
							sel, recvCase = x, i
						}
					}
				}
			}
		}
		if sel == nil {
			r.Unk(rule, short(fn)+":no-self-transition", c.pos(fn.Pos()), "select with a RecvHandshake case not found")
			continue
		}
		wr := (&Walk{Fn: fn, Assume: func(x ssa.Value) (Val, bool) {
			bo, ok := x.(*ssa.BinOp)
			if !ok || bo.Op != token.EQL {
				return unknown, false
			}
			ex, ok := bo.X.(*ssa.Extract)
			if !ok || ex.Tuple != ssa.Value(sel) || ex.Index != 0 {
				return unknown, false
			}
			k, isC := constInt(bo.Y)
			if !isC {
				return unknown, false
			}
			return vBool(int(k) == recvCase), true
		}}).After(sel)
		onRecvPath := map[*ssa.Return]bool{}
		for _, ro := range wr.Returns {
			onRecvPath[ro.Ret] = true
		}
		bad := ""
		for _, b := range fn.Blocks {
			ret, ok := b.Instrs[len(b.Instrs)-1].(*ssa.Return)
			if !ok || !onRecvPath[ret] {
				continue
			}
			v := unspill(ret.Results[0])
			if k, isC := constInt(v); isC {
				if k == waiting {
					bad = "returns StateWaiting at " + c.ipos(ret)
				}
				continue
			}
			if call, _ := callOfResult(v); call != nil {
				// a state decided by a helper: first by exploration with the helper followed (the
				// caller may test a second result of the helper before returning its state) ...
				wf := &Walk{Fn: fn, Follow: followSamePkg(fn), Assume: wr.Assume}
				wf.After(sel)
				decided, sawWaiting := true, false
				seenRet := false
				for _, ro := range wf.Returns {
					if ro.Ret != ret {
						continue
					}
					seenRet = true
					if len(ro.Vals) > 0 && ro.Vals[0].Kind == 3 {
						if ro.Vals[0].I == waiting {
							sawWaiting = true
						}
					} else {
						decided = false
					}
				}
				if seenRet && decided && !wf.overflow {
					if sawWaiting {
						bad = "returns StateWaiting (computed by " + calleeName(&call.Call) + ") at " + c.ipos(ret)
					}
					continue
				}
				// ... otherwise by the constants the helper can return
				if callee := call.Call.StaticCallee(); callee != nil {
					for _, k := range c.handlerStates(callee, 1) {
						if k == waiting {
							bad = "can return StateWaiting through " + short(callee)
						}
					}
				}
				continue
			}
			// a computed state: the return must be unreachable when it equals StateWaiting
			sh := shapeOf(v, 0)
			guarded := false
			for _, b2 := range fn.Blocks {
				for _, in := range b2.Instrs {
					bo, ok := in.(*ssa.BinOp)
					if !ok || (bo.Op != token.EQL && bo.Op != token.NEQ) {
						continue
					}
					k, isC := constInt(bo.Y)
					if !isC || k != waiting || shapeOf(bo.X, 0) != sh {
						continue
					}
					val := vBool(bo.Op == token.EQL)
					w := (&Walk{Fn: fn, Assume: func(x ssa.Value) (Val, bool) {
						if x == ssa.Value(bo) {
							return val, true
						}
						return unknown, false
					}}).After(bo)
					if !w.Reached[ret] && instrDominates(bo, ret) {
						guarded = true
					}
				}
			}
			if !guarded {
				bad = "returns a computed state that may be StateWaiting at " + c.ipos(ret)
			}
		}
		r.Check(bad == "", rule, short(fn)+":no-self-transition", c.pos(fn.Pos()), "a non-advancing datagram keeps waiting on the same timer (the handler never returns StateWaiting)", "the waiting state "+bad+": every non-advancing datagram from the peer arms a fresh retransmission timer, so a retransmitting peer can postpone this side's retransmission indefinitely")
	}
	r.Floor(rule, n, 2)
}

// ruleTrackedFragments (C02, DTLS 1.3 partial retransmission): what is remembered about a sent
// handshake fragment is that fragment's own coordinates - message sequence, fragment offset and
// fragment length of the header that went on the wire. Selective retransmission after a partial
// ACK compares exactly these with the fragments it re-cuts.
func ruleTrackedFragments(c *Ctx, r *Report) {
	const rule = "tracked-fragment"
	const tFrag = "internal/handshake.SentHandshakeFragment"
	const tHdr = "pkg/protocol/handshake.Header"
	want := map[string]string{"MessageSequence": "MessageSequence", "Offset": "FragmentOffset", "Length": "FragmentLength"}
	n := 0
	for f, src := range want {
		for _, st := range c.StoresTo(tFrag, f) {
			if k, isC := st.Val.(*ssa.Const); isC && k.Value == nil {
				continue
			}
			n++
			r.Sites++
			ls := c.Origins(st.Val, 0)
			good := allLeaves(ls, func(v ssa.Value) bool { return isFieldLoad(v, tHdr, src) })
			r.Check(good, rule, short(st.Fn)+":"+f, c.ipos(st.Instr), f+" = the sent fragment header's "+src, "the tracked fragment's "+f+" is not the "+src+" of the fragment header that was sent: after a partial ACK the remaining fragments of the message no longer match and are never retransmitted ("+c.describeAll(ls)+")")
		}
	}
	r.Floor(rule, n, 3)
}

// ivState tracks, along one path, the symbolic value of the retransmission interval location
// ("I" = value on entry, "2*I", "60s", or a description of anything else).
type ivState struct {
	cur  string
	vals map[ssa.Value]string
	// exceeds, when set, says whether the doubled interval is assumed to exceed the cap: it
	// decides min(x, 60s) the way it decides a comparison with 60 s; sawCmp records the use
	exceeds *bool
	sawCmp  *bool
}

func (s *ivState) Fork() PathState {
	n := &ivState{cur: s.cur, vals: map[ssa.Value]string{}, exceeds: s.exceeds, sawCmp: s.sawCmp}
	for k, v := range s.vals {
		n.vals[k] = v
	}
	return n
}

func (s *ivState) sym(v ssa.Value, raw map[*ssa.Phi]ssa.Value, sixty int64) string {
	for i := 0; i < 8; i++ {
		if x, ok := s.vals[v]; ok {
			return x
		}
		switch t := v.(type) {
		case *ssa.Phi:
			if rv, ok := raw[t]; ok && rv != v {
				v = rv
				continue
			}
		case *ssa.Convert:
			v = t.X
			continue
		case *ssa.ChangeType:
			v = t.X
			continue
		case *ssa.Const:
			if k, ok := constInt(t); ok {
				if k == sixty {
					return "60s"
				}
				return fmt.Sprintf("const %d", k)
			}
		case *ssa.Call:
			// min(x, 60 s): x while it does not exceed the cap, the cap otherwise
			if calleeName(&t.Call) == "builtin:min" && len(t.Call.Args) == 2 {
				x, y := s.sym(t.Call.Args[0], raw, sixty), s.sym(t.Call.Args[1], raw, sixty)
				if x == "60s" {
					x, y = y, x
				}
				if y == "60s" && s.exceeds != nil {
					if s.sawCmp != nil {
						*s.sawCmp = true
					}
					if *s.exceeds {
						return "60s"
					}
					return x
				}
				return "min(" + x + "," + y + ")"
			}
		case *ssa.BinOp:
			x, y := s.sym(t.X, raw, sixty), s.sym(t.Y, raw, sixty)
			switch {
			case t.Op == token.MUL && y == "const 2":
				return "2*" + x
			case t.Op == token.MUL && x == "const 2":
				return "2*" + y
			case t.Op == token.ADD && x == y:
				return "2*" + x
			case t.Op == token.SHL && y == "const 1":
				return "2*" + x
			}
			return "(" + x + t.Op.String() + y + ")"
		}
		break
	}
	return "?" + shapeOf(v, 0)
}

func (s *ivState) step(in ssa.Instruction, raw map[*ssa.Phi]ssa.Value, isLoc func(ssa.Value) bool, sixty int64) {
	switch x := in.(type) {
	case *ssa.UnOp:
		if x.Op == token.MUL && isLoc(x.X) {
			s.vals[x] = s.cur
		}
	case *ssa.Store:
		if isLoc(x.Addr) {
			s.cur = s.sym(x.Val, raw, sixty)
		}
	}
}

// ruleLoopsOutliveHandshakeContext (C02, C16): the state machine and the reader are started with
// contexts that are rooted at context.Background(), not derived from the context of the Handshake
// call that started them: the side that sent the last flight must stay able to repeat it when the
// peer retransmits, after the caller released its handshake context (the usual defer cancel()).
func ruleLoopsOutliveHandshakeContext(c *Ctx, r *Report) {
	const rule = "loops-outlive-handshake-context"
	host := c.need(r, rule, "(*dtls.Conn).handshake")
	if host == nil {
		return
	}
	// root of a context value: follow With* derivations and by-reference captures
	var root func(v ssa.Value, d int) (string, bool)
	root = func(v ssa.Value, d int) (string, bool) {
		if d > 8 {
			return "derivation too deep", false
		}
		switch x := v.(type) {
		case *ssa.UnOp:
			if fv, ok := x.X.(*ssa.FreeVar); ok {
				if sv := singleCapturedValue(fv); sv != nil {
					return root(sv, d+1)
				}
				return "captured variable with several assignments", false
			}
			if al, ok := x.X.(*ssa.Alloc); ok {
				var stored ssa.Value
				for _, ref := range *al.Referrers() {
					if st, ok := ref.(*ssa.Store); ok && st.Addr == ssa.Value(al) {
						if stored != nil {
							return "variable with several assignments", false
						}
						stored = st.Val
					}
				}
				if stored != nil {
					return root(stored, d+1)
				}
			}
		case *ssa.Extract:
			return root(x.Tuple, d+1)
		case *ssa.Call:
			n := calleeName(&x.Call)
			switch {
			case n == "context.Background" || n == "context.TODO":
				return n + "()", true
			case strings.HasPrefix(n, "context.With"):
				return root(x.Call.Args[0], d+1)
			}
			return "result of " + n, false
		case *ssa.Parameter:
			return "parameter " + x.Name() + " of " + short(x.Parent()), false
		case *ssa.FreeVar:
			if sv := singleCapturedValue(x); sv != nil {
				return root(sv, d+1)
			}
		case *ssa.Phi:
			for _, e := range x.Edges {
				if why, ok := root(e, d+1); !ok {
					return why, false
				}
			}
			return "context.Background()", true
		}
		return shapeOf(v, 0), false
	}
	n := 0
	fns := []*ssa.Function{host}
	fns = append(fns, host.AnonFuncs...)
	for _, fn := range fns {
		r.Sites += len(fn.Blocks)
		for _, b := range fn.Blocks {
			for _, in := range b.Instrs {
				call, ok := in.(*ssa.Call)
				if !ok {
					continue
				}
				var ctxArg ssa.Value
				what := ""
				if call.Call.IsInvoke() && call.Call.Method.Name() == "Run" && len(call.Call.Args) > 0 {
					ctxArg, what = call.Call.Args[0], "state machine (fsm.Run)"
				} else if calleeName(&call.Call) == "(*dtls.Conn).readAndBuffer" && len(call.Call.Args) > 1 {
					ctxArg, what = call.Call.Args[1], "reader (readAndBuffer)"
				}
				if ctxArg == nil {
					continue
				}
				n++
				why, ok := root(ctxArg, 0)
				r.Check(ok, rule, short(host)+":"+strings.Fields(what)[0]+strings.Fields(what)[1], c.ipos(call), "context rooted at "+why, "the "+what+" runs under a context derived from "+why+": once the caller of Handshake releases its context the loop exits, and a peer that lost the last flight retransmits into nothing and never completes")
			}
		}
	}
	r.Floor(rule, n, 2)
}

// rulePullKeepsFirstCopy (C02, C04): every (re)transmission of an own handshake message is pushed
// into the handshake cache again, so the cache holds several entries with the same message
// sequence; the transcript both sides hash is stable under retransmission only because a lookup
// keeps the copy it already chose unless a *higher* message sequence turns up. With the chosen and
// the candidate entry carrying equal message sequences, the replacement is unreachable.
func rulePullKeepsFirstCopy(c *Ctx, r *Report) {
	const rule = "pull-keeps-first-copy"
	root := c.need(r, rule, "(*internal/flight.Cache).Pull")
	if root == nil {
		return
	}
	truth := func(op token.Token, cmp int) (bool, bool) { // cmp = sign(X - Y)
		switch op {
		case token.EQL:
			return cmp == 0, true
		case token.NEQ:
			return cmp != 0, true
		case token.LSS:
			return cmp < 0, true
		case token.LEQ:
			return cmp <= 0, true
		case token.GTR:
			return cmp > 0, true
		case token.GEQ:
			return cmp >= 0, true
		}
		return false, false
	}
	n := 0
	for _, fn := range c.unitFuncs(root) {
		r.Sites += len(fn.Blocks)
		// values compared with nil in this function: the "already chosen" entry
		var nilCompared []ssa.Value
		for _, b := range fn.Blocks {
			for _, in := range b.Instrs {
				if bo, ok := in.(*ssa.BinOp); ok && (bo.Op == token.EQL || bo.Op == token.NEQ) {
					if isNilConst(bo.Y) {
						nilCompared = append(nilCompared, bo.X)
					} else if isNilConst(bo.X) {
						nilCompared = append(nilCompared, bo.Y)
					}
				}
			}
		}
		isChosen := func(base ssa.Value) bool {
			for _, v := range nilCompared {
				if v == base || sameValue(v, base) {
					return true
				}
				// two loads of the same slot (out[i])
				if u1, ok := v.(*ssa.UnOp); ok {
					if u2, ok := base.(*ssa.UnOp); ok {
						if sameValue(u1.X, u2.X) {
							return true
						}
						i1, ok1 := u1.X.(*ssa.IndexAddr)
						i2, ok2 := u2.X.(*ssa.IndexAddr)
						if ok1 && ok2 && (i1.X == i2.X || sameValue(i1.X, i2.X)) && (i1.Index == i2.Index || sameValue(i1.Index, i2.Index)) {
							return true
						}
					}
				}
			}
			return false
		}
		for _, b := range fn.Blocks {
			for _, in := range b.Instrs {
				bo, ok := in.(*ssa.BinOp)
				if !ok {
					continue
				}
				_, fx, bx, okx := fieldLoad(bo.X)
				_, fy, by, oky := fieldLoad(bo.Y)
				if !okx || !oky || fx != "MessageSequence" || fy != "MessageSequence" {
					continue
				}
				cx, cy := isChosen(bx), isChosen(by)
				if cx == cy {
					continue
				}
				n++
				// sign(X - Y) when the chosen entry is newer than the candidate
				newer := 1
				if cy {
					newer = -1
				}
				tEq, ok1 := truth(bo.Op, 0)
				tNewer, ok2 := truth(bo.Op, newer)
				if !ok1 || !ok2 {
					r.Unk(rule, short(fn), c.ipos(bo), "unrecognised comparison of message sequences")
					continue
				}
				r.Check(tEq == tNewer, rule, short(fn), c.ipos(bo), "an entry with the same message sequence is treated like an older one: the chosen copy stays", "a cache entry with the same message sequence as the one already chosen is treated like a newer one: a retransmitted copy (pushed again on every send) replaces the first and changes what the transcript hash and the Finished are computed over")
			}
		}
	}
	if n == 0 {
		r.Unk(rule, short(root), c.pos(root.Pos()), "no comparison of message sequences between the chosen and the candidate entry found")
	}
}

// ruleParseReentrant (C02, C14): a flight parser runs again for every datagram of the flight it
// waits for, until the flight is complete; each earlier pass leaves through the keep-reading exit
// (no next flight, no alert, no error). A pass must therefore not turn one of its own guards
// around: if a guard compares a state field with a value taken from the received message, and the
// parser then stores that value into that field on a path that can still leave through the
// keep-reading exit, the next pass takes the other branch for the very same message (a ServerHello
// that starts a new session is taken for the resumption of it once its session ID was adopted).
func ruleParseReentrant(c *Ctx, r *Report) {
	const rule = "parse-reentrant"
	n := 0
	var deep func(v ssa.Value, d int) []ssa.Value
	deep = func(v ssa.Value, d int) []ssa.Value {
		var out []ssa.Value
		for _, l := range c.Origins(v, 0) {
			if call, ok := l.(*ssa.Call); ok && d < 3 {
				nm := calleeName(&call.Call)
				if nm == "bytes.Clone" || nm == "slices.Clone" {
					out = append(out, deep(call.Call.Args[0], d+1)...)
					continue
				}
			}
			out = append(out, l)
		}
		return out
	}
	for _, pkg := range []string{pkgF12, pkgF13} {
		for _, fn := range c.fnsOfPkg(pkg) {
			res := fn.Signature.Results()
			if res.Len() != 3 || len(fn.Blocks) == 0 || fn.Parent() != nil {
				continue
			}
			// keep-reading exits
			var keep []*ssa.Return
			for _, b := range fn.Blocks {
				ret, ok := b.Instrs[len(b.Instrs)-1].(*ssa.Return)
				if !ok || len(ret.Results) != 3 {
					continue
				}
				k, isK := constInt(unspill(ret.Results[0]))
				if isK && k == 0 && isNilConst(unspill(ret.Results[1])) && isNilConst(unspill(ret.Results[2])) {
					keep = append(keep, ret)
				}
			}
			if len(keep) == 0 {
				continue
			}
			n++
			r.Sites += len(fn.Blocks)
			// guards: equality between a state field and some other value
			type guard struct {
				at    ssa.Instruction
				owner string
				field string
				other ssa.Value
			}
			var guards []guard
			addGuard := func(at ssa.Instruction, x, y ssa.Value) {
				for _, pr := range [][2]ssa.Value{{x, y}, {y, x}} {
					for _, l := range c.Origins(pr[0], 0) {
						if o, f, _, ok := fieldLoad(l); ok && strings.HasPrefix(o, "internal/state.") {
							guards = append(guards, guard{at, o, f, pr[1]})
						}
					}
				}
			}
			for _, b := range fn.Blocks {
				for _, in := range b.Instrs {
					switch x := in.(type) {
					case *ssa.BinOp:
						if x.Op == token.EQL || x.Op == token.NEQ {
							addGuard(in, x.X, x.Y)
						}
					case *ssa.Call:
						if nm := calleeName(&x.Call); (nm == "bytes.Equal" || nm == "crypto/subtle.ConstantTimeCompare" || nm == "crypto/hmac.Equal") && len(x.Call.Args) == 2 {
							addGuard(in, x.Call.Args[0], x.Call.Args[1])
						}
					}
				}
			}
			bad := 0
			for _, g := range guards {
				otherLeaves := deep(g.other, 0)
				for _, st := range c.StoresTo(g.owner, g.field) {
					if st.Fn != fn || !instrReaches(g.at, st.Instr) {
						continue
					}
					same := false
					for _, l := range deep(st.Val, 0) {
						if _, isC := l.(*ssa.Const); isC {
							continue
						}
						for _, o := range otherLeaves {
							if l == o || sameFieldLoad(l, o) {
								same = true
							}
						}
					}
					if !same {
						continue
					}
					for _, kr := range keep {
						if instrReaches(st.Instr, kr) {
							bad++
							r.Bad(rule, fmt.Sprintf("%s:%s", short(fn), g.field), c.ipos(st.Instr), fmt.Sprintf("the parser compares state %s with a value of the received message (%s) and then stores that value into the field on a path that can still leave through the keep-reading exit at %s: the next pass over the same message takes the other branch of the comparison", g.field, c.ipos(g.at), c.ipos(kr)))
							break
						}
					}
				}
			}
			if bad == 0 {
				r.OK(rule, short(fn), c.pos(fn.Pos()), fmt.Sprintf("%d equality guard(s) on state fields, none turned around before a keep-reading exit", len(guards)))
			}
		}
	}
	r.Floor(rule, n, 8)
}

// sameFieldLoad: two loads of the same field of the same base value.
func sameFieldLoad(a, b ssa.Value) bool {
	oa, fa, ba, ok1 := fieldLoad(a)
	ob, fb, bb, ok2 := fieldLoad(b)
	return ok1 && ok2 && oa == ob && fa == fb && sameValue(ba, bb)
}

// ruleDatagramSummaryMonotone (C17): what a datagram tells the state machine is folded over its
// records: once one record marked the datagram as a retransmission (or as carrying handshake data)
// a later record of the same datagram cannot take that back. With the flag already true, every
// store into it stores true. (A datagram holding an already assembled message followed by a
// fragment of the next one would otherwise count as new data on every retransmission and restore
// the receiver's initial interval each time.)
func ruleDatagramSummaryMonotone(c *Ctx, r *Report) {
	const rule = "datagram-summary-monotone"
	const owner = "dtls.datagramProcessingSummary"
	n := 0
	for _, field := range []string{"retransmit", "containsHandshake"} {
		for _, st := range c.StoresTo(owner, field) {
			fn := st.Fn
			store, ok := st.Instr.(*ssa.Store)
			if !ok {
				continue
			}
			n++
			r.Sites++
			allTrue, seen := true, false
			w := &Walk{Fn: fn, Assume: func(v ssa.Value) (Val, bool) {
				if o, f, _, ok := fieldLoad(v); ok && o == owner && f == field {
					return vBool(true), true
				}
				return unknown, false
			}}
			w.VisitRaw = func(in ssa.Instruction, env Env, raw map[*ssa.Phi]ssa.Value) bool {
				if in == ssa.Instruction(store) {
					seen = true
					v := resolvePhis(store.Val, raw)
					ev := w.eval(v, env)
					if k, isK := constBool(v); isK {
						ev = vBool(k)
					}
					if ev != vBool(true) {
						allTrue = false
					}
				}
				return true
			}
			w.FromEntry()
			key := fmt.Sprintf("%s:%s", short(fn), field)
			if !seen {
				r.Unk(rule, key, c.ipos(store), "the accumulating store was not reached by the exploration")
				continue
			}
			r.Check(allTrue, rule, key, c.ipos(store), "once true the flag stays true for the rest of the datagram", "a later record of the same datagram can reset summary."+field+" to false: the last record decides instead of any record")
		}
	}
	r.Floor(rule, n, 2)
}

func reachableBlocks(b *ssa.BasicBlock) []*ssa.BasicBlock {
	var out []*ssa.BasicBlock
	for blk := range reachableFrom(b.Succs...) {
		out = append(out, blk)
	}
	return out
}

// ruleDoublingOnlyOnTimeout (C17): "intervals ... double after each timeout": the function that
// doubles the retransmission interval is called only where a retransmission timer has fired - in a
// block entered through the select case that received from a time.Timer's channel. A call on a
// receive path (an ACK, a retransmission of the peer) doubles the interval without any timeout
// having occurred.
func ruleDoublingOnlyOnTimeout(c *Ctx, r *Report) {
	const rule = "doubling-only-on-timeout"
	n := 0
	for _, s := range c.CallsToName("internal/handshake.handleRetransmitTimeout") {
		call, ok := s.Call.(*ssa.Call)
		if !ok || !inModule(s.Fn) {
			continue
		}
		n++
		r.Sites++
		fn := s.Fn
		onTimer := false
		for _, b := range fn.Blocks {
			iff, isIf := b.Instrs[len(b.Instrs)-1].(*ssa.If)
			if !isIf {
				continue
			}
			bo, isB := iff.Cond.(*ssa.BinOp)
			if !isB || bo.Op != token.EQL {
				continue
			}
			ex, isEx := bo.X.(*ssa.Extract)
			k, isK := constInt(bo.Y)
			if !isEx || !isK || ex.Index != 0 {
				continue
			}
			sel, isSel := ex.Tuple.(*ssa.Select)
			if !isSel || int(k) >= len(sel.States) {
				continue
			}
			ts := b.Succs[0]
			if !(len(ts.Preds) == 1 && (ts == call.Block() || ts.Dominates(call.Block()))) {
				continue
			}
			if _, f, base, ok := fieldLoad(sel.States[k].Chan); ok && f == "C" && strings.HasSuffix(namedOrType(derefType(base.Type())), "time.Timer") {
				onTimer = true
			}
		}
		r.Check(onTimer, rule, short(fn), c.ipos(call), "the interval is doubled where a retransmission timer fired", "the retransmission interval is doubled on a path that no timer expiry leads to: every received ACK or retransmission of the peer doubles it, so after a burst of retransmissions both sides sit at the 60 s cap without a single timeout having occurred")
	}
	r.Floor(rule, n, 2)
}

// ruleAwaitLoopsRetransmit (C17, C02): an endpoint that has sent a flight and awaits the reply in a
// loop of its own (before a state machine runs: the dual-stack client's version negotiation) is
// its own retransmission timer. In every function of the connection package that writes packets
// and then loops on the bare read-and-buffer step, the read inside the loop runs under a context
// bounded by context.WithTimeout, a re-send of the packets is reachable inside the loop, and the
// timeout handed to WithTimeout is a loop-carried value that is doubled in the loop and compared
// with the 60 s cap. Without this a lost ClientHello (or a lost first answer) leaves the client
// silent until its context expires.
func ruleAwaitLoopsRetransmit(c *Ctx, r *Report) {
	const rule = "await-loops-retransmit"
	n := 0
	// the readers used while no state machine runs: functions of the package that call the datagram
	// reader (directly or through one of them) without signalling a state machine
	prelim := map[*ssa.Function]bool{}
	signals := func(f *ssa.Function) bool {
		for _, b := range f.Blocks {
			for _, in := range b.Instrs {
				switch x := in.(type) {
				case *ssa.Send:
					return true
				case *ssa.Select:
					for _, st := range x.States {
						if st.Dir == types.SendOnly {
							return true
						}
					}
				}
			}
		}
		return false
	}
	for round := 0; round < 2; round++ {
		for _, f := range c.Fns {
			if !inModule(f) || prelim[f] || len(f.Blocks) == 0 || signals(f) || len(naturalLoops(f)) > 0 {
				continue
			}
			for _, cl := range findCalls(f, func(string) bool { return true }) {
				g := cl.Call.StaticCallee()
				if g == nil {
					continue
				}
				if strings.HasSuffix(short(g), "dtls.Conn).readAndProcessDatagram") || prelim[g] {
					prelim[f] = true
				}
			}
		}
	}
	seenLoop := map[*ssa.BasicBlock]bool{}
	var sitesRd []Site
	for f := range prelim {
		sitesRd = append(sitesRd, c.CallsToName(short(f))...)
	}
	sort.Slice(sitesRd, func(i, j int) bool { return c.ipos(sitesRd[i].Call) < c.ipos(sitesRd[j].Call) })
	for _, s := range sitesRd {
		rd, ok := s.Call.(*ssa.Call)
		if !ok {
			continue
		}
		if prelim[s.Fn] {
			continue // a wrapper of the reader, not a wait loop
		}
		fn := s.Fn
		var loop *natLoop
		for _, l := range naturalLoops(fn) {
			if l.blocks[rd.Block()] && (loop == nil || len(l.blocks) < len(loop.blocks)) {
				loop = l
			}
		}
		// the wait may sit in a helper that the loop of its caller runs once per turn
		var viaHelper *ssa.Call
		helper := (*ssa.Function)(nil)
		if loop == nil {
			for _, cs := range c.CallsToName(short(fn)) {
				cc, isCall := cs.Call.(*ssa.Call)
				if !isCall {
					continue
				}
				for _, l := range naturalLoops(cs.Fn) {
					if l.blocks[cc.Block()] && (loop == nil || len(l.blocks) < len(loop.blocks)) {
						loop, viaHelper, helper = l, cc, fn
					}
				}
			}
			if viaHelper != nil {
				fn = viaHelper.Parent()
			}
		}
		if loop == nil || seenLoop[loop.header] {
			continue
		}
		seenLoop[loop.header] = true
		writes := findCalls(fn, nameHasSuffix("dtls.Conn).writePackets"))
		sentBefore := false
		for _, w := range writes {
			if !loop.blocks[w.Block()] && w.Block().Dominates(loop.header) {
				sentBefore = true
			}
		}
		if !sentBefore {
			continue // nothing was sent: nothing to retransmit (the server side waits for the first hello)
		}
		n++
		r.Sites += len(fn.Blocks)
		resend := false
		for _, w := range writes {
			if loop.blocks[w.Block()] {
				resend = true
			}
		}
		if helper != nil && len(findCalls(helper, nameHasSuffix("dtls.Conn).writePackets"))) > 0 {
			resend = true
		}
		r.Check(resend, rule, short(fn)+":resend", c.ipos(rd), "the flight is sent again inside the wait loop", "the function sends a flight and then waits for the answer in a loop that never sends it again: there is no retransmission timer for this flight, a lost datagram (either way) leaves the endpoint silent until its context expires, and a peer that needs a second datagram to make progress never gets one")
		// bounded read
		var timeout ssa.Value
		for _, l := range c.Origins(rd.Call.Args[len(rd.Call.Args)-1], 0) {
			if ex, ok := l.(*ssa.Extract); ok {
				if cl, ok := ex.Tuple.(*ssa.Call); ok && calleeName(&cl.Call) == "context.WithTimeout" && len(cl.Call.Args) == 2 {
					timeout = cl.Call.Args[1]
				}
			}
			if cl, ok := l.(*ssa.Call); ok && calleeName(&cl.Call) == "context.WithTimeout" && len(cl.Call.Args) == 2 {
				timeout = cl.Call.Args[1]
			}
		}
		r.Check(timeout != nil, rule, short(fn)+":bounded-read", c.ipos(rd), "each wait is bounded by context.WithTimeout", "the read inside the wait loop is not bounded by a timeout: the loop cannot notice that the answer is overdue")
		if timeout == nil {
			continue
		}
		if helper != nil {
			// the interval the helper waits for is the one its caller hands it
			if p, isP := stripConv(timeout).(*ssa.Parameter); isP && p.Parent() == helper && paramIndex(p) < len(viaHelper.Call.Args) {
				timeout = viaHelper.Call.Args[paramIndex(p)]
			}
		}
		phi, isPhi := stripConv(timeout).(*ssa.Phi)
		doubled, capped := false, false
		scan := func(of ssa.Value, blocks []*ssa.BasicBlock) {
			for _, b := range blocks {
				for _, in := range b.Instrs {
					bo, ok := in.(*ssa.BinOp)
					if !ok {
						continue
					}
					if bo.Op == token.MUL && (stripConv(bo.X) == of || stripConv(bo.Y) == of) {
						if k, isK := constInt(bo.Y); isK && k == 2 {
							doubled = true
						}
						if k, isK := constInt(bo.X); isK && k == 2 {
							doubled = true
						}
					}
					if _, limit, _, ok := limitCmp(bo); ok && limit == int64(60e9) {
						capped = true
					}
				}
			}
		}
		if isPhi && phi.Block() == loop.header {
			var lb []*ssa.BasicBlock
			for b := range loop.blocks {
				lb = append(lb, b)
			}
			scan(phi, lb)
			// ... or the next interval is computed by a helper of the module that is handed the
			// current one
			for i, e := range phi.Edges {
				if !loop.blocks[phi.Block().Preds[i]] {
					continue
				}
				for _, l := range c.Origins(e, 0) {
					cl, ok := l.(*ssa.Call)
					if !ok {
						continue
					}
					callee := cl.Call.StaticCallee()
					if callee == nil || !inModule(callee) || len(callee.Blocks) == 0 {
						continue
					}
					for j, a := range cl.Call.Args {
						if stripConv(a) == ssa.Value(phi) && j < len(callee.Params) {
							scan(callee.Params[j], callee.Blocks)
						}
					}
				}
			}
		}
		// ... and restored: on some way round the loop the interval is the configured initial value
		// again (new, not retransmitted, data arrived)
		if isPhi && phi.Block() == loop.header {
			restored := false
			for i, e := range phi.Edges {
				if !loop.blocks[phi.Block().Preds[i]] {
					continue
				}
				seenV := map[ssa.Value]bool{}
				var look func(v ssa.Value)
				look = func(v ssa.Value) {
					v = unspill(stripConv(v))
					if v == ssa.Value(phi) || seenV[v] {
						return // the old interval again: not a restore
					}
					seenV[v] = true
					if _, f, _, ok := fieldLoad(v); ok && f == "InitialRetransmitInterval" {
						restored = true
					}
					if p2, ok := v.(*ssa.Phi); ok {
						for _, e2 := range p2.Edges {
							look(e2)
						}
					}
				}
				look(e)
			}
			r.Check(restored, rule, short(fn)+":interval-restored", c.ipos(rd), "the interval goes back to the configured initial value inside the wait loop", "the interval of the wait loop only ever grows: new data from the peer that does not finish the wait leaves the endpoint on the backed-off schedule, where the state machines restore the initial interval")
		}
		r.Check(doubled && capped, rule, short(fn)+":interval-law", c.ipos(rd), "the wait interval is loop-carried, doubled and capped at 60 s", "the interval of the wait loop is not a loop-carried value that is doubled and capped at 60 s: the flight is not retransmitted on the schedule the state machines use")
	}
	r.Floor(rule, n, 1)
}
