package main

import (
	"encoding/json"
	"fmt"
	"go/token"
	"go/types"
	"os"
	"path/filepath"
	"regexp"
	"sort"
	"strings"

	"golang.org/x/tools/go/ssa"
)

func isDecoderFn(fn *ssa.Function) bool {
	k := short(fn)
	if !strings.Contains(k, "pkg/protocol") {
		return false
	}
	n := strings.ToLower(fn.Name())
	return strings.HasPrefix(n, "unmarshal") || strings.HasPrefix(n, "decode") || strings.HasPrefix(n, "parse") || strings.HasPrefix(n, "unpack")
}

// declaredLengths: integer values decoded from a byte buffer (binary Uint16/24/32/48 results and
// single bytes) in fn.
func declaredLengths(fn *ssa.Function) []ssa.Value {
	var out []ssa.Value
	for _, b := range fn.Blocks {
		for _, in := range b.Instrs {
			cv, ok := in.(*ssa.Convert)
			if !ok {
				continue
			}
			if bits, signed, isInt := isIntLike(cv.Type()); !isInt || !signed || bits != 64 {
				continue
			}
			switch x := cv.X.(type) {
			case *ssa.Call:
				n := calleeName(&x.Call)
				if strings.Contains(n, "bigEndian).Uint") || strings.Contains(n, "util.BigEndianUint") {
					out = append(out, cv)
				}
			case *ssa.UnOp:
				if ia, ok := x.X.(*ssa.IndexAddr); ok && x.Op == token.MUL {
					if bt, ok := x.Type().Underlying().(*types.Basic); ok && bt.Kind() == types.Uint8 {
						_ = ia
						out = append(out, cv)
					}
				}
			}
		}
	}
	return out
}

// retained: the slice value is kept as decoded content (stored, returned, cloned, appended,
// converted to string) rather than handed to a nested decoder or re-sliced.
func retained(v ssa.Value, d int) bool { return len(retainedAt(v, d)) > 0 }

// retainedAt: the instructions that keep the slice value.
func retainedAt(v ssa.Value, d int) []ssa.Instruction {
	if d > 3 || v.Referrers() == nil {
		return nil
	}
	var out []ssa.Instruction
	for _, ref := range *v.Referrers() {
		switch x := ref.(type) {
		case *ssa.Store:
			if x.Val == v {
				if _, _, _, isField := fieldOfAddr(x.Addr); isField {
					out = append(out, x)
				}
			}
		case *ssa.Return:
			out = append(out, x)
		case *ssa.Call:
			n := calleeName(&x.Call)
			if n == "bytes.Clone" || strings.HasPrefix(n, "slices.Clone") {
				out = append(out, x)
			}
			if n == "builtin:append" && len(x.Call.Args) == 2 && x.Call.Args[1] == v {
				out = append(out, x)
			}
		case *ssa.Convert:
			if bt, ok := x.Type().Underlying().(*types.Basic); ok && bt.Info()&types.IsString != 0 {
				out = append(out, x)
			}
		case *ssa.ChangeType:
			out = append(out, retainedAt(x, d+1)...)
		}
	}
	return out
}

// ruleDeclaredLengths (C18): an open-ended slice that is kept as field content in a decoder with
// declared lengths must be exactly as long as a declared length says.
func ruleDeclaredLengths(c *Ctx, r *Report) {
	const rule = "declared-length"
	c.boundsInit()
	nChecked, nFn := 0, 0
	for _, fn := range c.Fns {
		if !isDecoderFn(fn) {
			continue
		}
		decl := declaredLengths(fn)
		if len(decl) == 0 {
			continue
		}
		nFn++
		a := getAn(fn)
		for _, b := range fn.Blocks {
			for _, in := range b.Instrs {
				sl, ok := in.(*ssa.Slice)
				if !ok || sl.High != nil || sl.Low == nil {
					continue
				}
				if _, isBytes := sl.Type().Underlying().(*types.Slice); !isBytes {
					continue
				}
				keeps := retainedAt(sl, 0)
				if len(keeps) == 0 {
					continue
				}
				nChecked++
				r.Sites++
				remaining := a.lenOf(sl.X, 0).add(a.linOf(sl.Low, 0), -1)
				// where the tail is kept (not where it is cut: the length may be compared with the
				// declared one in between) it is exactly as long as a declared length
				exact := true
				for _, keep := range keeps {
					facts := append([]cons{}, a.blockFacts(keep.Block())...)
					facts = append(facts, a.inv...)
					here := false
					for _, d := range decl {
						l := a.linOf(d, 0)
						if a.prove(facts, remaining.add(l, -1), 0) && a.prove(facts, l.add(remaining, -1), 0) {
							here = true
							break
						}
					}
					if !here {
						exact = false
					}
				}
				key := short(fn) + ":" + siteShape(sl)
				r.Check(exact, rule, key, c.ipos(sl), "the kept tail is exactly as long as a declared length", "a field takes every remaining byte of the message although the message declares lengths: bytes beyond the declared length are consumed (no equality between the tail and any declared length is established)")
			}
		}
	}
	r.Extra["decoder_functions_with_declared_lengths"] = nFn
	r.Floor(rule, nChecked, 3)
}

// ruleDatagramPartition (C18): datagram unpackers cut records [offset, offset+n) and advance by
// exactly n, where the layout of a record depends only on that record.
func ruleDatagramPartition(c *Ctx, r *Report) {
	const rule = "datagram-partition"
	c.boundsInit()
	for _, name := range []string{"pkg/protocol/recordlayer.UnpackDatagram", "pkg/protocol/recordlayer.ContentAwareUnpackDatagram"} {
		fn := c.need(r, rule, name)
		if fn == nil {
			continue
		}
		r.Sites += len(fn.Blocks)
		loops := naturalLoops(fn)
		if len(loops) != 1 {
			r.Unk(rule, short(fn), c.pos(fn.Pos()), "expected exactly one loop")
			continue
		}
		l := loops[0]
		var off *ssa.Phi
		for _, in := range l.header.Instrs {
			if p, ok := in.(*ssa.Phi); ok {
				if _, _, isInt := isIntLike(p.Type()); isInt {
					if off != nil {
						// a second loop-carried integer: layout state leaking across records
						r.Bad(rule, short(fn)+":per-record-layout", c.ipos(p), "an integer besides the offset is carried from one record to the next ("+p.Comment+"): the header layout of a record depends on earlier records in the datagram")
					}
					if off == nil {
						off = p
					}
				}
			}
		}
		if off == nil {
			r.Unk(rule, short(fn), c.pos(fn.Pos()), "offset induction variable not found")
			continue
		}
		nPhi := 0
		for _, in := range l.header.Instrs {
			if p, ok := in.(*ssa.Phi); ok {
				if _, _, isInt := isIntLike(p.Type()); isInt {
					nPhi++
				}
			}
		}
		if nPhi == 1 {
			r.OK(rule, short(fn)+":per-record-layout", c.ipos(off), "only the offset is carried between records")
		}
		a := getAn(fn)
		// each appended record is buf[offset : offset+n] and the back edge value is offset+n
		var cut *ssa.Slice
		for _, b := range fn.Blocks {
			for _, in := range b.Instrs {
				if sl, ok := in.(*ssa.Slice); ok && sl.Low != nil && sl.High != nil && l.blocks[sl.Block()] {
					cut = sl
				}
			}
		}
		if cut == nil {
			r.Bad(rule, short(fn), c.pos(fn.Pos()), "record cut buf[offset:offset+n] not found")
			continue
		}
		lo, hi := a.linOf(cut.Low, 0), a.linOf(cut.High, 0)
		okLo := linString(lo.add(a.linOf(off, 0), -1)) == "0"
		var next lin
		for i, p := range l.header.Preds {
			if l.blocks[p] {
				next = a.linOf(off.Edges[i], 0)
			}
		}
		okNext := next.ok && linString(next.add(hi, -1)) == "0"
		r.Check(okLo && okNext, rule, short(fn)+":cut-and-advance", c.ipos(cut), "record = buf[offset:offset+n] and the next offset is offset+n", "records are not cut at [offset, offset+n) with the next record starting exactly at offset+n: the unpacked records do not partition the datagram")
	}
}

// ruleCodecRegistries (C18): the decode switches cover every implementer.
func ruleCodecRegistries(c *Ctx, r *Report) {
	const rule = "codec-registry"
	// handshake messages
	hp := c.Pkg("pkg/protocol/handshake")
	if hp == nil {
		r.Unk(rule, "pkg", "", "handshake package not found")
		return
	}
	msgIface, _ := hp.Pkg.Scope().Lookup("Message").Type().Underlying().(*types.Interface)
	impl := map[string]bool{}
	for _, n := range hp.Pkg.Scope().Names() {
		tn, ok := hp.Pkg.Scope().Lookup(n).(*types.TypeName)
		if !ok || msgIface == nil {
			continue
		}
		if types.Implements(types.NewPointer(tn.Type()), msgIface) && !types.IsInterface(tn.Type()) {
			impl[n] = true
		}
	}
	made := map[string]bool{}
	for _, name := range []string{"(*pkg/protocol/handshake.Handshake).Unmarshal", pkgF13 + ".unmarshalProtectedHandshakeMessage"} {
		fn := c.need(r, rule, name)
		if fn == nil {
			continue
		}
		r.Sites += len(fn.Blocks)
		for _, uf := range c.unitFuncs(fn) {
			for _, b := range uf.Blocks {
				for _, in := range b.Instrs {
					if al, ok := in.(*ssa.Alloc); ok {
						if nm := namedOf(al.Type()); strings.HasPrefix(nm, "pkg/protocol/handshake.Message") {
							made[strings.TrimPrefix(nm, "pkg/protocol/handshake.")] = true
						}
					}
				}
			}
		}
	}
	var names []string
	for n := range impl {
		names = append(names, n)
	}
	sort.Strings(names)
	for _, n := range names {
		r.Check(made[n], rule, "handshake:"+n, "", "constructed by a handshake decode switch", "handshake message type "+n+" implements Message but no decode switch constructs it: it can be sent but never received")
	}
	r.Floor(rule+":handshake", len(names), 15)
	// record contents
	pp := c.Pkg("pkg/protocol")
	cIface, _ := pp.Pkg.Scope().Lookup("Content").Type().Underlying().(*types.Interface)
	want := map[string]bool{}
	for _, p := range []*ssa.Package{pp, c.Pkg("pkg/protocol/alert"), hp} {
		for _, n := range p.Pkg.Scope().Names() {
			tn, ok := p.Pkg.Scope().Lookup(n).(*types.TypeName)
			if !ok || cIface == nil || types.IsInterface(tn.Type()) {
				continue
			}
			if types.Implements(types.NewPointer(tn.Type()), cIface) {
				want[shortPath(p.Pkg.Path())+"."+n] = true
			}
		}
	}
	got := map[string]bool{}
	if fn := c.need(r, rule, "(*pkg/protocol/recordlayer.RecordLayer).Unmarshal"); fn != nil {
		for _, g := range c.unitFuncs(fn) {
			for _, b := range g.Blocks {
				for _, in := range b.Instrs {
					if al, ok := in.(*ssa.Alloc); ok {
						got[namedOf(al.Type())] = true
					}
				}
			}
		}
	}
	var ws []string
	for n := range want {
		ws = append(ws, n)
	}
	sort.Strings(ws)
	for _, n := range ws {
		r.Check(got[n], rule, "content:"+n, "", "constructed by RecordLayer.Unmarshal", "record content type "+n+" implements Content but RecordLayer.Unmarshal never constructs it")
	}
	r.Floor(rule+":content", len(ws), 5)
}

// ruleFieldSymmetry (C18): for every codec type the fields written by Unmarshal are the fields
// read by Marshal.
func ruleFieldSymmetry(c *Ctx, r *Report) {
	const rule = "field-symmetry"
	type pair struct{ m, u *ssa.Function }
	pairs := map[string]*pair{}
	for _, fn := range c.Fns {
		k := short(fn)
		if !strings.Contains(k, "pkg/protocol") || fn.Signature.Recv() == nil {
			continue
		}
		tn := namedOf(fn.Signature.Recv().Type())
		if tn == "" {
			continue
		}
		switch fn.Name() {
		case "Marshal", "MarshalData":
			if pairs[tn] == nil {
				pairs[tn] = &pair{}
			}
			pairs[tn].m = fn
		case "Unmarshal", "UnmarshalData":
			if pairs[tn] == nil {
				pairs[tn] = &pair{}
			}
			pairs[tn].u = fn
		}
	}
	var tns []string
	for t := range pairs {
		tns = append(tns, t)
	}
	sort.Strings(tns)
	n := 0
	for _, tn := range tns {
		p := pairs[tn]
		if p.m == nil || p.u == nil {
			continue
		}
		read := fieldsTouched(c, p.m, tn, false, 0, map[*ssa.Function]bool{})
		written := fieldsTouched(c, p.u, tn, true, 0, map[*ssa.Function]bool{})
		if len(read) == 0 && len(written) == 0 {
			continue
		}
		n++
		r.Sites++
		var onlyR, onlyW []string
		for f := range read {
			if !written[f] {
				onlyR = append(onlyR, f)
			}
		}
		for f := range written {
			if !read[f] {
				onlyW = append(onlyW, f)
			}
		}
		sort.Strings(onlyR)
		sort.Strings(onlyW)
		key := tn
		// decode-context fields (set by the caller, not on the wire) and derived header fields
		exempt := map[string]bool{"KeyExchangeAlgorithm": true}
		var badR, badW []string
		for _, f := range onlyR {
			if !exempt[f] {
				badR = append(badR, f)
			}
		}
		for _, f := range onlyW {
			if !exempt[f] {
				badW = append(badW, f)
			}
		}
		if rs, ok := otherReviewed(c, rule, tn, strings.Join(badR, ",")+"|"+strings.Join(badW, ",")); ok && (len(badR) > 0 || len(badW) > 0) {
			r.OKTrivial(rule, key, c.pos(p.m.Pos()), "reviewed: "+rs)
			continue
		}
		r.Check(len(badR) == 0 && len(badW) == 0, rule, key, c.pos(p.m.Pos()), "Marshal reads exactly the fields Unmarshal writes", fmt.Sprintf("encoder and decoder disagree on the field set: encoded but never decoded %v, decoded but never encoded %v", badR, badW))
	}
	r.Floor(rule, n, 20)
}

// fieldsTouched: fields of type tn read (or written) through the receiver in fn and its same-package helpers.
func fieldsTouched(c *Ctx, fn *ssa.Function, tn string, write bool, d int, seen map[*ssa.Function]bool) map[string]bool {
	out := map[string]bool{}
	if fn == nil || fn.Blocks == nil || seen[fn] || d > 3 {
		return out
	}
	seen[fn] = true
	for _, a := range fn.AnonFuncs {
		for f := range fieldsTouched(c, a, tn, write, d+1, seen) {
			out[f] = true
		}
	}
	for _, b := range fn.Blocks {
		for _, in := range b.Instrs {
			switch x := in.(type) {
			case *ssa.FieldAddr:
				o, f, _, ok := fieldOfAddr(x)
				if !ok || o != tn {
					continue
				}
				for _, ref := range *x.Referrers() {
					switch y := ref.(type) {
					case *ssa.Store:
						if y.Addr == x && write {
							out[f] = true
						}
					case *ssa.UnOp:
						if !write {
							out[f] = true
						}
					case *ssa.FieldAddr, *ssa.IndexAddr, *ssa.Call, *ssa.Slice:
						// nested access / passed by address: counts for both directions of its own kind
						out[f] = true
					}
				}
			case *ssa.Field:
				if o, f, _, ok := fieldLoad(x); ok && o == tn && !write {
					out[f] = true
				}
			case *ssa.Call:
				callee := x.Call.StaticCallee()
				if callee != nil && inModule(callee) && callee.Pkg == fn.Pkg && callee != fn {
					for f := range fieldsTouched(c, callee, tn, write, d+1, seen) {
						out[f] = true
					}
				}
			}
		}
	}
	return out
}

// ruleDeclaredLengthLoops (C18, "lengths declared inside a message are honoured"): a decoder
// loop that consumes a buffer to its end must run over exactly the bytes a declared length
// covers. For every loop of a decoder that (a) shrinks a []byte it carries (`data = data[n:]`
// until empty) or (b) advances an offset to the end of a buffer, and that is preceded by the
// read of a length field, the number of bytes the loop will consume on entry must be provably
// equal to one of the length fields read before the loop. Otherwise a vector whose declared
// length is shorter than what follows is silently extended over the following bytes.
func ruleDeclaredLengthLoops(c *Ctx, r *Report) {
	const rule = "declared-length-loop"
	c.boundsInit()
	n := 0
	for _, fn := range c.Fns {
		if !isDecoderFn(fn) {
			continue
		}
		decl := declaredLengths(fn)
		if len(decl) == 0 {
			continue
		}
		a := getAn(fn)
		for li, l := range naturalLoops(fn) {
			var remaining lin
			what := ""
			var entry *ssa.BasicBlock
			for _, in := range l.header.Instrs {
				phi, ok := in.(*ssa.Phi)
				if !ok {
					break
				}
				// (a) a carried []byte that is re-sliced from itself on the back edge
				if isByteSlice(phi.Type()) {
					consumed := false
					var init ssa.Value
					for i, p := range l.header.Preds {
						if l.blocks[p] {
							if slicedFrom(phi.Edges[i], phi, 0) {
								consumed = true
							}
						} else {
							init, entry = phi.Edges[i], p
						}
					}
					if consumed && init != nil && loopRunsToEmpty(l, phi) {
						remaining = a.lenOf(init, 0)
						what = "remaining input " + shapeOf(init, 0)
					}
				}
			}
			if what == "" {
				// (b) an offset advanced to the end of a loop-invariant buffer
				for _, b := range []*ssa.BasicBlock{l.header} {
					iff, ok := b.Instrs[len(b.Instrs)-1].(*ssa.If)
					if !ok {
						continue
					}
					bo, ok := iff.Cond.(*ssa.BinOp)
					if !ok {
						continue
					}
					for _, pr := range [][2]ssa.Value{{bo.X, bo.Y}, {bo.Y, bo.X}} {
						pv := stripConv(pr[0])
						if b2, isB := pv.(*ssa.BinOp); isB && b2.Op == token.ADD {
							// `offset+1 < len(data)`: a look-ahead on the same offset
							if _, isC := constInt(b2.Y); isC {
								pv = stripConv(b2.X)
							}
						}
						phi, isPhi := pv.(*ssa.Phi)
						call, isLen := pr[1].(*ssa.Call)
						if !isPhi || !isLen || phi.Block() != l.header || calleeName(&call.Call) != "builtin:len" || !isByteSlice(call.Call.Args[0].Type()) || !l.invariant(call.Call.Args[0], 0) {
							continue
						}
						// the test must be the loop's normal exit: leaving through it can end in success
						exitOK := false
						for _, su := range b.Succs {
							if !l.blocks[su] && reachesSuccessReturn(su) {
								exitOK = true
							}
						}
						if !exitOK {
							continue
						}
						for i, p := range l.header.Preds {
							if k, isC := constInt(phi.Edges[i]); isC && k < 0 {
								continue // a range loop's index (starts at -1): handled as case (c)
							}
							if !l.blocks[p] {
								remaining = a.lenOf(call.Call.Args[0], 0).add(a.linOf(phi.Edges[i], 0), -1)
								what = "len(" + shapeOf(call.Call.Args[0], 0) + ") - start offset"
								entry = p
							}
						}
					}
				}
			}
			if what == "" {
				// (c) `for ... := range tail` over an open-ended tail slice data[k:]
				if iff, ok := l.header.Instrs[len(l.header.Instrs)-1].(*ssa.If); ok {
					if bo, ok := iff.Cond.(*ssa.BinOp); ok && bo.Op == token.LSS {
						if call, isLen := bo.Y.(*ssa.Call); isLen && calleeName(&call.Call) == "builtin:len" {
							if sl, isSl := call.Call.Args[0].(*ssa.Slice); isSl && sl.High == nil && isByteSlice(sl.Type()) && !l.blocks[sl.Block()] {
								for _, p := range l.header.Preds {
									if !l.blocks[p] {
										remaining = a.lenOf(sl, 0)
										what = "range over the tail " + shapeOf(sl, 0)
										entry = p
									}
								}
							}
						}
					}
				}
			}
			if what == "" || !remaining.ok || entry == nil {
				continue
			}
			// length fields read before the loop
			var cands []ssa.Value
			for _, d := range decl {
				if in, ok := d.(ssa.Instruction); ok && in.Block() != l.header && in.Block().Dominates(l.header) && !l.blocks[in.Block()] {
					cands = append(cands, d)
				}
			}
			if len(cands) == 0 {
				continue
			}
			n++
			r.Sites++
			facts := append([]cons{}, a.blockFacts(entry)...)
			if iff, ok := entry.Instrs[len(entry.Instrs)-1].(*ssa.If); ok && entry.Succs[0] != entry.Succs[1] {
				facts = append(facts, a.condFacts(iff.Cond, entry.Succs[0] == l.header)...)
			}
			exact := ""
			for _, d := range cands {
				dl := a.linOf(d, 0)
				if a.prove(facts, remaining.add(dl, -1), 0) && a.prove(facts, dl.add(remaining, -1), 0) {
					exact = shapeOf(d, 0)
					break
				}
			}
			key := fmt.Sprintf("%s:loop%d", short(fn), li+1)
			pos := c.ipos(l.header.Instrs[len(l.header.Instrs)-1])
			if exact != "" {
				r.OK(rule, key, pos, "the loop consumes exactly the declared length "+exact+" ("+what+")")
				continue
			}
			if rs, ok := otherReviewed(c, rule, short(fn), fmt.Sprint(li+1)); ok {
				r.OKTrivial(rule, key, pos, "reviewed: "+rs)
				continue
			}
			r.Bad(rule, key, pos, "a decoder loop runs to the end of its buffer although a length field was read before it and the bytes it will consume ("+what+") are not established to equal any such field: a vector with a shorter declared length is extended over the bytes that follow it")
		}
	}
	r.Floor(rule, n, 5)
}

// slicedFrom: v is obtained from root only by re-slicing.
func slicedFrom(v, root ssa.Value, d int) bool {
	if d > 6 {
		return false
	}
	if v == root {
		return d > 0
	}
	switch x := v.(type) {
	case *ssa.Slice:
		return x.X == root || slicedFrom(x.X, root, d+1)
	case *ssa.Phi:
		if x == root {
			return d > 0
		}
		all := len(x.Edges) > 0
		any := false
		for _, e := range x.Edges {
			if e == ssa.Value(x) {
				continue
			}
			if e == root {
				continue
			}
			if slicedFrom(e, root, d+1) {
				any = true
			} else {
				all = false
			}
		}
		return all && any
	}
	return false
}

// loopRunsToEmpty: the loop is left (normally) when len(phi) reaches zero.
func loopRunsToEmpty(l *natLoop, phi *ssa.Phi) bool {
	iff, ok := l.header.Instrs[len(l.header.Instrs)-1].(*ssa.If)
	if !ok {
		return false
	}
	bo, ok := iff.Cond.(*ssa.BinOp)
	if !ok {
		return false
	}
	for _, pr := range [][2]ssa.Value{{bo.X, bo.Y}, {bo.Y, bo.X}} {
		call, isLen := pr[0].(*ssa.Call)
		k, isC := constInt(pr[1])
		if isLen && isC && k == 0 && calleeName(&call.Call) == "builtin:len" && call.Call.Args[0] == ssa.Value(phi) {
			return true
		}
	}
	return false
}

// reachesSuccessReturn: some return with a nil error (or a function without error result) is
// reachable from b.
func reachesSuccessReturn(b *ssa.BasicBlock) bool {
	for blk := range reachableFrom(b) {
		ret, ok := blk.Instrs[len(blk.Instrs)-1].(*ssa.Return)
		if !ok {
			continue
		}
		n := len(ret.Results)
		if n == 0 || !isErrorType(ret.Results[n-1].Type()) || isNilConst(unspill(ret.Results[n-1])) {
			return true
		}
	}
	return false
}

// ruleHandshakeWholeMessage (C18): Handshake.Unmarshal decodes a body only when it is a whole
// message: the bytes after the 12-byte header are exactly the declared message length, and the
// fragment length equals the message length. (Fragments reach this codec only after reassembly;
// accepting fragment_length < length would decode a truncated message as complete.)
func ruleHandshakeWholeMessage(c *Ctx, r *Report) {
	const rule = "handshake-whole-message"
	fn := c.need(r, rule, "(*pkg/protocol/handshake.Handshake).Unmarshal")
	if fn == nil {
		return
	}
	r.Sites += len(fn.Blocks)
	var body *ssa.Call
	for _, b := range fn.Blocks {
		for _, in := range b.Instrs {
			if call, ok := in.(*ssa.Call); ok && call.Call.IsInvoke() && call.Call.Method.Name() == "Unmarshal" {
				body = call
			}
		}
	}
	if body == nil {
		r.Unk(rule, short(fn), c.pos(fn.Pos()), "the body decode call was not found")
		return
	}
	const tHdr = "pkg/protocol/handshake.Header"
	strip := func(v ssa.Value) ssa.Value { return stripConv(v) }
	isMsgLen := func(v ssa.Value) bool {
		v = strip(v)
		if isFieldLoad(v, tHdr, "Length") {
			return true
		}
		if call, ok := v.(*ssa.Call); ok && strings.HasSuffix(calleeName(&call.Call), "util.BigEndianUint24") {
			// the 24-bit length field sits at bytes 1..3 of the header
			if sl, ok := call.Call.Args[0].(*ssa.Slice); ok && sl.Low != nil {
				if k, isC := constInt(sl.Low); isC && k == 1 {
					if _, isP := sl.X.(*ssa.Parameter); isP {
						return true
					}
				}
			}
		}
		return false
	}
	isFragLen := func(v ssa.Value) bool { return isFieldLoad(strip(v), tHdr, "FragmentLength") }
	isBodyLen := func(v ssa.Value) bool {
		bo, ok := strip(v).(*ssa.BinOp)
		if !ok || bo.Op != token.SUB {
			return false
		}
		k, isC := constInt(bo.Y)
		call, isLen := bo.X.(*ssa.Call)
		if !isC || k != 12 || !isLen || calleeName(&call.Call) != "builtin:len" {
			return false
		}
		_, isP := call.Call.Args[0].(*ssa.Parameter)
		return isP
	}
	guards := func(bo *ssa.BinOp) bool {
		mismatch := vBool(bo.Op == token.NEQ)
		w := (&Walk{Fn: fn, Assume: func(v ssa.Value) (Val, bool) {
			if v == ssa.Value(bo) {
				return mismatch, true
			}
			return unknown, false
		}}).FromEntry()
		return !w.Reached[body]
	}
	okBody, okFrag := false, false
	for _, b := range fn.Blocks {
		for _, in := range b.Instrs {
			bo, ok := in.(*ssa.BinOp)
			if !ok || (bo.Op != token.EQL && bo.Op != token.NEQ) {
				continue
			}
			for _, pr := range [][2]ssa.Value{{bo.X, bo.Y}, {bo.Y, bo.X}} {
				if isBodyLen(pr[0]) && isMsgLen(pr[1]) && guards(bo) {
					okBody = true
				}
				if isMsgLen(pr[0]) && isFragLen(pr[1]) && guards(bo) {
					okFrag = true
				}
			}
		}
	}
	r.Check(okBody, rule, short(fn)+":body-is-length", c.ipos(body), "the body is decoded only if len(data)-12 equals the declared message length", "the handshake body is decoded without its size being compared with the declared message length (header bytes 1..3): truncated input is accepted as a complete message")
	r.Check(okFrag, rule, short(fn)+":unfragmented", c.ipos(body), "the body is decoded only if fragment_length equals length", "the handshake body is decoded although fragment_length may differ from length: a fragment is decoded as if it were the whole message")
}

// ruleUnifiedHeaderSize (C18, datagram partition for DTLS 1.3): the wire size of a unified header
// is computed from the connection ID of the header that was actually parsed from those bytes,
// never from a configured length: a record without the C bit has no connection ID on the wire
// whatever the local configuration says.
func ruleUnifiedHeaderSize(c *Ctx, r *Report) {
	const rule = "unified-header-size"
	n := 0
	for _, s := range c.CallsToName("pkg/protocol/recordlayer.unifiedHeaderWireSize") {
		call, ok := s.Call.(*ssa.Call)
		if !ok || len(call.Call.Args) != 2 {
			continue
		}
		n++
		r.Sites++
		good := false
		if ln, isCall := call.Call.Args[1].(*ssa.Call); isCall && calleeName(&ln.Call) == "builtin:len" {
			good = isFieldLoad(ln.Call.Args[0], "pkg/protocol/recordlayer.UnifiedHeader", "ConnectionID")
		}
		r.Check(good, rule, short(s.Fn), c.ipos(call), "header size from len(parsed header.ConnectionID)", "the unified header's wire size is computed from something other than the connection ID of the parsed header ("+shapeOf(call.Call.Args[1], 0)+"): records without a connection ID on the wire are cut at the wrong place")
	}
	r.Floor(rule, n, 2)
}

// ruleLengthNarrowing (C18): where an encoder narrows an integer to the 8- or 16-bit width of a
// wire length field, and the function itself checks that quantity against a bound (a stated
// belief that it fits), the checks in force must actually imply that the narrowing is lossless:
// 0 <= x <= max of the field, proved by the linear-inequality engine with loop invariants. A check
// that bounds the wrong sum lets a length wrap, and the decoder rejects (or mis-frames) what the
// encoder produced. A narrowing of a quantity the function never compares with anything must be
// listed in spec/reviewed_narrowings.json with the place its bound comes from (an earlier loop over
// the same elements, a helper, the only caller, a deliberate truncation); otherwise the encoder
// frames a wrapped length and reports success.
var lenOfFieldRe = regexp.MustCompile(`len\(p0\.(\w+)\)\)*$`)

// byteOfDecomposition: the conversion takes one byte out of a wider integer that the function
// writes out byte by byte: byte(v >> 8k), or byte(v) next to such shifts of the same v.
func byteOfDecomposition(in ssa.Instruction) bool {
	cv, ok := in.(*ssa.Convert)
	if !ok {
		return false
	}
	if bits, _, okI := isIntLike(cv.Type()); !okI || bits != 8 {
		return false
	}
	shiftOf := func(v ssa.Value) (ssa.Value, bool) {
		sh, ok := v.(*ssa.BinOp)
		if !ok || sh.Op != token.SHR {
			return nil, false
		}
		k, isK := constInt(sh.Y)
		return sh.X, isK && k > 0 && k%8 == 0
	}
	if _, ok := shiftOf(cv.X); ok {
		return true
	}
	// the low byte: the same value is also shifted out in this function
	for _, b := range in.Parent().Blocks {
		for _, other := range b.Instrs {
			if o, ok := other.(*ssa.Convert); ok && o != cv {
				if src, ok := shiftOf(o.X); ok && src == cv.X {
					return true
				}
			}
		}
	}
	return false
}

// callersBoundLen: at every call site of fn (closed world) the first argument is a slice whose
// length the caller has compared with a constant no larger than bound, the call being unreachable
// when the length exceeds that constant. Returns what is missing, or "".
func (c *Ctx) callersBoundLen(fn *ssa.Function, bound int64) string {
	sites, closed := c.staticCallers(fn)
	if !closed && !token.IsExported(fn.Name()) {
		return "its callers are not all known"
	}
	if len(sites) == 0 {
		sites = c.CallsToName(short(fn))
	}
	for _, s := range sites {
		call, ok := s.Call.(*ssa.Call)
		if !ok || len(call.Call.Args) == 0 || !inModule(s.Fn) {
			continue
		}
		arg := call.Call.Args[0]
		// a literal of fixed length
		if sl, isSl := arg.(*ssa.Slice); isSl {
			if al, isAl := sl.X.(*ssa.Alloc); isAl {
				if ln, okL := fixedLen(al); okL && ln <= bound {
					continue
				}
			}
		}
		same := func(v ssa.Value) bool {
			if v == arg {
				return true
			}
			o1, f1, b1, ok1 := fieldLoad(v)
			o2, f2, b2, ok2 := fieldLoad(arg)
			return ok1 && ok2 && o1 == o2 && f1 == f2 && sameValue(b1, b2)
		}
		matched := 0
		w := &Walk{Fn: s.Fn, Assume: func(v ssa.Value) (Val, bool) {
			bo, okB := v.(*ssa.BinOp)
			if !okB {
				return unknown, false
			}
			isLen := func(x ssa.Value) bool {
				cl, okC := stripConv(x).(*ssa.Call)
				return okC && calleeName(&cl.Call) == "builtin:len" && same(cl.Call.Args[0])
			}
			if isLen(bo.X) {
				if k, isK := constInt(bo.Y); isK && k <= bound {
					switch bo.Op { // the length exceeds k
					case token.GTR, token.GEQ, token.NEQ:
						matched++
						return vBool(true), true
					case token.LSS, token.LEQ, token.EQL:
						matched++
						return vBool(false), true
					}
				}
			}
			return unknown, false
		}}
		w.FromEntry()
		if matched == 0 || w.Reached[call] {
			return short(s.Fn) + " calls it (" + c.ipos(call) + ") without having refused a list longer than " + fmt.Sprint(bound)
		}
	}
	return ""
}

// elementLenBounded: the narrowing is uintN(len(list[i])) where list is a slice of byte slices
// made locally - in this function, or in a module helper that returns it - and every element ever
// stored into it is stored at a place that is unreachable once the length of that element exceeds
// a constant that fits N bits. Returns the constant and the builder's name.
func (c *Ctx) elementLenBounded(in ssa.Instruction) (int64, string) {
	cv, ok := in.(*ssa.Convert)
	if !ok {
		return 0, ""
	}
	bits, _, okI := isIntLike(cv.Type())
	if !okI || bits >= 63 {
		return 0, ""
	}
	max := int64(1)<<uint(bits) - 1
	ln, ok := stripConv(cv.X).(*ssa.Call)
	if !ok || calleeName(&ln.Call) != "builtin:len" {
		return 0, ""
	}
	ld, ok := ln.Call.Args[0].(*ssa.UnOp)
	if !ok || ld.Op != token.MUL {
		return 0, ""
	}
	ia, ok := ld.X.(*ssa.IndexAddr)
	if !ok {
		return 0, ""
	}
	bound, where := c.listElemBound(ia.X, max, 0)
	if where == "" || bound > max {
		return 0, ""
	}
	return bound, where
}

func (c *Ctx) listElemBound(list ssa.Value, max int64, d int) (int64, string) {
	switch x := unspill(list).(type) {
	case *ssa.Extract:
		call, ok := x.Tuple.(*ssa.Call)
		if !ok || d > 1 {
			return 0, ""
		}
		g := call.Call.StaticCallee()
		if g == nil || len(g.Blocks) == 0 || !inModule(g) {
			return 0, ""
		}
		// the receiving function only reads the list
		for _, ref := range *x.Referrers() {
			switch y := ref.(type) {
			case *ssa.IndexAddr:
				for _, r2 := range *y.Referrers() {
					switch r2.(type) {
					case *ssa.UnOp, *ssa.DebugRef:
					default:
						return 0, ""
					}
				}
			case *ssa.DebugRef, *ssa.Range:
			case *ssa.Call:
				if calleeName(&y.Call) != "builtin:len" {
					return 0, ""
				}
			default:
				return 0, ""
			}
		}
		var retv ssa.Value
		for _, b := range g.Blocks {
			ret, isRet := b.Instrs[len(b.Instrs)-1].(*ssa.Return)
			if !isRet || b == g.Recover || x.Index >= len(ret.Results) {
				continue
			}
			rv := unspill(ret.Results[x.Index])
			if isNilConst(rv) {
				continue
			}
			if retv != nil && retv != rv {
				return 0, ""
			}
			retv = rv
		}
		if retv == nil {
			return 0, ""
		}
		return c.listElemBound(retv, max, d+1)
	case *ssa.MakeSlice:
		fn := x.Parent()
		worst := int64(-1)
		for _, ref := range *x.Referrers() {
			switch y := ref.(type) {
			case *ssa.IndexAddr:
				for _, r2 := range *y.Referrers() {
					switch z := r2.(type) {
					case *ssa.Store:
						if z.Addr != ssa.Value(y) {
							return 0, ""
						}
						k, ok := storeGuardedByLen(fn, z)
						if !ok {
							// or the comparisons in force at the store imply it (a bound on a sum
							// that the length is part of, say)
							a := getAn(fn)
							facts := append([]cons{}, a.blockFacts(z.Block())...)
							facts = append(facts, a.inv...)
							l := a.lenOf(z.Val, 0)
							if !l.ok || !a.prove(facts, konst(max).add(l, -1), 0) {
								return 0, ""
							}
							k = max
						}
						if k > worst {
							worst = k
						}
					case *ssa.UnOp, *ssa.DebugRef:
					default:
						return 0, ""
					}
				}
			case *ssa.Return, *ssa.DebugRef, *ssa.Range:
			case *ssa.Call:
				if calleeName(&y.Call) != "builtin:len" {
					return 0, ""
				}
			default:
				return 0, ""
			}
		}
		if worst < 0 {
			return 0, ""
		}
		return worst, short(fn)
	}
	return 0, ""
}

// storeGuardedByLen: the store of a byte slice is unreachable once len(value) exceeds a constant
// the function compares it with; returns the largest length that still reaches the store.
func storeGuardedByLen(fn *ssa.Function, st *ssa.Store) (int64, bool) {
	val := st.Val
	limit := int64(-1)
	w := &Walk{Fn: fn, Assume: func(v ssa.Value) (Val, bool) {
		bo, okB := v.(*ssa.BinOp)
		if !okB {
			return unknown, false
		}
		isLen := func(x ssa.Value) bool {
			cl, okC := stripConv(x).(*ssa.Call)
			return okC && calleeName(&cl.Call) == "builtin:len" && cl.Call.Args[0] == val
		}
		if isLen(bo.X) {
			if k, isK := constInt(bo.Y); isK && k >= 0 {
				up := func(x int64) {
					if x > limit {
						limit = x
					}
				}
				switch bo.Op { // the length exceeds every limit it is compared with
				case token.GTR:
					up(k)
					return vBool(true), true
				case token.GEQ:
					up(k - 1)
					return vBool(true), true
				case token.LEQ:
					up(k)
					return vBool(false), true
				case token.LSS:
					up(k - 1)
					return vBool(false), true
				}
			}
		}
		return unknown, false
	}}
	w.FromEntry()
	if limit < 0 || w.Reached[st] || w.overflow {
		return 0, false
	}
	return limit, true
}

func ruleLengthNarrowing(c *Ctx, r *Report) {
	const rule = "length-narrowing"
	c.boundsInit()
	narrowMode = true
	defer func() { narrowMode = false }()
	n, related, unrel := 0, 0, 0
	var uncheckedList []string
	type unboundedSite struct{ fieldKey, key, pos string }
	var unboundedSites []unboundedSite
	boundedSibling := map[string]string{}
	wasProved := map[string]bool{}
	if b, err := os.ReadFile(filepath.Join(c.VerifDir, "spec", "narrowing_baseline.json")); err == nil {
		var t struct {
			Proved []string `json:"proved"`
		}
		if json.Unmarshal(b, &t) == nil {
			for _, k := range t.Proved {
				wasProved[k] = true
			}
		}
	}
	if len(wasProved) == 0 {
		r.Unk(rule, "baseline", "", "spec/narrowing_baseline.json missing or empty")
	}
	reviewedNarrow := map[string]string{}
	callerBound := map[string]int64{}
	usedReviewed := map[string]bool{}
	if b, err := os.ReadFile(filepath.Join(c.VerifDir, "spec", "reviewed_narrowings.json")); err == nil {
		var t struct {
			Sites []struct {
				Key         string `json:"key"`
				Reason      string `json:"reason"`
				CallerBound int64  `json:"caller_bound"`
			} `json:"sites"`
		}
		if json.Unmarshal(b, &t) == nil {
			for _, e := range t.Sites {
				reviewedNarrow[e.Key] = e.Reason
				if e.CallerBound > 0 {
					callerBound[e.Key] = e.CallerBound
				}
			}
		}
	}
	for _, fn := range c.Fns {
		if fn.Pkg == nil || len(fn.Blocks) == 0 {
			continue
		}
		pp := fn.Pkg.Pkg.Path()
		if !strings.Contains(pp, "/pkg/protocol") {
			continue
		}
		for _, s := range boundsAnalyse(fn, c.Fset) {
			n++
			r.Sites++
			key := fmt.Sprintf("%s|%s|%s", short(fn), s.what, normSiteShape(s.ins))
			fieldKey := ""
			if m := lenOfFieldRe.FindStringSubmatch(normSiteShape(s.ins)); m != nil {
				fieldKey = s.what + " of len(." + m[1] + ")"
			}
			if s.ok {
				r.OK(rule, key, c.ipos(s.ins), "narrowing proved lossless")
				if fieldKey != "" && boundedSibling[fieldKey] == "" {
					boundedSibling[fieldKey] = short(fn)
				}
				continue
			}
			if len(s.relFacts) > 0 {
				related++
				r.Bad(rule, key, c.ipos(s.ins), fmt.Sprintf("the function bounds this quantity (%s) but the checks in force do not imply that it fits the %s-bit length field it is narrowed to: a length can wrap on the wire", strings.Join(s.relFacts, "; "), strings.TrimPrefix(s.what, "narrow")))
				continue
			}
			if wasProved[key] {
				r.Bad(rule, key, c.ipos(s.ins), "this narrowing was proved lossless on the reviewed tree and no longer is: the bound that made the length fit its wire field is gone or weaker")
				continue
			}
			unrel++
			uncheckedList = append(uncheckedList, key+" @ "+c.ipos(s.ins))
			if fieldKey != "" {
				unboundedSites = append(unboundedSites, unboundedSite{fieldKey, key, c.ipos(s.ins)})
			}
			// a length the function narrows without any check of its own: either the reviewed
			// table says where the bound comes from (an earlier loop over the same elements, a
			// helper, the caller, a deliberate truncation), or the encoder frames a wrapped length
			if byteOfDecomposition(s.ins) {
				r.OKTrivial(rule, key, c.ipos(s.ins), "one byte of a big-endian decomposition (value >> 8k), not a length")
				continue
			}
			if bound, where := c.elementLenBounded(s.ins); where != "" {
				r.OK(rule, key, c.ipos(s.ins), fmt.Sprintf("element of a list built in %s, which stores an element only after refusing one longer than %d", where, bound))
				continue
			}
			if why, ok := reviewedNarrow[key]; ok {
				usedReviewed[key] = true
				// "the caller bounds it": then every call site must be unreachable once the length
				// of the argument exceeds the stated bound
				if bound, has := callerBound[key]; has {
					if miss := c.callersBoundLen(fn, bound); miss != "" {
						r.Bad(rule, key, c.ipos(s.ins), "the reviewed judgement rests on the callers bounding the length ("+why+"), but "+miss)
						continue
					}
				}
				r.OKTrivial(rule, key, c.ipos(s.ins), "reviewed: "+why)
			} else {
				r.Bad(rule, key, c.ipos(s.ins), fmt.Sprintf("the encoder narrows a length to the %s-bit field of its encoding without anything that bounds it: a value that does not fit is framed with a wrapped length, the encoder reports success, and the decoder refuses - or mis-splits - what it produced (the encoded value does not decode to itself)", strings.TrimPrefix(s.what, "narrow")))
			}
		}
	}
	// siblings agree: where one encoder bounds len(.F) before narrowing it to a wire field of some
	// width, an encoder of another message that narrows a field of the same name to the same width
	// without any bound is the odd one out
	for _, u := range unboundedSites {
		if sib := boundedSibling[u.fieldKey]; sib != "" {
			r.Bad(rule, u.key+":sibling", u.pos, "the "+u.fieldKey+" is written unbounded here while the sibling encoder "+sib+" refuses a value that does not fit: an oversized field is framed with a wrapped length and the encoder's own output is refused (or mis-split) by the decoder")
		}
	}
	sort.Strings(uncheckedList)
	r.Extra["unchecked_narrowings"] = uncheckedList
	r.Extra["reviewed_narrowings_used"] = len(usedReviewed)
	r.Floor(rule, n, 20)
	_ = related
}

// ruleCanonicalHelloReturned (C18): a hello message supplied by a user hook is re-encoded and
// decoded into a fresh value, and that decoded value - never the hook's own object - is what the
// handshake continues with: what is sent, hashed and negotiated over is then a fixed point of
// decode/encode and shares no memory with the hook. Every function that canonicalises returns, on
// success, exactly the fresh target it handed to the canonicaliser.
func ruleCanonicalHelloReturned(c *Ctx, r *Report) {
	const rule = "canonical-hello-returned"
	n := 0
	// the canonicaliser is recognised by what it does, not by its name: a function of the package
	// with two message parameters that decodes into the second what the first encodes to
	type canon struct{ src, dst int }
	canons := map[*ssa.Function]canon{}
	for _, f := range c.fnsOfPkg("internal/negotiation") {
		if f.Parent() != nil || len(f.Blocks) == 0 {
			continue
		}
		for si, sp := range f.Params {
			for di, dp := range f.Params {
				if si == di {
					continue
				}
				var enc ssa.Value
				for _, b := range f.Blocks {
					for _, in := range b.Instrs {
						call, ok := in.(*ssa.Call)
						if !ok || !call.Call.IsInvoke() {
							continue
						}
						if call.Call.Method.Name() == "Marshal" && call.Call.Value == ssa.Value(sp) {
							enc = call
						}
					}
				}
				if enc == nil {
					continue
				}
				for _, b := range f.Blocks {
					for _, in := range b.Instrs {
						call, ok := in.(*ssa.Call)
						if !ok || !call.Call.IsInvoke() || call.Call.Method.Name() != "Unmarshal" || call.Call.Value != ssa.Value(dp) || len(call.Call.Args) != 1 {
							continue
						}
						if anyLeaf(c.Origins(call.Call.Args[0], 0), func(l ssa.Value) bool { cl, _ := callOfResult(l); return cl != nil && ssa.Value(cl) == enc }) {
							canons[f] = canon{si, di}
						}
					}
				}
			}
		}
	}
	for _, s := range c.CallsTo(func(string) bool { return true }) {
		call, ok := s.Call.(*ssa.Call)
		if !ok || call.Call.StaticCallee() == nil {
			continue
		}
		cn, isCanon := canons[call.Call.StaticCallee()]
		if !isCanon || len(call.Call.Args) <= cn.src || len(call.Call.Args) <= cn.dst {
			continue
		}
		fn := s.Fn
		r.Sites += len(fn.Blocks)
		n++
		target := call.Call.Args[cn.dst]
		if mi, ok := target.(*ssa.MakeInterface); ok {
			target = mi.X
		}
		_, fresh := target.(*ssa.Alloc)
		src := call.Call.Args[cn.src]
		if mi, ok := src.(*ssa.MakeInterface); ok {
			src = mi.X
		}
		r.Check(fresh && target != src, rule, short(fn)+":fresh-target", c.ipos(call), "decoded into a fresh value", "the canonical copy is not decoded into a fresh value of its own")
		succ := possibleSuccessReturns(fn)
		good := len(succ) > 0
		where := c.ipos(call)
		for _, ri := range succ {
			ret := ri.(*ssa.Return)
			if !instrReaches(call, ret) {
				continue
			}
			v := unspill(ret.Results[0])
			if !allLeaves(c.Origins(v, 0), func(l ssa.Value) bool { return l == target }) {
				good = false
				where = c.ipos(ret)
			}
		}
		r.Check(good, rule, short(fn)+":returns-canonical", where, "the decoded canonical value is what is returned", short(fn)+" validates the hook's message by re-encoding and decoding it but returns something other than the decoded copy: the handshake continues with the hook's own object (not a decode/encode fixed point, aliasing the hook's memory)")
	}
	r.Floor(rule, n, 2)
}

// ruleNilableLookupChecked (C19, C08): a module function that signals "not found" by returning a
// nil interface or pointer (and has no error result to carry it) is a lookup whose result must be
// compared with nil before it is used as a receiver or dereferenced: the identifier looked up comes
// from serialised state or from the wire.
func ruleNilableLookupChecked(c *Ctx, r *Report) {
	const rule = "nilable-lookup-checked"
	nilable := map[*ssa.Function]bool{}
	for _, fn := range c.Fns {
		if len(fn.Blocks) == 0 || fn.Parent() != nil || !inModule(fn) {
			continue
		}
		res := fn.Signature.Results()
		if res.Len() != 1 {
			continue
		}
		switch res.At(0).Type().Underlying().(type) {
		case *types.Interface, *types.Pointer:
		default:
			continue
		}
		if isErrorType(res.At(0).Type()) {
			continue
		}
		hasNil, hasVal := false, false
		for _, b := range fn.Blocks {
			if ret, ok := b.Instrs[len(b.Instrs)-1].(*ssa.Return); ok && len(ret.Results) == 1 {
				if isNilConst(unspill(ret.Results[0])) {
					hasNil = true
				} else {
					hasVal = true
				}
			}
		}
		if hasNil && hasVal {
			nilable[fn] = true
		}
	}
	n := 0
	for _, fn := range c.Fns {
		if len(fn.Blocks) == 0 || !inModule(fn) {
			continue
		}
		for _, b := range fn.Blocks {
			for _, in := range b.Instrs {
				call, ok := in.(*ssa.Call)
				if !ok || call.Call.StaticCallee() == nil || !nilable[call.Call.StaticCallee()] {
					continue
				}
				// uses of the result as a receiver / dereference
				for _, ref := range *call.Referrers() {
					use, isUse := ref.(ssa.Instruction)
					if !isUse {
						continue
					}
					deref := false
					switch u := ref.(type) {
					case *ssa.Call:
						deref = u.Call.IsInvoke() && u.Call.Value == ssa.Value(call)
						if !deref && u.Call.StaticCallee() != nil && u.Call.StaticCallee().Signature.Recv() != nil && len(u.Call.Args) > 0 && u.Call.Args[0] == ssa.Value(call) {
							if _, isPtr := call.Type().Underlying().(*types.Pointer); isPtr {
								deref = false // pointer-receiver methods may accept nil; not decided
							}
						}
					case *ssa.FieldAddr:
						deref = u.X == ssa.Value(call)
					case *ssa.UnOp:
						deref = u.Op == token.MUL && u.X == ssa.Value(call)
					}
					if !deref {
						continue
					}
					n++
					r.Sites++
					guarded := false
					for _, r2 := range *call.Referrers() {
						bo, ok := r2.(*ssa.BinOp)
						if !ok || (bo.Op != token.NEQ && bo.Op != token.EQL) || !(isNilConst(bo.X) || isNilConst(bo.Y)) {
							continue
						}
						for _, r3 := range *bo.Referrers() {
							iff, isIf := r3.(*ssa.If)
							if !isIf {
								continue
							}
							nonNil := iff.Block().Succs[0]
							if bo.Op == token.EQL {
								nonNil = iff.Block().Succs[1]
							}
							if len(nonNil.Preds) == 1 && (nonNil == use.Block() || nonNil.Dominates(use.Block())) {
								guarded = true
							}
						}
					}
					r.Check(guarded, rule, fmt.Sprintf("%s:%s", short(fn), short(call.Call.StaticCallee())), c.ipos(use), "result compared with nil before use", fmt.Sprintf("the result of %s (nil when the identifier is unknown) is used without a nil check: an unknown identifier in serialised state or on the wire panics", short(call.Call.StaticCallee())))
				}
			}
		}
	}
	r.Extra["nilable_lookup_functions"] = len(nilable)
	r.Floor(rule, n, 1)
}

// ruleDeclaredRegionReads (C18, "bytes beyond a declared length are never consumed"): a decoder
// loop whose continuation test holds a counter against a length decoded from the wire reads only
// inside the region that length covers. For every read of the decoded buffer in such a loop - a
// slice with both bounds, a big-endian read of an open-ended slice, an indexed byte - with the
// region starting at (low bound of the read - counter), the end of the read is proven not to lie
// behind (region start + declared bound) under the facts in force at the read. A loop that steps
// by k over a vector whose length is not a multiple of k otherwise assembles its last element
// from the bytes that follow the vector. A test that the bound is a multiple of the step, made
// before the loop, grants the k-1 bytes of slack the linear engine cannot derive.
func ruleDeclaredRegionReads(c *Ctx, r *Report) {
	const rule = "declared-region-reads"
	c.boundsInit()
	n := 0
	for _, fn := range c.Fns {
		if !isDecoderFn(fn) {
			continue
		}
		decl := declaredLengths(fn)
		if len(decl) == 0 {
			continue
		}
		isDecl := map[ssa.Value]bool{}
		for _, d := range decl {
			isDecl[d] = true
		}
		a := getAn(fn)
		for li, l := range naturalLoops(fn) {
			// the other way to stay inside: the region is cut out first, with its end taken from a
			// declared length, and the loop consumes that slice (a read cannot pass its length)
			for _, in := range l.header.Instrs {
				phi, isPhi := in.(*ssa.Phi)
				if !isPhi {
					break
				}
				if !isByteSlice(phi.Type()) {
					continue
				}
				for i, p := range l.header.Preds {
					if l.blocks[p] {
						continue
					}
					cut, isCut := phi.Edges[i].(*ssa.Slice)
					if !isCut || cut.High == nil {
						continue
					}
					fromDecl := false
					var scanHi func(v ssa.Value, d int)
					scanHi = func(v ssa.Value, d int) {
						if d > 6 {
							return
						}
						if isDecl[v] {
							fromDecl = true
						}
						switch x := v.(type) {
						case *ssa.BinOp:
							scanHi(x.X, d+1)
							scanHi(x.Y, d+1)
						case *ssa.Convert:
							scanHi(x.X, d+1)
						}
					}
					scanHi(cut.High, 0)
					consumed := false
					for j, q := range l.header.Preds {
						if l.blocks[q] && slicedFrom(phi.Edges[j], phi, 0) {
							consumed = true
						}
					}
					if fromDecl && consumed {
						n++
						r.OKTrivial(rule, fmt.Sprintf("%s:loop%d:region-cut", short(fn), li+1), c.ipos(cut), "the loop consumes a slice that ends where the declared length says: no read in it can pass that end")
					}
				}
			}
			iff, ok := l.header.Instrs[len(l.header.Instrs)-1].(*ssa.If)
			if !ok {
				continue
			}
			bo, ok := iff.Cond.(*ssa.BinOp)
			if !ok || (bo.Op != token.LSS && bo.Op != token.LEQ) || !l.blocks[l.header.Succs[0]] {
				continue
			}
			// counter: the header phi under the left side (phi or phi + const)
			pv := stripConv(bo.X)
			if b2, isB := pv.(*ssa.BinOp); isB && b2.Op == token.ADD {
				if _, isC := constInt(b2.Y); isC {
					pv = stripConv(b2.X)
				}
			}
			ctr, isPhi := pv.(*ssa.Phi)
			if !isPhi || ctr.Block() != l.header || !l.invariant(bo.Y, 0) {
				continue
			}
			// bound derives from a declared length and from no buffer length
			fromDecl, fromLen := false, false
			for _, leaf := range c.Origins(bo.Y, 0) {
				if isDecl[leaf] {
					fromDecl = true
				}
			}
			var scan func(v ssa.Value, d int)
			scan = func(v ssa.Value, d int) {
				if d > 6 {
					return
				}
				switch x := v.(type) {
				case *ssa.BinOp:
					scan(x.X, d+1)
					scan(x.Y, d+1)
				case *ssa.Convert:
					if isDecl[x] {
						fromDecl = true
					}
					scan(x.X, d+1)
				case *ssa.Call:
					if calleeName(&x.Call) == "builtin:len" {
						fromLen = true
					}
				}
			}
			scan(bo.Y, 0)
			if !fromDecl || fromLen {
				continue
			}
			bound := a.linOf(bo.Y, 0)
			ctrL := a.linOf(ctr, 0)
			if !bound.ok || !ctrL.ok {
				continue
			}
			// step and start of the counter; slack from a divisibility test
			slack := int64(0)
			var start ssa.Value
			step := int64(0)
			for i, p := range l.header.Preds {
				if !l.blocks[p] {
					start = ctr.Edges[i]
					continue
				}
				if inc, ok := stripConv(ctr.Edges[i]).(*ssa.BinOp); ok && inc.Op == token.ADD && stripConv(inc.X) == ssa.Value(ctr) {
					if k, isK := constInt(inc.Y); isK {
						step = k
					}
				}
			}
			if step > 1 && start != nil {
				span := bound.add(a.linOf(start, 0), -1)
				for _, b := range fn.Blocks {
					for _, in := range b.Instrs {
						rem, ok := in.(*ssa.BinOp)
						if !ok || rem.Op != token.REM || !b.Dominates(l.header) {
							continue
						}
						if k, isK := constInt(rem.Y); !isK || k != step {
							continue
						}
						x := a.linOf(rem.X, 0)
						facts := a.blockFacts(l.header)
						if x.ok && span.ok && a.prove(facts, x.add(span, -1), 0) && a.prove(facts, span.add(x, -1), 0) {
							// the remainder is compared with zero and the unequal branch does not reach the loop
							for _, ref := range *rem.Referrers() {
								cmp, ok := ref.(*ssa.BinOp)
								if !ok || (cmp.Op != token.NEQ && cmp.Op != token.EQL) {
									continue
								}
								if k0, isK := constInt(cmp.Y); isK && k0 == 0 {
									slack = step - 1
								}
							}
						}
					}
				}
			}
			// reads of byte buffers inside the loop
			for b := range l.blocks {
				for _, in := range b.Instrs {
					var lo, hi lin
					what := ""
					switch x := in.(type) {
					case *ssa.Slice:
						if !isByteSlice(x.X.Type()) || !l.invariant(x.X, 0) || x.Low == nil {
							continue
						}
						lo = a.linOf(x.Low, 0)
						if x.High != nil {
							hi = a.linOf(x.High, 0)
							what = "slice"
						} else {
							// an open-ended slice handed to a fixed-width big-endian read
							width := int64(0)
							for _, ref := range *x.Referrers() {
								if cl, ok := ref.(*ssa.Call); ok {
									nm := calleeName(&cl.Call)
									switch {
									case strings.HasSuffix(nm, ".Uint16"):
										width = 2
									case strings.HasSuffix(nm, "Uint24"):
										width = 3
									case strings.HasSuffix(nm, ".Uint32"):
										width = 4
									case strings.HasSuffix(nm, ".Uint64"):
										width = 8
									}
								}
							}
							if width == 0 {
								continue
							}
							hi = lo.add(konst(width), 1)
							what = fmt.Sprintf("%d-byte read", width)
						}
					case *ssa.IndexAddr:
						if !isByteSlice(x.X.Type()) || !l.invariant(x.X, 0) {
							continue
						}
						lo = a.linOf(x.Index, 0)
						hi = lo.add(konst(1), 1)
						what = "indexed byte"
					default:
						continue
					}
					if !lo.ok || !hi.ok {
						continue
					}
					// the read must move with the counter: (lo - counter) is loop-invariant
					base := lo.add(ctrL, -1)
					variant := false
					for at := range base.c {
						if phi, ok := at.v.(*ssa.Phi); ok && l.blocks[phi.Block()] {
							variant = true
						}
					}
					if variant {
						continue
					}
					n++
					r.Sites++
					facts := append([]cons{}, a.blockFacts(b)...)
					facts = append(facts, a.inv...)
					goal := base.add(bound, 1).add(hi, -1).add(konst(slack), 1)
					key := fmt.Sprintf("%s:loop%d:%s", short(fn), li+1, what)
					r.Check(a.prove(facts, goal, 0), rule, key, c.ipos(in), "the read stays inside the region the declared length covers", "a decoder loop bounded by a length read from the wire reads ("+what+") past the end of the region that length covers: with a declared length that is not a multiple of the element size the last element is assembled from the bytes that follow the vector")
				}
			}
		}
	}
	r.Floor(rule, n, 2)
}

// ruleKeyMaterialNotEmpty (C18): the key-exchange decoders never accept a zero declared length for
// the fields their own encoders cannot frame when empty - the ECDHE public key of a
// ClientKeyExchange / ServerKeyExchange and the signature of a ServerKeyExchange that names a
// scheme. With the declared length of the field (the wire integer that bounds the slice stored
// into it) and the length of the stored field bound to zero, no successful exit of Unmarshal is
// reachable behind the store. An accepted message of that kind has no encoding: Marshal emits a
// single zero byte, or drops the ECDHE parameters, or refuses the scheme without signature, so
// decode(encode(decode(x))) fails. The three instances are a reviewed table.
func ruleKeyMaterialNotEmpty(c *Ctx, r *Report) {
	const rule = "key-material-not-empty"
	n := 0
	for _, inst := range []struct{ typ, field string }{
		{"MessageClientKeyExchange", "PublicKey"},
		{"MessageServerKeyExchange", "PublicKey"},
		{"MessageServerKeyExchange", "Signature"},
	} {
		fn := c.need(r, rule, "(*pkg/protocol/handshake."+inst.typ+").Unmarshal")
		if fn == nil {
			continue
		}
		r.Sites += len(fn.Blocks)
		decl := map[ssa.Value]bool{}
		for _, d := range declaredLengths(fn) {
			decl[d] = true
		}
		key := short(fn) + ":" + inst.field
		storeIn := func(g *ssa.Function) *ssa.Store {
			var store *ssa.Store
			for _, b := range g.Blocks {
				for _, in := range b.Instrs {
					if st, ok := in.(*ssa.Store); ok {
						if _, f, _, ok := fieldOfAddr(st.Addr); ok && f == inst.field {
							store = st
						}
					}
				}
			}
			return store
		}
		store := storeIn(fn)
		if store == nil {
			// the tail of the decoder may be a function of its own: one whose result the decoder
			// returns as it is, so that a refusal there is a refusal of the decoder
			for _, call := range findCalls(fn, func(string) bool { return true }) {
				g := call.Call.StaticCallee()
				if g == nil || g.Pkg != fn.Pkg || len(g.Blocks) == 0 || storeIn(g) == nil {
					continue
				}
				tail := true
				for _, ref := range *call.Referrers() {
					if _, isRet := ref.(*ssa.Return); !isRet {
						if _, isDbg := ref.(*ssa.DebugRef); !isDbg {
							tail = false
						}
					}
				}
				if tail {
					fn = g
					store = storeIn(g)
					decl = map[ssa.Value]bool{}
					for _, d := range declaredLengths(fn) {
						decl[d] = true
					}
					break
				}
			}
		}
		if store == nil {
			r.Unk(rule, key, c.pos(fn.Pos()), "the decoder does not store the field")
			continue
		}
		// the wire integers that bound the stored slice
		lens := map[ssa.Value]bool{}
		var scan func(v ssa.Value, d int)
		scan = func(v ssa.Value, d int) {
			if v == nil || d > 8 {
				return
			}
			if decl[v] {
				lens[v] = true
				return
			}
			switch x := v.(type) {
			case *ssa.Call:
				for _, a := range x.Call.Args {
					scan(a, d+1)
				}
			case *ssa.Slice:
				scan(x.High, d+1)
			case *ssa.BinOp:
				scan(x.X, d+1)
				scan(x.Y, d+1)
			case *ssa.Convert:
				scan(x.X, d+1)
			case *ssa.Phi:
				for _, e := range x.Edges {
					scan(e, d+1)
				}
			}
		}
		scan(store.Val, 0)
		// keep only the length that is not also part of the low bound (the running offset)
		if sl := firstSlice(store.Val); sl != nil && sl.Low != nil {
			lowLens := map[ssa.Value]bool{}
			saved := lens
			lens = lowLens
			scan(sl.Low, 0)
			lens = saved
			for v := range lowLens {
				delete(lens, v)
			}
		}
		if len(lens) == 0 {
			r.Unk(rule, key, c.ipos(store), "the stored slice is not bounded by a length read from the wire")
			continue
		}
		n++
		w := &Walk{Fn: fn, Follow: followSamePkg(fn), Assume: func(v ssa.Value) (Val, bool) {
			if lens[v] {
				return vInt(0), true
			}
			if cl, ok := v.(*ssa.Call); ok && calleeName(&cl.Call) == "builtin:len" && len(cl.Call.Args) == 1 {
				if _, f, _, ok := fieldLoad(cl.Call.Args[0]); ok && f == inst.field {
					return vInt(0), true
				}
			}
			return unknown, false
		}}
		// rejected before the field is stored?
		w0 := &Walk{Fn: fn, Follow: followSamePkg(fn), Assume: w.Assume}
		w0.FromEntry()
		if !w0.Reached[store] && !w0.overflow {
			r.OK(rule, key, c.ipos(store), "with a zero declared length the field is never stored (refused before)")
			continue
		}
		w.After(store)
		leak := ""
		succ := map[ssa.Instruction]bool{}
		for _, ri := range possibleSuccessReturns(fn) {
			succ[ri] = true
		}
		for _, ro := range w.Returns {
			last := len(ro.Vals) - 1
			if succ[ro.Ret] && !(last >= 0 && ro.Vals[last].Kind == 2 && !ro.Vals[last].B) {
				leak = c.ipos(ro.Ret)
			}
		}
		r.Check(leak == "", rule, key, c.ipos(store), "a zero declared length for this field is refused", "the decoder accepts a message whose "+inst.field+" has a declared length of zero ("+leak+"), which its own encoder cannot frame: the accepted input has no canonical form (re-encoding it is refused, or yields bytes the decoder refuses)")
	}
	r.Floor(rule, n, 3)
}

func firstSlice(v ssa.Value) *ssa.Slice {
	for i := 0; i < 6 && v != nil; i++ {
		switch x := v.(type) {
		case *ssa.Slice:
			return x
		case *ssa.Call:
			if len(x.Call.Args) == 0 {
				return nil
			}
			v = x.Call.Args[0]
		default:
			return nil
		}
	}
	return nil
}

// ruleRecordContentWithinDeclaredLength (C18): the record decoder hands its content decoder exactly
// the bytes the header's length field declares: the slice passed on is cut at a bound that derives
// from Header.ContentLen, or the function compares that field with the length of what it passes on.
// Otherwise bytes behind the declared length are consumed as content and a record shorter than
// declared is accepted.
func ruleRecordContentWithinDeclaredLength(c *Ctx, r *Report) {
	const rule = "record-content-within-declared-length"
	fn := c.need(r, rule, "(*pkg/protocol/recordlayer.RecordLayer).Unmarshal")
	if fn == nil {
		return
	}
	r.Sites += len(fn.Blocks)
	isContentLen := func(v ssa.Value) bool {
		for _, l := range c.Origins(stripConv(v), 0) {
			if _, f, _, ok := fieldLoad(stripConv(l)); ok && f == "ContentLen" {
				return true
			}
		}
		_, f, _, ok := fieldLoad(stripConv(v))
		return ok && f == "ContentLen"
	}
	n := 0
	for _, b := range fn.Blocks {
		for _, in := range b.Instrs {
			call, ok := in.(*ssa.Call)
			if !ok || !call.Call.IsInvoke() || call.Call.Method.Name() != "Unmarshal" || len(call.Call.Args) != 1 {
				continue
			}
			n++
			bounded := false
			if sl, ok := call.Call.Args[0].(*ssa.Slice); ok && sl.High != nil {
				var scan func(v ssa.Value, d int) bool
				scan = func(v ssa.Value, d int) bool {
					if d > 5 {
						return false
					}
					if isContentLen(v) {
						return true
					}
					if bo, ok := stripConv(v).(*ssa.BinOp); ok {
						return scan(bo.X, d+1) || scan(bo.Y, d+1)
					}
					return false
				}
				bounded = scan(sl.High, 0)
			}
			if !bounded {
				for _, b2 := range fn.Blocks {
					for _, in2 := range b2.Instrs {
						if bo, ok := in2.(*ssa.BinOp); ok && (bo.Op == token.EQL || bo.Op == token.NEQ || bo.Op == token.LSS || bo.Op == token.GTR || bo.Op == token.LEQ || bo.Op == token.GEQ) {
							if (isContentLen(bo.X) || isContentLen(bo.Y)) && instrDominates(bo, call) {
								bounded = true
							}
						}
					}
				}
			}
			r.Check(bounded, rule, short(fn)+":content", c.ipos(call), "the content decoder receives the bytes the header's length field declares", "the content handed to the content decoder is everything behind the header: Header.ContentLen is never compared with it, so bytes behind the declared length are consumed (application data, return-routability messages of unknown type) and a record shorter than declared is accepted")
		}
	}
	r.Floor(rule, n, 1)
}
