// dtlsvet decides structural necessary conditions of the pion/dtls properties
// C01..C20 from the type-checked SSA form of /repo's working tree. It never
// runs the code under analysis.
package main

import (
	"flag"
	"fmt"
	"golang.org/x/tools/go/ssa"
	"os"
	"path/filepath"
	"runtime/debug"
	"sort"
	"strings"
	"time"
)

type ruleFn func(c *Ctx, r *Report)

type propDef struct {
	id    string
	rules []ruleFn
	expl  string
	notd  string
}

var props = map[string]*propDef{}

func register(id, expl, notDecided string, rules ...ruleFn) {
	props[id] = &propDef{id: id, rules: rules, expl: expl, notd: notDecided}
}

func main() {
	prop := flag.String("prop", "", "property id (C01..C20) or 'all'")
	tier := flag.String("tier", "quick", "quick|thorough")
	repo := flag.String("repo", "/repo", "repository root")
	verif := flag.String("verif", "/verif", "verif root (evidence, known findings)")
	list := flag.Bool("list", false, "list functions")
	genSymbols := flag.Bool("gen-symbols", false, "write spec/symbols.json (function fingerprints and type shapes of the reviewed tree) and exit")
	genBase := flag.Bool("gen-bounds-baseline", false, "write spec/bounds_baseline.json from the reviewed tree and exit")
	bdebug := flag.String("bdebug", "", "debug: dump the bounds prover's goals and facts for the named function and exit")
	registered := flag.Bool("registered", false, "print the ids of the properties that have rules and exit")
	flag.Parse()
	if *registered {
		var ids []string
		for id := range props {
			ids = append(ids, id)
		}
		sort.Strings(ids)
		fmt.Println(strings.Join(ids, " "))
		return
	}
	if t := os.Getenv("VERIF_TIER"); t != "" && *tier == "" {
		*tier = t
	}
	start := time.Now()
	ids := strings.Split(*prop, ",")
	if *prop == "all" {
		ids = nil
		for id := range props {
			ids = append(ids, id)
		}
		sort.Strings(ids)
	}
	for _, id := range ids {
		if _, ok := props[id]; !ok && !*list {
			fmt.Printf("unknown property %q\n", id)
			os.Exit(2)
		}
	}
	abs, _ := filepath.Abs(*repo)
	c, err := load(abs, *tier, *verif, nil)
	if err != nil {
		// a tree that does not load or type-check cannot be decided: fail every requested property
		for _, id := range ids {
			r := newReport(id)
			r.Explanation = "program could not be loaded"
			r.Unk("loader", "packages.Load", "", err.Error())
			r.finish(&Ctx{Repo: abs}, *verif, *tier, start, nil, map[string]any{"error": err.Error()})
		}
		os.Exit(1)
	}
	c.VerifDir = *verif
	if *genSymbols {
		resetAliases()
		if err := c.writeSymbols(filepath.Join(*verif, "spec", "symbols.json")); err != nil {
			fmt.Println("gen-symbols:", err)
			os.Exit(2)
		}
		return
	}
	if *genBase {
		if err := c.genBoundsBaseline(); err != nil {
			fmt.Println("gen-bounds-baseline:", err)
			os.Exit(2)
		}
		return
	}
	if *bdebug != "" {
		c.boundsDebug(*bdebug)
		return
	}
	if *list {
		for _, fn := range c.Fns {
			fmt.Println(short(fn))
		}
		return
	}
	known, kerr := loadKnown(filepath.Join(*verif, "known_findings.json"))
	if kerr != nil {
		fmt.Println("cannot read known_findings.json:", kerr)
		os.Exit(2)
	}
	loadInfo := map[string]any{
		"packages":         len(c.Pkgs),
		"functions":        len(c.Fns),
		"ssa_instructions": c.Instrs,
		"go_statements":    c.GoStmts,
		"load_s":           time.Since(start).Seconds(),
	}
	exit := 0
	known0 := known
	for _, id := range ids {
		pstart := time.Now()
		if len(ids) == 1 {
			pstart = start
		}
		p := props[id]
		r := newReport(id)
		r.Explanation = p.expl
		r.NotDecided = p.notd
		c.sanity(r)
		for _, rule := range p.rules {
			runRule(c, r, rule)
		}
		if *tier == "thorough" {
			// repeat the whole analysis for the other build variants (the two build-tagged
			// error files and 32-bit int), each with its own load
			var variants []map[string]any
			for _, env := range [][]string{{"GOARCH=386"}, {"GOOS=plan9", "GOARCH=amd64"}} {
				vc, verr := variantCtx(abs, *tier, *verif, env)
				info := map[string]any{"env": strings.Join(env, " ")}
				if verr != nil {
					r.Unk("loader", "variant:"+strings.Join(env, ","), "", verr.Error())
					info["error"] = verr.Error()
					variants = append(variants, info)
					continue
				}
				vr := newReport(id)
				for _, rule := range p.rules {
					runRule(vc, vr, rule)
				}
				nBad := 0
				for _, o := range vr.Obls {
					if o.Status == Violated || o.Status == Undecided {
						known := false
						for _, k := range known0 {
							if k.Property == id && k.Rule == o.Rule && k.Construct == o.Construct && k.Status == "known" {
								known = true
							}
						}
						if known {
							continue
						}
						nBad++
						o.Construct = "[" + strings.Join(env, ",") + "] " + o.Construct
						r.add(o)
					}
				}
				info["packages"], info["functions"], info["obligations"], info["failing"] = len(vc.Pkgs), len(vc.Fns), len(vr.Obls), nBad
				variants = append(variants, info)
			}
			r.Extra["build_variants"] = variants
			if os.Getenv("DTLSVET_NESTED") == "" {
				c.activate()
				c.sensitivity(r, id)
			}
		}
		if code := r.finish(c, *verif, *tier, pstart, known, loadInfo); code > exit {
			exit = code
		}
	}
	os.Exit(exit)
}

func runRule(c *Ctx, r *Report, rule ruleFn) {
	c.activate()
	defer func() {
		if e := recover(); e != nil {
			st := string(debug.Stack())
			if i := strings.Index(st, "panic("); i >= 0 {
				st = st[i:]
			}
			if len(st) > 1500 {
				st = st[:1500]
			}
			r.Unk("engine", "panic", "", fmt.Sprintf("rule panicked: %v\n%s", e, st))
		}
	}()
	rule(c, r)
}

// sanity re-verifies the loader assumptions on every run.
func (c *Ctx) sanity(r *Report) {
	c.activate()
	for _, a := range c.aReport {
		r.Note("renamed", a, "", "recognised as a pure rename by structural fingerprint (spec/symbols.json): the rules address it by its reviewed name")
	}
	for _, p := range c.Pkgs {
		for imp := range p.Imports {
			if imp == "unsafe" || imp == "reflect" || imp == "C" {
				r.Unk("loader", "import:"+imp+" in "+shortPath(p.PkgPath), "", "the module now imports "+imp+": call-graph and alias assumptions no longer hold")
			}
		}
	}
}

// need resolves a function by short name or records an undecided obligation.
func (c *Ctx) need(r *Report, rule, name string) *ssa.Function {
	fn := c.Fn(name)
	if fn == nil {
		r.Unk(rule, "anchor:"+name, "", "anchor function not found (renamed or removed): rule cannot be decided")
		return nil
	}
	return fn
}

var variantCache = map[string]*Ctx{}

func variantCtx(repo, tier, verif string, env []string) (*Ctx, error) {
	k := strings.Join(env, ",")
	if c, ok := variantCache[k]; ok {
		return c, nil
	}
	// the bounds engine keeps per-program state: reset it for the variant program
	retCache = map[*ssa.Function]*retSummary{}
	retBusy = map[*ssa.Function]bool{}
	pc = &progCtx{
		ans: map[*ssa.Function]*fnAn{}, callers: map[*ssa.Function][]ssa.CallInstruction{},
		addrTaken: map[*ssa.Function]bool{}, succ: map[*ssa.Function][]lin{}, succBusy: map[*ssa.Function]bool{}, dynMethods: map[string]bool{},
		nonneg: map[*ssa.Function]map[int]int{},
	}
	c, err := load(repo, tier, verif, env)
	if err != nil {
		return nil, err
	}
	c.VerifDir = verif
	variantCache[k] = c
	return c, nil
}
