package main

import (
	"fmt"
	"go/token"
	"go/types"
	"sort"
	"strings"

	"golang.org/x/tools/go/ssa"
)

// ruleFirstHelloOnlyValidated (C04, C13): the first ClientHello of a cookie / retry exchange is in
// no DTLS 1.2 transcript, so nothing a Finished covers exposes an edit of it. The server therefore
// derives what it negotiates from the current (second) ClientHello; the first one, as recorded in
// RemoteClientHelloSnapshots, is only ever handed to the validation helpers of the negotiation
// package, which compare it with the second. Every call of ClientHelloSnapshots.Initial whose
// receiver is (a local copy of) the peer's snapshots has no consumer but arguments of
// negotiation.Validate* functions.
func ruleFirstHelloOnlyValidated(c *Ctx, r *Report) {
	const rule = "first-hello-only-validated"
	isRemoteSnapshots := func(recv ssa.Value) bool {
		u, ok := recv.(*ssa.UnOp)
		if !ok || u.Op != token.MUL {
			return false
		}
		if _, f, _, ok := fieldOfAddr(u.X); ok {
			return f == "RemoteClientHelloSnapshots"
		}
		al, ok := u.X.(*ssa.Alloc)
		if !ok {
			return false
		}
		for _, ref := range *al.Referrers() {
			st, isSt := ref.(*ssa.Store)
			if !isSt || st.Addr != ssa.Value(al) {
				continue
			}
			if _, f, _, ok := fieldLoad(st.Val); ok && f == "RemoteClientHelloSnapshots" {
				return true
			}
		}
		return false
	}
	n := 0
	for _, s := range c.CallsTo(nameHasSuffix("negotiation.ClientHelloSnapshots).Initial")) {
		call, ok := s.Call.(*ssa.Call)
		if !ok || !inModule(s.Fn) || len(call.Call.Args) == 0 || !isRemoteSnapshots(call.Call.Args[0]) {
			continue
		}
		n++
		r.Sites++
		bad := ""
		var visit func(v ssa.Value, d int)
		visit = func(v ssa.Value, d int) {
			if d > 4 || v.Referrers() == nil {
				return
			}
			for _, ref := range *v.Referrers() {
				switch x := ref.(type) {
				case *ssa.DebugRef:
				case *ssa.Call:
					nm := calleeName(&x.Call)
					if !strings.HasPrefix(nm, "internal/negotiation.Validate") {
						bad = "handed to " + nm + " at " + c.ipos(x)
					}
				case *ssa.Store:
					// spilled to a local cell: follow the loads of the cell
					if al, isAl := x.Addr.(*ssa.Alloc); isAl && x.Val == v {
						for _, r2 := range *al.Referrers() {
							switch y := r2.(type) {
							case *ssa.UnOp:
								visit(y, d+1)
							case *ssa.Store, *ssa.DebugRef:
							default:
								bad = "its copy is used at " + c.ipos(r2)
							}
						}
					} else {
						bad = "stored at " + c.ipos(x)
					}
				case *ssa.Phi:
					visit(x, d+1)
				default:
					bad = "used at " + c.ipos(ref)
				}
			}
		}
		visit(call, 0)
		r.Check(bad == "", rule, short(s.Fn), c.ipos(call), "the recorded first ClientHello of the peer is only handed to the validation helpers", "the server reads a parameter out of the first ClientHello of the cookie exchange ("+bad+"): that message is covered by no Finished, so an on-path attacker who rewrites only it steers what is negotiated and both sides complete")
	}
	r.Floor(rule, n, 3)
}

// ruleFragmentHeaderDecoderTotal (C12): "for every partition into fragments (including zero-length
// and duplicated fragments)" needs a handshake header decoder that refuses nothing but truncated
// input: the reassembly code discards the whole record on the first header that does not decode, so
// a decoder that judges field values drops the data fragments packed next to the one it dislikes.
// With every comparison of the input length against a constant answering "long enough", no return
// of (*handshake.Header).Unmarshal carries an error.
func ruleFragmentHeaderDecoderTotal(c *Ctx, r *Report) {
	const rule = "fragment-header-decoder-total"
	fn := c.need(r, rule, "(*pkg/protocol/handshake.Header).Unmarshal")
	if fn == nil {
		return
	}
	r.Sites += len(fn.Blocks)
	if len(fn.Params) < 2 {
		r.Unk(rule, short(fn), c.pos(fn.Pos()), "no input parameter")
		return
	}
	data := fn.Params[1]
	isLenData := func(v ssa.Value) bool {
		cl, ok := stripConv(v).(*ssa.Call)
		return ok && calleeName(&cl.Call) == "builtin:len" && cl.Call.Args[0] == ssa.Value(data)
	}
	lengthTests := 0
	w := &Walk{Fn: fn, Assume: func(v ssa.Value) (Val, bool) {
		bo, ok := v.(*ssa.BinOp)
		if !ok {
			return unknown, false
		}
		var lenLeft bool
		switch {
		case isLenData(bo.X):
			if _, isK := constInt(bo.Y); !isK {
				return unknown, false
			}
			lenLeft = true
		case isLenData(bo.Y):
			if _, isK := constInt(bo.X); !isK {
				return unknown, false
			}
		default:
			return unknown, false
		}
		lengthTests++
		switch bo.Op { // the input is longer than any constant it is compared with
		case token.LSS, token.LEQ:
			return vBool(!lenLeft), true
		case token.GTR, token.GEQ:
			return vBool(lenLeft), true
		case token.EQL:
			return vBool(false), true
		case token.NEQ:
			return vBool(true), true
		}
		return unknown, false
	}}
	w.FromEntry()
	bad := ""
	for _, ro := range w.Returns {
		last := len(ro.Vals) - 1
		if last < 0 || !(ro.Vals[last].Kind == 2 && ro.Vals[last].B) {
			bad = c.ipos(ro.Ret)
		}
	}
	r.Check(bad == "" && lengthTests > 0 && len(w.Returns) > 0 && !w.overflow, rule, short(fn), c.pos(fn.Pos()), "a handshake header that is long enough always decodes", "the handshake header decoder can refuse a header that is complete ("+bad+"): the reassembly buffer gives up on the whole record at the first header that does not decode, so the data fragments packed next to a fragment the decoder dislikes (an empty one, say) are lost with it on every retransmission and the message is never surfaced")
}

// ruleConfiguredMTUPreserved (C12): "none of which carries more body bytes than the configured
// MTU", for every configured value: what reaches Conn.maximumTransmissionUnit is the configured
// number whenever that number is positive. In the normalising helper the value of the MTU option
// passes through, every return made while the parameter is positive returns the parameter itself.
func ruleConfiguredMTUPreserved(c *Ctx, r *Report) {
	const rule = "configured-mtu-preserved"
	n := 0
	for _, st := range c.StoresTo("dtls.handshakeConfigValues", "maximumTransmissionUnit") {
		_ = st
	}
	var stores []FieldStore
	for _, fs := range c.Fns {
		for _, b := range fs.Blocks {
			for _, in := range b.Instrs {
				st, ok := in.(*ssa.Store)
				if !ok {
					continue
				}
				if _, f, _, ok := fieldOfAddr(st.Addr); ok && f == "maximumTransmissionUnit" && inModule(fs) {
					stores = append(stores, FieldStore{Fn: fs, Instr: st, Val: st.Val})
				}
			}
		}
	}
	for _, st := range stores {
		for _, l := range c.Origins(st.Val, 0) {
			// a copy of the same field of another struct is judged where that one is stored
			if _, f, _, ok := fieldLoad(l); ok && f == "maximumTransmissionUnit" {
				continue
			}
			n++
			r.Sites++
			key := short(st.Fn) + ":maximumTransmissionUnit"
			if _, f, _, ok := fieldLoad(l); ok && f == "MTU" {
				r.OK(rule, key, c.ipos(st.Instr), "the configured value itself")
				continue
			}
			cl, isCall := l.(*ssa.Call)
			var g *ssa.Function
			if isCall {
				g = cl.Call.StaticCallee()
			}
			pi := -1
			if g != nil && inModule(g) && len(g.Blocks) > 0 {
				for i, a := range cl.Call.Args {
					if _, f, _, ok := fieldLoad(stripConv(a)); ok && f == "MTU" && i < len(g.Params) {
						pi = i
					}
				}
			}
			if pi < 0 {
				r.Bad(rule, key, c.ipos(st.Instr), "the fragment size limit does not come from the configured MTU: "+c.describe(l))
				continue
			}
			par := g.Params[pi]
			w := &Walk{Fn: g, Assume: func(v ssa.Value) (Val, bool) {
				bo, ok := v.(*ssa.BinOp)
				if !ok {
					return unknown, false
				}
				// the parameter is positive, and nothing more is known about it
				ord := func(op token.Token, k int64, parLeft bool) (Val, bool) {
					if !parLeft {
						switch op {
						case token.LSS:
							op = token.GTR
						case token.LEQ:
							op = token.GEQ
						case token.GTR:
							op = token.LSS
						case token.GEQ:
							op = token.LEQ
						}
					}
					switch op {
					case token.LEQ: // p <= k
						if k <= 0 {
							return vBool(false), true
						}
					case token.LSS: // p < k
						if k <= 1 {
							return vBool(false), true
						}
					case token.GTR: // p > k
						if k <= 0 {
							return vBool(true), true
						}
					case token.GEQ: // p >= k
						if k <= 1 {
							return vBool(true), true
						}
					case token.EQL:
						if k <= 0 {
							return vBool(false), true
						}
					case token.NEQ:
						if k <= 0 {
							return vBool(true), true
						}
					}
					return unknown, false
				}
				if stripConv(bo.X) == ssa.Value(par) {
					if k, isK := constInt(bo.Y); isK {
						return ord(bo.Op, k, true)
					}
				}
				if stripConv(bo.Y) == ssa.Value(par) {
					if k, isK := constInt(bo.X); isK {
						return ord(bo.Op, k, false)
					}
				}
				return unknown, false
			}}
			w.FromEntry()
			bad := ""
			for _, ro := range w.Returns {
				if len(ro.Raw) == 0 || stripConv(ro.Raw[0]) != ssa.Value(par) {
					bad = c.ipos(ro.Ret)
				}
			}
			r.Check(bad == "" && len(w.Returns) > 0 && !w.overflow, rule, key, c.ipos(st.Instr), "every positive configured MTU reaches the fragmenter unchanged", "a positive configured MTU can be replaced by another value in "+g.Name()+" ("+bad+"): handshake messages are then cut into fragments that carry more body bytes than the MTU the application configured")
		}
	}
	r.Floor(rule, n, 1)
}

// ruleWriteContextNotDetached (C16): Close and deadlines get at a blocked transport write through
// the context the write runs under. Inside the module no call is handed a context that was cut
// loose from its caller - context.Background(), context.TODO() or context.WithoutCancel(ctx) as
// such (a constructor that makes it cancellable again, WithCancel / WithTimeout / WithDeadline,
// is fine): a write under such a context cannot be interrupted, it keeps the write lock, and
// Close waits behind it for ever. The one exemption is Handshake(), the documented entry point
// without a context.
func ruleWriteContextNotDetached(c *Ctx, r *Report) {
	const rule = "write-context-not-detached"
	exempt := map[string]string{
		"(*dtls.Conn).Handshake": "Handshake() is the documented context-less form of HandshakeContext",
	}
	n := 0
	for _, fn := range c.Fns {
		if !inModule(fn) {
			continue
		}
		for _, b := range fn.Blocks {
			for _, in := range b.Instrs {
				ci, ok := in.(ssa.CallInstruction)
				if !ok {
					continue
				}
				cc := ci.Common()
				inMod := false
				if g := cc.StaticCallee(); g != nil {
					inMod = inModule(g)
				} else if cc.IsInvoke() {
					inMod = strings.Contains(calleeName(cc), "iface:") && !strings.HasPrefix(strings.TrimPrefix(calleeName(cc), "iface:"), "context.") && !strings.HasPrefix(strings.TrimPrefix(calleeName(cc), "iface:"), "net.")
				} else {
					inMod = true // a function value of the module (closure, field)
				}
				if !inMod {
					continue
				}
				for _, a := range cc.Args {
					if !strings.HasSuffix(namedOrType(a.Type()), "context.Context") {
						continue
					}
					n++
					detached := ""
					for _, l := range c.OriginsIP(a, 0) {
						if cl, isCall := l.(*ssa.Call); isCall {
							switch nm := calleeName(&cl.Call); nm {
							case "context.Background", "context.TODO", "context.WithoutCancel":
								detached = nm
							}
						}
					}
					if detached == "" {
						continue
					}
					top := fn
					for top.Parent() != nil {
						top = top.Parent()
					}
					key := short(fn) + "->" + strings.TrimPrefix(calleeName(cc), "iface:")
					if why, ok := exempt[short(top)]; ok {
						r.OKTrivial(rule, key, c.ipos(in), "exempt: "+why)
						continue
					}
					r.Bad(rule, key, c.ipos(in), "the call is handed "+detached+"(...) as its context: nothing the caller does (Close, a deadline, cancelling its own context) reaches the work done under it, so a transport write blocked there keeps its locks and Close never returns")
				}
			}
		}
	}
	r.Floor(rule, n, 40)
}

// ruleRearmedTimerIsAbsolute (C17): a retransmission timer that is created anew on every turn of
// an event loop (the DTLS 1.3 post-handshake loop arms one per event) must be armed for what is
// left until an absolute deadline; armed with the plain interval it is pushed back by every event
// - an application write, an ACK - and never fires while events keep coming, although no datagram
// of the awaited reply arrives. For every time.NewTimer / time.After in the state-machine package
// that runs inside a loop (or in a helper called from inside one), the duration derives from
// time.Until / Time.Sub.
func ruleRearmedTimerIsAbsolute(c *Ctx, r *Report) {
	const rule = "rearmed-timer-is-absolute"
	n := 0
	states := c.enumConsts(pkgHS, "State")
	isHandlerType := func(t types.Type) bool { return strings.HasSuffix(namedOrType(t), ".fsmStateHandler") }
	// the driver loop: which state each handler parameter serves
	type slot struct {
		driver *ssa.Function
		param  int
		state  int64
	}
	var slots []slot
	for _, fn := range c.fnsOfPkg(pkgHS) {
		for _, b := range fn.Blocks {
			for _, in := range b.Instrs {
				call, ok := in.(*ssa.Call)
				if !ok {
					continue
				}
				// the switch case a block sits in: the nearest dominating `state == K` whose true
				// side leads there
				caseOf := func(p *ssa.Parameter, at *ssa.BasicBlock) {
					for d := at; d != nil; d = d.Idom() {
						id := d.Idom()
						if id == nil {
							break
						}
						iff, ok := id.Instrs[len(id.Instrs)-1].(*ssa.If)
						if !ok || id.Succs[0] != d {
							continue
						}
						if bo, ok := iff.Cond.(*ssa.BinOp); ok && bo.Op == token.EQL {
							if k, isK := constInt(bo.Y); isK {
								slots = append(slots, slot{fn, paramIndex(p), k})
								break
							}
						}
					}
				}
				if phi, isPhi := call.Call.Value.(*ssa.Phi); isPhi && isHandlerType(phi.Type()) {
					// the switch selects the handler and one call runs it: each case is the block
					// its handler comes from
					for i, e := range phi.Edges {
						if p, isP := e.(*ssa.Parameter); isP && i < len(phi.Block().Preds) {
							caseOf(p, phi.Block().Preds[i])
						}
					}
					continue
				}
				p, isP := call.Call.Value.(*ssa.Parameter)
				if !isP || !isHandlerType(p.Type()) {
					continue
				}
				caseOf(p, b)
			}
		}
	}
	type handler struct {
		fn    *ssa.Function
		state int64
	}
	var handlers []handler
	seenH := map[*ssa.Function]bool{}
	for _, sl := range slots {
		for _, cs := range c.CallsToName(short(sl.driver)) {
			args := cs.Call.Common().Args
			if sl.param >= len(args) {
				continue
			}
			for _, l := range append(c.Origins(args[sl.param], 0), args[sl.param]) {
				mc, ok := l.(*ssa.MakeClosure)
				if !ok {
					continue
				}
				h := mc.Fn.(*ssa.Function)
				if strings.HasSuffix(h.Name(), "$bound") {
					// the bound-method wrapper calls the method
					for _, b := range h.Blocks {
						for _, in := range b.Instrs {
							if cl, ok := in.(*ssa.Call); ok {
								if g := cl.Call.StaticCallee(); g != nil && inModule(g) {
									h = g
								}
							}
						}
					}
				}
				if !seenH[h] {
					seenH[h] = true
					handlers = append(handlers, handler{h, sl.state})
				}
			}
		}
	}
	sort.Slice(handlers, func(i, j int) bool { return short(handlers[i].fn) < short(handlers[j].fn) })
	for _, h := range handlers {
		// can the handler hand control back to its own state?
		self := false
		for _, b := range h.fn.Blocks {
			ret, ok := b.Instrs[len(b.Instrs)-1].(*ssa.Return)
			if !ok || len(ret.Results) == 0 {
				continue
			}
			for _, l := range append(c.Origins(unspill(ret.Results[0]), 0), unspill(ret.Results[0])) {
				if k, isK := constInt(l); isK && k == h.state {
					self = true
				}
			}
			// a tail call: the state is what a method of the same machine returns
			if ex, isEx := unspill(ret.Results[0]).(*ssa.Extract); isEx && ex.Index == 0 {
				tc, isCall := ex.Tuple.(*ssa.Call)
				// a tail call proper: every result of the return is the same-numbered result of the
				// one call (a helper whose results are looked at first is not handed through)
				if isCall && tc.Call.Signature().Results().Len() != len(ret.Results) {
					isCall = false
				}
				for i, rv := range ret.Results {
					if e2, isE2 := unspill(rv).(*ssa.Extract); !isE2 || e2.Index != i || e2.Tuple != ssa.Value(tc) {
						isCall = false
					}
				}
				if isCall {
					if g := tc.Call.StaticCallee(); g != nil && g.Pkg == h.fn.Pkg && len(g.Blocks) > 0 && g.Signature.Recv() != nil {
						for _, gb := range g.Blocks {
							gret, isRet := gb.Instrs[len(gb.Instrs)-1].(*ssa.Return)
							if !isRet || len(gret.Results) == 0 {
								continue
							}
							for _, l := range append(c.Origins(unspill(gret.Results[0]), 0), unspill(gret.Results[0])) {
								if k, isK := constInt(l); isK && k == h.state {
									self = true
								}
							}
						}
					}
				}
			}
		}
		if !self {
			continue
		}
		// timers created by the handler or the helpers of its package it calls
		unit := []*ssa.Function{h.fn}
		seen := map[*ssa.Function]bool{h.fn: true}
		for i := 0; i < len(unit) && i < 40; i++ {
			for _, b := range unit[i].Blocks {
				for _, in := range b.Instrs {
					if ci, ok := in.(ssa.CallInstruction); ok {
						if g := ci.Common().StaticCallee(); g != nil && g.Pkg == h.fn.Pkg && len(g.Blocks) > 0 && !seen[g] {
							seen[g] = true
							unit = append(unit, g)
						}
					}
				}
			}
		}
		for _, u := range unit {
			for _, call := range findCalls(u, nameIs("time.NewTimer", "time.After")) {
				n++
				r.Sites++
				absolute := false
				var scan func(v ssa.Value, d int)
				scan = func(v ssa.Value, d int) {
					if d > 3 {
						return
					}
					for _, l := range c.Origins(v, 0) {
						cl, isCall := l.(*ssa.Call)
						if !isCall {
							continue
						}
						nm := calleeName(&cl.Call)
						if nm == "time.Until" || nm == "(time.Time).Sub" {
							absolute = true
						}
						if strings.HasPrefix(nm, "builtin:max") || strings.HasPrefix(nm, "builtin:min") {
							for _, a := range cl.Call.Args {
								scan(a, d+1)
							}
						}
					}
				}
				scan(call.Call.Args[0], 0)
				stName := ""
				for nm, k := range states {
					if k == h.state {
						stName = nm
					}
				}
				r.Check(absolute, rule, short(h.fn)+":"+short(u), c.ipos(call), "the handler of "+stName+" returns to its own state after every event; the timer it creates each time is armed for the time left until a deadline", "the handler of "+stName+" returns to its own state after every event and creates its retransmission timer anew each time, armed with a plain interval: every event (an application write, a received ACK) pushes the timer back by the full interval, so while events keep coming the outstanding flight is never sent again although nothing of the awaited reply arrives")
			}
		}
	}
	r.Floor(rule, n, 1)
}

// rulePrefixedVectorConsumed (C18): "lengths declared inside a message are honoured ... truncated
// input is rejected": a length-prefixed vector that a decoder cuts out with cryptobyte
// (ReadUintNLengthPrefixed) and then reads piecewise is read until it is empty - while the vector
// still holds bytes, no successful exit is reachable. A decoder that reads "as many whole elements
// as fit" accepts a vector whose declared length is not a multiple of the element size and loses
// the bytes of the cut-short element (the accepted input no longer re-encodes to itself).
func rulePrefixedVectorConsumed(c *Ctx, r *Report) {
	const rule = "prefixed-vector-consumed"
	n := 0
	for _, s := range c.CallsTo(func(nm string) bool {
		return strings.HasPrefix(nm, "(*golang.org/x/crypto/cryptobyte.String).ReadUint") && strings.HasSuffix(nm, "LengthPrefixed")
	}) {
		call, ok := s.Call.(*ssa.Call)
		if !ok || !inModule(s.Fn) || len(call.Call.Args) < 2 {
			continue
		}
		sub, ok := call.Call.Args[1].(*ssa.Alloc)
		if !ok {
			continue
		}
		fn := s.Fn
		// is the vector read piecewise (handed by address to a reader), or only used whole?
		piecewise := false
		for _, ref := range *sub.Referrers() {
			ci, isCall := ref.(ssa.CallInstruction)
			if !isCall || ci == ssa.CallInstruction(call) {
				continue
			}
			for _, a := range ci.Common().Args {
				if a == ssa.Value(sub) {
					piecewise = true
				}
			}
		}
		if !piecewise {
			continue
		}
		n++
		r.Sites += len(fn.Blocks)
		isSubLoad := func(v ssa.Value) bool {
			u, ok := stripConv(v).(*ssa.UnOp)
			return ok && u.Op == token.MUL && u.X == ssa.Value(sub)
		}
		tests := 0
		w := &Walk{Fn: fn, Assume: func(v ssa.Value) (Val, bool) {
			switch x := v.(type) {
			case *ssa.Call:
				if strings.HasSuffix(calleeName(&x.Call), "cryptobyte.String).Empty") && len(x.Call.Args) == 1 && isSubLoad(x.Call.Args[0]) {
					tests++
					return vBool(false), true
				}
			case *ssa.BinOp:
				isLen := func(y ssa.Value) bool {
					cl, ok := stripConv(y).(*ssa.Call)
					return ok && calleeName(&cl.Call) == "builtin:len" && isSubLoad(cl.Call.Args[0])
				}
				k, isK := constInt(x.Y)
				if isLen(x.X) && isK && k == 0 {
					tests++
					switch x.Op {
					case token.GTR, token.NEQ:
						return vBool(true), true
					case token.EQL, token.LEQ:
						return vBool(false), true
					}
				}
			}
			return unknown, false
		}}
		w.After(call)
		succ := map[ssa.Instruction]bool{}
		for _, ri := range possibleSuccessReturns(fn) {
			succ[ri] = true
		}
		leak := ""
		for _, ro := range w.Returns {
			last := len(ro.Vals) - 1
			if succ[ro.Ret] && !(last >= 0 && ro.Vals[last].Kind == 2 && !ro.Vals[last].B) {
				leak = c.ipos(ro.Ret)
			}
		}
		key := short(fn) + ":" + sub.Comment
		if tests == 0 {
			r.Bad(rule, key, c.ipos(call), "a length-prefixed vector is read piecewise without ever being tested for emptiness: the decoder stops where its own element count says, whatever length the vector declared, and bytes of a cut-short last element are accepted and lost")
			continue
		}
		r.Check(leak == "", rule, key, c.ipos(call), "no successful exit while the vector still holds bytes", "the decoder can succeed ("+leak+") while the length-prefixed vector it reads piecewise still holds bytes: a vector whose declared length is not a whole number of elements is accepted and the rest is dropped")
	}
	r.Floor(rule, n, 2)
}

// windowCoverage decides, for the function that rebuilds the replay window of a resumed connection,
// that the numbers it marks are exactly the part of the window an exported position implies: a
// counting loop marks first, first+1, ... (or newest, newest-1, ...); the newest number marked is
// the exported position itself, and the oldest one is not younger than position-window+1 (or is
// 0, for a history shorter than the window). Every record the exported connection may have
// delivered and the detector would still accept is then refused by the resumed connection - at
// the window edge too. The arithmetic is over record numbers (below 2^48) and a window size, so
// uint64 operations are taken as exact here.
func (c *Ctx) windowCoverage(g *ssa.Function) (why string, decided bool) {
	var check *ssa.Call
	var loop *natLoop
	for _, l := range naturalLoops(g) {
		for b := range l.blocks {
			for _, in := range b.Instrs {
				if cl, ok := in.(*ssa.Call); ok && cl.Call.IsInvoke() && cl.Call.Method.Name() == "Check" && len(cl.Call.Args) == 1 {
					if loop == nil || len(l.blocks) < len(loop.blocks) {
						check, loop = cl, l
					}
				}
			}
		}
	}
	if check == nil {
		return "no loop that asks the replay detector about consecutive numbers", false
	}
	// the exported position: the load of RemoteSequenceNumber[..], possibly clamped to a constant
	var top ssa.Value
	var isPos func(v ssa.Value) bool
	isPos = func(v ssa.Value) bool {
		ls := c.Origins(v, 0)
		if len(ls) == 0 {
			ls = []ssa.Value{v}
		}
		fromLoad := false
		for _, l := range ls {
			if cl, ok := l.(*ssa.Call); ok && calleeName(&cl.Call) == "sync/atomic.LoadUint64" && addrIntoField(cl.Call.Args[0], "internal/state.Common", "RemoteSequenceNumber") {
				fromLoad = true
				continue
			}
			if _, isK := l.(*ssa.Const); isK {
				continue
			}
			// the smaller of the position and a constant (the clamp written with min)
			if cl, ok := l.(*ssa.Call); ok && calleeName(&cl.Call) == "builtin:min" {
				all := true
				for _, a := range cl.Call.Args {
					if _, isK := a.(*ssa.Const); isK {
						continue
					}
					if isPos(a) {
						fromLoad = true
						continue
					}
					all = false
				}
				if all {
					continue
				}
			}
			return false
		}
		return fromLoad
	}
	for _, b := range g.Blocks {
		for _, in := range b.Instrs {
			v, ok := in.(ssa.Value)
			if !ok || !isPos(v) {
				continue
			}
			if _, isConv := v.(*ssa.Convert); isConv {
				continue
			}
			if in.Block() != loop.header && !in.Block().Dominates(loop.header) {
				continue
			}
			if top == nil {
				top = v
				continue
			}
			// the later one (the clamped value) wins
			ti := top.(ssa.Instruction)
			if instrDominates(ti, in) {
				top = v
			}
		}
	}
	var window ssa.Value
	for _, b := range g.Blocks {
		for _, in := range b.Instrs {
			if cv, ok := in.(*ssa.Convert); ok {
				if _, f, _, okF := fieldLoad(cv.X); okF && f == "replayProtectionWindow" {
					window = cv
				}
			}
		}
	}
	if top == nil || window == nil {
		return "the exported position or the window size is not read in the marking function", false
	}
	// induction variable
	var ind *ssa.Phi
	var start ssa.Value
	for _, in := range loop.header.Instrs {
		phi, ok := in.(*ssa.Phi)
		if !ok {
			break
		}
		okStep := true
		var st ssa.Value
		for i, p := range loop.header.Preds {
			if loop.blocks[p] {
				inc, isB := stripConv(phi.Edges[i]).(*ssa.BinOp)
				k, isK := int64(0), false
				if isB {
					k, isK = constInt(inc.Y)
				}
				if !isB || inc.Op != token.ADD || stripConv(inc.X) != ssa.Value(phi) || !isK || k != 1 {
					okStep = false
				}
			} else {
				st = phi.Edges[i]
			}
		}
		if okStep && st != nil {
			ind, start = phi, st
		}
	}
	if ind == nil {
		return "the marking loop has no counter that advances by one", false
	}
	// the call runs on every turn
	for _, l := range loop.latches {
		if !check.Block().Dominates(l) {
			return "the detector is not asked on every turn of the marking loop", false
		}
	}
	exactUnsigned64 = true
	defer func() { exactUnsigned64 = false }()
	a := freshAnExactUnsigned(g)
	arg := a.linOf(check.Call.Args[0], 0)
	iAt := atom{akVal, ssa.Value(ind)}
	coef := arg.c[iAt]
	if !arg.ok || (coef != 1 && coef != -1) {
		return "the number marked is not (something) plus or minus the loop counter", false
	}
	// the range may be computed by a helper that is handed the position and the window and
	// answers (first, count): then the two edge obligations are proved inside the helper, on what
	// it returns, and the loop here has to run from first to first+count-1
	if ex, isEx := start.(*ssa.Extract); isEx && coef == 1 {
		if hc, isCall := ex.Tuple.(*ssa.Call); isCall {
			if h := hc.Call.StaticCallee(); h != nil && inModule(h) && len(h.Blocks) > 0 && len(hc.Call.Args) == len(h.Params) {
				return c.windowCoverageViaHelper(g, a, loop, check, ind, ex, hc, h, top, window)
			}
		}
	}
	topL, winL := a.linOf(top, 0), a.linOf(window, 0)
	first := arg.subst(iAt, a.linOf(start, 0))
	lastOf := func() lin { return arg.subst(iAt, single(iAt).add(konst(1), -1)) }
	// "x is at or below the old edge of the window": x <= 0 or x + window <= top + 1
	oldEdge := func(x lin) []lin {
		return []lin{x.scale(-1), topL.add(konst(1), 1).add(x, -1).add(winL, -1)}
	}
	newest := func(x lin) lin { return x.add(topL, -1) } // x >= top
	entryFacts := append([]cons{}, a.blockFacts(loop.header)...)
	type exit struct {
		from, to *ssa.BasicBlock
	}
	var exits []exit
	for b := range loop.blocks {
		for _, su := range b.Succs {
			if !loop.blocks[su] {
				exits = append(exits, exit{b, su})
			}
		}
	}
	sort.Slice(exits, func(i, j int) bool { return exits[i].from.Index < exits[j].from.Index })
	exitFacts := func(e exit) []cons {
		fs := append([]cons{}, a.blockFacts(e.from)...)
		if iff, ok := e.from.Instrs[len(e.from.Instrs)-1].(*ssa.If); ok && e.from.Succs[0] != e.from.Succs[1] {
			fs = append(fs, a.condFacts(iff.Cond, e.from.Succs[0] == e.to)...)
		}
		return fs
	}
	if coef == 1 {
		if !a.proveAny(entryFacts, oldEdge(first), 0) {
			return "the oldest number it marks can be younger than position - window + 1: the numbers between the two are accepted once more by the resumed connection", true
		}
		for _, e := range exits {
			if !check.Block().Dominates(e.from) && e.from != loop.header && !e.from.Dominates(check.Block()) {
				continue
			}
			if !a.proveAny(exitFacts(e), []lin{newest(lastOf())}, 0) {
				return "the marking loop can stop (" + c.ipos(e.from.Instrs[len(e.from.Instrs)-1]) + ") before it has reached the exported position: the newest numbers are accepted once more by the resumed connection", true
			}
		}
		return "", true
	}
	if !a.proveAny(entryFacts, []lin{newest(first)}, 0) {
		return "the newest number it marks is not the exported position", true
	}
	for _, e := range exits {
		if !a.proveAny(exitFacts(e), oldEdge(lastOf()), 0) {
			return "the marking loop can stop (" + c.ipos(e.from.Instrs[len(e.from.Instrs)-1]) + ") before it has reached the old edge of the window (position - window + 1, or 0): the numbers left out are accepted once more by the resumed connection", true
		}
	}
	return "", true
}

// rulePreliminaryReadsClassified (C08): "datagrams that cannot be parsed as DTLS records ... are
// dropped, and the endpoint keeps serving": the error of the datagram reader
// (readAndProcessDatagram) never ends a handshake unclassified. In the function that calls the
// reader the error is handed to classifyReadLoopError and, with the verdict "continue", no error
// leaves the function; or the function returns the error and each of its callers (callers of
// callers, three levels) does so. The endpoints that offer two versions read their first
// datagrams outside the state machines' read loop; a raw return there lets one undecodable
// datagram end the handshake.
func rulePreliminaryReadsClassified(c *Ctx, r *Report) {
	const rule = "preliminary-reads-classified"
	cont, okC := c.enumConsts("", "readLoopErrorAction")["readLoopContinue"]
	if !okC {
		r.Unk(rule, "readLoopContinue", "", "the read loop verdicts were not found")
		return
	}
	flowsFrom := func(v, src ssa.Value) bool {
		if v == src {
			return true
		}
		for _, l := range c.Origins(v, 0) {
			if l == src {
				return true
			}
		}
		return false
	}
	var classified func(fn *ssa.Function, e ssa.Value, depth int) string
	classified = func(fn *ssa.Function, e ssa.Value, depth int) string {
		if depth > 3 {
			return "the error is still unclassified three callers up from the reader (" + short(fn) + ")"
		}
		// handed to the classifier here?
		for _, cl := range findCalls(fn, nameHasSuffix("dtls.Conn).classifyReadLoopError")) {
			if len(cl.Call.Args) < 2 || !flowsFrom(cl.Call.Args[1], e) {
				continue
			}
			w := &Walk{Fn: fn, Assume: func(v ssa.Value) (Val, bool) {
				if v == ssa.Value(cl) {
					return vInt(cont), true
				}
				if v == e {
					return vNil(false), true
				}
				return unknown, false
			}}
			w.FromEntry()
			leak := ""
			for _, ro := range w.Returns {
				last := len(ro.Vals) - 1
				res := retResults(ro.Ret)
				if last < 0 || !isErrorType(res[last].Type()) {
					continue
				}
				if !w.Reached[cl] {
					continue
				}
				if !(ro.Vals[last].Kind == 2 && ro.Vals[last].B) && instrReaches(cl, ro.Ret) {
					leak = c.ipos(ro.Ret)
				}
			}
			if leak == "" {
				return ""
			}
			return short(fn) + " classifies the error but still returns one (" + leak + ") when the verdict is to drop the datagram"
		}
		// returned to the callers?
		returned := false
		idx := -1
		for _, b := range fn.Blocks {
			if ret, ok := b.Instrs[len(b.Instrs)-1].(*ssa.Return); ok {
				for i, rv := range retResults(ret) {
					if isErrorType(rv.Type()) && flowsFrom(rv, e) {
						returned, idx = true, i
					}
				}
			}
		}
		if !returned {
			return ""
		}
		sites, closed := c.staticCallers(fn)
		if !closed || len(sites) == 0 {
			return short(fn) + " returns the reader's error as it is, to callers that are not all known"
		}
		for _, s := range sites {
			call, ok := s.Call.(*ssa.Call)
			if !ok {
				// go / defer: the result is dropped
				continue
			}
			rv := resultValue(call, idx)
			if rv == nil {
				continue
			}
			if why := classified(s.Fn, rv, depth+1); why != "" {
				return why
			}
		}
		return ""
	}
	n := 0
	for _, s := range c.CallsTo(nameHasSuffix("dtls.Conn).readAndProcessDatagram")) {
		call, ok := s.Call.(*ssa.Call)
		if !ok || !inModule(s.Fn) {
			continue
		}
		n++
		r.Sites += len(s.Fn.Blocks)
		e := resultValue(call, call.Call.Signature().Results().Len()-1)
		why := ""
		if e != nil {
			why = classified(s.Fn, e, 0)
		}
		r.Check(why == "", rule, short(s.Fn), c.ipos(call), "the reader's error reaches a caller only after classifyReadLoopError had its say", "a datagram that cannot be parsed ends the handshake instead of being dropped: "+why)
	}
	r.Floor(rule, n, 2)
}

// ruleCloseNotifyOnce (C16): "sends close_notify at most once", for every interleaving of the two
// senders - the answer to the peer's close_notify on the read path and the announcement of a
// local Close. Both go through (*Conn).notify; there the close_notify alert passes an atomic
// test-and-set on a field of the connection, and when the flag was already set nothing is
// written. A guard that only looks at "is the connection closed" leaves a window between the
// answer and the close in which a concurrent Close sends a second one.
func ruleCloseNotifyOnce(c *Ctx, r *Report) {
	const rule = "close-notify-once"
	fn := c.need(r, rule, "(*dtls.Conn).notify")
	if fn == nil {
		return
	}
	r.Sites += len(fn.Blocks)
	closeNotify, ok := c.enumConsts("pkg/protocol/alert", "Description")["CloseNotify"]
	if !ok {
		r.Unk(rule, short(fn), c.pos(fn.Pos()), "alert.CloseNotify not found")
		return
	}
	var desc *ssa.Parameter
	for _, p := range fn.Params {
		if strings.HasSuffix(namedOrType(p.Type()), "alert.Description") {
			desc = p
		}
	}
	writes := findCalls(fn, nameHasSuffix("dtls.Conn).writePackets"))
	if desc == nil || len(writes) == 0 {
		r.Unk(rule, short(fn), c.pos(fn.Pos()), "notify no longer takes a description and writes a packet")
		return
	}
	var guards []*ssa.Call
	for _, cl := range findCalls(fn, func(nm string) bool {
		return strings.HasPrefix(nm, "(*sync/atomic.") && (strings.HasSuffix(nm, ").Swap") || strings.HasSuffix(nm, ").CompareAndSwap"))
	}) {
		if _, _, _, isField := fieldOfAddr(cl.Call.Args[0]); isField {
			guards = append(guards, cl)
		}
	}
	if len(guards) == 0 {
		r.Bad(rule, short(fn), c.pos(fn.Pos()), "a close_notify alert is written without an atomic test-and-set of a per-connection flag: the answer to the peer's close_notify and a concurrent local Close each send one (the closed state is only set after the answer has been written)")
		return
	}
	isGuard := map[ssa.Value]bool{}
	for _, g := range guards {
		isGuard[g] = true
	}
	w := &Walk{Fn: fn, Assume: func(v ssa.Value) (Val, bool) {
		if cl, ok := v.(*ssa.Call); ok && isGuard[v] {
			if strings.HasSuffix(calleeName(&cl.Call), ").Swap") {
				return vBool(true), true // the flag was set already
			}
			return vBool(false), true // the exchange failed: somebody else set it
		}
		if bo, ok := v.(*ssa.BinOp); ok && (bo.Op == token.EQL || bo.Op == token.NEQ) {
			for _, pr := range [][2]ssa.Value{{bo.X, bo.Y}, {bo.Y, bo.X}} {
				if stripConv(pr[0]) == ssa.Value(desc) {
					if k, isK := constInt(pr[1]); isK {
						return vBool((k == closeNotify) == (bo.Op == token.EQL)), true
					}
				}
			}
		}
		return unknown, false
	}}
	w.FromEntry()
	sent := ""
	for _, wr := range writes {
		if w.Reached[wr] {
			sent = c.ipos(wr)
		}
	}
	r.Check(sent == "" && !w.overflow, rule, short(fn), c.pos(fn.Pos()), "a second close_notify (the per-connection flag is already set) writes nothing", "a close_notify is written ("+sent+") although the per-connection flag says one went out already")
}

// ruleReplayWindowWordAligned (C06): "for every replay-window size". The window bitmap lives in
// the pinned dependency (pion/transport replaydetector, fixedBigInt): after every shift it trims
// the top 64-bit word with a mask that the reviewed source computes as (1 << (64 - n%64)) - 1,
// which keeps the right bits only when n is a multiple of 64 (or n%64 is 32); for the other sizes
// accepted record numbers are forgotten and accepted again. The rule reads that expression from
// the dependency as it is loaded; while it has the defective form, every size this module hands
// to replaydetector.New must be a multiple of 64: the normalising helper that the configured
// size passes through returns, on every path, a constant multiple of 64 or a value rounded to one
// ((x + 63) / 64 * 64 and the equivalent shapes).
func ruleReplayWindowWordAligned(c *Ctx, r *Report) {
	const rule = "replay-window-word-aligned"
	// 1. the dependency
	defective, found := false, false
	var depFns []*ssa.Function
	for path, sp := range c.ByPath {
		if strings.HasSuffix(path, "transport/v4/replaydetector") {
			if f := sp.Func("newFixedBigInt"); f != nil {
				depFns = append(depFns, f)
			}
		}
	}
	for _, fn := range depFns {
		for _, b := range fn.Blocks {
			for _, in := range b.Instrs {
				st, ok := in.(*ssa.Store)
				if !ok {
					continue
				}
				if _, f, _, okF := fieldOfAddr(st.Addr); !okF || f != "msbMask" {
					continue
				}
				found = true
				// (1 << S) - 1 with S = 64 - n%64
				if sub, ok := st.Val.(*ssa.BinOp); ok && sub.Op == token.SUB {
					if shl, ok := sub.X.(*ssa.BinOp); ok && shl.Op == token.SHL {
						if amt, ok := stripConv(shl.Y).(*ssa.BinOp); ok && amt.Op == token.SUB {
							if _, isRem := stripConv(amt.Y).(*ssa.BinOp); isRem {
								defective = true
							}
						}
					}
				}
			}
		}
	}
	if !found {
		r.Unk(rule, "replaydetector.newFixedBigInt", "", "the window bitmap of the replay detector was not found in the loaded dependency")
		return
	}
	if !defective {
		r.OK(rule, "replaydetector.newFixedBigInt", "", "the dependency no longer trims the top word with (1 << (64 - n%64)) - 1: no alignment is required of this module")
		return
	}
	// 2. every size handed over is aligned
	var aligned func(v ssa.Value, d int) bool
	aligned = func(v ssa.Value, d int) bool {
		if d > 6 {
			return false
		}
		v = unspill(stripConv(v))
		switch x := v.(type) {
		case *ssa.Const:
			k, ok := constInt(x)
			return ok && k > 0 && k%64 == 0
		case *ssa.Phi:
			for _, e := range x.Edges {
				if !aligned(e, d+1) {
					return false
				}
			}
			return len(x.Edges) > 0
		case *ssa.BinOp:
			ky, isKy := constInt(x.Y)
			kx, isKx := constInt(x.X)
			switch x.Op {
			case token.MUL:
				return (isKy && ky%64 == 0 && ky != 0) || (isKx && kx%64 == 0 && kx != 0)
			case token.SHL:
				return isKy && ky >= 6
			case token.AND_NOT:
				return isKy && ky&63 == 63
			case token.AND:
				return isKy && ky&63 == 0
			}
		}
		return false
	}
	n := 0
	for _, s := range c.CallsTo(nameHasSuffix("transport/v4/replaydetector.New")) {
		call, ok := s.Call.(*ssa.Call)
		if !ok || !inModule(s.Fn) || len(call.Call.Args) == 0 {
			continue
		}
		n++
		r.Sites++
		// follow the size back through the fields it is copied through to where it is computed
		var why string
		seenF := map[string]bool{}
		var trace func(v ssa.Value, d int) bool
		trace = func(v ssa.Value, d int) bool {
			if d > 8 {
				why = "the origin of the size is too far to follow"
				return false
			}
			if aligned(v, 0) {
				return true
			}
			ls := c.Origins(v, 0)
			if len(ls) == 0 {
				ls = []ssa.Value{v}
			}
			for _, l := range ls {
				if aligned(l, 0) {
					continue
				}
				if o, f, _, ok := fieldLoad(l); ok {
					if seenF[o+"."+f] {
						continue
					}
					seenF[o+"."+f] = true
					stores := c.StoresTo(o, f)
					if len(stores) == 0 {
						why = "the size is read from " + o + "." + f + ", which is set from outside the module (a public option): " + c.describe(l)
						return false
					}
					for _, st := range stores {
						if !trace(st.Val, d+1) {
							return false
						}
					}
					continue
				}
				if cl, ok := l.(*ssa.Call); ok {
					if g := cl.Call.StaticCallee(); g != nil && inModule(g) && len(g.Blocks) > 0 && g.Signature.Results().Len() == 1 {
						for _, b := range g.Blocks {
							if ret, ok := b.Instrs[len(b.Instrs)-1].(*ssa.Return); ok {
								if !aligned(ret.Results[0], 0) {
									why = g.Name() + " can return a size that is not rounded to a multiple of 64 (" + c.ipos(ret) + ")"
									return false
								}
							}
						}
						continue
					}
				}
				why = "the size comes from " + c.describe(l)
				return false
			}
			return true
		}
		ok2 := trace(call.Call.Args[0], 0)
		r.Check(ok2, rule, short(s.Fn), c.ipos(call), "the window size handed to the replay detector is a multiple of 64", "the replay detector is created with a window size that need not be a multiple of 64 ("+why+"): for sizes with size%64 above 32 the dependency's bitmap forgets record numbers it has accepted each time the window advances, and those records are delivered a second time when the network repeats them")
	}
	r.Floor(rule, n, 1)
}

// ruleResumableSessionsUseEMS (C11): "a side that requires extended master secret never completes
// without it" includes the abbreviated handshake, which is keyed from a stored master secret
// whatever the new hellos say. The session record has no room for how its secret was derived, so
// the library keeps only sessions made with the extension, and resumes one only when the new
// hellos negotiate the extension again (RFC 7627 5.3): with State12.ExtendedMasterSecret false,
// no call of the SetSession hook is reachable, the server's resume helper cannot answer with the
// abbreviated flight, and the client does not enter its resumption path.
func ruleResumableSessionsUseEMS(c *Ctx, r *Report) {
	const rule = "resumable-sessions-use-ems"
	noEMS := atomAssume{mLoad(tSt12, "ExtendedMasterSecret"), vBool(false)}
	n := 0
	// (a) stores
	for _, fn := range c.fnsOfPkg(pkgF12) {
		for _, b := range fn.Blocks {
			for _, in := range b.Instrs {
				call, ok := in.(*ssa.Call)
				if !ok || call.Call.IsInvoke() || call.Call.StaticCallee() != nil {
					continue
				}
				if _, f, _, okF := fieldLoad(call.Call.Value); !okF || f != "SetSession" {
					continue
				}
				n++
				r.Sites += len(fn.Blocks)
				w := (&Walk{Fn: fn, Assume: assumeAll(noEMS)}).FromEntry()
				r.Check(!w.Reached[call] && !w.overflow, rule, short(fn)+":store", c.ipos(call), "a session is stored only when its master secret was derived with the extension", "a session whose master secret was derived without extended_master_secret is stored for resumption: a later handshake in which both sides require the extension resumes it, the hellos carry the extension, both policy checks pass, and the connection is keyed from the legacy master secret")
			}
		}
	}
	// (b) the server's resume helper
	fl := c.enumConsts(pkgF12, "Flight")
	if hr := c.need(r, rule, pkgF12+".handleHelloResume"); hr != nil {
		n++
		r.Sites += len(hr.Blocks)
		w := (&Walk{Fn: hr, Assume: assumeAll(noEMS)}).FromEntry()
		abbreviated := ""
		for _, ro := range w.Returns {
			if ro.Vals[0] == vInt(fl["Flight4b"]) {
				abbreviated = c.ipos(ro.Ret)
			}
		}
		r.Check(abbreviated == "" && !w.overflow, rule, short(hr)+":resume", c.pos(hr.Pos()), "no abbreviated handshake for a ClientHello that does not negotiate the extension", "the server resumes a stored session ("+abbreviated+") although the new ClientHello does not negotiate extended_master_secret")
	}
	// (c) the client's resumption path
	for _, s := range c.CallsToName(pkgF12 + ".handleResumption") {
		call, ok := s.Call.(*ssa.Call)
		if !ok {
			continue
		}
		n++
		r.Sites += len(s.Fn.Blocks)
		w := (&Walk{Fn: s.Fn, Assume: assumeAll(noEMS)}).FromEntry()
		r.Check(!w.Reached[call] && !w.overflow, rule, short(s.Fn)+":resume", c.ipos(call), "the client follows a resuming ServerHello only if it carries the extension", "the client follows a ServerHello that resumes its stored session although that ServerHello does not carry extended_master_secret")
	}
	r.Floor(rule, n, 4)
}

// ruleReassemblySeparatesEpochs (C12): "the receiver reconstructs exactly the original message ...
// whatever the ... interleaving of fragments of different messages": a fragment that arrives in an
// unprotected epoch-0 record and claims the message sequence of a message the peer is sending in
// a protected epoch is a fragment of a different message. The reassembly buffer must keep the two
// apart: the record epoch is part of the key of the reassembly entry, or the epoch of an arriving
// fragment is compared with the epoch of what is stored before it is filed. (Decided as a
// structural necessary condition; the current code does neither - see known findings.)
func ruleReassemblySeparatesEpochs(c *Ctx, r *Report) {
	const rule = "reassembly-separates-epochs"
	fn := c.need(r, rule, "(*internal/fragmentbuffer.FragmentBuffer).pushHandshakeFragments")
	if fn == nil {
		return
	}
	separated := false
	for _, u := range c.unitFuncs(fn) {
		r.Sites += len(u.Blocks)
		for _, b := range u.Blocks {
			for _, in := range b.Instrs {
				switch x := in.(type) {
				case *ssa.BinOp:
					for _, side := range []ssa.Value{x.X, x.Y} {
						if _, f, _, ok := fieldLoad(stripConv(side)); ok && f == "Epoch" {
							switch x.Op {
							case token.EQL, token.NEQ, token.LSS, token.LEQ, token.GTR, token.GEQ:
								separated = true
							}
						}
					}
				case *ssa.Lookup:
					// a map keyed by something that includes the epoch
					if mt, ok := x.X.Type().Underlying().(*types.Map); ok {
						if st, ok := mt.Key().Underlying().(*types.Struct); ok {
							for i := 0; i < st.NumFields(); i++ {
								if strings.EqualFold(st.Field(i).Name(), "epoch") {
									separated = true
								}
							}
						}
					}
				}
			}
		}
	}
	r.Check(separated, rule, short(fn), c.pos(fn.Pos()), "fragments are filed by record epoch as well as message sequence", "fragments are filed under their message sequence alone and the epoch of the record they came in is never looked at: an unprotected epoch-0 fragment that anyone can send is merged into - or takes the place of - the message the peer sends under protection with the same message sequence, the forged message is surfaced, the delivery cursor moves past it, and the genuine message and all its retransmissions are dropped as retransmissions")
}

// ruleMTUFitsReceiveBuffer (C12): "for every message length and MTU ... the receiver reconstructs":
// a fragment is cut to the configured MTU, the receiver reads datagrams into a buffer of fixed size;
// an MTU the library accepts must not produce datagrams its own receiver truncates. The function
// that normalises the configured MTU (or the option that sets it) bounds it from above by a
// constant no larger than the receive buffer. (The current code has no upper bound - see known
// findings.)
func ruleMTUFitsReceiveBuffer(c *Ctx, r *Report) {
	const rule = "mtu-fits-receive-buffer"
	bufSize := int64(0)
	for _, fn := range c.Fns {
		if !inModule(fn) || fn.Pkg == nil || fn.Pkg.Pkg.Name() != "dtls" {
			continue
		}
		for _, b := range fn.Blocks {
			for _, in := range b.Instrs {
				if ms, ok := in.(*ssa.MakeSlice); ok && strings.Contains(short(fn), "poolReadBuffer") || ok && fn.Name() == "init" {
					_ = ms
				}
			}
		}
	}
	if pk := c.Pkg(""); pk != nil {
		if k, ok := pk.Members["inboundBufferSize"].(*ssa.NamedConst); ok {
			if v, okV := constInt(k.Value); okV {
				bufSize = v
			}
		}
	}
	if bufSize == 0 {
		r.Unk(rule, "inboundBufferSize", "", "the size of the receive buffer was not found")
		return
	}
	bounded := false
	var where *ssa.Function
	for _, name := range []string{"dtls.effectiveMTU", "dtls.WithMTU", "dtls.WithMTU$1"} {
		fn := c.Fn(name)
		if fn == nil {
			continue
		}
		if where == nil {
			where = fn
		}
		r.Sites += len(fn.Blocks)
		for _, b := range fn.Blocks {
			for _, in := range b.Instrs {
				bo, ok := in.(*ssa.BinOp)
				if !ok {
					continue
				}
				switch bo.Op {
				case token.GTR, token.GEQ, token.LSS, token.LEQ:
					for _, pr := range [][2]ssa.Value{{bo.X, bo.Y}, {bo.Y, bo.X}} {
						if _, isP := stripConv(pr[0]).(*ssa.Parameter); isP {
							if k, isK := constInt(pr[1]); isK && k > 1000 && k <= bufSize {
								bounded = true
							}
						}
					}
				}
			}
		}
	}
	if where == nil {
		r.Unk(rule, "dtls.effectiveMTU", "", "the function that normalises the configured MTU was not found")
		return
	}
	r.Check(bounded, rule, short(where)+":upper-bound", c.pos(where.Pos()), fmt.Sprintf("the configured MTU is bounded by the receive buffer (%d bytes)", bufSize), fmt.Sprintf("any positive MTU is accepted, but the receiver reads datagrams into a fixed buffer of %d bytes: with an MTU above %d (the buffer less the 25 bytes of record and handshake header) every full-size fragment is truncated on receipt, refused, and refused again on every retransmission, so a message longer than the MTU is never reassembled and two endpoints of this library configured alike cannot complete a handshake", bufSize, bufSize-25))
}

// ruleImplicitHandshakeFollowsDeadline (C16): "deadlines interrupt blocked calls". Read and Write
// start with an implicit handshake; while that handshake waits for a silent peer the call is a
// blocked call like any other, so the handshake has to run under a context the read / write
// deadline cancels. The context-less Handshake() there leaves the deadline without effect until
// the handshake ends by itself. (The current code calls Handshake() - see known findings.)
func ruleImplicitHandshakeFollowsDeadline(c *Ctx, r *Report) {
	const rule = "implicit-handshake-follows-deadline"
	n := 0
	for _, inst := range []struct{ fn, deadline string }{
		{"(*dtls.Conn).Read", "readDeadline"}, {"(*dtls.Conn).Write", "writeDeadline"},
	} {
		fn := c.need(r, rule, inst.fn)
		if fn == nil {
			continue
		}
		r.Sites += len(fn.Blocks)
		for _, cl := range findCalls(fn, nameIs("(*dtls.Conn).Handshake", "(*dtls.Conn).HandshakeContext")) {
			n++
			good := false
			if calleeName(&cl.Call) == "(*dtls.Conn).HandshakeContext" && len(cl.Call.Args) == 2 {
				for _, l := range append(c.OriginsThrough(cl.Call.Args[1], 0), cl.Call.Args[1]) {
					if _, f, _, ok := fieldLoad(l); ok && f == inst.deadline {
						good = true
					}
					if call, ok := l.(*ssa.Call); ok {
						for _, a := range call.Call.Args {
							for _, l2 := range append(c.Origins(a, 0), a) {
								if _, f, _, ok := fieldLoad(l2); ok && f == inst.deadline {
									good = true
								}
							}
						}
					}
				}
			}
			r.Check(good, rule, short(fn)+":handshake", c.ipos(cl), "the implicit handshake runs under a context the "+inst.deadline+" cancels", "the implicit handshake of "+fn.Name()+" runs without a context (Handshake()): with a peer that stays silent the call retransmits for ever and a "+inst.deadline+" set before or during the call never interrupts it")
		}
	}
	r.Floor(rule, n, 2)
}

// ruleEarlyRecordSurvivesEpochChange (C06): "a record that arrives fewer sequence numbers behind
// the newest accepted record of its epoch than the window is delivered exactly once" - also the
// first record of a new epoch when it overtakes the datagram that carries ChangeCipherSpec. Such a
// record is queued; the queue has to be replayed at some point after the peer's ChangeCipherSpec
// moved the read epoch: in the function that moves it, in a DTLS 1.2 flight parser behind its pull
// of the peer's Finished, in the finished state of the DTLS 1.2 state machine, or in the read
// loop once the handshake is established. (The current code replays the queue only before the
// epoch change - see known findings.)
func ruleEarlyRecordSurvivesEpochChange(c *Ctx, r *Report) {
	const rule = "early-record-survives-epoch-change"
	ccs := c.need(r, rule, "(*dtls.Conn).handleChangeCipherSpecRecord")
	if ccs == nil {
		return
	}
	isDrain := func(cl *ssa.Call) bool {
		nm := calleeName(&cl.Call)
		return strings.HasSuffix(nm, "dtls.Conn).handleQueuedPackets") || strings.HasSuffix(nm, ".HandleQueuedPackets")
	}
	where := ""
	// in the function that moves the epoch, behind the move
	for _, mv := range findCalls(ccs, nameHasSuffix("dtls.Conn).setRemoteEpoch")) {
		for _, b := range ccs.Blocks {
			for _, in := range b.Instrs {
				if cl, ok := in.(*ssa.Call); ok && isDrain(cl) && instrReaches(mv, cl) {
					where = c.ipos(cl)
				}
			}
		}
	}
	// behind the pull of the peer's Finished in a DTLS 1.2 parser
	for _, fn := range c.fnsOfPkg(pkgF12) {
		r.Sites += len(fn.Blocks)
		var pulls []*ssa.Call
		for _, cl := range findCalls(fn, nameHasSuffix("Cache).FullPullMapItems")) {
			if rl, ok := c.ruleList(cl.Call.Args[len(cl.Call.Args)-1], 0); ok && strings.Contains(rulesString(rl), "Finished@E+1") {
				pulls = append(pulls, cl)
			}
		}
		for _, p := range pulls {
			for _, b := range fn.Blocks {
				for _, in := range b.Instrs {
					if cl, ok := in.(*ssa.Call); ok && isDrain(cl) && instrReaches(p, cl) && instrDominates(p, cl) {
						where = c.ipos(cl)
					}
				}
			}
		}
	}
	// in the finished state of the DTLS 1.2 machine, or in the read loop under "established"
	for _, name := range []string{"(*" + pkgHS + ".fsm12).finish", "(*dtls.Conn).readAndBuffer", "(*dtls.Conn).readLoop"} {
		if fn := c.Fn(name); fn != nil {
			for _, u := range c.unitFuncs(fn) {
				for _, b := range u.Blocks {
					for _, in := range b.Instrs {
						if cl, ok := in.(*ssa.Call); ok && isDrain(cl) {
							where = c.ipos(cl)
						}
					}
				}
			}
		}
	}
	r.Check(where != "", rule, short(ccs)+":queue-replayed", c.pos(ccs.Pos()), "records queued for the next epoch are replayed after the read epoch moved ("+where+")", "records that were queued because they arrived ahead of the peer's ChangeCipherSpec are replayed only by flight parsers that run before the epoch change; nothing replays the queue once ChangeCipherSpec and Finished have been processed, so an application record that overtakes the datagram carrying them - a plain reordering of two consecutive datagrams - is never delivered")
}

// windowCoverageViaHelper: see windowCoverage. h returns (first, count) - in some order - computed
// from the exported position and the window size it is handed.
func (c *Ctx) windowCoverageViaHelper(g *ssa.Function, a *fnAn, loop *natLoop, check *ssa.Call, ind *ssa.Phi, firstEx *ssa.Extract, hc *ssa.Call, h *ssa.Function, top, window ssa.Value) (string, bool) {
	// which parameters of the helper are the position and the window
	pTop, pWin := -1, -1
	for i, arg := range hc.Call.Args {
		if arg == top || stripConv(arg) == stripConv(top) {
			pTop = i
		}
		if arg == window || stripConv(arg) == stripConv(window) {
			pWin = i
		}
	}
	if pTop < 0 || pWin < 0 {
		return "the helper that computes the range is not handed the exported position and the window size", false
	}
	var rets []*ssa.Return
	for _, b := range h.Blocks {
		if r, ok := b.Instrs[len(b.Instrs)-1].(*ssa.Return); ok && b != h.Recover {
			if len(r.Results) != 2 {
				return "the helper that computes the range does not return (first, count)", false
			}
			rets = append(rets, r)
		}
	}
	if len(rets) == 0 || len(rets) > 4 {
		return "the helper that computes the range does not return (first, count)", false
	}
	// the count is the other result, and the loop here stops at first+count
	countIdx := 1 - firstEx.Index
	var countEx ssa.Value
	for _, ref := range *hc.Referrers() {
		if e, ok := ref.(*ssa.Extract); ok && e.Index == countIdx {
			countEx = e
		}
	}
	if countEx == nil {
		return "the count the helper returns is not used", false
	}
	iAt := atom{akVal, ssa.Value(ind)}
	secondIsEnd, provedAsCount := false, false
	firstL, countL := a.linOf(firstEx, 0), a.linOf(countEx, 0)
	lastMarked := single(iAt).add(konst(1), -1) // on an exit the counter is one past the last number asked about
	for b := range loop.blocks {
		for _, su := range b.Succs {
			if loop.blocks[su] {
				continue
			}
			fs := append([]cons{}, a.blockFacts(b)...)
			if iff, ok := b.Instrs[len(b.Instrs)-1].(*ssa.If); ok && b.Succs[0] != b.Succs[1] {
				fs = append(fs, a.condFacts(iff.Cond, b.Succs[0] == su)...)
			}
			// last >= first + count - 1, or - when the second result is the end of the range,
			// one past its newest number - last >= end - 1
			goal := lastMarked.add(firstL, -1).add(countL, -1).add(konst(1), 1)
			goalEnd := lastMarked.add(countL, -1).add(konst(1), 1)
			switch {
			case !secondIsEnd && a.proveAny(fs, []lin{goal}, 0):
			case a.proveAny(fs, []lin{goalEnd}, 0) && !provedAsCount:
				secondIsEnd = true
			default:
				return "the marking loop can stop (" + c.ipos(b.Instrs[len(b.Instrs)-1]) + ") before it has asked about the newest number of the range its helper computed", true
			}
			if !secondIsEnd {
				provedAsCount = true
			}
		}
	}
	// inside the helper: first is at or below the old edge, first+count-1 reaches the position
	ah := freshAnExactUnsigned(h)
	// the position as the helper sees it: its parameter, or the parameter clamped by a constant
	var topH ssa.Value = h.Params[pTop]
	for _, b := range h.Blocks {
		for _, in := range b.Instrs {
			if cl, ok := in.(*ssa.Call); ok && calleeName(&cl.Call) == "builtin:min" && len(cl.Call.Args) == 2 {
				_, k0 := cl.Call.Args[0].(*ssa.Const)
				_, k1 := cl.Call.Args[1].(*ssa.Const)
				if (cl.Call.Args[0] == ssa.Value(h.Params[pTop]) && k1) || (cl.Call.Args[1] == ssa.Value(h.Params[pTop]) && k0) {
					topH = cl
				}
			}
		}
	}
	topL, winL := ah.linOf(topH, 0), ah.linOf(h.Params[pWin], 0)
	for _, ret := range rets {
		fL, cL := ah.linOf(ret.Results[firstEx.Index], 0), ah.linOf(ret.Results[countIdx], 0)
		facts := append([]cons{}, ah.blockFacts(ret.Block())...)
		oldEdge := []lin{fL.scale(-1), topL.add(konst(1), 1).add(fL, -1).add(winL, -1)}
		if !ah.proveAny(facts, oldEdge, 0) {
			return "the oldest number " + short(h) + " hands back can be younger than position - window + 1: the numbers between the two are accepted once more by the resumed connection", true
		}
		newest := fL.add(cL, 1).add(konst(1), -1).add(topL, -1)
		if secondIsEnd {
			newest = cL.add(konst(1), -1).add(topL, -1)
		}
		if !ah.proveAny(facts, []lin{newest}, 0) {
			return "the range " + short(h) + " hands back can end before the exported position: the newest numbers are accepted once more by the resumed connection", true
		}
	}
	return "", true
}
