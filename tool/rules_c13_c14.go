package main

import (
	"fmt"
	"go/token"
	"go/types"
	"sort"
	"strings"

	"golang.org/x/tools/go/ssa"
)

// generatorTable extracts Flight -> (generator function, retransmit flag) from GetGenerator.
type genRow struct {
	gen        *ssa.Function
	retransmit Val
	ok         Val
	ret        *ssa.Return
}

func (c *Ctx) generatorTable(r *Report, rule, pkg string) map[string]genRow {
	fn := c.need(r, rule, pkg+".GetGenerator")
	if fn == nil {
		return nil
	}
	enum := c.enumConsts(pkg, "Flight")
	out := map[string]genRow{}
	for name, ro := range switchTable(fn, 0, enum) {
		if ro == nil || len(ro.Raw) != 3 {
			r.Unk(rule, pkg+".GetGenerator:"+name, "", "no unique return for this flight")
			continue
		}
		row := genRow{ret: ro.Ret}
		row.gen = funcOfValue(ro.Raw[0])
		if row.gen == nil {
			// adaptFlightGenerator(f): take the adapted function
			if call, ok := ro.Raw[0].(*ssa.Call); ok && len(call.Call.Args) == 1 {
				row.gen = funcOfValue(resolvePhis(call.Call.Args[0], ro.RawEnv))
			}
		}
		if b, ok := constBool(resolvePhis(ro.Raw[1], ro.RawEnv)); ok {
			row.retransmit = vBool(b)
		}
		if b, ok := constBool(resolvePhis(ro.Raw[2], ro.RawEnv)); ok {
			row.ok = vBool(b)
		}
		out[name] = row
	}
	return out
}

// ruleCookieFlight (C13, C17): the cookie-request flight of both versions is flagged
// non-retransmittable, consists of exactly one HelloVerifyRequest / HelloRetryRequest, and the
// retransmission timer honours the flag.
func ruleCookieFlight(c *Ctx, r *Report) {
	const rule = "cookie-flight"
	for _, pkg := range []string{pkgF12, pkgF13} {
		tbl := c.generatorTable(r, rule, pkg)
		if tbl == nil {
			continue
		}
		n := 0
		for _, name := range sortedKeys(tbl) {
			row := tbl[name]
			key := pkg + ":" + name
			if row.ok != vBool(true) || row.gen == nil {
				r.Bad("registry-total", key, c.ipos(row.ret), "flight constant without a generator")
				continue
			}
			n++
			want := name != "Flight2"
			r.Check(row.retransmit == vBool(want), rule, key+":retransmit", c.ipos(row.ret), fmt.Sprintf("retransmit=%s", row.retransmit),
				map[bool]string{true: "the cookie request (HelloVerifyRequest / HelloRetryRequest) is handed to the retransmission timer: a spoofed ClientHello draws repeated responses", false: "a flight that awaits a reply is not timer-retransmitted: a single loss stalls the handshake"}[!want])
			if name == "Flight2" {
				// exactly one packet: the cookie request
				var lits []pktLit
				for _, p := range c.packetLiterals() {
					if p.fn == row.gen {
						lits = append(lits, p)
					}
				}
				wantMsg := "pkg/protocol/handshake.MessageHelloVerifyRequest"
				if pkg == pkgF13 {
					wantMsg = "pkg/protocol/handshake.MessageServerHello"
				}
				ok := len(lits) == 1 && lits[0].message == wantMsg
				r.Check(ok, rule, key+":content", c.pos(row.gen.Pos()), "the flight is a single "+strings.TrimPrefix(wantMsg, "pkg/protocol/handshake."), "the cookie-request flight no longer consists of exactly one cookie request message")
				if pkg == pkgF13 && ok {
					// the ServerHello is an HRR: its random is the HelloRetryRequest magic
					hrr := len(findCalls(row.gen, nameHasSuffix("handshake.HelloRetryRequestRandom"))) > 0
					r.Check(hrr, rule, key+":hrr-random", c.pos(row.gen.Pos()), "ServerHello carries the HelloRetryRequest random", "the DTLS 1.3 cookie flight sends a real ServerHello instead of a HelloRetryRequest")
				}
			}
		}
		r.Floor(rule+":"+pkg, n, 6)
	}
	// the FSMs take the flag from the table and the timer obeys it
	for _, fsm := range []string{"fsm12", "fsm13"} {
		sts := c.StoresTo("internal/handshake."+fsm, "retransmit")
		n := 0
		for _, st := range sts {
			if k, isC := constBool(st.Val); isC && !k {
				continue
			}
			if al := allocOf(st.Base); al != nil {
				r.Note(rule, fsm+".retransmit<-"+short(st.Fn)+":initial", c.ipos(st.Instr), "initial value set by the constructor for caller-supplied first flights")
				continue
			}
			n++
			ls := c.Origins(st.Val, 0)
			ok := allLeaves(ls, func(v ssa.Value) bool {
				ex, isEx := v.(*ssa.Extract)
				if !isEx || ex.Index != 1 {
					return false
				}
				call, isCall := ex.Tuple.(*ssa.Call)
				return isCall && strings.HasSuffix(calleeName(&call.Call), ".GetGenerator")
			})
			r.Check(ok, rule, fsm+".retransmit<-"+short(st.Fn), c.ipos(st.Instr), "retransmit flag = GetGenerator's second result", "the FSM's retransmit flag is not taken from the generator table: "+c.describeAll(ls))
		}
		r.Floor(rule+":"+fsm+"-flag", n, 1)
	}
	if fn := c.need(r, rule, "internal/handshake.handleRetransmitTimeout"); fn != nil {
		st := c.enumConsts("internal/handshake", "State")
		w := (&Walk{Fn: fn, Assume: func(v ssa.Value) (Val, bool) {
			if v == ssa.Value(fn.Params[0]) {
				return vBool(false), true
			}
			return unknown, false
		}}).FromEntry()
		good := len(w.Returns) > 0
		for _, ro := range w.Returns {
			if k, ok := constInt(ro.Raw[0]); !ok || k != st["StateWaiting"] {
				good = false
			}
		}
		r.Check(good, rule, short(fn)+":retransmit=false", c.pos(fn.Pos()), "retransmit=false -> StateWaiting (nothing is sent)", "the retransmission timeout sends a flight although its retransmit flag is false")
		w2 := (&Walk{Fn: fn, Assume: func(v ssa.Value) (Val, bool) {
			if v == ssa.Value(fn.Params[0]) {
				return vBool(true), true
			}
			return unknown, false
		}}).FromEntry()
		good = len(w2.Returns) > 0
		for _, ro := range w2.Returns {
			if k, ok := constInt(ro.Raw[0]); !ok || k != st["StateSending"] {
				good = false
			}
		}
		r.Check(good, rule, short(fn)+":retransmit=true", c.pos(fn.Pos()), "retransmit=true -> StateSending", "the retransmission timeout does not resend a retransmittable flight")
	}
}

// ruleCookieGate (C13): with hello verification on, the first-hello parser can only yield the
// cookie flight (or a resumption it knows); the certificate flight is produced only by the
// second-hello parser after the checked cookie/body validation against the issued cookie.
func ruleCookieGate(c *Ctx, r *Report) {
	const rule = "cookie-gate"
	type ver struct {
		pkg, stateT, validate string
		third                 func(v ssa.Value) bool
		thirdDesc             string
	}
	for _, v := range []ver{
		{pkgF12, tSt12, "internal/negotiation.ValidateHelloVerifyRequestResponse", func(x ssa.Value) bool { return isFieldLoad(x, tSt12, "Cookie") }, "state.Cookie"},
		{pkgF13, "internal/state.State13", "internal/negotiation.ValidateClientHelloRetry", func(x ssa.Value) bool { return isFieldLoad(x, "internal/state.State13", "HelloRetryRequest") }, "state.HelloRetryRequest"},
	} {
		fl := c.enumConsts(v.pkg, "Flight")
		f0 := c.need(r, rule, v.pkg+".flight0Parse")
		f2 := c.need(r, rule, v.pkg+".flight2Parse")
		if f0 == nil || f2 == nil {
			continue
		}
		r.Sites += len(f0.Blocks) + len(f2.Blocks)
		// first hello, verification on
		w := &Walk{Fn: f0, Assume: assumeAll(atomAssume{mLoad(tCfg, "InsecureSkipHelloVerify"), vBool(false)})}
		badNext := ""
		w.Visit = func(in ssa.Instruction, env Env) bool {
			if call, ok := in.(*ssa.Call); ok && calleeName(&call.Call) == v.pkg+".handleHelloResume" {
				nv := w.eval(call.Call.Args[len(call.Call.Args)-1], env)
				if nv != vInt(fl["Flight2"]) {
					badNext = "handleHelloResume is given next=" + nv.String()
				}
			}
			return true
		}
		w.FromEntry()
		okRet := len(w.Returns) > 0
		for _, ro := range w.Returns {
			res := unspill(ro.Ret.Results[0])
			if isCallResult(res, nameIs(v.pkg+".handleHelloResume")) {
				continue
			}
			if ro.Vals[0] == vInt(0) || ro.Vals[0] == vInt(fl["Flight2"]) {
				continue
			}
			okRet = false
			badNext = "a return yields flight " + ro.Vals[0].String()
		}
		// the same, decided on values: with the helpers of the package followed, every return of
		// the parser yields 'wait', the cookie flight or the abbreviated flight (which flight the
		// resumption helper falls back to may be computed inside it)
		allowed := func(v Val) bool {
			return v == vInt(0) || v == vInt(fl["Flight2"]) || (v == vInt(fl["Flight4b"]) && fl["Flight4b"] != 0)
		}
		followFlight := func(callee *ssa.Function) bool {
			// only helpers that answer with a flight: the rest of the parser's unit stays opaque
			res := callee.Signature.Results()
			return followSamePkg(f0)(callee) && res.Len() > 0 && strings.HasSuffix(namedOrType(res.At(0).Type()), ".Flight")
		}
		wf := (&Walk{Fn: f0, Follow: followFlight, Assume: assumeAll(atomAssume{mLoad(tCfg, "InsecureSkipHelloVerify"), vBool(false)})}).FromEntry()
		followOK := len(wf.Returns) > 0 && !wf.overflow
		for _, ro := range wf.Returns {
			if len(ro.Vals) == 0 || !allowed(ro.Vals[0]) {
				followOK = false
			}
		}
		if followOK {
			okRet, badNext = true, ""
		}
		r.Check(okRet && badNext == "", rule, short(f0), c.pos(f0.Pos()), "with hello verification on, the first ClientHello yields only 'wait', the cookie flight, or a resumption decided by handleHelloResume(next=Flight2)", "with hello verification on the first ClientHello can lead past the cookie flight: "+badNext)
		if hr := c.Fn(v.pkg + ".handleHelloResume"); hr != nil {
			// a tail call into a helper of the package that installs the session counts as what the
			// helper returns (failure or the abbreviated flight, never a parameter of its own)
			var retsOK func(fn *ssa.Function, d int) bool
			retsOK = func(fn *ssa.Function, d int) bool {
				for _, b := range fn.Blocks {
					ret, ok := b.Instrs[len(b.Instrs)-1].(*ssa.Return)
					if !ok || len(ret.Results) == 0 {
						continue
					}
					res := unspill(ret.Results[0])
					k, isC := constInt(res)
					_, isP := res.(*ssa.Parameter)
					if (isP && d == 0) || (isC && (k == 0 || k == fl["Flight4b"])) {
						continue
					}
					if ex, isEx := res.(*ssa.Extract); isEx && ex.Index == 0 && d < 2 {
						if call, isCall := ex.Tuple.(*ssa.Call); isCall {
							if g := call.Call.StaticCallee(); g != nil && g.Pkg == hr.Pkg && len(g.Blocks) > 0 && retsOK(g, d+1) {
								continue
							}
						}
					}
					return false
				}
				return true
			}
			good := retsOK(hr, 0)
			if !good {
				// or, on values: with hello verification on it yields failure, the cookie flight,
				// the abbreviated flight or what the caller handed it
				wh := (&Walk{Fn: hr, Follow: followFlight, Assume: assumeAll(atomAssume{mLoad(tCfg, "InsecureSkipHelloVerify"), vBool(false)})}).FromEntry()
				good = len(wh.Returns) > 0 && !wh.overflow
				for _, ro := range wh.Returns {
					_, isP := unspill(ro.Ret.Results[0]).(*ssa.Parameter)
					if !isP && (len(ro.Vals) == 0 || !allowed(ro.Vals[0])) {
						good = false
					}
				}
			}
			r.Check(good, rule, short(hr), c.pos(hr.Pos()), "returns only failure, the abbreviated flight of a known session, or the caller's next flight", "handleHelloResume can return a flight other than Flight4b / the caller's choice")
		}
		// second hello: success guarded by the validation, against the issued cookie
		vals := findCalls(f2, nameIs(v.validate))
		if len(vals) != 1 {
			r.Bad(rule, short(f2)+":validate", c.pos(f2.Pos()), "the second ClientHello is no longer validated by "+v.validate)
			continue
		}
		for _, b := range f2.Blocks {
			ret, ok := b.Instrs[len(b.Instrs)-1].(*ssa.Return)
			if !ok || !isAdvanceReturn(ret) {
				continue
			}
			// tail call into the first-hello parser (retransmitted first ClientHello) is the same gate
			if isCallResult(unspill(ret.Results[0]), nameIs(v.pkg+".flight0Parse")) {
				continue
			}
			ok2, why := guardedBy(vals[0], errResult(vals[0]), ret)
			r.Check(ok2, rule, short(f2)+":validated", c.ipos(ret), "the certificate flight is reached only after the second ClientHello validated", "the second-hello parser can advance without a successful cookie/body validation: "+why)
		}
		a := vals[0].Call.Args
		isSnap := func(x ssa.Value, m string) bool {
			return isCallResult(x, nameHasSuffix("ClientHelloSnapshots)."+m)) || isCallResult(x, nameHasSuffix("ClientHelloSnapshots)."+m+"$bound"))
		}
		r.Check(isSnap(a[0], "Initial") && isSnap(a[1], "Current"), rule, short(f2)+":compared-hellos", c.ipos(vals[0]), "compares the recorded first ClientHello with the current one", "the validation does not compare snapshots.Initial() with snapshots.Current()")
		r.Check(v.third(a[2]), rule, short(f2)+":issued-cookie", c.ipos(vals[0]), "expected cookie/request = "+v.thirdDesc, "the second ClientHello is not validated against the value the server issued ("+v.thirdDesc+"): "+c.describe(a[2]))
		// producers of the certificate flight constant
		for _, fn := range c.fnsOfPkg(v.pkg) {
			for _, b := range fn.Blocks {
				if ret, ok := b.Instrs[len(b.Instrs)-1].(*ssa.Return); ok && len(ret.Results) == 3 {
					for _, k := range flightConstsOfNoCalls(unspill(ret.Results[0])) {
						if k == fl["Flight4"] {
							okP := fn == f0 || fn == f2 || fn == c.Fn(v.pkg+".flight4Parse") && v.pkg == pkgF13
							r.Check(okP, rule, "Flight4-producer:"+short(fn), c.ipos(ret), "certificate flight produced by the gated parsers only", "a function other than the first/second ClientHello parsers can switch to the certificate flight")
						}
					}
				}
			}
		}
	}
	// the cookie itself: random, per connection
	for _, owner := range []string{tSt12, "internal/state.State13"} {
		n := 0
		for _, st := range c.StoresTo(owner, "Cookie") {
			k := int64(-1)
			switch x := st.Val.(type) {
			case *ssa.MakeSlice:
				k, _ = constInt(x.Len)
			case *ssa.Slice:
				if al, ok := x.X.(*ssa.Alloc); ok {
					if ln, ok := fixedLen(al); ok {
						k = ln
					}
				}
			}
			if k < 0 {
				// a copy or a reset: the value is a cookie taken from elsewhere (the peer's
				// HelloVerifyRequest, another state) or nothing; anything else is a cookie that was
				// computed, not drawn for this connection
				var foreign ssa.Value
				var look func(v ssa.Value, d int)
				look = func(v ssa.Value, d int) {
					if d > 4 {
						foreign = v
						return
					}
					for _, l := range c.Origins(v, 0) {
						switch x := l.(type) {
						case *ssa.Const, *ssa.Alloc, *ssa.MakeSlice:
						case *ssa.Call:
							nm := calleeName(&x.Call)
							if nm == "builtin:append" || nm == "bytes.Clone" || strings.HasPrefix(nm, "slices.Clone") {
								for _, a := range x.Call.Args {
									look(a, d+1)
								}
							} else {
								foreign = l
							}
						default:
							if _, f, _, ok := fieldLoad(l); ok && (f == "Cookie" || strings.HasSuffix(f, "Cookie")) {
								continue
							}
							if _, isPar := l.(*ssa.Parameter); isPar {
								continue
							}
							foreign = l
						}
					}
				}
				look(st.Val, 0)
				if foreign != nil {
					n++
					r.Bad(rule, "cookie<-"+short(st.Fn), c.ipos(st.Instr), "the cookie is neither fresh crypto/rand bytes drawn for this connection nor a copy of a cookie: it is computed from "+c.describe(foreign)+", so it is not tied to the connection (the peer address) that issued it - a cookie obtained from one address is accepted from any other")
					continue
				}
				r.Note(rule, "cookie<-"+short(st.Fn), c.ipos(st.Instr), "copy / reset of the cookie (client side or clone), not a generation site")
				continue
			}
			n++
			reads := findCalls(st.Fn, nameIs("crypto/rand.Read"))
			filled := false
			verifyOn := []atomAssume{{mLoad(tCfg, "InsecureSkipHelloVerify"), vBool(false)}}
			for _, rd := range reads {
				if isFieldLoad(rd.Call.Args[0], owner, "Cookie") {
					if ret := lastReturnNil(st.Fn); ret != nil {
						why := passesUnder(st.Fn, verifyOn, rd, errResult(rd), ret)
						filled = why == ""
					}
				}
				if !filled && (rd.Call.Args[0] == st.Val || isFieldLoad(rd.Call.Args[0], owner, "Cookie")) {
					// the buffer is drawn in a helper of its own: no return of the helper without
					// the read, none that can be nil after the read failed, and each caller gives
					// up when the helper fails
					mayBeNil := func(ro *RetOutcome) bool {
						last := len(ro.Vals) - 1
						return last < 0 || !(ro.Vals[last].Kind == 2 && !ro.Vals[last].B)
					}
					rd0 := rd
					w1 := &Walk{Fn: st.Fn, Assume: assumeAll(verifyOn...)}
					w1.Visit = func(in ssa.Instruction, _ Env) bool { return in != ssa.Instruction(rd0) }
					w1.FromEntry()
					okHelper := !w1.overflow
					for _, ro := range w1.Returns {
						if mayBeNil(ro) {
							okHelper = false
						}
					}
					fail := failAssumption(errResult(rd))
					w2 := (&Walk{Fn: st.Fn, Assume: func(v ssa.Value) (Val, bool) {
						if x, ok := fail(v); ok {
							return x, true
						}
						return assumeAll(verifyOn...)(v)
					}}).FromEntry()
					for _, ro := range w2.Returns {
						if mayBeNil(ro) {
							okHelper = false
						}
					}
					sites, complete := c.staticCallers(st.Fn)
					if !complete || len(sites) == 0 {
						okHelper = false
					}
					for _, cs := range sites {
						hc, isCall := cs.Call.(*ssa.Call)
						ret := lastReturnNil(cs.Fn)
						if !isCall || ret == nil || passesUnder(cs.Fn, verifyOn, hc, errResult(hc), ret) != "" {
							okHelper = false
						}
					}
					filled = okHelper
				}
			}
			r.Check(k >= 16 && filled, rule, "cookie<-"+short(st.Fn), c.ipos(st.Instr), fmt.Sprintf("cookie = %d fresh bytes from crypto/rand (checked) whenever hello verification is on", k), "the cookie is not a fresh crypto/rand value of at least 16 bytes on every path with hello verification on")
		}
		r.Floor(rule+":cookie-stores:"+owner, n, 1)
	}
}

func flightConstsOfNoCalls(v ssa.Value) []int64 {
	seen := map[ssa.Value]bool{}
	var rec func(v ssa.Value) []int64
	rec = func(v ssa.Value) []int64 {
		if seen[v] {
			return nil
		}
		seen[v] = true
		switch x := v.(type) {
		case *ssa.Const:
			if k, ok := constInt(x); ok {
				return []int64{k}
			}
		case *ssa.Phi:
			var out []int64
			for _, e := range x.Edges {
				out = append(out, rec(e)...)
			}
			return out
		}
		return nil
	}
	return rec(v)
}

// lastReturnNil: a return of fn whose error result is the nil constant (success exit).
func lastReturnNil(fn *ssa.Function) ssa.Instruction {
	var out ssa.Instruction
	for _, b := range fn.Blocks {
		if ret, ok := b.Instrs[len(b.Instrs)-1].(*ssa.Return); ok {
			res := retResults(ret)
			if isNilConst(res[len(res)-1]) {
				out = ret
			}
		}
	}
	return out
}

// ruleSessionStore (C14, C03): sessions become resumable only after the handshake they come from
// completed; resumed secrets come from the store entry of the offered ID; fatal alerts drop the
// session; hellos carry fresh randoms and connection IDs are renegotiated.
func ruleSessionStore(c *Ctx, r *Report) {
	const rule = "session-store"
	// (1) SetSession only on paths that go on to advance
	n := 0
	for _, fn := range c.fnsOfPkg(pkgF12) {
		for _, call := range dynCallsOfField(fn, tCfg, "SetSession") {
			n++
			r.Sites += len(fn.Blocks)
			c.onlyAdvancesAfter(r, rule, fn, call, 0)
			// what is stored: the negotiated ID and master secret
			a := call.Call.Args
			okArgs := isFieldLoad(a[1], tCom, "SessionID") && isFieldLoad(a[2], tSt12, "MasterSecret")
			r.Check(okArgs, rule, short(fn)+":stored-values", c.ipos(call), "stores (state.SessionID, state.MasterSecret)", "the stored session is not (state.SessionID, state.MasterSecret)")
		}
	}
	r.Floor(rule, n, 2)
	// (2) resumed master secret comes from the store, keyed by the offered id / the session key
	for _, st := range c.liftParamStores(c.StoresTo(tSt12, "MasterSecret")) {
		fn := st.Fn
		key := short(fn) + ":MasterSecret"
		if st.Via != nil {
			key = short(st.Via) + "<-" + key
		}
		ls := c.Origins(st.Val, 0)
		switch {
		case allLeaves(ls, func(v ssa.Value) bool {
			return isCallResult(v, nameIs("pkg/crypto/prf.MasterSecret", "pkg/crypto/prf.ExtendedMasterSecret"))
		}):
			r.OKTrivial("secret-source", key, c.ipos(st.Instr), "derived by the PRF")
		case allLeaves(ls, func(v ssa.Value) bool { return isFieldLoad(v, "dtls.State", "masterSecret") }):
			r.OKTrivial("secret-source", key, c.ipos(st.Instr), "imported state")
		case allLeaves(ls, func(v ssa.Value) bool {
			_, isMake := v.(*ssa.Alloc)
			k, isC := v.(*ssa.Const)
			return isMake || (isC && k.Value == nil) || isEmptySliceLit(v)
		}):
			r.OKTrivial("secret-source", key, c.ipos(st.Instr), "reset to empty (not resuming)")
		default:
			// from the session store
			var get *ssa.Call
			ok := allLeaves(ls, func(v ssa.Value) bool {
				ex, isEx := v.(*ssa.Extract)
				if !isEx || ex.Index != 1 {
					return false
				}
				call, isCall := ex.Tuple.(*ssa.Call)
				if !isCall || !isFieldLoad(call.Call.Value, tCfg, "GetSession") {
					return false
				}
				get = call
				return true
			})
			if !ok {
				r.Bad("secret-source", key, c.ipos(st.Instr), "State12.MasterSecret is written from a value that is neither PRF output, imported state, nor a session-store lookup: "+c.describeAll(ls))
				continue
			}
			// guarded by err == nil and id != nil
			okG, why := guardedBy(get, errResult(get), st.Instr)
			idV := resultValue(get, 0)
			w := (&Walk{Fn: fn, Assume: assumeAll(atomAssume{mValue(idV), vNil(true)})}).After(get)
			r.Check(okG && !w.Reached[st.Instr], "secret-source", key, c.ipos(st.Instr), "resumed secret taken only from a successful, non-empty store lookup", "a resumed master secret can be installed from a failed or empty store lookup: "+why)
			// ... and a record without a secret is no session either: how a store spells "not
			// found" is its own business (the zero value, or empty non-nil copies), and an
			// abbreviated handshake over an empty master secret authenticates nobody
			secV := resultValue(get, 1)
			isLenOf := func(x ssa.Value, of ssa.Value) bool {
				cl, ok := stripConv(x).(*ssa.Call)
				return ok && calleeName(&cl.Call) == "builtin:len" && cl.Call.Args[0] == of
			}
			w2 := (&Walk{Fn: fn, Assume: func(v ssa.Value) (Val, bool) {
				bo, ok := v.(*ssa.BinOp)
				if !ok || secV == nil {
					return unknown, false
				}
				k, isK := constInt(bo.Y)
				if !isLenOf(bo.X, secV) || !isK || k != 0 {
					return unknown, false
				}
				switch bo.Op { // the secret is empty
				case token.EQL, token.LEQ:
					return vBool(true), true
				case token.NEQ, token.GTR:
					return vBool(false), true
				}
				return unknown, false
			}}).After(get)
			r.Check(!w2.Reached[st.Instr], "secret-source", key+":non-empty-secret", c.ipos(st.Instr), "no session is resumed from a record whose secret is empty", "a store record with an empty secret counts as a known session (only the ID is compared with nil): a store that answers an unknown key with empty, non-nil slices makes every offered session ID resumable with an empty master secret, which any peer can compute the Finished for - and the abbreviated handshake skips certificates and client authentication")
			// key of the lookup
			k := get.Call.Args[0]
			isServer := strings.Contains(short(fn), "handleHelloResume")
			okKey := false
			if isServer {
				_, okKey = k.(*ssa.Parameter)
				// and every caller passes the offered session id
				for _, s := range c.CallsToName(short(fn)) {
					if cc, ok := s.Call.(*ssa.Call); ok {
						if !isFieldLoad(cc.Call.Args[0], "pkg/protocol/handshake.MessageClientHello", "SessionID") {
							okKey = false
						}
					}
				}
			} else {
				okKey = isCallResult(k, nameHasSuffix(".SessionKey"))
			}
			r.Check(okKey, "secret-source", key+":lookup-key", c.ipos(get), "lookup keyed by the offered session ID (server) / the peer's session key (client)", "the session lookup is not keyed by the offered session ID / the session key")
		}
	}
	// (3) client resumes only when the server echoed the offered ID
	if fn := c.need(r, rule, pkgF12+".flight3Parse"); fn != nil {
		for _, call := range findCalls(fn, nameIs(pkgF12+".handleResumption")) {
			var eq *ssa.Call
			for _, e := range findCalls(fn, nameIs("bytes.Equal", "crypto/subtle.ConstantTimeCompare", "crypto/hmac.Equal", "slices.Equal[[]byte]")) {
				a := e.Call.Args
				if (isFieldLoad(a[0], tCom, "SessionID") && isFieldLoad(a[1], "pkg/protocol/handshake.MessageServerHello", "SessionID")) ||
					(isFieldLoad(a[1], tCom, "SessionID") && isFieldLoad(a[0], "pkg/protocol/handshake.MessageServerHello", "SessionID")) {
					eq = e
				}
			}
			if eq == nil {
				r.Bad(rule, short(fn)+":resume-on-echo", c.ipos(call), "the client resumes without comparing the offered session ID with the ServerHello's")
				continue
			}
			ok, why := guardedBy(eq, eq, call)
			r.Check(ok, rule, short(fn)+":resume-on-echo", c.ipos(call), "abbreviated path entered only when ServerHello.SessionID equals the offered ID", "the client can enter the abbreviated handshake although the session IDs differ: "+why)
		}
	}
	// (4) fatal alert deletes the session before the alert is written
	if fn := c.need(r, rule, "(*dtls.Conn).notify"); fn != nil {
		r.Sites += len(fn.Blocks)
		same := followSamePkg(fn)
		follow := func(f *ssa.Function) bool { return same(f) && !strings.Contains(f.Name(), "writePackets") }
		dels := callsReached(fn, follow, func(call *ssa.Call) bool {
			return !call.Call.IsInvoke() && isFieldLoad(call.Call.Value, tCfg, "DelSession")
		})
		wr := callsReached(fn, follow, func(call *ssa.Call) bool {
			n := calleeName(&call.Call)
			return n == "(*dtls.Conn).writePackets" || n == "(*dtls.Conn).writePacketsWithResult"
		})
		if len(dels) != 1 || len(wr) != 1 {
			r.Bad(rule, short(fn)+":fatal-deletes", c.pos(fn.Pos()), fmt.Sprintf("notify (with its helpers) deletes the session at %d site(s) and writes the alert at %d site(s); expected one each", len(dels), len(wr)))
		} else {
			al := c.enumConsts("pkg/protocol/alert", "Level")
			as := []atomAssume{
				{mValue(fn.Params[2]), vInt(al["Fatal"])},
				{mLoad(tCfg, "HasSessionStore"), vBool(true)},
				{func(v ssa.Value) bool {
					bo, ok := v.(*ssa.BinOp)
					if !ok || (bo.Op != token.GTR && bo.Op != token.NEQ) {
						return false
					}
					return isLenOfField(bo.X, tCom, "SessionID")
				}, vBool(true)},
				{func(v ssa.Value) bool {
					bo, ok := v.(*ssa.BinOp)
					if !ok || (bo.Op != token.EQL && bo.Op != token.LEQ) {
						return false
					}
					return isLenOfField(bo.X, tCom, "SessionID")
				}, vBool(false)},
				{func(v ssa.Value) bool {
					// common.LocalVersion == protocol.Version1_2 (struct comparison lowers to field compares)
					bo, ok := v.(*ssa.BinOp)
					return ok && bo.Op == token.EQL && strings.Contains(shapeOf(bo, 0), "LocalVersion")
				}, vBool(true)},
				{func(v ssa.Value) bool {
					bo, ok := v.(*ssa.BinOp)
					return ok && bo.Op == token.NEQ && strings.Contains(shapeOf(bo, 0), "LocalVersion")
				}, vBool(false)},
			}
			why := passesUnderF(fn, as, dels[0], errResult(dels[0]), wr[0], follow)
			r.Check(why == "", rule, short(fn)+":fatal-deletes", c.ipos(dels[0]), "fatal alert with a session in a store: DelSession succeeds before the alert is written", "a fatal alert can be sent while the session stays in the store: "+why)
			r.Check(isCallResult(dels[0].Call.Args[0], nameIs("(*dtls.Conn).sessionKey")), rule, short(fn)+":delete-key", c.ipos(dels[0]), "deleted under the key the session was stored with (sessionKey())", "the session is deleted under a key other than the one it is stored with (client sessions are keyed by address and server name): the entry survives")
		}
	}
	// (5) fresh randoms and CIDs on every hello
	for _, name := range []string{pkgF12 + ".flight0Generate", pkgF12 + ".flight1Generate", pkgF13 + ".flight0Generate", pkgF13 + ".flight1Generate"} {
		fn := c.need(r, "fresh-hello", name)
		if fn == nil {
			continue
		}
		pops := findCalls(fn, nameHasSuffix("handshake.Random).Populate"))
		okP := false
		for _, p := range pops {
			if _, f, _, ok := fieldOfAddr(p.Call.Args[0]); ok && f == "LocalRandom" {
				if ret := lastReturnNil(fn); ret != nil {
					g, _ := guardedBy(p, errResult(p), ret)
					okP = g
				}
			}
		}
		if !okP {
			// the random may be drawn in a helper that is handed &state.LocalRandom: the helper
			// succeeds only after Populate did, and the generator only after the helper
			for _, hc := range findCalls(fn, func(string) bool { return true }) {
				g := hc.Call.StaticCallee()
				if g == nil || g.Pkg != fn.Pkg || len(g.Blocks) == 0 {
					continue
				}
				for i, a := range hc.Call.Args {
					if _, f, _, ok := fieldOfAddr(a); !ok || f != "LocalRandom" || i >= len(g.Params) {
						continue
					}
					par := g.Params[i]
					for _, p := range findCalls(g, nameHasSuffix("handshake.Random).Populate")) {
						if p.Call.Args[0] != ssa.Value(par) {
							continue
						}
						inner := true
						cnt := 0
						for _, b := range g.Blocks {
							ret, isRet := b.Instrs[len(b.Instrs)-1].(*ssa.Return)
							if !isRet || b == g.Recover || len(ret.Results) == 0 {
								continue
							}
							res := retResults(ret)
							if !isNilConst(res[len(res)-1]) {
								continue
							}
							cnt++
							if ok2, _ := guardedBy(p, errResult(p), ret); !ok2 {
								inner = false
							}
						}
						if ret := lastReturnNil(fn); ret != nil && inner && cnt > 0 {
							if ok3, _ := guardedBy(hc, errResult(hc), ret); ok3 {
								okP = true
							}
						}
					}
				}
			}
		}
		r.Check(okP, "fresh-hello", short(fn)+":random", c.pos(fn.Pos()), "LocalRandom.Populate() on every successful path", "a hello can be generated without a fresh LocalRandom")
	}
	for _, name := range []string{pkgF12 + ".flight0Parse", pkgF12 + ".flight1Generate", pkgF13 + ".flight0Parse", pkgF13 + ".flight1Generate"} {
		fn := c.need(r, "fresh-hello", name)
		if fn == nil {
			continue
		}
		rs := findCalls(fn, nameHasSuffix(".ResetConnectionIDs"))
		okR := false
		for _, x := range rs {
			okAll := true
			for _, b := range fn.Blocks {
				if ret, ok := b.Instrs[len(b.Instrs)-1].(*ssa.Return); ok {
					adv := false
					if len(ret.Results) == 3 {
						if _, isFlight := ret.Results[0].Type().Underlying().(interface{ Kind() int }); isFlight {
						}
						adv = isAdvanceReturn(ret) && strings.Contains(name, "Parse")
						if strings.Contains(name, "Generate") {
							adv = isNilConst(unspill(ret.Results[2])) && !isNilConst(unspill(ret.Results[0]))
						}
					}
					if adv && !instrDominates(x, ret) {
						okAll = false
					}
				}
			}
			if okAll {
				okR = true
			}
		}
		r.Check(okR, "fresh-hello", short(fn)+":cids", c.pos(fn.Pos()), "connection IDs reset before every advancing exit", "a (possibly resumed) handshake can proceed with the previous connection IDs")
	}
	// (6) a client certificate disables resumption
	if fn := c.Fn(pkgF12 + ".flight4Parse"); fn != nil {
		ok := false
		for _, st := range c.StoresTo(tCom, "SessionID") {
			if st.Fn == fn && isNilConst(st.Val) {
				// under hasCert
				w := (&Walk{Fn: fn, Assume: assumeAll(atomAssume{mTypeAssertOK("pkg/protocol/handshake.MessageCertificate"), vBool(true)})}).FromEntry()
				w2 := (&Walk{Fn: fn, Assume: assumeAll(atomAssume{mTypeAssertOK("pkg/protocol/handshake.MessageCertificate"), vBool(false)})}).FromEntry()
				ok = w.Reached[st.Instr] && !w2.Reached[st.Instr]
			}
		}
		r.Check(ok, rule, short(fn)+":cert-disables-resumption", c.pos(fn.Pos()), "a client Certificate clears the session ID before the session can be stored", "a handshake with a client certificate can still be stored for resumption (resumption would skip the certificate)")
	}
}

func isEmptySliceLit(v ssa.Value) bool {
	sl, ok := v.(*ssa.Slice)
	if !ok {
		return false
	}
	al, ok := sl.X.(*ssa.Alloc)
	if !ok {
		return false
	}
	n, ok := fixedLen(al)
	return ok && n == 0
}

// onlyAdvancesAfter: once `call` succeeded, fn can only leave through advancing returns; when fn
// is a helper, the same holds at each of its call sites.
func (c *Ctx) onlyAdvancesAfter(r *Report, rule string, fn *ssa.Function, call *ssa.Call, depth int) {
	key := short(fn) + ":after-completion"
	var assume func(ssa.Value) (Val, bool)
	if ev := errResult(call); ev != nil && isErrorType(ev.Type()) {
		assume = func(v ssa.Value) (Val, bool) {
			if v == ev {
				return vNil(true), true
			}
			return unknown, false
		}
	}
	w := (&Walk{Fn: fn, Assume: assume}).After(call)
	bad := ""
	if fn.Signature.Results().Len() != 3 {
		// a helper around the store: once the store succeeded it reports success, and its
		// callers are judged in its place
		for _, ro := range w.Returns {
			res := retResults(ro.Ret)
			if n := len(res); n > 0 && isErrorType(res[n-1].Type()) && !isNilConst(res[n-1]) {
				bad = "the helper can still fail after storing, at " + c.ipos(ro.Ret)
			}
		}
		r.Check(bad == "" && len(w.Returns) > 0, rule, key, c.ipos(call), "after the session is stored the helper reports success", "the session is stored (made resumable) on a path that can still fail: "+bad)
		if depth < 2 {
			for _, s := range c.CallsToName(short(fn)) {
				if cc, ok := s.Call.(*ssa.Call); ok && s.Fn != fn {
					c.onlyAdvancesAfter(r, rule, s.Fn, cc, depth+1)
				}
			}
		}
		return
	}
	for _, ro := range w.Returns {
		res := retResults(ro.Ret)
		if len(res) != 3 {
			bad = "unexpected result shape"
			continue
		}
		if k, ok := constInt(res[0]); ok && k == 0 {
			bad = "a failing / waiting return (flight 0) at " + c.ipos(ro.Ret)
		}
		if !isNilConst(res[1]) && !isCallResultAny(res[1]) {
			bad = "a return carrying an alert at " + c.ipos(ro.Ret)
		}
	}
	r.Check(bad == "" && len(w.Returns) > 0, rule, key, c.ipos(call), "after the session is stored the flight can only complete", "the session is stored (made resumable) on a path that can still fail or wait: "+bad+" - a peer that never finishes or never authenticates leaves a resumable session behind")
	// helper: its callers
	if _, isParser := map[string]bool{}[short(fn)]; !isParser && depth < 2 {
		for _, s := range c.CallsToName(short(fn)) {
			if cc, ok := s.Call.(*ssa.Call); ok && s.Fn != fn && strings.HasPrefix(short(s.Fn), pkgF12) {
				if !c.isParserSlot(s.Fn) || true {
					c.onlyAdvancesAfter(r, rule, s.Fn, cc, depth+1)
				}
			}
		}
	}
}

func isCallResultAny(v ssa.Value) bool {
	switch x := v.(type) {
	case *ssa.Call:
		return true
	case *ssa.Extract:
		_, ok := x.Tuple.(*ssa.Call)
		return ok
	}
	return false
}

func (c *Ctx) isParserSlot(fn *ssa.Function) bool { return strings.HasSuffix(fn.Name(), "Parse") }

// ruleSecondHelloEqualsFirst (C04 / C13): the ClientHello that echoes the HelloVerifyRequest
// cookie is accepted only if it is byte-for-byte the first ClientHello apart from the cookie:
// the bytes before the cookie and the bytes after it are compared as bytes (not as decoded,
// re-ordered or re-encoded values), and the echoed cookie is compared with the issued one. The
// first ClientHello is not part of the Finished transcript, so this comparison is what binds the
// parameters the server already acted on (flight 0) to the handshake that completes.
func ruleSecondHelloEqualsFirst(c *Ctx, r *Report) {
	const rule = "second-hello-equals-first"
	fn := c.need(r, rule, "internal/negotiation.ValidateHelloVerifyRequestResponse")
	if fn == nil {
		return
	}
	r.Sites += len(fn.Blocks)
	oks := possibleSuccessReturns(fn)
	if len(oks) == 0 {
		r.Unk(rule, short(fn), c.pos(fn.Pos()), "no return that can succeed")
		return
	}
	guardsAll := func(e *ssa.Call) bool {
		for _, ok0 := range oks {
			if g, _ := guardedBy(e, e, ok0); !g {
				return false
			}
		}
		return true
	}
	// the splitter: a one-parameter function of the package that cuts the snapshot's raw body into
	// the part in front of the cookie, the part behind it and the cookie. Its results (a tuple or
	// the fields of a small struct) are classified by the slice expression that flows into them:
	// body[:k] is "before", body[k:] or body[k:extensionOffset] is "after", body[a:b] the cookie.
	type splitInfo struct {
		role   map[int]string // result / field index -> role
		okCut  bool
		toEnd  bool
		callee *ssa.Function
	}
	splitters := map[*ssa.Function]*splitInfo{}
	isBody := func(l ssa.Value) bool {
		return isFieldLoad(l, "internal/negotiation.ClientHelloSnapshot", "body")
	}
	analyse := func(callee *ssa.Function) *splitInfo {
		if si, ok := splitters[callee]; ok {
			return si
		}
		si := &splitInfo{role: map[int]string{}, okCut: true, callee: callee}
		splitters[callee] = si
		classify := func(idx int, v ssa.Value) {
			v = unspill(v)
			if isNilConst(v) {
				return
			}
			var leaves []ssa.Value
			seen := map[ssa.Value]bool{}
			var expand func(x ssa.Value)
			expand = func(x ssa.Value) {
				x = unspill(x)
				if seen[x] {
					return
				}
				seen[x] = true
				if phi, ok := x.(*ssa.Phi); ok {
					for _, e := range phi.Edges {
						expand(e)
					}
					return
				}
				leaves = append(leaves, x)
			}
			expand(v)
			for _, l := range leaves {
				if isNilConst(l) {
					continue
				}
				sl, isSl := l.(*ssa.Slice)
				if !isSl {
					si.okCut = false
					continue
				}
				root := sl.X
				for {
					inner, ok := root.(*ssa.Slice)
					if !ok {
						break
					}
					root = inner.X
				}
				bodyRoot := false
				for _, rl := range append(c.Origins(root, 0), root) {
					if isBody(rl) {
						bodyRoot = true
					}
				}
				if !bodyRoot {
					si.okCut = false
					continue
				}
				switch {
				case sl.Low == nil && sl.High != nil:
					si.role[idx] = "before"
				case sl.Low != nil && sl.High == nil:
					si.role[idx] = "after"
					si.toEnd = true
				case sl.Low != nil && sl.High != nil:
					if _, f, _, ok := fieldLoad(stripConv(sl.High)); ok && f == "extensionOffset" {
						si.role[idx] = "after"
					} else {
						si.role[idx] = "cookie"
					}
				}
			}
		}
		res := callee.Signature.Results()
		switch {
		case res.Len() == 3:
			for _, b := range callee.Blocks {
				if ret, ok := b.Instrs[len(b.Instrs)-1].(*ssa.Return); ok && len(ret.Results) == 3 {
					for i := 0; i < 3; i++ {
						classify(i, ret.Results[i])
					}
				}
			}
		case res.Len() == 1:
			if _, isStruct := res.At(0).Type().Underlying().(*types.Struct); isStruct {
				for _, b := range callee.Blocks {
					for _, in := range b.Instrs {
						if st, ok := in.(*ssa.Store); ok {
							if fa, ok := st.Addr.(*ssa.FieldAddr); ok {
								classify(fa.Field, st.Val)
							}
						}
					}
				}
			}
		}
		return si
	}
	// part(v) = (which snapshot parameter, role) when v is a component of splitter(<param>)
	part := func(v ssa.Value) (string, string) {
		var call *ssa.Call
		idx := -1
		switch x := v.(type) {
		case *ssa.Extract:
			if cl, ok := x.Tuple.(*ssa.Call); ok {
				call, idx = cl, x.Index
			}
		default:
			if _, _, base, ok := fieldLoad(v); ok {
				fieldIdx := -1
				switch y := v.(type) {
				case *ssa.Field:
					fieldIdx = y.Field
				case *ssa.UnOp:
					if fa, ok := y.X.(*ssa.FieldAddr); ok {
						fieldIdx = fa.Field
					}
				}
				for _, l := range append(c.Origins(rootValueDeep(base), 0), rootValueDeep(base)) {
					if cl, ok := l.(*ssa.Call); ok {
						call, idx = cl, fieldIdx
					}
				}
			}
		}
		if call == nil || len(call.Call.Args) != 1 {
			return "", ""
		}
		callee := call.Call.StaticCallee()
		if callee == nil || callee.Pkg != fn.Pkg || len(callee.Blocks) == 0 {
			return "", ""
		}
		p, ok := call.Call.Args[0].(*ssa.Parameter)
		if !ok {
			return "", ""
		}
		si := analyse(callee)
		return fmt.Sprint(paramIndex(p)), si.role[idx]
	}
	have := map[string]bool{}
	for _, e := range findCalls(fn, nameIs("bytes.Equal", "crypto/subtle.ConstantTimeCompare", "crypto/hmac.Equal")) {
		a, b := e.Call.Args[0], e.Call.Args[1]
		pa, ra := part(a)
		pb, rb := part(b)
		if !guardsAll(e) {
			continue
		}
		switch {
		case pa != "" && pb != "" && pa != pb && ra == rb && (ra == "before" || ra == "after"):
			have[ra] = true
		case (ra == "cookie" && pa != "" && isParamIdx(b, 2)) || (rb == "cookie" && pb != "" && isParamIdx(a, 2)):
			have["cookie"] = true
		}
	}
	// the two outer comparisons may sit in a yes/no helper that is handed both split hellos: it
	// answers true only if the same field of both compares equal, and the validation succeeds
	// only if it answers true
	for _, hc := range findCalls(fn, func(string) bool { return true }) {
		h := hc.Call.StaticCallee()
		if h == nil || h.Pkg != fn.Pkg || len(h.Blocks) == 0 || len(h.Params) != 2 || len(hc.Call.Args) != 2 {
			continue
		}
		if res := h.Signature.Results(); res.Len() != 1 || !types.Identical(res.At(0).Type().Underlying(), types.Typ[types.Bool]) {
			continue
		}
		// each argument: the result of the splitter applied to one of the two snapshots
		var si *splitInfo
		which := [2]string{}
		for i, a := range hc.Call.Args {
			for _, l := range append(c.Origins(rootValueDeep(a), 0), rootValueDeep(a)) {
				cl, ok := l.(*ssa.Call)
				if !ok || len(cl.Call.Args) != 1 {
					continue
				}
				sp := cl.Call.StaticCallee()
				pp, isP := cl.Call.Args[0].(*ssa.Parameter)
				if sp == nil || sp.Pkg != fn.Pkg || len(sp.Blocks) == 0 || !isP {
					continue
				}
				si = analyse(sp)
				which[i] = fmt.Sprint(paramIndex(pp))
			}
		}
		if si == nil || which[0] == "" || which[1] == "" || which[0] == which[1] || !guardsAll(hc) {
			continue
		}
		fieldOfParam := func(v ssa.Value) (int, int) { // (parameter index of h, field index)
			switch y := v.(type) {
			case *ssa.Field:
				if p, ok := unspill(y.X).(*ssa.Parameter); ok && p.Parent() == h {
					return paramIndex(p), y.Field
				}
			case *ssa.UnOp:
				if fa, ok := y.X.(*ssa.FieldAddr); ok {
					if al, isAl := fa.X.(*ssa.Alloc); isAl {
						if p := spilledParam(al); p != nil && p.Parent() == h {
							return paramIndex(p), fa.Field
						}
					}
				}
			}
			return -1, -1
		}
		for _, e := range findCalls(h, nameIs("bytes.Equal", "crypto/subtle.ConstantTimeCompare", "crypto/hmac.Equal")) {
			pa, fa := fieldOfParam(e.Call.Args[0])
			pb, fb := fieldOfParam(e.Call.Args[1])
			if pa < 0 || pb < 0 || pa == pb || fa != fb {
				continue
			}
			// the helper cannot answer true when this comparison fails
			w := (&Walk{Fn: h, Assume: failAssumption(e)}).FromEntry()
			strict := len(w.Returns) > 0 && !w.overflow
			for _, ro := range w.Returns {
				if len(ro.Vals) != 1 || ro.Vals[0].Kind != 1 || ro.Vals[0].B {
					strict = false
				}
			}
			if role := si.role[fa]; strict && (role == "before" || role == "after") {
				have[role] = true
			}
		}
	}
	r.Check(have["before"], rule, short(fn)+":before-cookie", c.pos(fn.Pos()), "bytes before the cookie compared as bytes; success only if equal", "the second ClientHello is accepted without a byte comparison of the part before the cookie with the first ClientHello")
	r.Check(have["after"], rule, short(fn)+":after-cookie", c.pos(fn.Pos()), "bytes after the cookie compared as bytes; success only if equal", "the second ClientHello is accepted without a byte comparison of the part after the cookie (cipher suites, compression methods, extensions) with the first ClientHello: an on-path attacker can alter the first ClientHello, which the server has already acted on and which no Finished covers")
	r.Check(have["cookie"], rule, short(fn)+":cookie", c.pos(fn.Pos()), "echoed cookie compared with the issued cookie", "the echoed cookie is not compared with the cookie the server issued")
	var names []*ssa.Function
	for f := range splitters {
		names = append(names, f)
	}
	sort.Slice(names, func(i, j int) bool { return short(names[i]) < short(names[j]) })
	for _, callee := range names {
		si := splitters[callee]
		if len(si.role) < 3 {
			continue
		}
		r.Check(si.okCut, rule, short(callee), c.pos(callee.Pos()), "the three parts are slices of the snapshot's raw body", "the compared parts are not slices of the raw ClientHello body")
		// ... or every parameter the first-hello parser takes from extensions is derived again
		// from the second ClientHello, after it was validated: what the first one said then
		// steers nothing
		rederived, _ := c.secondHelloRederives()
		if !si.toEnd && rederived {
			r.OK(rule, short(callee)+":tail-covers-extensions", c.pos(callee.Pos()), "the extensions are not compared, but every extension-borne parameter is derived again from the validated second ClientHello")
			break
		}
		r.Check(si.toEnd, rule, short(callee)+":tail-covers-extensions", c.pos(callee.Pos()), "the compared part behind the cookie runs to the end of the ClientHello", "the part of the ClientHello compared behind the cookie stops in front of the extensions: the extensions of the first ClientHello - from which the DTLS 1.2 server negotiates extended master secret, ALPN, server name, groups, signature algorithms and the protocol version - are neither compared with the second ClientHello nor covered by any Finished, so an on-path attacker who rewrites only the first ClientHello steers those parameters and both sides complete")
		break
	}
}

func isParamIdx(v ssa.Value, idx int) bool {
	p, ok := v.(*ssa.Parameter)
	return ok && paramIndex(p) == idx
}

// ruleRetryHelloPrefix (C04 / C13, DTLS 1.3): the ClientHello that answers a HelloRetryRequest is
// accepted only if everything in front of its extensions - version, random, session id, the
// legacy cookie field, cipher suites, compression methods - is byte-for-byte what the first
// ClientHello had: one byte comparison of body[:extensionOffset] of both snapshots.
func ruleRetryHelloPrefix(c *Ctx, r *Report) {
	const rule = "retry-hello-prefix-equal"
	fn := c.need(r, rule, "internal/negotiation.validateRetryClientHello")
	if fn == nil {
		return
	}
	r.Sites += len(fn.Blocks)
	oks := possibleSuccessReturns(fn)
	if len(oks) == 0 {
		r.Unk(rule, short(fn), c.pos(fn.Pos()), "no return that can succeed")
		return
	}
	const tSnap = "internal/negotiation.ClientHelloSnapshot"
	// prefixOf(v) = index of the snapshot parameter p when v is p.body[:p.extensionOffset]
	prefixOf := func(v ssa.Value) int {
		sl, ok := v.(*ssa.Slice)
		if !ok || sl.Low != nil || sl.High == nil {
			return -1
		}
		_, f1, b1, ok1 := fieldLoad(sl.X)
		_, f2, b2, ok2 := fieldLoad(stripConv(sl.High))
		if !ok1 || !ok2 || f1 != "body" || f2 != "extensionOffset" {
			return -1
		}
		p1 := snapshotParam(b1, tSnap)
		p2 := snapshotParam(b2, tSnap)
		if p1 < 0 || p1 != p2 {
			return -1
		}
		return p1
	}
	good := false
	for _, e := range findCalls(fn, nameIs("bytes.Equal", "crypto/subtle.ConstantTimeCompare", "crypto/hmac.Equal")) {
		a, b := prefixOf(e.Call.Args[0]), prefixOf(e.Call.Args[1])
		if a >= 0 && b >= 0 && a != b {
			all := true
			for _, okRet := range oks {
				if g, _ := guardedBy(e, e, okRet); !g {
					all = false
				}
			}
			if all {
				good = true
			}
		}
	}
	r.Check(good, rule, short(fn), c.pos(fn.Pos()), "body[:extensionOffset] of both ClientHellos compared as bytes; success only if equal", "the second ClientHello is accepted without a byte comparison of everything in front of the extensions with the first ClientHello: a field there (for example legacy_cookie) may differ between the two hellos the server acts on")
}

// snapshotParam: base is (a spill of) a parameter of the named struct type; returns its index.
func snapshotParam(base ssa.Value, typ string) int {
	b := base
	if u, ok := b.(*ssa.UnOp); ok {
		b = u.X
	}
	if p, ok := b.(*ssa.Parameter); ok && namedOf(p.Type()) == typ {
		return paramIndex(p)
	}
	if al, ok := b.(*ssa.Alloc); ok {
		for _, ref := range *al.Referrers() {
			if st, isSt := ref.(*ssa.Store); isSt && st.Addr == ssa.Value(al) {
				if p, isP := st.Val.(*ssa.Parameter); isP && namedOf(p.Type()) == typ {
					return paramIndex(p)
				}
			}
		}
	}
	return -1
}

// ruleSessionAdapterPreservesMiss (C13 / C14): the handshake decides "the store knows this
// session" by a non-nil ID coming back from the configured store. The adapter between the public
// SessionStore and the handshake configuration must hand the store's ID and secret through as
// they are (a nil-preserving clone is fine): rebuilding them (append to a fresh slice, make+copy)
// turns a miss into an empty non-nil ID, and every offered session ID then resumes with an empty
// master secret and without the cookie exchange.
func ruleSessionAdapterPreservesMiss(c *Ctx, r *Report) {
	const rule = "session-adapter"
	n := 0
	for _, st := range c.StoresTo(tCfg, "GetSession") {
		if k, isC := st.Val.(*ssa.Const); isC && k.Value == nil {
			continue
		}
		lit := funcDenoted(st.Val, 0)
		if lit == nil {
			r.Unk(rule, short(st.Fn), c.ipos(st.Instr), "GetSession is not set to a function literal (directly or through a constructor helper)")
			continue
		}
		r.Sites += len(lit.Blocks)
		for _, b := range lit.Blocks {
			ret, isRet := b.Instrs[len(b.Instrs)-1].(*ssa.Return)
			if !isRet || len(ret.Results) != 3 || b == lit.Recover {
				continue
			}
			res := retResults(ret)
			for i, f := range []string{"ID", "Secret"} {
				n++
				ls := c.Origins(res[i], 0)
				good := allLeaves(ls, func(v ssa.Value) bool {
					return isFieldLoad(v, "dtls.Session", f) || isNilConst(v)
				})
				r.Check(good, rule, fmt.Sprintf("%s:%s", short(lit), f), c.ipos(ret), "the store's "+f+" is handed through unchanged (nil stays nil)", "the session "+f+" returned to the handshake is rebuilt instead of handed through ("+c.describeAll(ls)+"): a store miss (nil) becomes an empty non-nil value, so an unknown session ID is treated as known")
			}
		}
	}
	r.Floor(rule, n, 2)
}

// ruleSessionWrittenOnceByFullHandshake (C14): a session enters a store only at the end of a full
// handshake (server: the parser that verified the client's Finished of a full handshake; client:
// the parser of the server's final flight). The abbreviated-handshake parsers never write the
// store: a session that was deleted because a fatal alert was sent on it must not be put back by
// another connection that happened to be resuming it at the time.
func ruleSessionWrittenOnceByFullHandshake(c *Ctx, r *Report) {
	const rule = "session-written-by-full-handshake"
	// functions that write the store (directly), and everything that reaches them statically
	writers := map[*ssa.Function]bool{}
	for _, fn := range c.Fns {
		for _, call := range dynCallsOfField(fn, tCfg, "SetSession") {
			_ = call
			writers[fn] = true
		}
	}
	if len(writers) == 0 {
		r.Unk(rule, "writers", "", "no call through HandshakeConfig.SetSession found")
		return
	}
	reaches := func(fn *ssa.Function) bool {
		for _, u := range c.unitFuncs(fn) {
			if writers[u] {
				return true
			}
		}
		return false
	}
	n := 0
	for _, name := range []string{pkgF12 + ".flight4bParse", pkgF12 + ".handleResumption", pkgF12 + ".flight0Parse", pkgF12 + ".handleHelloResume", pkgF12 + ".flight4bGenerate", pkgF12 + ".flight5bGenerate", pkgF12 + ".flight5bParse"} {
		fn := c.Fn(name)
		if fn == nil {
			continue
		}
		n++
		r.Sites += len(fn.Blocks)
		r.Check(!reaches(fn), rule, short(fn), c.pos(fn.Pos()), "the abbreviated-handshake path does not write the session store", "an abbreviated-handshake function writes the session store: a session deleted after a fatal alert can be re-inserted by a concurrent resumption and is offered again")
	}
	r.Floor(rule, n, 3)
}

// funcDenoted resolves a function value to the function it denotes: a function, a function
// literal, or what a module helper returns as its single function-typed result.
func funcDenoted(v ssa.Value, d int) *ssa.Function {
	if d > 3 || v == nil {
		return nil
	}
	switch x := v.(type) {
	case *ssa.Function:
		return x
	case *ssa.MakeClosure:
		f, _ := x.Fn.(*ssa.Function)
		if f != nil && strings.HasPrefix(f.Synthetic, "bound method wrapper") {
			// a method value: the method itself, when it is a concrete one of the module
			for _, b := range f.Blocks {
				for _, in := range b.Instrs {
					if call, ok := in.(*ssa.Call); ok {
						if m := call.Call.StaticCallee(); m != nil && inModule(m) && len(m.Blocks) > 0 {
							return m
						}
					}
				}
			}
		}
		return f
	case *ssa.ChangeType:
		return funcDenoted(x.X, d+1)
	case *ssa.Call:
		callee := x.Call.StaticCallee()
		if callee == nil || len(callee.Blocks) == 0 || !inModule(callee) {
			return nil
		}
		var out *ssa.Function
		for _, b := range callee.Blocks {
			ret, ok := b.Instrs[len(b.Instrs)-1].(*ssa.Return)
			if !ok || len(ret.Results) != 1 {
				continue
			}
			f := funcDenoted(unspill(ret.Results[0]), d+1)
			if f == nil || (out != nil && out != f) {
				return nil
			}
			out = f
		}
		return out
	}
	return nil
}

// secondHelloRederives: the state fields that the DTLS 1.2 first-hello parser stores while it
// switches over the ClientHello's extension types are all stored again by the second-hello parser
// behind its validation call (through the same or another helper).
func (c *Ctx) secondHelloRederives() (bool, []string) {
	f0 := c.Fn(pkgF12 + ".flight0Parse")
	f2 := c.Fn(pkgF12 + ".flight2Parse")
	if f0 == nil || f2 == nil {
		return false, nil
	}
	// fields stored by a function that switches over extension types
	extFields := func(fn *ssa.Function) map[string]bool {
		switches := false
		out := map[string]bool{}
		for _, b := range fn.Blocks {
			for _, in := range b.Instrs {
				switch x := in.(type) {
				case *ssa.TypeAssert:
					if strings.Contains(namedOrType(derefType(x.AssertedType)), "pkg/protocol/extension") {
						switches = true
					}
				case *ssa.Store:
					if o, f, _, ok := fieldOfAddr(x.Addr); ok && (strings.HasSuffix(o, "state.State12") || strings.HasSuffix(o, "state.Common")) {
						out[f] = true
					}
				}
			}
		}
		if !switches {
			return nil
		}
		return out
	}
	collect := func(roots []*ssa.Function) map[string]bool {
		out := map[string]bool{}
		seen := map[*ssa.Function]bool{}
		var visit func(fn *ssa.Function, d int)
		visit = func(fn *ssa.Function, d int) {
			if fn == nil || seen[fn] || d > 3 || len(fn.Blocks) == 0 || fn.Pkg != f0.Pkg {
				return
			}
			seen[fn] = true
			for f := range extFields(fn) {
				out[f] = true
			}
			for _, b := range fn.Blocks {
				for _, in := range b.Instrs {
					if cl, ok := in.(*ssa.Call); ok {
						visit(cl.Call.StaticCallee(), d+1)
					}
				}
			}
		}
		for _, r := range roots {
			visit(r, 0)
		}
		return out
	}
	first := collect([]*ssa.Function{f0})
	if len(first) == 0 {
		return false, nil
	}
	var validate *ssa.Call
	for _, cl := range findCalls(f2, nameIs("internal/negotiation.ValidateHelloVerifyRequestResponse")) {
		validate = cl
	}
	if validate == nil {
		return false, nil
	}
	var after []*ssa.Function
	for _, b := range f2.Blocks {
		for _, in := range b.Instrs {
			if cl, ok := in.(*ssa.Call); ok && cl != validate && instrReaches(validate, cl) && mustPass(validate, cl) {
				if callee := cl.Call.StaticCallee(); callee != nil {
					after = append(after, callee)
				}
			}
		}
	}
	second := collect(after)
	// stores made by the second-hello parser itself behind the validation
	for _, b := range f2.Blocks {
		for _, in := range b.Instrs {
			if st, ok := in.(*ssa.Store); ok && mustPass(validate, st) {
				if _, f, _, ok := fieldOfAddr(st.Addr); ok {
					second[f] = true
				}
			}
		}
	}
	var missing []string
	for f := range first {
		if !second[f] {
			missing = append(missing, f)
		}
	}
	sort.Strings(missing)
	return len(missing) == 0, missing
}

// globalByteSlice reads the bytes a package-level []byte variable is initialised with (a slice
// literal in the package initialiser): stores of constants into the elements of the backing array.
func (c *Ctx) globalByteSlice(pkgSuffix, name string) ([]byte, *ssa.Global) {
	for _, p := range c.Prog.AllPackages() {
		if p.Pkg == nil || !strings.HasSuffix(p.Pkg.Path(), pkgSuffix) {
			continue
		}
		g, ok := p.Members[name].(*ssa.Global)
		if !ok {
			continue
		}
		init := p.Func("init")
		if init == nil {
			return nil, g
		}
		var backing ssa.Value
		for _, b := range init.Blocks {
			for _, in := range b.Instrs {
				if st, ok := in.(*ssa.Store); ok && st.Addr == ssa.Value(g) {
					if sl, ok := st.Val.(*ssa.Slice); ok {
						backing = sl.X
					}
				}
			}
		}
		if backing == nil {
			// an array-typed variable: built in a local literal that is then stored whole
			backing = g
			for _, b := range init.Blocks {
				for _, in := range b.Instrs {
					if st, ok := in.(*ssa.Store); ok && st.Addr == ssa.Value(g) {
						if u, ok := st.Val.(*ssa.UnOp); ok {
							backing = u.X
						}
					}
				}
			}
		}
		vals := map[int64]byte{}
		max := int64(-1)
		for _, b := range init.Blocks {
			for _, in := range b.Instrs {
				st, ok := in.(*ssa.Store)
				if !ok {
					continue
				}
				ia, ok := st.Addr.(*ssa.IndexAddr)
				if !ok || ia.X != backing {
					continue
				}
				i, okI := constInt(ia.Index)
				v, okV := constInt(st.Val)
				if okI && okV {
					vals[i] = byte(v)
					if i > max {
						max = i
					}
				}
			}
		}
		out := make([]byte, max+1)
		for i, v := range vals {
			out[i] = v
		}
		return out, g
	}
	return nil, nil
}

// ruleDowngradeSentinel (C04, C11): the version decision of a dual-stack server is taken from the
// first ClientHello, which DTLS 1.2 keeps out of the transcript; what protects it is the
// downgrade sentinel of RFC 8446 4.1.3. (a) With DTLS 1.3 enabled, the function that draws the
// DTLS 1.2 server random copies the sentinel 44 4F 57 4E 47 52 44 01 into its last eight bytes;
// (b) a DTLS 1.2 client parser that has DTLS 1.3 enabled cannot advance on a ServerHello whose
// random ends in that sentinel.
func ruleDowngradeSentinel(c *Ctx, r *Report) {
	const rule = "downgrade-sentinel"
	want := []byte{0x44, 0x4F, 0x57, 0x4E, 0x47, 0x52, 0x44, 0x01}
	// the sentinel: a package-level byte slice of the flight package with exactly these bytes
	var sentinel *ssa.Global
	for _, p := range c.Prog.AllPackages() {
		if p.Pkg == nil || !strings.HasSuffix(p.Pkg.Path(), pkgF12) {
			continue
		}
		for name, m := range p.Members {
			if _, ok := m.(*ssa.Global); !ok {
				continue
			}
			if b, g := c.globalByteSlice(pkgF12, name); g != nil && string(b) == string(want) {
				sentinel = g
			}
		}
	}
	if sentinel == nil {
		r.Bad(rule, pkgF12+":sentinel", "", "no package-level value holds the downgrade sentinel 44 4F 57 4E 47 52 44 01: a dual-stack server's DTLS 1.2 ServerHello is not marked, so a client that offered DTLS 1.3 cannot tell that its supported_versions was stripped from the first ClientHello (which DTLS 1.2 keeps out of the transcript) and both sides complete on DTLS 1.2")
		return
	}
	r.OK(rule, pkgF12+":sentinel", c.pos(sentinel.Pos()), "the sentinel value is RFC 8446 4.1.3's")
	isSentinel := func(v ssa.Value) bool {
		for _, l := range append(c.Origins(v, 0), v) {
			if u, ok := l.(*ssa.UnOp); ok && u.X == ssa.Value(sentinel) {
				return true
			}
			if sl, ok := l.(*ssa.Slice); ok && sl.X == ssa.Value(sentinel) {
				return true
			}
			if l == ssa.Value(sentinel) {
				return true
			}
		}
		return false
	}
	max13 := func(v ssa.Value) (Val, bool) {
		cl, ok := v.(*ssa.Call)
		if !ok || !strings.HasSuffix(calleeName(&cl.Call), "Version).Equal") || len(cl.Call.Args) != 2 {
			return unknown, false
		}
		var field, ver string
		for _, a := range cl.Call.Args {
			if _, f, _, ok := fieldLoad(a); ok && (f == "MaxVersion" || f == "MinVersion") {
				field = f
			}
			// a helper that is handed the version: every caller hands it cfg.MaxVersion
			if _, isP := unspill(a).(*ssa.Parameter); isP {
				if c.allResolved(a, func(x ssa.Value) bool { _, f, _, ok := fieldLoad(x); return ok && f == "MaxVersion" }) {
					field = "MaxVersion"
				}
			}
			if u, ok := a.(*ssa.UnOp); ok {
				if g, ok := u.X.(*ssa.Global); ok {
					ver = g.Name()
				}
			}
		}
		if field == "MaxVersion" && ver != "" {
			return vBool(ver == "Version1_3"), true
		}
		return unknown, false
	}
	// (a) server
	if gen := c.need(r, rule, pkgF12+".flight0Generate"); gen != nil {
		r.Sites += len(gen.Blocks)
		w := &Walk{Fn: gen, Follow: followSamePkg(gen), Assume: max13}
		w.FromEntry()
		marked := false
		var marks []*ssa.Call
		// the element-by-element form: tail[i] = sentinel[i] for i over the whole tail, tail =
		// RandomBytes[20:]
		for in := range w.Reached {
			st, ok := in.(*ssa.Store)
			if !ok {
				continue
			}
			ia, ok := st.Addr.(*ssa.IndexAddr)
			if !ok {
				continue
			}
			sl, ok := ia.X.(*ssa.Slice)
			if !ok || sl.High != nil || sl.Low == nil {
				continue
			}
			if _, f, _, okF := fieldOfAddr(sl.X); !okF || f != "RandomBytes" {
				continue
			}
			if k, isK := constInt(sl.Low); !isK || k != 28-int64(len(want)) {
				continue
			}
			ld, ok := st.Val.(*ssa.UnOp)
			if !ok {
				continue
			}
			src, ok := ld.X.(*ssa.IndexAddr)
			if !ok || src.X != ssa.Value(sentinel) || src.Index != ia.Index {
				continue
			}
			// the index runs over the whole tail
			whole := false
			if refs := ia.Index.Referrers(); refs != nil {
				for _, ref := range *refs {
					if bo, isBo := ref.(*ssa.BinOp); isBo && bo.Op == token.LSS && bo.X == ia.Index {
						if ln, isLen := bo.Y.(*ssa.Call); isLen && calleeName(&ln.Call) == "builtin:len" && ln.Call.Args[0] == ssa.Value(sl) {
							whole = true
						}
						if k, isK := constInt(bo.Y); isK && k == int64(len(want)) {
							whole = true
						}
					}
				}
			}
			if whole {
				marked = true
			}
		}
		for in := range w.Reached {
			cl, ok := in.(*ssa.Call)
			if !ok || calleeName(&cl.Call) != "builtin:copy" || len(cl.Call.Args) != 2 || !isSentinel(cl.Call.Args[1]) {
				continue
			}
			marks = append(marks, cl)
			// destination: the tail of LocalRandom.RandomBytes
			if sl, ok := cl.Call.Args[0].(*ssa.Slice); ok && sl.High == nil {
				if _, f, _, ok := fieldOfAddr(sl.X); ok && f == "RandomBytes" {
					if k, isK := constInt(sl.Low); isK && k == 28-int64(len(want)) {
						marked = true
					}
					// RandomBytesLength - len(sentinel)
					if bo, isB := sl.Low.(*ssa.BinOp); isB && bo.Op == token.SUB {
						if k, isK := constInt(bo.X); isK && k == 28 {
							if ln, isLen := bo.Y.(*ssa.Call); isLen && calleeName(&ln.Call) == "builtin:len" && isSentinel(ln.Call.Args[0]) {
								marked = true
							}
						}
					}
				}
			}
		}
		// and it must come after the random is drawn, on every path that returns success
		r.Check(marked, rule, short(gen)+":marks-random", c.pos(gen.Pos()), "with DTLS 1.3 enabled the DTLS 1.2 server random ends in the sentinel", "with DTLS 1.3 enabled the function that draws the DTLS 1.2 server random does not copy the downgrade sentinel into its last eight bytes")
		// ... and stays there: nothing writes the random again once it is marked
		if marked {
			over := ""
			for _, mk := range marks {
				if mk.Parent() != gen {
					continue
				}
				wa := &Walk{Fn: gen, Follow: followSamePkg(gen), Assume: max13}
				wa.After(mk)
				for in := range wa.Reached {
					if in == ssa.Instruction(mk) {
						continue
					}
					switch x := in.(type) {
					case *ssa.Store:
						if _, f, _, ok := fieldOfAddr(x.Addr); ok && f == "RandomBytes" {
							over = c.ipos(x)
						}
						if ia, isIA := x.Addr.(*ssa.IndexAddr); isIA {
							if _, f, _, ok := fieldOfAddr(ia.X); ok && f == "RandomBytes" {
								over = c.ipos(x)
							}
						}
					case *ssa.Call:
						name := calleeName(&x.Call)
						if name == "builtin:copy" {
							if sl, isSl := x.Call.Args[0].(*ssa.Slice); isSl {
								if _, f, _, ok := fieldOfAddr(sl.X); ok && f == "RandomBytes" {
									over = c.ipos(x)
								}
							}
						}
						if strings.HasSuffix(name, "handshake.Random).Populate") || strings.HasSuffix(name, "handshake.Random).UnmarshalFixed") {
							if _, f, _, ok := fieldOfAddr(x.Call.Args[0]); ok && f == "LocalRandom" {
								over = c.ipos(x)
							}
						}
					}
				}
			}
			r.Check(over == "", rule, short(gen)+":mark-stays", c.pos(gen.Pos()), "nothing writes the server random after the sentinel was copied into it", "the server random is written again ("+over+") after the downgrade sentinel was copied into it: the marker is gone from the ServerHello under that configuration, and a client whose supported_versions was stripped completes on DTLS 1.2 although both ends allow DTLS 1.3")
		}
	}
	// (b) client
	if p := c.need(r, rule, pkgF12+".flight3Parse"); p != nil {
		r.Sites += len(p.Blocks)
		matched := 0
		w := &Walk{Fn: p, Follow: followSamePkg(p), Assume: func(v ssa.Value) (Val, bool) {
			if val, ok := max13(v); ok {
				return val, true
			}
			if cl, ok := v.(*ssa.Call); ok {
				nm := calleeName(&cl.Call)
				if (nm == "bytes.HasSuffix" || nm == "bytes.Equal") && len(cl.Call.Args) == 2 && (isSentinel(cl.Call.Args[0]) || isSentinel(cl.Call.Args[1])) {
					matched++
					return vBool(true), true
				}
			}
			if o, ok := v.(*ssa.Extract); ok && o.Index == 1 {
				if ta, ok := o.Tuple.(*ssa.TypeAssert); ok && strings.HasSuffix(namedOf(ta.AssertedType), "MessageServerHello") {
					return vBool(true), true
				}
				if ta, ok := o.Tuple.(*ssa.TypeAssert); ok && strings.HasSuffix(namedOf(ta.AssertedType), "MessageHelloVerifyRequest") {
					return vBool(false), true
				}
			}
			return unknown, false
		}}
		w.FromEntry()
		adv := ""
		for _, ro := range w.Returns {
			if isAdvanceReturn(ro.Ret) {
				adv = c.ipos(ro.Ret)
			}
		}
		if matched == 0 {
			r.Bad(rule, short(p)+":checks-random", c.pos(p.Pos()), "the DTLS 1.2 client parser never compares the ServerHello random with the downgrade sentinel")
		} else {
			r.Check(adv == "", rule, short(p)+":checks-random", c.pos(p.Pos()), "with DTLS 1.3 enabled a ServerHello that carries the sentinel cannot advance the handshake", "with DTLS 1.3 enabled the client can advance ("+adv+") on a DTLS 1.2 ServerHello whose random ends in the downgrade sentinel")
		}
	}
}
