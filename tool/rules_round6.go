package main

import (
	"fmt"
	"go/token"
	"go/types"
	"regexp"
	"strings"

	"golang.org/x/tools/go/ssa"
)

// ruleExporter13Construction (C10, C07): the DTLS 1.3 exporter is, operand by operand, the
// construction of RFC 8446 7.5:
//
//	HKDF-Expand-Label(Derive-Secret(exporter_master_secret, label, ""), "exporter", Hash(context_value), length)
//
// In the function that expands under the label "exporter": the secret is the result of a
// Derive-Secret over the state's exporter master secret with the caller's label and an empty
// transcript (a fresh hash of the suite that nothing was written to), and the context operand is
// the digest (Sum) of a fresh hash of the suite that was fed the caller's context - also when
// that context is always empty: Hash("") is not "". An exporter that agrees with itself and with
// no other implementation hands the application keys its peer's stack does not derive.
func ruleExporter13Construction(c *Ctx, r *Report) {
	const rule = "exporter13-construction"
	n := 0
	for _, s := range c.CallsTo(nameHasSuffix("keyschedule.HkdfExpandLabel")) {
		call, ok := s.Call.(*ssa.Call)
		if !ok || len(call.Call.Args) < 5 {
			continue
		}
		k, isK := call.Call.Args[2].(*ssa.Const)
		if !isK || k.Value == nil || k.Value.ExactString() != `"exporter"` {
			continue
		}
		fn := s.Fn
		n++
		r.Sites += len(fn.Blocks)
		// a hash of the suite, fresh: the result of calling a func() hash.Hash value (the suite's
		// hash constructor); what was written to it
		type freshHash struct {
			written []ssa.Value
			ok      bool
		}
		fresh := func(h ssa.Value) freshHash {
			cl, isCall := h.(*ssa.Call)
			if !isCall || cl.Call.IsInvoke() || cl.Call.StaticCallee() != nil || len(cl.Call.Args) != 0 {
				return freshHash{}
			}
			if !strings.HasSuffix(namedOrType(cl.Type()), "hash.Hash") {
				return freshHash{}
			}
			out := freshHash{ok: true}
			for _, ref := range *cl.Referrers() {
				if w, isW := ref.(*ssa.Call); isW && w.Call.IsInvoke() && w.Call.Value == ssa.Value(cl) {
					switch w.Call.Method.Name() {
					case "Write":
						out.written = append(out.written, w.Call.Args[0])
					case "Sum", "Size", "BlockSize":
					default:
						out.ok = false
					}
				}
			}
			return out
		}
		var problems []string
		// the secret
		var ds *ssa.Call
		for _, l := range append(c.Origins(call.Call.Args[1], 0), call.Call.Args[1]) {
			if ex, isEx := l.(*ssa.Extract); isEx {
				l = ex.Tuple
			}
			if cl, isCall := l.(*ssa.Call); isCall && strings.HasSuffix(calleeName(&cl.Call), "keyschedule.DeriveSecret") {
				ds = cl
			}
		}
		if ds == nil || len(ds.Call.Args) < 4 {
			problems = append(problems, "the expanded secret is not the result of Derive-Secret")
		} else {
			if _, f, _, okF := fieldLoad(ds.Call.Args[1]); !okF || f != "exporterMasterSecret" {
				problems = append(problems, "Derive-Secret is not keyed by the state's exporter master secret")
			}
			if _, isP := stripConv(ds.Call.Args[2]).(*ssa.Parameter); !isP {
				problems = append(problems, "Derive-Secret does not take the caller's label")
			}
			fh := fresh(unspill(ds.Call.Args[3]))
			if !fh.ok || len(fh.written) != 0 {
				problems = append(problems, "the transcript handed to Derive-Secret is not an empty hash of the suite")
			}
		}
		// the context operand
		ctxOK := false
		for _, l := range append(c.Origins(call.Call.Args[3], 0), call.Call.Args[3]) {
			sum, isCall := l.(*ssa.Call)
			if !isCall || !sum.Call.IsInvoke() || sum.Call.Method.Name() != "Sum" {
				continue
			}
			fh := fresh(unspill(sum.Call.Value))
			if !fh.ok || len(fh.written) != 1 {
				continue
			}
			if _, isP := stripConv(fh.written[0]).(*ssa.Parameter); isP {
				ctxOK = true
			}
		}
		if !ctxOK {
			problems = append(problems, "the context operand of the expansion is not the digest of a fresh hash of the suite over the caller's context (RFC 8446 7.5 hashes the context value, also an empty one)")
		}
		if _, isP := stripConv(call.Call.Args[4]).(*ssa.Parameter); !isP {
			problems = append(problems, "the output length is not the caller's")
		}
		r.Check(len(problems) == 0, rule, short(fn), c.ipos(call), "HKDF-Expand-Label(Derive-Secret(exporter_master_secret, label, empty transcript), exporter, Hash(context), length)", "the DTLS 1.3 exporter deviates from RFC 8446 7.5: "+strings.Join(problems, "; ")+": both ends of this library still agree with each other, and with no other implementation")
	}
	r.Floor(rule, n, 1)
}

var chachaSeqRe = regexp.MustCompile(`(?i)^\S*epoch\[1\.\.0\] \S*sequence(number)?\[5\.\.0\]$`)

// ruleChaChaNonce12 (C10): the nonce of a DTLS 1.2 ChaCha20-Poly1305 record is the 12-byte write IV
// XOR the 64-bit record number (epoch 2 || sequence 6, big-endian) padded on the LEFT with four
// zero bytes (RFC 7905 2). In Encrypt and Decrypt (and the helpers of the package they build the
// nonce in) every place that mixes the record number into the 12-byte nonce array does so at
// bytes 4..11: an 8-byte big-endian store into nonce[4:], or byte stores nonce[4+i] ^= byte(seq >>
// (56 - 8i)); the number is (epoch << 48) | (sequence & 2^48-1); the IV mixed in is the local one
// when sealing and the remote one when opening.
func ruleChaChaNonce12(c *Ctx, r *Report) {
	const rule = "chacha-nonce12"
	n := 0
	for _, inst := range []struct{ fn, iv, other string }{
		{"(*" + pkgCS + ".ChaCha20Poly1305).Encrypt", "localWriteIV", "remoteWriteIV"},
		{"(*" + pkgCS + ".ChaCha20Poly1305).Decrypt", "remoteWriteIV", "localWriteIV"},
	} {
		fn := c.need(r, rule, inst.fn)
		if fn == nil {
			continue
		}
		unit := []*ssa.Function{fn}
		for _, cl := range findCalls(fn, func(string) bool { return true }) {
			if g := cl.Call.StaticCallee(); g != nil && g.Pkg == fn.Pkg && len(g.Blocks) > 0 && g != fn {
				unit = append(unit, g)
			}
		}
		isNonce := func(v ssa.Value) bool {
			al, ok := v.(*ssa.Alloc)
			if !ok {
				return false
			}
			arr, ok := derefType(al.Type()).Underlying().(*types.Array)
			return ok && arr.Len() == 12
		}
		sites := 0
		var problems []string
		seqShape := func(v ssa.Value) {
			g := layoutString(cellsToSegs(bytesOf(v, 8, 0)))
			if !chachaSeqRe.MatchString(g) {
				problems = append(problems, "the number mixed in is ["+g+"], not epoch(2) || sequence(6)")
			}
		}
		for _, u := range unit {
			r.Sites += len(u.Blocks)
			for _, b := range u.Blocks {
				for _, in := range b.Instrs {
					switch x := in.(type) {
					case *ssa.Call:
						if calleeName(&x.Call) != "(encoding/binary.bigEndian).PutUint64" {
							continue
						}
						sl, ok := x.Call.Args[1].(*ssa.Slice)
						if !ok || !isNonce(sl.X) {
							continue
						}
						sites++
						lo := int64(0)
						if sl.Low != nil {
							lo, _ = constInt(sl.Low)
						}
						if lo != 4 {
							problems = append(problems, fmt.Sprintf("the record number is stored at nonce[%d:] (%s), RFC 7905 puts it at nonce[4:12]", lo, c.ipos(x)))
						}
						seqShape(x.Call.Args[2])
					case *ssa.Store:
						ia, ok := x.Addr.(*ssa.IndexAddr)
						if !ok || !isNonce(ia.X) {
							continue
						}
						bo, ok := x.Val.(*ssa.BinOp)
						if !ok || bo.Op != token.XOR {
							continue
						}
						sites++
						// index = 4 + i
						base := int64(-1)
						var iv ssa.Value
						if add, ok := stripConv(ia.Index).(*ssa.BinOp); ok && add.Op == token.ADD {
							if k, isK := constInt(add.X); isK {
								base, iv = k, stripConv(add.Y)
							} else if k, isK := constInt(add.Y); isK {
								base, iv = k, stripConv(add.X)
							}
						}
						if base != 4 {
							problems = append(problems, fmt.Sprintf("the record number is XORed into nonce[%d+i] (%s), RFC 7905 puts it at nonce[4..11]", base, c.ipos(x)))
						}
						// value = byte(seq >> (56 - 8*i))
						okShift := false
						for _, side := range []ssa.Value{bo.X, bo.Y} {
							sh, ok := stripConv(side).(*ssa.BinOp)
							if !ok || sh.Op != token.SHR {
								continue
							}
							amt, ok := stripConv(sh.Y).(*ssa.BinOp)
							if !ok || amt.Op != token.SUB {
								continue
							}
							k56, is56 := constInt(amt.X)
							mul, isMul := stripConv(amt.Y).(*ssa.BinOp)
							if !is56 || k56 != 56 || !isMul || mul.Op != token.MUL {
								continue
							}
							k8, is8 := constInt(mul.Y)
							if is8 && k8 == 8 && iv != nil && stripConv(mul.X) == iv {
								okShift = true
								seqShape(sh.X)
							}
						}
						if !okShift && iv != nil {
							// or: byte i of an 8-byte buffer that holds the number big-endian
							for _, side := range []ssa.Value{bo.X, bo.Y} {
								if num := bigEndianBufferByte(stripConv(side), iv, x); num != nil {
									okShift = true
									seqShape(num)
								}
							}
						}
						if !okShift {
							problems = append(problems, "the byte XORed in at "+c.ipos(x)+" is not byte(number >> (56 - 8*i)) for the same i (big-endian, most significant byte first)")
						}
					}
				}
			}
		}
		// the IV of the right direction, read in the method itself
		right, wrong := false, false
		for _, b := range fn.Blocks {
			for _, in := range b.Instrs {
				if v, ok := in.(ssa.Value); ok {
					if _, f, _, okF := fieldLoad(v); okF {
						if f == inst.iv {
							right = true
						}
						if f == inst.other {
							wrong = true
						}
					}
				}
			}
		}
		if !right || wrong {
			problems = append(problems, "the nonce is not built from "+inst.iv+" alone")
		}
		n += sites
		if sites == 0 {
			r.Unk(rule, short(fn), c.pos(fn.Pos()), "no place was recognised where the record number enters the 12-byte nonce")
			continue
		}
		r.Check(len(problems) == 0, rule, short(fn), c.pos(fn.Pos()), "nonce = "+inst.iv+" XOR (0^32 || epoch || sequence)", "the ChaCha20-Poly1305 record nonce deviates from RFC 7905 2: "+strings.Join(problems, "; ")+": records of this library cannot be opened by a conforming peer or a key-log decoder, and the other way round, while both ends of this library still agree")
	}
	r.Floor(rule, n, 2)
}

// bigEndianBufferByte: v is element idx of a local [8]byte that was filled, before use, by one
// binary.BigEndian.PutUint64(buf[:], number) and is written nowhere else; returns number.
func bigEndianBufferByte(v, idx ssa.Value, use ssa.Instruction) ssa.Value {
	var buf *ssa.Alloc
	var whole *ssa.UnOp
	switch x := v.(type) {
	case *ssa.UnOp: // buf[i] through its address
		if ia, ok := x.X.(*ssa.IndexAddr); ok && stripConv(ia.Index) == idx {
			buf, _ = ia.X.(*ssa.Alloc)
		}
	case *ssa.Index: // element of a copy of the array (range over the array value)
		if ld, ok := x.X.(*ssa.UnOp); ok && stripConv(x.Index) == idx {
			buf, _ = ld.X.(*ssa.Alloc)
			whole = ld
		}
	}
	if buf == nil {
		return nil
	}
	arr, ok := derefType(buf.Type()).Underlying().(*types.Array)
	if !ok || arr.Len() != 8 {
		return nil
	}
	var put *ssa.Call
	for _, ref := range *buf.Referrers() {
		switch y := ref.(type) {
		case *ssa.Slice:
			if y.Low != nil {
				if k, isK := constInt(y.Low); !isK || k != 0 {
					return nil
				}
			}
			for _, r2 := range *y.Referrers() {
				call, isCall := r2.(*ssa.Call)
				if !isCall || calleeName(&call.Call) != "(encoding/binary.bigEndian).PutUint64" || call.Call.Args[1] != ssa.Value(y) || put != nil {
					return nil
				}
				put = call
			}
		case *ssa.IndexAddr:
			for _, r2 := range *y.Referrers() {
				if st, isSt := r2.(*ssa.Store); isSt && st.Addr == ssa.Value(y) {
					return nil
				}
				if _, isLd := r2.(*ssa.UnOp); !isLd {
					if _, isDbg := r2.(*ssa.DebugRef); !isDbg {
						return nil
					}
				}
			}
		case *ssa.UnOp, *ssa.DebugRef:
		case *ssa.Store:
			// zero initialisation only
			if y.Addr != ssa.Value(buf) {
				return nil
			}
			if k, isK := y.Val.(*ssa.Const); !isK || k.Value != nil {
				return nil
			}
		default:
			return nil
		}
	}
	if put == nil {
		return nil
	}
	at := use
	if whole != nil {
		at = whole
	}
	if !instrDominates(put, at) {
		return nil
	}
	return put.Call.Args[2]
}

// ruleClientAuthPolicy13 (C03): the DTLS 1.3 server validates a presented client certificate chain
// under both verifying policies. In the function that judges the peer's identity, on the branch
// for a client peer, for ClientAuth = VerifyClientCertIfGiven and = RequireAndVerifyClientCert: no
// successful return is reachable without the chain verifier having been called, nor after it
// returned an error. (The DTLS 1.2 table is client-auth-policy-table.)
func ruleClientAuthPolicy13(c *Ctx, r *Report) {
	const rule = "client-auth-policy13"
	fn := c.need(r, rule, "(*"+pkgHS+".protectedHandshakeFlight).verifyPeerIdentity")
	if fn == nil {
		return
	}
	r.Sites += len(fn.Blocks)
	pol := c.enumConsts("internal/config", "ClientAuthType")
	var peerIsClient *ssa.Parameter
	for _, p := range fn.Params {
		if bt, ok := p.Type().Underlying().(*types.Basic); ok && bt.Kind() == types.Bool {
			peerIsClient = p
		}
	}
	// the judgement may be cut into helpers of the package (one per role, say): they are followed
	var verifiers []*ssa.Call
	for _, u := range c.unitFuncs(fn) {
		verifiers = append(verifiers, findCalls(u, nameHasSuffix("handshakecrypto.VerifyClientCert"))...)
	}
	if peerIsClient == nil || len(pol) == 0 {
		r.Unk(rule, short(fn), c.pos(fn.Pos()), "the role parameter or the policy constants were not found")
		return
	}
	n := 0
	for _, name := range []string{"VerifyClientCertIfGiven", "RequireAndVerifyClientCert"} {
		k, ok := pol[name]
		if !ok {
			r.Unk(rule, short(fn)+":"+name, c.pos(fn.Pos()), "policy constant not found")
			continue
		}
		n++
		base := []atomAssume{
			{mLoad(tCfg, "ClientAuth"), vInt(k)},
			{func(v ssa.Value) bool { return v == ssa.Value(peerIsClient) }, vBool(true)},
			{mLoad(tCfg, "VerifyPeerCertificate"), vNil(true)},
		}
		isVerifier := map[ssa.Instruction]bool{}
		for _, v := range verifiers {
			isVerifier[v] = true
		}
		succeeds := func(w *Walk) string {
			for _, ro := range w.Returns {
				last := len(ro.Vals) - 1
				if last >= 0 && !(ro.Vals[last].Kind == 2 && !ro.Vals[last].B) {
					if isNilConst(unspill(ro.Ret.Results[last])) || ro.Vals[last].Kind == 2 && ro.Vals[last].B {
						return c.ipos(ro.Ret)
					}
				}
			}
			return ""
		}
		// (a) without the verifier
		w := &Walk{Fn: fn, Follow: followSamePkg(fn), Assume: assumeAll(base...)}
		w.Visit = func(in ssa.Instruction, _ Env) bool { return !isVerifier[in] }
		w.FromEntry()
		without := succeeds(w)
		// (b) after the verifier failed
		failed := ""
		for _, v := range verifiers {
			as := append(append([]atomAssume{}, base...), atomAssume{mValue(resultValue(v, 1)), vNil(false)})
			var w2 *Walk
			if v.Parent() == fn {
				w2 = (&Walk{Fn: fn, Follow: followSamePkg(fn), Assume: assumeAll(as...)}).After(v)
			} else {
				// the verifier sits in a helper: the whole judgement with its failure assumed
				// (the ways round it are what (a) reports)
				w2 = (&Walk{Fn: fn, Follow: followSamePkg(fn), Assume: assumeAll(as...)}).FromEntry()
				if !w2.Reached[v] {
					failed = "the verifier is not reached"
				}
			}
			if s := succeeds(w2); s != "" {
				failed = s
			}
		}
		r.Check(without == "" && failed == "" && len(verifiers) > 0, rule, short(fn)+":"+name, c.pos(fn.Pos()), "with "+name+" a presented client chain is accepted only after VerifyClientCert succeeded", "with "+name+" the DTLS 1.3 server accepts a client certificate chain without validating it against ClientCAs (success without the verifier: "+without+"; after its failure: "+failed+"): a self-signed certificate whose key the client holds completes the handshake and appears in PeerCertificates")
	}
	r.Floor(rule, n, 2)
}

// ruleUnprotectedRecordBounded (C08): "no sequence of datagrams from an unauthenticated sender ...
// the endpoint keeps serving valid traffic afterwards". Once the peer has switched to a protected
// epoch an epoch-0 record is not the peer's, so nothing it contains - a body that does not
// decode, a content type that is out of place - may be answered with an alert or surface as an
// error: the alert would go out protected to the genuine peer, which closes, and the error ends
// the session here. In the function that decodes a received record, with "the record's epoch is
// 0" and "the remote epoch is not 0" both true, every return carries a nil error and no response
// alert.
func ruleUnprotectedRecordBounded(c *Ctx, r *Report) {
	const rule = "unprotected-record-bounded"
	fn := c.need(r, rule, "(*dtls.Conn).handleIncomingPacket")
	if fn == nil {
		return
	}
	r.Sites += len(fn.Blocks)
	matched := map[string]bool{}
	// the record may be decoded in a helper of the connection that hands back the content, or
	// what to answer: such a helper (it calls the record decoder) is walked as part of fn
	decodeHelper := func(callee *ssa.Function) bool {
		return callee.Pkg == fn.Pkg && len(findCalls(callee, nameHasSuffix("recordlayer.RecordLayer).Unmarshal"))) > 0
	}
	// alertIn: may the outcome value v returned on the path ro carry an alert?
	alertIn := func(ro *RetOutcome, v ssa.Value) string {
		v = unspill(v)
		// the path knows the alert field to be nil: nothing is answered
		if st, isSt := v.Type().Underlying().(*types.Struct); isSt {
			for i := 0; i < st.NumFields(); i++ {
				if st.Field(i).Name() != "responseAlert" {
					continue
				}
				var cell *fieldCell
				if ld, isLd := v.(*ssa.UnOp); isLd && ld.Op == token.MUL {
					if al, isAl := ld.X.(*ssa.Alloc); isAl && privateStruct(al) {
						cell = fieldCellOf(al, i)
					}
				} else {
					cell = fieldCellOf(v, i)
				}
				if cell != nil {
					if val, has := ro.Env[cell]; has && val.Kind == 2 && val.B {
						return ""
					}
				}
			}
		}
		judged := func(x ssa.Value) string {
			ex, isEx := x.(*ssa.Extract)
			if !isEx {
				return ""
			}
			call, ok := ex.Tuple.(*ssa.Call)
			if !ok {
				return ""
			}
			if strings.HasSuffix(calleeName(&call.Call), ").handleRecordContent") {
				return "the outcome of handleRecordContent (which may carry an alert) is returned as it is at " + c.ipos(ro.Ret)
			}
			if g := call.Call.StaticCallee(); g != nil && decodeHelper(g) {
				return "the outcome of " + short(g) + " (which may carry an alert on this path) is returned at " + c.ipos(ro.Ret)
			}
			return ""
		}
		if why := judged(v); why != "" {
			return why
		}
		// a local variable that holds such an outcome: the last thing stored to it before the return
		if ld, isLd := v.(*ssa.UnOp); isLd && ld.Op == token.MUL {
			if al, isAl := ld.X.(*ssa.Alloc); isAl && privateStruct(al) {
				var stores []*ssa.Store
				for _, ref := range *al.Referrers() {
					if st, isSt := ref.(*ssa.Store); isSt && st.Addr == ssa.Value(al) && instrReaches(st, ld) {
						stores = append(stores, st)
					}
				}
				for _, s1 := range stores {
					why := judged(s1.Val)
					if why == "" {
						continue
					}
					overwritten := false
					for _, s2 := range stores {
						if s2 != s1 && instrReaches(s1, s2) && !instrReaches(s2, s1) {
							overwritten = true
						}
					}
					if !overwritten {
						return why
					}
				}
			}
		}
		return ""
	}
	w := &Walk{Fn: fn, Follow: decodeHelper, Assume: func(v ssa.Value) (Val, bool) {
		bo, ok := v.(*ssa.BinOp)
		if !ok || (bo.Op != token.EQL && bo.Op != token.NEQ) {
			return unknown, false
		}
		k, isK := constInt(bo.Y)
		if !isK || k != 0 {
			return unknown, false
		}
		x := stripConv(bo.X)
		if _, f, _, okF := fieldLoad(x); okF && f == "Epoch" {
			matched["epoch"] = true
			return vBool(bo.Op == token.EQL), true // the record's epoch is 0
		}
		if cl, isCall := x.(*ssa.Call); isCall && strings.HasSuffix(calleeName(&cl.Call), ").RemoteEpoch") {
			matched["remote"] = true
			return vBool(bo.Op == token.NEQ), true // the remote epoch is not 0
		}
		return unknown, false
	}}
	w.FromEntry()
	bad := ""
	for _, ro := range w.Returns {
		last := len(ro.Vals) - 1
		if last >= 0 && !(ro.Vals[last].Kind == 2 && ro.Vals[last].B) && !isNilConst(unspill(ro.Ret.Results[last])) {
			bad = "an error is returned at " + c.ipos(ro.Ret)
		}
		if v := fieldOfReturnedStruct(ro.Ret, 0, "responseAlert"); v != nil && !isNilConst(v) {
			bad = "a response alert is returned at " + c.ipos(ro.Ret)
		}
		// an outcome handed through from a callee may carry an alert too
		if why := alertIn(ro, ro.Ret.Results[0]); why != "" {
			bad = why
		}
	}
	ok := bad == "" && matched["epoch"] && matched["remote"] && len(w.Returns) > 0 && !w.overflow
	if bad == "" && !(matched["epoch"] && matched["remote"]) {
		bad = "the function never looks at the record's epoch and the remote epoch together"
	}
	// ... and, at any time - during the handshake too - an epoch-0 record whose content does not
	// decode is dropped: with the record's epoch 0 and the record decoder failing, no return
	// carries an error or an alert, whatever the remote epoch
	type decodeSite struct {
		um, via *ssa.Call // the decoder call, and the call of the helper it sits in (nil: in fn itself)
	}
	var decodes []decodeSite
	for _, um := range findCalls(fn, nameHasSuffix("recordlayer.RecordLayer).Unmarshal")) {
		decodes = append(decodes, decodeSite{um, nil})
	}
	for _, hc := range findCalls(fn, func(string) bool { return true }) {
		if g := hc.Call.StaticCallee(); g != nil && len(g.Blocks) > 0 && decodeHelper(g) {
			for _, um := range findCalls(g, nameHasSuffix("recordlayer.RecordLayer).Unmarshal")) {
				decodes = append(decodes, decodeSite{um, hc})
			}
		}
	}
	for _, ds := range decodes {
		um0 := ds.um
		w2 := &Walk{Fn: fn, Follow: decodeHelper, Assume: func(v ssa.Value) (Val, bool) {
			if v == ssa.Value(um0) {
				return vNil(false), true
			}
			bo, okB := v.(*ssa.BinOp)
			if !okB || (bo.Op != token.EQL && bo.Op != token.NEQ) {
				return unknown, false
			}
			if k, isK := constInt(bo.Y); !isK || k != 0 {
				return unknown, false
			}
			if _, f, _, okF := fieldLoad(stripConv(bo.X)); okF && f == "Epoch" {
				return vBool(bo.Op == token.EQL), true
			}
			return unknown, false
		}}
		if ds.via != nil {
			w2.At(ds.via)
		} else {
			w2.After(um0)
		}
		bad2 := ""
		for _, ro := range w2.Returns {
			if why := alertIn(ro, ro.Ret.Results[0]); why != "" && !strings.Contains(why, "handleRecordContent") {
				bad2 = why
			}
			last := len(ro.Vals) - 1
			if last >= 0 && !(ro.Vals[last].Kind == 2 && ro.Vals[last].B) && !isNilConst(unspill(ro.Ret.Results[last])) {
				bad2 = "an error is returned at " + c.ipos(ro.Ret)
			}
			if v := fieldOfReturnedStruct(ro.Ret, 0, "responseAlert"); v != nil && !isNilConst(v) {
				bad2 = "a response alert is returned at " + c.ipos(ro.Ret)
			}
		}
		r.Check(bad2 == "" && len(w2.Returns) > 0, rule, short(fn)+":undecodable-epoch0", c.ipos(um0), "an epoch-0 record that does not decode is dropped at any time", "an unprotected (epoch 0) record whose content does not decode is answered during the handshake: "+bad2+": one forged 14-byte datagram makes this side send its genuine peer a fatal alert and ends the handshake both are in the middle of")
	}
	// application data in epoch 0 is never the peer's: dropped, not answered. Judged in every
	// function that hands payload to Read (the consumer of application data, wherever it sits):
	// with the record's epoch 0 and the content application data, no return carries an error
	// or an alert
	nAD := 0
	seenAD := map[*ssa.Function]bool{}
	for _, dl := range c.readDeliveries() {
		ad := dl.fn
		if !dl.payload || seenAD[ad] {
			continue
		}
		seenAD[ad] = true
		nAD++
		epochIsZero := func(v ssa.Value) (Val, bool) {
			bo, okB := v.(*ssa.BinOp)
			if !okB || (bo.Op != token.EQL && bo.Op != token.NEQ) {
				return unknown, false
			}
			if k, isK := constInt(bo.Y); !isK || k != 0 {
				return unknown, false
			}
			if _, f, _, okF := fieldLoad(stripConv(bo.X)); okF && f == "Epoch" {
				return vBool(bo.Op == token.EQL), true
			}
			return unknown, false
		}
		contentIsAppData := assumeAll(
			atomAssume{mTypeAssertOK("pkg/protocol.ApplicationData"), vBool(true)},
			atomAssume{func(v ssa.Value) bool {
				ex, ok := v.(*ssa.Extract)
				if !ok || ex.Index != 1 {
					return false
				}
				ta, ok := ex.Tuple.(*ssa.TypeAssert)
				return ok && ta.CommaOk && namedOf(ta.AssertedType) != "pkg/protocol.ApplicationData"
			}, vBool(false)})
		w3 := (&Walk{Fn: ad, Assume: func(v ssa.Value) (Val, bool) {
			if val, ok := epochIsZero(v); ok {
				return val, true
			}
			return contentIsAppData(v)
		}}).FromEntry()
		bad3 := ""
		for _, ro := range w3.Returns {
			last := len(ro.Vals) - 1
			if last >= 0 && isErrorType(ro.Ret.Results[last].Type()) && !(ro.Vals[last].Kind == 2 && ro.Vals[last].B) && !isNilConst(unspill(ro.Ret.Results[last])) {
				bad3 = "an error is returned at " + c.ipos(ro.Ret)
			}
			for i, rv := range ro.Ret.Results {
				if !strings.HasSuffix(namedOrType(rv.Type()), "packetOutcome") {
					continue
				}
				if v := fieldOfReturnedStruct(ro.Ret, i, "responseAlert"); v != nil && !isNilConst(v) {
					bad3 = "a response alert is returned at " + c.ipos(ro.Ret)
				}
				if cl, isCall := unspill(rv).(*ssa.Call); isCall {
					// an outcome built by a helper: what that helper returns
					if g := cl.Call.StaticCallee(); g != nil && len(g.Blocks) > 0 {
						for _, gb := range g.Blocks {
							if gr, isRet := gb.Instrs[len(gb.Instrs)-1].(*ssa.Return); isRet && len(gr.Results) == 1 {
								if v := fieldOfReturnedStruct(gr, 0, "responseAlert"); v != nil && !isNilConst(v) {
									bad3 = "a response alert (" + short(g) + ") is returned at " + c.ipos(ro.Ret)
								}
							}
						}
					}
				}
			}
		}
		r.Sites += len(ad.Blocks)
		r.Check(bad3 == "" && len(w3.Returns) > 0 && !w3.overflow, rule, short(ad)+":application-data-epoch0", c.pos(ad.Pos()), "application data in epoch 0 is dropped", "application data in an unprotected (epoch 0) record is answered: "+bad3+": one forged datagram ends a handshake in progress")
	}
	r.Floor(rule, nAD, 1)
	r.Check(ok, rule, short(fn), c.pos(fn.Pos()), "an epoch-0 record received after the peer switched epochs is answered with nothing and returns no error", "an unprotected record that arrives after the peer switched to a protected epoch can still provoke an answer: "+bad+": one forged datagram (an alert with a one-byte body, a ChangeCipherSpec with a wrong body, application data in epoch 0, a truncated ACK) makes this side send its genuine peer a protected fatal alert and both close")
}

// ruleTrialOpenPreservesRecord (C20): a received DTLS 1.3 record is tried against every read
// generation whose epoch shares its two low epoch bits. A generation that fails to authenticate it
// must leave the record as it was, or the generation that would have opened it never sees it:
// the AEAD zeroes its destination on failure. In the record protection of the DTLS 1.3 suites the
// destination handed to AEAD.Open does not share storage with the ciphertext argument.
func ruleTrialOpenPreservesRecord(c *Ctx, r *Report) {
	const rule = "trial-open-preserves-record"
	n := 0
	for _, fn := range c.fnsOfPkg("internal/ciphersuite") {
		for _, cl := range findCalls(fn, func(nm string) bool { return nm == "iface:crypto/cipher.AEAD.Open" }) {
			if len(cl.Call.Args) < 4 {
				continue
			}
			n++
			r.Sites++
			dst, ct := cl.Call.Args[0], cl.Call.Args[2]
			alias := false
			if !isNilConst(dst) {
				rd, rc := rootValueDeep(dst), rootValueDeep(ct)
				if sl, ok := dst.(*ssa.Slice); ok {
					rd = rootValueDeep(sl.X)
				}
				if sl, ok := ct.(*ssa.Slice); ok {
					rc = rootValueDeep(sl.X)
				}
				if rd == rc || dst == ct {
					alias = true
				}
				for _, l := range c.Origins(dst, 0) {
					for _, l2 := range append(c.Origins(ct, 0), ct) {
						if l == l2 {
							alias = true
						}
					}
				}
			}
			r.Check(!alias, rule, short(fn), c.ipos(cl), "AEAD.Open writes into a buffer that is not the ciphertext", "the record protection opens a record in place (the destination of AEAD.Open is the ciphertext's own storage): a read generation that is tried first and fails to authenticate the record zeroes it, so the generation that would have opened it - a record of an earlier epoch that arrives after several key updates - never gets to see it and the payload is lost")
		}
	}
	r.Floor(rule, n, 1)
}

// ruleCachePushAppends (C02, C04): the transcript cache keeps every copy of a message in the order
// it was pushed and Pull answers with the first one: a message that is written again (a CID-wrapped
// Finished is re-marshalled with another header) must not displace the bytes both Finished
// computations were made over. Push stores into nothing but the item it creates.
func ruleCachePushAppends(c *Ctx, r *Report) {
	const rule = "cache-push-appends"
	fn := c.need(r, rule, "(*internal/flight.Cache).Push")
	if fn == nil {
		return
	}
	r.Sites += len(fn.Blocks)
	bad := ""
	appends := 0
	for _, b := range fn.Blocks {
		for _, in := range b.Instrs {
			switch x := in.(type) {
			case *ssa.Store:
				fa, ok := x.Addr.(*ssa.FieldAddr)
				if !ok {
					continue
				}
				if o, _, _, okF := fieldOfAddr(fa); okF && strings.HasSuffix(o, "flight.HandshakeCacheItem") {
					if _, isNew := fa.X.(*ssa.Alloc); !isNew {
						bad = c.ipos(x)
					}
				}
			case *ssa.Call:
				if calleeName(&x.Call) == "builtin:append" && isFieldLoad(x.Call.Args[0], "internal/flight.Cache", "cache") {
					appends++
				}
			}
		}
	}
	r.Check(bad == "" && appends > 0, rule, short(fn), c.pos(fn.Pos()), "Push appends a new item and writes to no item that is already cached", "Push writes into an item that is already cached ("+bad+"): when a message is pushed again with other bytes (a retransmitted Finished that was re-marshalled with a connection-ID header) the copy both sides computed their Finished over is replaced, the peer's correct Finished no longer verifies, and a single lost datagram ends the handshake with a verify_data mismatch")
}

// ruleRepeatedHelloJudgedByType (C02, C13): "the peer repeated its ClientHello" is what makes the
// DTLS 1.3 server send a lost HelloRetryRequest again, and a ClientHello is usually fragmented. The
// flag must therefore come from the message type in the fragment's handshake header (the first
// content byte, or the Type of a decoded handshake.Header), which every fragment carries - not from
// decoding the record's content as a whole message, which a fragment never is.
func ruleRepeatedHelloJudgedByType(c *Ctx, r *Report) {
	const rule = "repeated-hello-judged-by-type"
	n := 0
	hsTypes := c.enumConsts("pkg/protocol/handshake", "Type")
	for _, fn := range c.Fns {
		if !inModule(fn) {
			continue
		}
		for _, b := range fn.Blocks {
			for _, in := range b.Instrs {
				st, ok := in.(*ssa.Store)
				if !ok {
					continue
				}
				o, f, _, okF := fieldOfAddr(st.Addr)
				if !okF || f != "retransmitsHello" || !strings.HasSuffix(o, "packetOutcome") {
					continue
				}
				n++
				r.Sites++
				byType, byDecode := false, ""
				seen := map[ssa.Value]bool{}
				var look func(v ssa.Value, d int)
				look = func(v ssa.Value, d int) {
					if d > 8 || v == nil || seen[v] {
						return
					}
					seen[v] = true
					switch x := v.(type) {
					case *ssa.Phi:
						for _, e := range x.Edges {
							look(e, d+1)
						}
					case *ssa.BinOp:
						if x.Op == token.EQL {
							for _, pr := range [][2]ssa.Value{{x.X, x.Y}, {x.Y, x.X}} {
								if k, isK := constInt(pr[1]); isK && k == hsTypes["TypeClientHello"] {
									src := stripConv(pr[0])
									if u, isU := src.(*ssa.UnOp); isU {
										if _, isIdx := u.X.(*ssa.IndexAddr); isIdx {
											byType = true
										}
									}
									if o2, f2, _, ok2 := fieldLoad(src); ok2 && f2 == "Type" && strings.HasSuffix(o2, "handshake.Header") {
										byType = true
									}
								}
							}
						}
						look(x.X, d+1)
						look(x.Y, d+1)
					case *ssa.Extract:
						if ta, isTA := x.Tuple.(*ssa.TypeAssert); isTA {
							byDecode = "a type assertion on the decoded content (" + typeShort(ta.AssertedType) + ")"
						}
					case *ssa.UnOp:
						look(x.X, d+1)
					case *ssa.Call:
						// a helper of the package that gives the verdict: what it returns
						if g := x.Call.StaticCallee(); g != nil && g.Pkg == fn.Pkg && len(g.Blocks) > 0 && g.Signature.Results().Len() == 1 {
							for _, gb := range g.Blocks {
								if ret, isRet := gb.Instrs[len(gb.Instrs)-1].(*ssa.Return); isRet {
									look(unspill(ret.Results[0]), d+1)
								}
							}
						}
					}
				}
				look(st.Val, 0)
				if st.Val != nil {
					if k, isK := st.Val.(*ssa.Const); isK && k.Value != nil {
						n-- // a constant false in another literal: not the deciding site
						continue
					}
				}
				r.Check(byType && byDecode == "", rule, short(fn), c.ipos(st), "judged by the handshake type of the fragment header", "whether the peer repeated its ClientHello is decided by "+byDecode+" instead of the message type in the fragment header: a fragment of a ClientHello never decodes as a whole message, the default ClientHello is always fragmented, and the server then never sends a lost HelloRetryRequest again (nothing else re-sends it)")
			}
		}
	}
	r.Floor(rule, n, 1)
}

// ruleNegotiatedStartPrimed (C02): an endpoint that offers two versions reads the first datagrams
// itself, before a state machine exists, and what it read sits in the handshake cache when the
// machine starts. Nothing tells the machine: unless the start hands it one receive event it waits
// for the peer to send the same flight again - a full retransmission interval on a perfect
// network. Every function that runs such a negotiation loop and returns the machine's start
// sets the start's postSetup to a function that sends a receive event to the machine.
func ruleNegotiatedStartPrimed(c *Ctx, r *Report) {
	const rule = "negotiated-start-primed"
	reads := func(f *ssa.Function, depth int) bool { return false }
	var readsRec func(f *ssa.Function, depth int) bool
	memo := map[*ssa.Function]bool{}
	readsRec = func(f *ssa.Function, depth int) bool {
		if f == nil || !inModule(f) || len(f.Blocks) == 0 || depth > 3 {
			return false
		}
		if v, ok := memo[f]; ok {
			return v
		}
		memo[f] = false
		for _, cl := range findCalls(f, func(string) bool { return true }) {
			g := cl.Call.StaticCallee()
			if g == nil {
				continue
			}
			if strings.HasSuffix(short(g), "dtls.Conn).readAndProcessDatagram") || readsRec(g, depth+1) {
				memo[f] = true
			}
		}
		return memo[f]
	}
	reads = readsRec
	// negotiation loops: a loop around a reader, in a function that does not itself signal a machine
	negotiators := map[*ssa.Function]bool{}
	for _, f := range c.Fns {
		if !inModule(f) || f.Pkg == nil || f.Pkg.Pkg.Name() != "dtls" {
			continue
		}
		for _, l := range naturalLoops(f) {
			for b := range l.blocks {
				for _, in := range b.Instrs {
					if cl, ok := in.(*ssa.Call); ok && reads(cl.Call.StaticCallee(), 0) && !strings.HasSuffix(short(f), ").readLoop") {
						sends := false
						for _, b2 := range f.Blocks {
							for _, in2 := range b2.Instrs {
								if _, isSel := in2.(*ssa.Select); isSel {
									sends = true
								}
								if _, isSend := in2.(*ssa.Send); isSend {
									sends = true
								}
							}
						}
						if !sends {
							negotiators[f] = true
						}
					}
				}
			}
		}
	}
	signals := func(f *ssa.Function) bool {
		seen := map[*ssa.Function]bool{}
		var rec func(g *ssa.Function, d int) bool
		rec = func(g *ssa.Function, d int) bool {
			if g == nil || seen[g] || d > 3 || len(g.Blocks) == 0 {
				return false
			}
			seen[g] = true
			for _, b := range g.Blocks {
				for _, in := range b.Instrs {
					switch x := in.(type) {
					case *ssa.Send:
						if _, f2, _, ok := fieldLoad(x.Chan); ok && f2 == "handshakeRecv" {
							return true
						}
					case *ssa.Select:
						for _, st := range x.States {
							if st.Dir == types.SendOnly {
								if _, f2, _, ok := fieldLoad(st.Chan); ok && f2 == "handshakeRecv" {
									return true
								}
							}
						}
					case *ssa.Call:
						if rec(x.Call.StaticCallee(), d+1) {
							return true
						}
					}
				}
			}
			return false
		}
		return rec(f, 0)
	}
	n := 0
	for _, f := range c.Fns {
		if !inModule(f) {
			continue
		}
		calls := false
		for _, cl := range findCalls(f, func(string) bool { return true }) {
			if negotiators[cl.Call.StaticCallee()] {
				calls = true
			}
		}
		if !calls {
			continue
		}
		var al *ssa.Alloc
		for _, b := range f.Blocks {
			ret, ok := b.Instrs[len(b.Instrs)-1].(*ssa.Return)
			if !ok || len(ret.Results) == 0 {
				continue
			}
			if u, isU := ret.Results[0].(*ssa.UnOp); isU && u.Op == token.MUL {
				if a, isA := u.X.(*ssa.Alloc); isA && namedOf(a.Type()) == "dtls.handshakeStart" && len(litFields(a)) > 0 {
					al = a
				}
			}
		}
		if al == nil {
			continue
		}
		n++
		r.Sites += len(f.Blocks)
		ps := litFields(al)["postSetup"]
		good := false
		if ps != nil {
			for _, l := range append(c.Origins(ps, 0), ps) {
				if mc, ok := l.(*ssa.MakeClosure); ok && signals(mc.Fn.(*ssa.Function)) {
					good = true
				}
				if fnv, ok := l.(*ssa.Function); ok && signals(fnv) {
					good = true
				}
			}
		}
		r.Check(good, rule, short(f), c.ipos(al), "the start of the state machine hands it one receive event", "the state machine is started after this function read the peer's first flight itself, and is not told: what was read sits in the handshake cache, the machine waits, and the handshake only moves when the peer's retransmission timer fires and the same flight arrives again - a full retransmission interval on a network that lost nothing")
	}
	r.Floor(rule, n, 2)
}

// rulePSKNotEmpty (C07, C03): a PSK callback that knows no key for an identity may answer with an
// empty key and no error (a missed map lookup does). With an empty key the plain-PSK pre-master
// secret is a constant, so the master secret, the record keys, both Finished and every exported
// secret follow from the two hello randoms, and a peer that holds no key completes the handshake.
// Behind every call of the callback, with the returned key empty, no pre-master secret is
// computed.
func rulePSKNotEmpty(c *Ctx, r *Report) {
	const rule = "psk-not-empty"
	n := 0
	for _, fn := range c.fnsOfPkg(pkgF12) {
		for _, call := range dynCallsOfField(fn, tCfg, "LocalPSKCallback") {
			n++
			r.Sites += len(fn.Blocks)
			psk := resultValue(call, 0)
			tests := 0
			w := &Walk{Fn: fn, Assume: func(v ssa.Value) (Val, bool) {
				bo, ok := v.(*ssa.BinOp)
				if !ok || psk == nil {
					return unknown, false
				}
				cl, isLen := stripConv(bo.X).(*ssa.Call)
				k, isK := constInt(bo.Y)
				if !isLen || calleeName(&cl.Call) != "builtin:len" || cl.Call.Args[0] != psk || !isK || k != 0 {
					return unknown, false
				}
				tests++
				switch bo.Op {
				case token.EQL, token.LEQ:
					return vBool(true), true
				case token.NEQ, token.GTR:
					return vBool(false), true
				}
				return unknown, false
			}}
			w.After(call)
			used := ""
			for in := range w.Reached {
				if cl, ok := in.(*ssa.Call); ok {
					nm := calleeName(&cl.Call)
					if strings.HasSuffix(nm, "prf.PSKPreMasterSecret") || strings.HasSuffix(nm, "prf.EcdhePSKPreMasterSecret") {
						used = c.ipos(cl)
					}
				}
			}
			r.Check(used == "" && tests > 0, rule, short(fn), c.ipos(call), "an empty key from the PSK callback computes no pre-master secret", "a PSK callback that answers with an empty key and no error (a missed lookup) is taken at its word ("+used+"): the plain-PSK pre-master secret is then a constant, every key and every exported secret follows from the cleartext hello randoms, and a peer without any key completes the handshake")
		}
	}
	r.Floor(rule, n, 2)
}

// ruleExtensionScanComplete (C01, C11): what an endpoint takes from the peer's extensions must not
// depend on the order the peer lists them in. A loop that looks through extension values for the
// ones it knows goes on to the next value when the current one is of another type: with every
// type test in the loop body answering "not this type", control returns to the loop (or fails) -
// it does not leave the function successfully. An early "return what was found so far" on the
// first foreign extension makes the result depend on what happens to be listed first (a DTLS 1.3
// server lists use_srtp in front of ALPN, and the client never sees the protocol).
func ruleExtensionScanComplete(c *Ctx, r *Report) {
	const rule = "extension-scan-complete"
	n := 0
	isExtValue := func(t types.Type) bool { return strings.HasSuffix(namedOrType(t), "extension.Value") }
	for _, fn := range c.Fns {
		if !inModule(fn) || fn.Pkg == nil {
			continue
		}
		pp := fn.Pkg.Pkg.Path()
		if !strings.Contains(pp, "/internal/flight") && !strings.Contains(pp, "/internal/negotiation") && !strings.Contains(pp, "/internal/handshake") {
			continue
		}
		for li, l := range naturalLoops(fn) {
			var asserts []*ssa.TypeAssert
			for b := range l.blocks {
				for _, in := range b.Instrs {
					if ta, ok := in.(*ssa.TypeAssert); ok && ta.CommaOk && isExtValue(ta.X.Type()) {
						// the value tested is an element of the ranged slice (loaded in this loop)
						if u, isU := ta.X.(*ssa.UnOp); isU {
							if ia, isIA := u.X.(*ssa.IndexAddr); isIA && l.blocks[ia.Block()] {
								// ... of this loop, not of a loop nested in it
								inner := false
								for _, l2 := range naturalLoops(fn) {
									if l2 != l && l2.blocks[ia.Block()] && len(l2.blocks) < len(l.blocks) {
										inner = true
									}
								}
								if !inner {
									asserts = append(asserts, ta)
								}
							}
						}
					}
				}
			}
			if len(asserts) == 0 {
				continue
			}
			n++
			r.Sites += len(l.blocks)
			isOK := map[ssa.Value]bool{}
			for _, ta := range asserts {
				for _, ref := range *ta.Referrers() {
					if ex, ok := ref.(*ssa.Extract); ok && ex.Index == 1 {
						isOK[ex] = true
					}
				}
			}
			// the body: the in-loop successor of the header
			var body *ssa.BasicBlock
			for _, su := range l.header.Succs {
				if l.blocks[su] && su != l.header {
					body = su
				}
			}
			if body == nil {
				continue
			}
			hdrFirst := firstNonPhi(l.header)
			w := &Walk{Fn: fn, Assume: func(v ssa.Value) (Val, bool) {
				if isOK[v] {
					return vBool(false), true
				}
				return unknown, false
			}}
			w.Visit = func(in ssa.Instruction, _ Env) bool { return in != hdrFirst }
			w.FromEdge(l.header, body)
			leaves := ""
			for _, ro := range w.Returns {
				last := len(ro.Vals) - 1
				res := retResults(ro.Ret)
				if last >= 0 && isErrorType(res[last].Type()) {
					if ro.Vals[last].Kind == 2 && !ro.Vals[last].B {
						continue // fails
					}
					if !isNilConst(unspill(res[last])) && ro.Vals[last].Kind == 0 {
						continue // an error value of unknown nil-ness: a failure path
					}
				}
				leaves = c.ipos(ro.Ret)
			}
			r.Check(leaves == "", rule, fmt.Sprintf("%s:loop%d", short(fn), li+1), c.ipos(asserts[0]), "an extension of another type sends the scan on to the next one", "the scan over the peer's extensions ends successfully ("+leaves+") on the first extension that is not of the type it looks for: what it finds depends on the order the peer lists its extensions in, so the two sides can complete with different values (the peer committed what it sent, this side never read it)")
		}
	}
	r.Floor(rule, n, 4)
}

// rulePacketRingBounded (C08): the listener files every datagram of a remote address into that
// connection's packet ring until somebody reads it; the sender is not authenticated at that point
// and the reader may be idle (not accepted yet, an application that is not in Read). The ring may
// grow, but not without bound: with the comparison of its length against a constant limit
// answering "at the limit", the allocation of a larger ring is unreachable in WriteTo.
func rulePacketRingBounded(c *Ctx, r *Report) {
	const rule = "packet-ring-bounded"
	fn := c.need(r, rule, "(*internal/net.PacketBuffer).WriteTo")
	if fn == nil {
		return
	}
	r.Sites += len(fn.Blocks)
	var grows []*ssa.MakeSlice
	for _, b := range fn.Blocks {
		for _, in := range b.Instrs {
			if ms, ok := in.(*ssa.MakeSlice); ok && strings.HasSuffix(typeShort(ms.Type()), "net.AddrPacket") {
				grows = append(grows, ms)
			}
		}
	}
	if len(grows) == 0 {
		r.OK(rule, short(fn), c.pos(fn.Pos()), "the ring is never re-allocated")
		return
	}
	var cmp *ssa.BinOp
	limit := int64(0)
	for _, b := range fn.Blocks {
		for _, in := range b.Instrs {
			bo, ok := in.(*ssa.BinOp)
			if !ok || (bo.Op != token.GEQ && bo.Op != token.GTR) || !isLenOfField(bo.X, "internal/net.PacketBuffer", "packets") {
				continue
			}
			if k, isK := constInt(bo.Y); isK && k > 0 {
				cmp, limit = bo, k
			}
		}
	}
	if cmp == nil {
		r.Bad(rule, short(fn), c.ipos(grows[0]), "the packet ring of a connection grows whenever it is full and is never compared with a limit: a remote address whose connection is not being read (not accepted yet, or the application is not in Read) makes the endpoint hold every datagram it sends - 100 000 datagrams of 1200 bytes are 117 MB")
		return
	}
	w := (&Walk{Fn: fn, Assume: assumeAll(atomAssume{mValue(cmp), vBool(true)}, atomAssume{mLoad("internal/net.PacketBuffer", "full"), vBool(true)})}).FromEntry()
	reach := false
	for _, g := range grows {
		if w.Reached[g] {
			reach = true
		}
	}
	r.Check(!reach && limit <= 65536, rule, short(fn), c.ipos(cmp), fmt.Sprintf("no growth once the ring holds %d packets", limit), fmt.Sprintf("the packet ring can still grow although its length test against %d is true (or the limit is beyond 65536 packets)", limit))
}
