package main

import (
	"fmt"
	"go/token"
	"go/types"
	"strings"

	"golang.org/x/tools/go/ssa"
)

// ruleRecordProtection13 (C05 / C09 / C10): the DTLS 1.3 record protection of
// internal/ciphersuite: what goes into the AEAD on both sides (nonce, additional data,
// plaintext), that the additional data is the header that goes on the wire, the per-record
// nonce construction (RFC 8446 5.3), and the record-number mask (RFC 9147 4.2.3).
func ruleRecordProtection13(c *Ctx, r *Report) {
	const rule = "aead13"
	const ics = "internal/ciphersuite"
	rp := "(*" + ics + ".recordTrafficProtection13)"
	isParam := func(v ssa.Value, name string) bool {
		p, ok := unspill(v).(*ssa.Parameter)
		return ok && p.Name() == name
	}
	// through: a value produced by a private helper of this package (for example one that
	// marshals the header and derives the nonce for both seal and open) is looked at as what the
	// helper returns, with the helper's parameters bound to the arguments of the call.
	type helperView struct {
		inner ssa.Value
		bind  map[*ssa.Parameter]ssa.Value
		site  *ssa.Call // the call in the rule's function (nil when v is not a helper result)
	}
	semantic := func(name string) bool {
		return name == ics+".recordNonce13" || strings.HasSuffix(name, ".Marshal") || strings.HasSuffix(name, ".Unmarshal")
	}
	through := func(v ssa.Value) helperView {
		hv := helperView{inner: v, bind: map[*ssa.Parameter]ssa.Value{}}
		for i := 0; i < 3; i++ {
			ex, ok := hv.inner.(*ssa.Extract)
			var call *ssa.Call
			idx := 0
			if ok {
				call, _ = ex.Tuple.(*ssa.Call)
				idx = ex.Index
			} else {
				call, _ = hv.inner.(*ssa.Call)
			}
			if call == nil {
				return hv
			}
			g := call.Call.StaticCallee()
			if g == nil || len(g.Blocks) == 0 || g.Pkg == nil || shortPath(g.Pkg.Pkg.Path()) != ics || semantic(calleeName(&call.Call)) {
				return hv
			}
			var retv ssa.Value
			for _, b := range g.Blocks {
				ret, isRet := b.Instrs[len(b.Instrs)-1].(*ssa.Return)
				if !isRet || b == g.Recover || idx >= len(ret.Results) {
					continue
				}
				rv := unspill(ret.Results[idx])
				if isNilConst(rv) {
					continue
				}
				if retv != nil && retv != rv {
					return hv // several distinct results: leave as is
				}
				retv = rv
			}
			if retv == nil {
				return hv
			}
			for j, p := range g.Params {
				if j < len(call.Call.Args) {
					a := call.Call.Args[j]
					if pa, isP := a.(*ssa.Parameter); isP {
						if b2, has := hv.bind[pa]; has {
							a = b2
						}
					}
					hv.bind[p] = a
				}
			}
			if hv.site == nil {
				hv.site = call
			}
			hv.inner = retv
		}
		return hv
	}
	bound := func(hv helperView, v ssa.Value) ssa.Value {
		v = unspill(v)
		for i := 0; i < 4; i++ {
			p, ok := v.(*ssa.Parameter)
			if !ok {
				break
			}
			b, has := hv.bind[p]
			if !has {
				break
			}
			v = unspill(b)
		}
		return v
	}
	// nonceOK: v = recordNonce13(r.iv, <sequenceNumber parameter>) result #0
	nonceOK := func(v ssa.Value) (bool, string) {
		hv := through(v)
		ex, ok := hv.inner.(*ssa.Extract)
		if !ok || ex.Index != 0 {
			return false, "nonce is not the result of recordNonce13"
		}
		call, ok := ex.Tuple.(*ssa.Call)
		if !ok || calleeName(&call.Call) != ics+".recordNonce13" {
			return false, "nonce is not the result of recordNonce13"
		}
		_, f, _, isLoad := fieldLoad(call.Call.Args[0])
		if !isLoad || f != "iv" {
			return false, "recordNonce13 is not given the protection's write IV"
		}
		if !isParam(bound(hv, call.Call.Args[1]), "sequenceNumber") {
			return false, "recordNonce13 is not given the caller's full record sequence number"
		}
		return true, ""
	}
	var aadParam *ssa.Parameter
	// headerAAD: v = (*UnifiedHeader).Marshal(cell) result #0; returns the header cell in the
	// rule's function and the instruction at which the header is marshalled (the Marshal call, or
	// the call of the helper that marshals a copy of it)
	headerAAD := func(v ssa.Value) (*ssa.Alloc, *ssa.Call) {
		hv := through(v)
		ex, ok := hv.inner.(*ssa.Extract)
		if !ok || ex.Index != 0 {
			return nil, nil
		}
		call, ok := ex.Tuple.(*ssa.Call)
		if !ok || !strings.HasSuffix(calleeName(&call.Call), "recordlayer.UnifiedHeader).Marshal") {
			return nil, nil
		}
		al, _ := call.Call.Args[0].(*ssa.Alloc)
		if hv.site != nil && al == nil {
			// inside the helper the header is a pointer parameter: the caller's cell itself
			if pp, isP := call.Call.Args[0].(*ssa.Parameter); isP {
				writes := false
				for _, ref := range *pp.Referrers() {
					switch y := ref.(type) {
					case *ssa.FieldAddr:
						for _, r2 := range *y.Referrers() {
							if st, isSt := r2.(*ssa.Store); isSt && st.Addr == ssa.Value(y) {
								writes = true
							}
						}
					case *ssa.Store:
						writes = true
					case *ssa.Call:
						if y != call {
							writes = true // handed on to something else
						}
					}
				}
				if cell, isAl := bound(hv, pp).(*ssa.Alloc); isAl && !writes {
					return cell, hv.site
				}
			}
		}
		if hv.site == nil || al == nil {
			return al, call
		}
		// inside the helper: the cell is the spill of a by-value parameter; the header is the
		// caller's cell whose value was passed
		p := spilledParam(al)
		if p == nil {
			return nil, nil
		}
		arg := bound(hv, p)
		if u, isLoad := arg.(*ssa.UnOp); isLoad && u.Op == token.MUL {
			if cell, isAl := u.X.(*ssa.Alloc); isAl {
				return cell, hv.site
			}
		}
		if pp, isP := arg.(*ssa.Parameter); isP {
			aadParam = pp // the rule function's own by-value parameter, handed on unchanged
			return nil, hv.site
		}
		return nil, nil
	}
	// storesAfter: a field store into cell that is not ordered before `at`
	storesAfter := func(cell *ssa.Alloc, at ssa.Instruction) []ssa.Instruction {
		var out []ssa.Instruction
		for _, ref := range *cell.Referrers() {
			switch x := ref.(type) {
			case *ssa.Store:
				if x.Addr == ssa.Value(cell) && !instrDominates(x, at) {
					out = append(out, x)
				}
			case *ssa.FieldAddr:
				for _, r2 := range *x.Referrers() {
					if st, ok := r2.(*ssa.Store); ok && st.Addr == ssa.Value(x) && !instrDominates(st, at) {
						out = append(out, st)
					}
				}
			case *ssa.Call:
				if x != at && !instrDominates(x, at) {
					out = append(out, x)
				}
			}
		}
		return out
	}

	// ---- seal
	if fn := c.need(r, rule, rp+".seal"); fn != nil {
		r.Sites += len(fn.Blocks)
		seals := findCalls(fn, nameIs("iface:crypto/cipher.AEAD.Seal"))
		if len(seals) != 1 {
			r.Bad(rule, short(fn), c.pos(fn.Pos()), fmt.Sprintf("%d AEAD Seal calls (expected 1)", len(seals)))
		} else {
			a := seals[0].Call.Args // dst, nonce, plaintext, additionalData
			ok, why := nonceOK(a[1])
			r.Check(ok, rule, short(fn)+":nonce", c.ipos(seals[0]), "nonce = recordNonce13(write IV, full sequence number)", why)
			// plaintext = DTLSInnerPlaintext{content, type}.Marshal()
			good := false
			if ex, isEx := a[2].(*ssa.Extract); isEx && ex.Index == 0 {
				if call, isCall := ex.Tuple.(*ssa.Call); isCall && strings.HasSuffix(calleeName(&call.Call), "recordlayer.InnerPlaintext).Marshal") {
					if al, isAl := call.Call.Args[0].(*ssa.Alloc); isAl {
						f := litFields(al)
						good = isParam(f["Content"], "plaintext") && isParam(f["RealType"], "contentType")
					}
				}
			}
			r.Check(good, rule, short(fn)+":plaintext", c.ipos(seals[0]), "sealed plaintext = DTLSInnerPlaintext{content, real type}", "the sealed plaintext is not the DTLSInnerPlaintext of the caller's content and content type (RFC 9147 4)")
			cell, mcall := headerAAD(a[3])
			if cell == nil {
				r.Bad(rule, short(fn)+":aad", c.ipos(seals[0]), "additional data is not the marshalled unified header (RFC 9147 4.2.3 / RFC 8446 5.2)")
			} else {
				// the header put into the returned record is the same cell, unchanged since Marshal
				same := false
				for _, al := range allocsOf(fn, "pkg/protocol/recordlayer.CiphertextRecord13") {
					if h, okH := litFields(al)["Header"]; okH {
						if u, isU := h.(*ssa.UnOp); isU && u.X == ssa.Value(cell) {
							same = true
						}
					}
				}
				late := storesAfter(cell, mcall)
				r.Check(same && len(late) == 0, rule, short(fn)+":aad", c.ipos(mcall), "additional data = marshalled header; the same header is returned for the wire, not modified after marshalling", fmt.Sprintf("the authenticated header and the returned header can differ (same cell: %v, writes after Marshal: %d)", same, len(late)))
				// Length field = len(inner plaintext) + AEAD overhead; Seq and Length bits set
				f := litFields(cell)
				lenShape := ""
				if v, okL := f["Length"]; okL {
					lenShape = shapeOf(v, 0)
				}
				okLen := strings.Contains(lenShape, "Overhead") && strings.Contains(lenShape, "len(") && strings.Contains(lenShape, "+")
				bSeq, okS := constBool(f["SeqBit"])
				bLen, okB := constBool(f["LengthBit"])
				r.Check(okLen && okS && bSeq && okB && bLen, rule, short(fn)+":header-length", c.ipos(mcall), "header.Length = len(inner plaintext) + AEAD overhead; S and L bits set", "the authenticated length field is not len(DTLSInnerPlaintext)+tag, or the S/L bits are not forced on: Length = "+lenShape)
			}
			r.Check(isNilConst(a[0]), rule, short(fn)+":dst", c.ipos(seals[0]), "seals into a fresh buffer", "Seal appends to a caller-visible buffer")
		}
	}
	// ---- open
	if fn := c.need(r, rule, rp+".open"); fn != nil {
		r.Sites += len(fn.Blocks)
		opens := findCalls(fn, nameIs("iface:crypto/cipher.AEAD.Open"))
		if len(opens) != 1 {
			r.Bad(rule, short(fn), c.pos(fn.Pos()), fmt.Sprintf("%d AEAD Open calls (expected 1)", len(opens)))
		} else {
			a := opens[0].Call.Args
			ok, why := nonceOK(a[1])
			r.Check(ok, rule, short(fn)+":nonce", c.ipos(opens[0]), "nonce = recordNonce13(read IV, full sequence number)", why)
			r.Check(isParam(a[2], "encryptedRecord"), rule, short(fn)+":ciphertext", c.ipos(opens[0]), "opens the caller's encrypted record", "Open is not applied to the received encrypted record")
			aadParam = nil
			cell, mcall := headerAAD(a[3])
			good := false
			if cell == nil && aadParam != nil && aadParam.Name() == "header" {
				good = true
			}
			if cell != nil {
				// the cell is the spilled `header` parameter and has no other writer
				n := 0
				for _, ref := range *cell.Referrers() {
					switch x := ref.(type) {
					case *ssa.Store:
						if x.Addr == ssa.Value(cell) && isParam(x.Val, "header") {
							n++
						} else {
							n = -100
						}
					case *ssa.FieldAddr:
						for _, r2 := range *x.Referrers() {
							if _, isSt := r2.(*ssa.Store); isSt {
								n = -100
							}
						}
					}
				}
				good = n == 1
			}
			pos := c.ipos(opens[0])
			if mcall != nil {
				pos = c.ipos(mcall)
			}
			r.Check(good, rule, short(fn)+":aad", pos, "additional data = the marshalled (unmasked) header as received", "the additional data is not exactly the caller's header: header fields are not authenticated")
			// success only after Open succeeded, and the result is parsed from Open's output
			n := 0
			for _, blk := range fn.Blocks {
				ret, isRet := blk.Instrs[len(blk.Instrs)-1].(*ssa.Return)
				if !isRet || !isNilConst(unspill(ret.Results[1])) {
					continue
				}
				n++
				g, why := guardedBy(opens[0], errResult(opens[0]), ret)
				r.Check(g, "decrypt-authenticates", short(fn), c.ipos(ret), "inner plaintext returned only after the AEAD Open succeeded", "open returns a record although AEAD Open failed or was skipped: "+why)
				um := findCalls(fn, nameHasSuffix("recordlayer.InnerPlaintext).Unmarshal"))
				src := len(um) == 1 && um[0].Call.Args[1] == resultValue(opens[0], 0)
				if src {
					g2, _ := guardedBy(um[0], ssa.Value(um[0]), ret)
					// Unmarshal returns error: failure = non-nil
					src = g2
				}
				r.Check(src, rule, short(fn)+":result", c.ipos(ret), "result parsed from the authenticated plaintext", "the returned inner plaintext is not parsed from AEAD Open's output")
			}
			r.Floor(rule+":open-success-exits", n, 1)
		}
	}
	// ---- Open: unmask, validate low bits against the reconstructed number, then open with the clear header
	if fn := c.need(r, rule, rp+".Open"); fn != nil {
		r.Sites += len(fn.Blocks)
		um := findCalls(fn, nameIs(rp+".UnmaskSequenceNumber"))
		va := findCalls(fn, nameIs(ics+".validateSequenceNumberLowBits13"))
		op := findCalls(fn, nameIs(rp+".open"))
		if len(um) != 1 || len(va) != 1 || len(op) != 1 {
			r.Bad(rule, short(fn), c.pos(fn.Pos()), "expected one call each of UnmaskSequenceNumber, validateSequenceNumberLowBits13, open")
		} else {
			clear := resultValue(um[0], 0)
			isClear := func(v ssa.Value) bool {
				for _, l := range c.Origins(v, 0) {
					if l == clear {
						return true
					}
				}
				return v == clear
			}
			g, why := guardedBy(va[0], ssa.Value(va[0]), op[0])
			r.Check(g && isClear(va[0].Call.Args[0]) && isParam(va[0].Call.Args[1], "sequenceNumber"), rule, short(fn)+":low-bits", c.ipos(va[0]), "the unmasked on-wire sequence bits must equal the low bits of the number used for the nonce", "open can run with a sequence number whose low bits differ from the record's (replay slot and nonce disagree): "+why)
			g2, why2 := guardedBy(um[0], errResult(um[0]), op[0])
			r.Check(g2 && isClear(op[0].Call.Args[1]) && isParam(op[0].Call.Args[2], "sequenceNumber") && isParam(op[0].Call.Args[3], "encryptedRecord"), rule, short(fn)+":open-args", c.ipos(op[0]), "open(clear header, sequence number, encrypted record)", "open is not given the unmasked header / the caller's sequence number / record: "+why2)
		}
	}
	// ---- Seal: low 16 bits into the header, seal, then mask the returned header with the ciphertext sample
	if fn := c.need(r, rule, rp+".Seal"); fn != nil {
		r.Sites += len(fn.Blocks)
		se := findCalls(fn, nameIs(rp+".seal"))
		mk := findCalls(fn, nameIs(rp+".maskSequenceNumber"))
		if len(se) != 1 || len(mk) != 1 {
			r.Bad(rule, short(fn), c.pos(fn.Pos()), "expected one seal and one maskSequenceNumber call")
		} else {
			r.Check(isParam(se[0].Call.Args[2], "sequenceNumber") && isParam(se[0].Call.Args[3], "contentType") && isParam(se[0].Call.Args[4], "plaintext"), rule, short(fn)+":seal-args", c.ipos(se[0]), "seal(header, sequence number, type, plaintext) passed through", "Seal does not pass its sequence number / type / plaintext to seal unchanged")
			// the header's on-wire sequence bits = low 16 bits of the same number
			okSeq := false
			if hdr, isAl := stripLoad(se[0].Call.Args[1]).(*ssa.Alloc); isAl {
				if v, has := litFields(hdr)["SequenceNumber"]; has {
					cs := bytesOf(v, 2, 0)
					okSeq = len(cs) == 2 && cs[0].src == "sequenceNumber" && cs[1].src == "sequenceNumber" && cs[0].lsb == 1 && cs[1].lsb == 0
				}
			}
			r.Check(okSeq, rule, short(fn)+":wire-seq", c.ipos(se[0]), "header.SequenceNumber = low 16 bits of the sequence number", "the on-wire sequence bits are not the low 16 bits of the number used for the nonce")
			// mask applies to the record returned by seal: &record.Header and record.EncryptedRecord of the same cell
			okMask := false
			if fa, isFA := mk[0].Call.Args[1].(*ssa.FieldAddr); isFA {
				_, f1, _, _ := fieldOfAddr(fa)
				if cell, isAl := fa.X.(*ssa.Alloc); isAl && f1 == "Header" {
					_, f2, _, isLoad := fieldLoad(mk[0].Call.Args[2])
					if isLoad && f2 == "EncryptedRecord" {
						if u, isU := mk[0].Call.Args[2].(*ssa.UnOp); isU {
							if fa2, isFA2 := u.X.(*ssa.FieldAddr); isFA2 && fa2.X == ssa.Value(cell) {
								// cell holds seal's result
								for _, ref := range *cell.Referrers() {
									if st, isSt := ref.(*ssa.Store); isSt && st.Addr == ssa.Value(cell) && st.Val == resultValue(se[0], 0) {
										okMask = true
									}
								}
							}
						}
					}
				}
			}
			g, why := guardedBy(mk[0], ssa.Value(mk[0]), successReturn(fn))
			r.Check(okMask && g, rule, short(fn)+":mask", c.ipos(mk[0]), "the returned record's header is masked with a sample of its own ciphertext; a masking failure fails Seal", "the sequence number of the returned record is not masked with its own ciphertext, or a masking failure is ignored: "+why)
		}
	}
	// ---- record-number mask generation (RFC 9147 4.2.3)
	if fn := c.need(r, "sn-mask13", ics+".recordSequenceNumberMaskAES13"); fn != nil {
		r.Sites += len(fn.Blocks)
		nc := findCalls(fn, nameIs("crypto/aes.NewCipher"))
		en := findCalls(fn, nameIs("iface:crypto/cipher.Block.Encrypt"))
		ok := len(nc) == 1 && len(en) == 1
		if ok {
			ok = isParam(nc[0].Call.Args[0], "sequenceNumberKey") && en[0].Call.Value == resultValue(nc[0], 0)
			pr, lo, hi, isRange := paramRange(en[0].Call.Args[1], 0)
			ok = ok && isRange && pr.Name() == "encryptedRecord" && pr.Parent() == fn && lo == 0 && hi == 16
			mk := en[0].Call.Args[0]
			ok = ok && isFreshZeroBuf(mk) && successValueIs(fn, mk)
		}
		r.Check(ok, "sn-mask13", short(fn), c.pos(fn.Pos()), "mask = AES-ECB(sn_key, ciphertext[0..15])", "the AES record-number mask is not AES-ECB(sn_key, first 16 ciphertext bytes) (RFC 9147 4.2.3)")
	}
	if fn := c.need(r, "sn-mask13", ics+".recordSequenceNumberMaskChaCha20Poly1305TLS13"); fn != nil {
		r.Sites += len(fn.Blocks)
		nc := findCalls(fn, nameHasSuffix("chacha20.NewUnauthenticatedCipher"))
		sc := findCalls(fn, nameHasSuffix("chacha20.Cipher).SetCounter"))
		xk := findCalls(fn, nameHasSuffix("chacha20.Cipher).XORKeyStream"))
		ok := len(nc) == 1 && len(sc) == 1 && len(xk) == 1
		why := "call structure"
		if ok {
			sliceOf := func(v ssa.Value, lo, hi int64) bool {
				pr, l, h, isRange := paramRange(v, 0)
				return isRange && pr.Name() == "encryptedRecord" && pr.Parent() == fn && l == lo && h == hi
			}
			cipher := resultValue(nc[0], 0)
			okKey := isParam(nc[0].Call.Args[0], "sequenceNumberKey") && sliceOf(nc[0].Call.Args[1], 4, 16)
			okCtr := sc[0].Call.Args[0] == cipher
			if call, isCall := sc[0].Call.Args[1].(*ssa.Call); isCall && strings.HasSuffix(calleeName(&call.Call), "littleEndian).Uint32") {
				// Uint32 reads the first four bytes of what it is handed: a range that starts at
				// byte 0 of the ciphertext and holds at least four
				pr, l, h, isRange := paramRange(call.Call.Args[1], 0)
				okCtr = okCtr && isRange && pr.Name() == "encryptedRecord" && pr.Parent() == fn && l == 0 && (h < 0 || h >= 4)
			} else {
				okCtr = false
			}
			mk := xk[0].Call.Args[1]
			isMk := isFreshZeroBuf(mk)
			okKS := xk[0].Call.Args[0] == cipher && isMk && xk[0].Call.Args[2] == mk && instrDominates(sc[0], xk[0])
			okRet := isMk && successValueIs(fn, mk)
			ok = okKey && okCtr && okKS && okRet
			why = fmt.Sprintf("key/nonce %v, counter %v, keystream over zeroes %v, returned %v", okKey, okCtr, okKS, okRet)
		}
		r.Check(ok, "sn-mask13", short(fn), c.pos(fn.Pos()), "mask = ChaCha20(sn_key, counter = ciphertext[0..3] little-endian, nonce = ciphertext[4..15]) keystream", "the ChaCha20 record-number mask deviates from RFC 9147 4.2.3: "+why)
	}
	if fn := c.need(r, "sn-mask13", ics+".applySequenceNumberMask13"); fn != nil {
		r.Sites += len(fn.Blocks)
		var got []string
		want16, want8 := false, false
		for _, b := range fn.Blocks {
			for _, in := range b.Instrs {
				st, isSt := in.(*ssa.Store)
				if !isSt {
					continue
				}
				_, f, _, okF := fieldOfAddr(st.Addr)
				if !okF || f != "SequenceNumber" {
					continue
				}
				desc := shapeOfStripped(st.Val, 0)
				got = append(got, desc)
				// peel an optional "& 0xff"
				v := st.Val
				masked := false
				if bo, isBo := v.(*ssa.BinOp); isBo && bo.Op == token.AND {
					if k, isC := constInt(bo.Y); isC && k == 0xff {
						masked = true
						v = bo.X
					}
				}
				bo, isBo := v.(*ssa.BinOp)
				if !isBo || bo.Op != token.XOR {
					continue
				}
				var other ssa.Value
				for _, pr := range [][2]ssa.Value{{bo.X, bo.Y}, {bo.Y, bo.X}} {
					if _, lf, _, isL := fieldLoad(pr[0]); isL && lf == "SequenceNumber" {
						other = pr[1]
					}
				}
				if other == nil {
					continue
				}
				cs := bytesOf(other, 2, 0)
				d := fmt.Sprintf("%s|%s", cs[0].src, cs[1].src)
				// the form belongs to its header: the 16-bit update is out of reach without the
				// S bit, the 8-bit one with it
				wrongForm := func(sbit bool) bool {
					w := (&Walk{Fn: fn, Assume: func(v ssa.Value) (Val, bool) {
						if _, f, _, isL := fieldLoad(v); isL && f == "SeqBit" {
							return vBool(sbit), true
						}
						return unknown, false
					}}).FromEntry()
					return w.Reached[st] || w.overflow
				}
				switch {
				case !masked && d == "mask[0]|mask[1]":
					if wrongForm(false) {
						got[len(got)-1] += " (reached without the S bit)"
					} else {
						want16 = true
					}
				case masked && d == "|mask[0]":
					if wrongForm(true) {
						got[len(got)-1] += " (reached with the S bit set)"
					} else {
						want8 = true
					}
				default:
					got[len(got)-1] += " (bytes " + d + ")"
				}
			}
		}
		r.Check(len(got) == 2 && want16 && want8, "sn-mask13", short(fn), c.pos(fn.Pos()), "16-bit: seq ^= mask[0]<<8|mask[1]; 8-bit: seq = (seq ^ mask[0]) & 0xff", "sequence-number masking deviates from RFC 9147 4.2.3 (leading mask bytes XORed onto the on-wire sequence number): "+strings.Join(got, " ; "))
	}
	// which mask generator goes with which AEAD
	for cons, mask := range map[string]string{
		ics + ".newAESGCMRecordTrafficProtection13":           ics + ".recordSequenceNumberMaskAES13",
		ics + ".newChaCha20Poly1305RecordTrafficProtection13": ics + ".recordSequenceNumberMaskChaCha20Poly1305TLS13",
	} {
		fn := c.need(r, "sn-mask13", cons)
		if fn == nil {
			continue
		}
		ok := false
		okKeys := false
		for _, al := range allocsOf(fn, ics+".recordTrafficProtection13") {
			f := litFields(al)
			if g := funcOfValue(f["sequenceNumberMaskFn"]); g != nil && short(g) == mask {
				ok = true
			}
			_, f1, _, l1 := fieldLoad(f["iv"])
			_, f2, _, l2 := fieldLoad(f["sequenceNumberKey"])
			okKeys = l1 && l2 && f1 == "iv" && f2 == "sequenceNumberKey"
		}
		r.Check(ok && okKeys, "sn-mask13", short(fn), c.pos(fn.Pos()), "protection built with its suite's mask generator, the derived iv and sn key", "the record protection is wired with the wrong mask generator or the wrong derived keys")
	}

	// ---- the per-record nonce (RFC 8446 5.3): iv XOR left-padded 64-bit sequence number
	ruleNonce13(c, r)
	ruleLowBits13(c, r)
}

// isFreshZeroBuf: v is a buffer allocated in this function (make with a dynamic or constant size)
// that nothing has written before its uses are examined by the caller.
func isFreshZeroBuf(v ssa.Value) bool {
	switch x := v.(type) {
	case *ssa.MakeSlice:
		return true
	case *ssa.Slice:
		al, ok := x.X.(*ssa.Alloc)
		if !ok || x.Low != nil {
			return false
		}
		if x.High != nil {
			// make([]T, n) with constant n: slice t[:n] of a new [n]T
			at, isArr := al.Type().Underlying().(*types.Pointer).Elem().Underlying().(*types.Array)
			k, isC := constInt(x.High)
			if !isArr || !isC || k != at.Len() {
				return false
			}
		}
		// the backing array is used only through this slice
		for _, ref := range *al.Referrers() {
			if ref != ssa.Instruction(x) {
				if _, isDbg := ref.(*ssa.DebugRef); !isDbg {
					return false
				}
			}
		}
		return true
	}
	return false
}

// successReturn: the unique return whose error result is the nil constant (nil if not unique).
func successReturn(fn *ssa.Function) ssa.Instruction {
	var out ssa.Instruction
	for _, blk := range fn.Blocks {
		ret, ok := blk.Instrs[len(blk.Instrs)-1].(*ssa.Return)
		if !ok || len(ret.Results) == 0 {
			continue
		}
		if isNilConst(unspill(ret.Results[len(ret.Results)-1])) {
			if out != nil {
				return nil
			}
			out = ret
		}
	}
	return out
}

// successValueIs: every success return yields v as its first result.
func successValueIs(fn *ssa.Function, v ssa.Value) bool {
	n := 0
	for _, blk := range fn.Blocks {
		ret, ok := blk.Instrs[len(blk.Instrs)-1].(*ssa.Return)
		if !ok || len(ret.Results) < 2 || !isNilConst(unspill(ret.Results[len(ret.Results)-1])) {
			continue
		}
		if unspill(ret.Results[0]) != v {
			return false
		}
		n++
	}
	return n > 0
}

func ruleNonce13(c *Ctx, r *Report) {
	const rule = "nonce13"
	fn := c.need(r, rule, "internal/ciphersuite.recordNonce13")
	if fn == nil {
		return
	}
	r.Sites += len(fn.Blocks)
	// the returned buffer is a private copy of the IV: the stored IV itself is never written
	var nonce ssa.Value
	for _, call := range findCalls(fn, nameIs("bytes.Clone", "slices.Clone[[]byte]")) {
		if p, ok := call.Call.Args[0].(*ssa.Parameter); ok && p.Name() == "iv" {
			nonce = call
		}
	}
	if nonce == nil {
		// make+copy form
		for _, b := range fn.Blocks {
			for _, in := range b.Instrs {
				if call, ok := in.(*ssa.Call); ok && calleeName(&call.Call) == "builtin:copy" {
					if p, ok := call.Call.Args[1].(*ssa.Parameter); ok && p.Name() == "iv" {
						if mk, ok := call.Call.Args[0].(*ssa.MakeSlice); ok {
							nonce = mk
						}
					}
				}
			}
		}
	}
	if nonce == nil || !successValueIs(fn, nonce) {
		r.Bad(rule, short(fn)+":copy", c.pos(fn.Pos()), "the nonce is not built in a private copy of the IV: the XOR would be applied to the stored IV itself and accumulate across records")
		return
	}
	r.OK(rule, short(fn)+":copy", c.pos(fn.Pos()), "nonce buffer = copy of the IV; the IV parameter is never written")
	// no store through the iv parameter
	wr := 0
	for _, b := range fn.Blocks {
		for _, in := range b.Instrs {
			if st, ok := in.(*ssa.Store); ok {
				if ia, ok := st.Addr.(*ssa.IndexAddr); ok {
					if p, ok := ia.X.(*ssa.Parameter); ok && p.Name() == "iv" {
						wr++
					}
				}
			}
		}
	}
	r.Check(wr == 0, rule, short(fn)+":iv-readonly", c.pos(fn.Pos()), "no store through iv", "recordNonce13 writes into the IV it was given")
	// length gate: len(iv) == 12 on the success path
	gate := false
	for _, b := range fn.Blocks {
		for _, in := range b.Instrs {
			if bo, ok := in.(*ssa.BinOp); ok && (bo.Op == token.NEQ || bo.Op == token.EQL) {
				if k, isC := constInt(bo.Y); isC && k == 12 && isLenOfParam(bo.X, "iv") {
					val := vBool(bo.Op == token.NEQ)
					w := (&Walk{Fn: fn, Assume: func(v ssa.Value) (Val, bool) {
						if v == ssa.Value(bo) {
							return val, true
						}
						return unknown, false
					}}).FromEntry()
					gate = true
					for _, ro := range w.Returns {
						if len(ro.Vals) == 2 && ro.Vals[1].Kind == 2 && ro.Vals[1].B {
							gate = false
						}
					}
				}
			}
		}
	}
	r.Check(gate, rule, short(fn)+":iv-length", c.pos(fn.Pos()), "an IV that is not 12 bytes long yields an error", "an IV of a length other than 12 can produce a nonce")
	// element stores: nonce[len(nonce)-8+i] ^= seqBytes[i], seqBytes = BigEndian(sequenceNumber), i over 0..7
	n := 0
	for _, b := range fn.Blocks {
		for _, in := range b.Instrs {
			st, ok := in.(*ssa.Store)
			if !ok {
				continue
			}
			ia, ok := st.Addr.(*ssa.IndexAddr)
			if !ok || ia.X != nonce {
				continue
			}
			n++
			what, good := nonceXorShape(fn, st, ia, nonce)
			r.Check(good, rule, short(fn)+":xor", c.ipos(st), what, "nonce byte update deviates from RFC 8446 5.3 (iv XOR big-endian sequence number, right-aligned): "+what)
		}
	}
	// or as one 64-bit word: PutUint64(nonce[4:], Uint64(nonce[4:]) ^ sequenceNumber), big-endian
	for _, put := range findCalls(fn, nameIs("(encoding/binary.bigEndian).PutUint64", "(encoding/binary.littleEndian).PutUint64")) {
		tailOf := func(v ssa.Value) (int64, bool) {
			sl, ok := v.(*ssa.Slice)
			if !ok || sl.X != nonce || sl.High != nil || sl.Low == nil {
				return 0, false
			}
			k, isK := constInt(sl.Low)
			return k, isK
		}
		lo, okDst := tailOf(put.Call.Args[1])
		if !okDst {
			continue
		}
		n++
		what, good := "", false
		x, isX := put.Call.Args[2].(*ssa.BinOp)
		switch {
		case calleeName(&put.Call) != "(encoding/binary.bigEndian).PutUint64":
			what = "the word is stored little-endian"
		case lo != 4:
			what = fmt.Sprintf("the word is stored at nonce[%d:], not at the last eight of twelve bytes", lo)
		case !isX || x.Op != token.XOR:
			what = "the stored word is not an XOR"
		default:
			for _, pr := range [][2]ssa.Value{{x.X, x.Y}, {x.Y, x.X}} {
				rd, isRd := pr[0].(*ssa.Call)
				p, isP := pr[1].(*ssa.Parameter)
				if !isRd || !isP || p.Name() != "sequenceNumber" || calleeName(&rd.Call) != "(encoding/binary.bigEndian).Uint64" {
					continue
				}
				if l2, ok2 := tailOf(rd.Call.Args[1]); ok2 && l2 == lo {
					good = true
					what = "nonce[4:12] = BigEndian(nonce[4:12]) ^ sequenceNumber"
				}
			}
			if !good {
				what = "the word is not the big-endian value of the same eight IV bytes XOR the sequence number"
			}
		}
		r.Check(good, rule, short(fn)+":xor", c.ipos(put), what, "nonce update deviates from RFC 8446 5.3 (iv XOR big-endian sequence number, right-aligned): "+what)
	}
	r.Floor(rule+":xor-sites", n, 1)
}

// nonceXorShape checks one store nonce[idx] = nonce[idx] ^ seq[j] with idx = len(nonce)-8+j,
// seq the [8]byte written only by BigEndian.PutUint64(seq[:], sequenceNumber), j the index of a
// loop running from 0 to 7.
func nonceXorShape(fn *ssa.Function, st *ssa.Store, ia *ssa.IndexAddr, nonce ssa.Value) (string, bool) {
	bo, ok := st.Val.(*ssa.BinOp)
	if !ok || bo.Op != token.XOR {
		return "stored value is not an XOR", false
	}
	var old, other ssa.Value
	for _, pair := range [][2]ssa.Value{{bo.X, bo.Y}, {bo.Y, bo.X}} {
		if u, ok := pair[0].(*ssa.UnOp); ok && u.Op == token.MUL {
			if ia2, ok := u.X.(*ssa.IndexAddr); ok && ia2.X == nonce && ia2.Index == ia.Index {
				old, other = pair[0], pair[1]
			}
		}
	}
	if old == nil {
		return "XOR does not include the previous value of the same nonce byte", false
	}
	// other = seq[j]
	var seqArr ssa.Value
	var j ssa.Value
	switch x := other.(type) {
	case *ssa.Index:
		seqArr, j = x.X, x.Index
	case *ssa.UnOp:
		if ia3, ok := x.X.(*ssa.IndexAddr); ok {
			seqArr, j = ia3.X, ia3.Index
		}
	}
	if seqArr == nil {
		// or byte(sequenceNumber >> (56 - 8*j)): byte j of the big-endian number, computed in place
		if j := bigEndianByteIndex(other, "sequenceNumber"); j != nil {
			if why, ok := nonceIndexIs(ia, nonce, j); !ok {
				return why, false
			}
			if !loopCoversZeroTo(j, 8) {
				return "the loop does not cover exactly the 8 sequence-number bytes", false
			}
			return "nonce[len-8+i] ^= byte(sequenceNumber >> (56-8*i)) for i in 0..7", true
		}
		return "XOR operand is not an element of the sequence-number bytes", false
	}
	// resolve the array to its cell
	cell, _ := stripLoad(seqArr).(*ssa.Alloc)
	if cell == nil {
		if sl, ok := seqArr.(*ssa.Slice); ok {
			cell, _ = sl.X.(*ssa.Alloc)
		}
	}
	if cell == nil {
		return "sequence-number bytes are not a local array", false
	}
	at, ok := cell.Type().Underlying().(*types.Pointer).Elem().Underlying().(*types.Array)
	if !ok || at.Len() != 8 {
		return "sequence-number buffer is not [8]byte", false
	}
	puts := 0
	for _, ref := range *cell.Referrers() {
		switch x := ref.(type) {
		case *ssa.Slice:
			for _, r2 := range *x.Referrers() {
				call, ok := r2.(*ssa.Call)
				if !ok {
					continue
				}
				name := calleeName(&call.Call)
				if strings.HasSuffix(name, "bigEndian).PutUint64") {
					if p, ok := call.Call.Args[2].(*ssa.Parameter); ok && p.Name() == "sequenceNumber" {
						puts++
						continue
					}
				}
				return "sequence-number buffer written by " + name, false
			}
		case *ssa.Store:
			return "sequence-number buffer written directly", false
		case *ssa.IndexAddr:
			for _, r2 := range *x.Referrers() {
				if _, isSt := r2.(*ssa.Store); isSt {
					return "sequence-number buffer written directly", false
				}
			}
		}
	}
	if puts != 1 {
		return "sequence-number buffer is not filled by exactly one BigEndian.PutUint64(sequenceNumber)", false
	}
	if why, ok := nonceIndexIs(ia, nonce, j); !ok {
		return why, false
	}
	// j ranges over 0..7: j = phi(-1, j+1)+1 with j < 8, or phi(0, j+1) with j < 8
	if !loopCoversZeroTo(j, 8) {
		return "the loop does not cover exactly the 8 sequence-number bytes", false
	}
	return "nonce[len-8+i] ^= BigEndian(sequenceNumber)[i] for i in 0..7", true
}

// paramRange resolves a byte-slice value to a constant range [lo, hi) of a parameter of the
// function it is used in (hi = -1: to the end), through nested slicing and through a helper of
// the module whose only non-nil result #0 is such a range of its own parameter.
func paramRange(v ssa.Value, d int) (*ssa.Parameter, int64, int64, bool) {
	switch x := unspill(v).(type) {
	case *ssa.Parameter:
		return x, 0, -1, true
	case *ssa.Slice:
		p, lo, hi, ok := paramRange(x.X, d)
		if !ok {
			return nil, 0, 0, false
		}
		l, h := int64(0), int64(-1)
		if x.Low != nil {
			k, isK := constInt(x.Low)
			if !isK {
				return nil, 0, 0, false
			}
			l = k
		}
		if x.High != nil {
			k, isK := constInt(x.High)
			if !isK {
				return nil, 0, 0, false
			}
			h = k
		}
		nlo, nhi := lo+l, hi
		if h >= 0 {
			nhi = lo + h
		}
		if nhi >= 0 && nlo > nhi {
			return nil, 0, 0, false
		}
		return p, nlo, nhi, true
	case *ssa.Extract:
		call, ok := x.Tuple.(*ssa.Call)
		if !ok || x.Index != 0 || d > 2 {
			return nil, 0, 0, false
		}
		g := call.Call.StaticCallee()
		if g == nil || len(g.Blocks) == 0 || !inModule(g) {
			return nil, 0, 0, false
		}
		var retv ssa.Value
		for _, b := range g.Blocks {
			ret, isRet := b.Instrs[len(b.Instrs)-1].(*ssa.Return)
			if !isRet || b == g.Recover || len(ret.Results) == 0 {
				continue
			}
			rv := unspill(ret.Results[0])
			if isNilConst(rv) {
				continue
			}
			if retv != nil && retv != rv {
				return nil, 0, 0, false
			}
			retv = rv
		}
		if retv == nil {
			return nil, 0, 0, false
		}
		gp, glo, ghi, ok := paramRange(retv, d+1)
		if !ok || gp.Parent() != g {
			return nil, 0, 0, false
		}
		idx := paramIndex(gp)
		if idx < 0 || idx >= len(call.Call.Args) {
			return nil, 0, 0, false
		}
		p, lo, hi, ok := paramRange(call.Call.Args[idx], d)
		if !ok {
			return nil, 0, 0, false
		}
		nlo, nhi := lo+glo, hi
		if ghi >= 0 {
			nhi = lo + ghi
		}
		return p, nlo, nhi, true
	}
	return nil, 0, 0, false
}

// nonceIndexIs: the index of the nonce byte is (len(nonce) - 8) + j, or 4 + j (the IV length is
// gated to 12, which the iv-length obligation checks).
func nonceIndexIs(ia *ssa.IndexAddr, nonce, j ssa.Value) (string, bool) {
	idx, ok := ia.Index.(*ssa.BinOp)
	if !ok || idx.Op != token.ADD {
		return "index is not len(nonce)-8+i", false
	}
	var base ssa.Value
	switch {
	case idx.Y == j:
		base = idx.X
	case idx.X == j:
		base = idx.Y
	default:
		return "index does not use the same loop variable as the sequence-number byte", false
	}
	if k, isK := constInt(base); isK {
		if k != 4 {
			return fmt.Sprintf("index base is %d, not len(nonce)-8 = 4", k), false
		}
		return "", true
	}
	sub, ok := base.(*ssa.BinOp)
	if !ok || sub.Op != token.SUB {
		return "index base is not len(nonce)-8", false
	}
	k, isC := constInt(sub.Y)
	lc, isLen := sub.X.(*ssa.Call)
	if !isC || k != 8 || !isLen || calleeName(&lc.Call) != "builtin:len" || lc.Call.Args[0] != nonce {
		return "index base is not len(nonce)-8", false
	}
	return "", true
}

// bigEndianByteIndex: v is byte(param >> (56 - 8*j)); returns j.
func bigEndianByteIndex(v ssa.Value, param string) ssa.Value {
	cv, ok := v.(*ssa.Convert)
	if !ok {
		return nil
	}
	if bt, isB := cv.Type().Underlying().(*types.Basic); !isB || (bt.Kind() != types.Uint8 && bt.Kind() != types.Byte) {
		return nil
	}
	sh, ok := cv.X.(*ssa.BinOp)
	if !ok || sh.Op != token.SHR {
		return nil
	}
	p, ok := sh.X.(*ssa.Parameter)
	if !ok || p.Name() != param {
		return nil
	}
	amt, ok := stripConv(sh.Y).(*ssa.BinOp)
	if !ok || amt.Op != token.SUB {
		return nil
	}
	if k, isK := constInt(amt.X); !isK || k != 56 {
		return nil
	}
	mul, ok := stripConv(amt.Y).(*ssa.BinOp)
	if !ok || mul.Op != token.MUL {
		return nil
	}
	if k, isK := constInt(mul.X); isK && k == 8 {
		return stripConv(mul.Y)
	}
	if k, isK := constInt(mul.Y); isK && k == 8 {
		return stripConv(mul.X)
	}
	return nil
}

// loopCoversZeroTo recognises the two SSA forms of `for i := 0; i < n; i++` / `for i := range [n]T`.
func loopCoversZeroTo(j ssa.Value, n int64) bool {
	bound := func(v ssa.Value) bool {
		for _, ref := range *v.Referrers() {
			if bo, ok := ref.(*ssa.BinOp); ok && bo.Op == token.LSS && bo.X == v {
				if k, isC := constInt(bo.Y); isC && k == n {
					for _, r2 := range *bo.Referrers() {
						if _, isIf := r2.(*ssa.If); isIf {
							return true
						}
					}
				}
			}
		}
		return false
	}
	switch x := j.(type) {
	case *ssa.BinOp: // rangeindex: t10 = phi(-1, t10) + 1 ; t10 < n
		phi, ok := x.X.(*ssa.Phi)
		one, isC := constInt(x.Y)
		if !ok || x.Op != token.ADD || !isC || one != 1 || len(phi.Edges) != 2 {
			return false
		}
		okInit, okStep := false, false
		for _, e := range phi.Edges {
			if k, isK := constInt(e); isK && k == -1 {
				okInit = true
			}
			if e == ssa.Value(x) {
				okStep = true
			}
		}
		return okInit && okStep && bound(x)
	case *ssa.Phi: // classic: i = phi(0, i+1) ; i < n
		if len(x.Edges) != 2 {
			return false
		}
		okInit, okStep, rotated := false, false, false
		for _, e := range x.Edges {
			if k, isK := constInt(e); isK && k == 0 {
				okInit = true
			}
			if bo, ok := e.(*ssa.BinOp); ok && bo.Op == token.ADD && bo.X == ssa.Value(x) {
				if one, isC := constInt(bo.Y); isC && one == 1 {
					okStep = true
					// rotated loop (range over an integer): the test sits at the bottom, on i+1
					rotated = bound(bo)
				}
			}
		}
		return okInit && okStep && (bound(x) || rotated)
	}
	return false
}

func isLenOfParam(v ssa.Value, name string) bool {
	call, ok := v.(*ssa.Call)
	if !ok || calleeName(&call.Call) != "builtin:len" {
		return false
	}
	p, ok := call.Call.Args[0].(*ssa.Parameter)
	return ok && p.Name() == name
}

// ruleLowBits13: validateSequenceNumberLowBits13 compares all on-wire sequence bits
// (16 with the S bit, 8 without) with the same low bits of the reconstructed number,
// and a mismatch always yields an error.
func ruleLowBits13(c *Ctx, r *Report) {
	const rule = "aead13"
	fn := c.need(r, rule, "internal/ciphersuite.validateSequenceNumberLowBits13")
	if fn == nil {
		return
	}
	r.Sites += len(fn.Blocks)
	var cmps []*ssa.BinOp
	for _, b := range fn.Blocks {
		for _, in := range b.Instrs {
			if bo, ok := in.(*ssa.BinOp); ok && (bo.Op == token.NEQ || bo.Op == token.EQL) {
				if _, _, isInt := isIntLike(bo.X.Type()); isInt {
					cmps = append(cmps, bo)
				}
			}
		}
	}
	maskOf := func(v ssa.Value) (ssa.Value, int64) {
		for {
			switch x := v.(type) {
			case *ssa.Convert:
				v = x.X
				continue
			case *ssa.BinOp:
				if x.Op == token.AND {
					if k, isC := constInt(x.Y); isC {
						inner, m := maskOfInner(x.X)
						if m == 0 {
							return inner, k
						}
						return inner, m & k
					}
				}
			}
			return v, 0
		}
	}
	var widths []string
	// one comparison under a mask selected by the S bit: wire&m != seq&m with m = S ? 0xffff : 0xff
	// the mask: a phi of constants, or computed from the number of bytes on the wire
	selected := func(v ssa.Value) (ssa.Value, ssa.Value) {
		and, ok := stripConv(v).(*ssa.BinOp)
		if !ok || and.Op != token.AND {
			return nil, nil
		}
		_, kx := stripConv(and.X).(*ssa.Const)
		_, ky := stripConv(and.Y).(*ssa.Const)
		if kx || ky {
			return nil, nil // a constant mask: the two-comparison form below
		}
		isOperand := func(x ssa.Value) bool {
			if _, _, _, isL := fieldLoad(x); isL {
				return true
			}
			_, isP := x.(*ssa.Parameter)
			return isP
		}
		switch {
		case isOperand(stripConv(and.X)):
			return stripConv(and.X), stripConv(and.Y)
		case isOperand(stripConv(and.Y)):
			return stripConv(and.Y), stripConv(and.X)
		}
		return nil, nil
	}
	for _, bo := range cmps {
		a, pa := selected(bo.X)
		b, pb := selected(bo.Y)
		if pa == nil || pa != pb {
			continue
		}
		if _, isP := a.(*ssa.Parameter); isP {
			a, b = b, a
		}
		_, fa, _, la := fieldLoad(a)
		p, isP := b.(*ssa.Parameter)
		if !la || fa != "SequenceNumber" || !isP || p.Name() != "sequenceNumber" {
			continue
		}
		mismatch := vBool(bo.Op == token.NEQ)
		for _, sbit := range []bool{true, false} {
			want := int64(0xff)
			if sbit {
				want = 0xffff
			}
			w := &Walk{Fn: fn, Follow: followSamePkg(fn), Assume: func(v ssa.Value) (Val, bool) {
				if v == ssa.Value(bo) {
					return mismatch, true
				}
				if _, f, _, isL := fieldLoad(v); isL && f == "SeqBit" {
					return vBool(sbit), true
				}
				return unknown, false
			}}
			// the value of the mask where the comparison is made
			maskOK := true
			var maskAt func(v ssa.Value, env Env, raw map[*ssa.Phi]ssa.Value, d int) (int64, bool)
			maskAt = func(v ssa.Value, env Env, raw map[*ssa.Phi]ssa.Value, d int) (int64, bool) {
				if d > 8 {
					return 0, false
				}
				if k, isK := constInt(v); isK {
					return k, true
				}
				if ev := w.eval(v, env); ev.Kind == 3 {
					return ev.I, true
				}
				switch x := v.(type) {
				case *ssa.Phi:
					if rv, has := raw[x]; has && rv != ssa.Value(x) {
						return maskAt(rv, env, raw, d+1)
					}
				case *ssa.Convert:
					return maskAt(x.X, env, raw, d+1)
				case *ssa.BinOp:
					l, okL := maskAt(x.X, env, raw, d+1)
					rr, okR := maskAt(x.Y, env, raw, d+1)
					if !okL || !okR {
						return 0, false
					}
					switch x.Op {
					case token.ADD:
						return l + rr, true
					case token.SUB:
						return l - rr, true
					case token.MUL:
						return l * rr, true
					case token.SHL:
						if rr >= 0 && rr < 63 {
							return l << uint(rr), true
						}
					}
				}
				return 0, false
			}
			w.VisitRaw = func(in ssa.Instruction, env Env, raw map[*ssa.Phi]ssa.Value) bool {
				if in == ssa.Instruction(bo) {
					if k, isK := maskAt(pa, env, raw, 0); !isK || k != want {
						maskOK = false
					}
				}
				return true
			}
			w.FromEntry()
			okSel := len(w.Returns) > 0 && !w.overflow && maskOK && w.Reached[bo]
			for _, ro := range w.Returns {
				if len(ro.Vals) == 1 && ro.Vals[0].Kind == 2 && ro.Vals[0].B {
					okSel = false // a mismatch under this mask is accepted
				}
			}
			if okSel {
				widths = append(widths, fmt.Sprintf("%#x", want))
			} else {
				widths = append(widths, fmt.Sprintf("S=%v:mask-or-mismatch", sbit))
			}
		}
		cmps = nil
		break
	}
	for _, bo := range cmps {
		a, ma := maskOf(bo.X)
		b, mb := maskOf(bo.Y)
		_, fa, _, la := fieldLoad(a)
		pb, isP := b.(*ssa.Parameter)
		if !la || fa != "SequenceNumber" || !isP || pb.Name() != "sequenceNumber" {
			widths = append(widths, "?")
			continue
		}
		if ma == 0 {
			ma = 0xffff // the field is a uint16
		}
		if ma != mb {
			widths = append(widths, fmt.Sprintf("wire&%#x vs seq&%#x", ma, mb))
			continue
		}
		// a mismatch must lead to an error on every path
		mismatch := vBool(bo.Op == token.NEQ)
		w := (&Walk{Fn: fn, Assume: func(v ssa.Value) (Val, bool) {
			if v == ssa.Value(bo) {
				return mismatch, true
			}
			return unknown, false
		}}).After(bo)
		okErr := true
		for _, ro := range w.Returns {
			if len(ro.Vals) == 1 && ro.Vals[0].Kind == 2 && ro.Vals[0].B {
				okErr = false
			}
		}
		if !okErr {
			widths = append(widths, fmt.Sprintf("%#x:mismatch-accepted", ma))
			continue
		}
		// and it is the comparison of its own header form: with the S bit set (16 bits on the
		// wire) no success is reachable round the 16-bit comparison, without it none round the
		// 8-bit one
		sbit := ma == 0xffff
		cmp := bo
		wS := &Walk{Fn: fn, Assume: func(v ssa.Value) (Val, bool) {
			if _, f, _, isL := fieldLoad(v); isL && f == "SeqBit" {
				return vBool(sbit), true
			}
			return unknown, false
		}}
		wS.Visit = func(in ssa.Instruction, _ Env) bool { return in != ssa.Instruction(cmp) }
		wS.FromEntry()
		round := false
		for _, ro := range wS.Returns {
			if len(ro.Vals) == 1 && !(ro.Vals[0].Kind == 2 && !ro.Vals[0].B) {
				round = true
			}
		}
		if round || wS.overflow {
			widths = append(widths, fmt.Sprintf("%#x:not-the-comparison-of-S=%v", ma, sbit))
			continue
		}
		widths = append(widths, fmt.Sprintf("%#x", ma))
	}
	sortStrings(widths)
	got := strings.Join(widths, ",")
	r.Check(got == "0xff,0xffff", rule, short(fn), c.pos(fn.Pos()), "16 resp. 8 on-wire bits compared with the same low bits of the reconstructed number; mismatch is an error", "the on-wire sequence bits are not fully compared with the reconstructed sequence number: "+got)
}

func maskOfInner(v ssa.Value) (ssa.Value, int64) {
	for {
		switch x := v.(type) {
		case *ssa.Convert:
			v = x.X
			continue
		case *ssa.BinOp:
			if x.Op == token.AND {
				if k, isC := constInt(x.Y); isC {
					inner, m := maskOfInner(x.X)
					if m == 0 {
						return inner, k
					}
					return inner, m & k
				}
			}
		}
		return v, 0
	}
}

func sortStrings(s []string) {
	for i := 1; i < len(s); i++ {
		for j := i; j > 0 && s[j] < s[j-1]; j-- {
			s[j], s[j-1] = s[j-1], s[j]
		}
	}
}

// possibleSuccessReturns: the returns whose error result may be nil: the nil constant, the
// result of a tail call to a function that can return nil, or a variable that is not known to be
// non-nil at the return (not under its own `!= nil` test).
func possibleSuccessReturns(fn *ssa.Function) []ssa.Instruction {
	var out []ssa.Instruction
	for _, blk := range fn.Blocks {
		ret, ok := blk.Instrs[len(blk.Instrs)-1].(*ssa.Return)
		if !ok || len(ret.Results) == 0 || blk == fn.Recover {
			continue
		}
		e := unspill(ret.Results[len(ret.Results)-1])
		if !isErrorType(e.Type()) {
			continue
		}
		if errMayBeNil(e, ret, 0) {
			out = append(out, ret)
		}
	}
	return out
}

func errMayBeNil(e ssa.Value, at *ssa.Return, d int) bool {
	if isNilConst(e) {
		return true
	}
	if definitelyNonNil(e) || d > 3 {
		return d > 3
	}
	// a value tested against nil on the way to this return
	if refs := e.Referrers(); refs != nil {
		for _, ref := range *refs {
			bo, ok := ref.(*ssa.BinOp)
			if !ok || (bo.Op != token.NEQ && bo.Op != token.EQL) {
				continue
			}
			if !(isNilConst(bo.X) || isNilConst(bo.Y)) {
				continue
			}
			for _, r2 := range *bo.Referrers() {
				iff, isIf := r2.(*ssa.If)
				if !isIf {
					continue
				}
				nonNilSucc := iff.Block().Succs[0]
				if bo.Op == token.EQL {
					nonNilSucc = iff.Block().Succs[1]
				}
				if len(nonNilSucc.Preds) == 1 && (nonNilSucc == at.Block() || nonNilSucc.Dominates(at.Block())) {
					return false
				}
			}
		}
	}
	if call, ok := e.(*ssa.Call); ok {
		if g := call.Call.StaticCallee(); g != nil && len(g.Blocks) > 0 && inModule(g) {
			for _, b := range g.Blocks {
				r2, isRet := b.Instrs[len(b.Instrs)-1].(*ssa.Return)
				if !isRet || len(r2.Results) == 0 || b == g.Recover {
					continue
				}
				if errMayBeNil(unspill(r2.Results[len(r2.Results)-1]), r2, d+1) {
					return true
				}
			}
			return false
		}
	}
	return true
}
