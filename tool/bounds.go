// Engine E7: linear-inequality bounds prover on go/ssa (ported from the design-phase prototype).
package main

import (
	"fmt"
	"go/constant"
	"go/token"
	"go/types"
	"sort"
	"strings"

	"golang.org/x/tools/go/ssa"
)

// ---------- linear expressions ----------

type atomKind int

const (
	akVal atomKind = iota
	akLen
	akCap
)

type atom struct {
	k atomKind
	v ssa.Value
}

type lin struct {
	c  map[atom]int64
	k  int64
	ok bool
}

func konst(k int64) lin { return lin{c: map[atom]int64{}, k: k, ok: true} }
func single(a atom) lin { return lin{c: map[atom]int64{a: 1}, ok: true} }
func bad() lin          { return lin{} }

func (l lin) add(o lin, s int64) lin {
	if !l.ok || !o.ok {
		return bad()
	}
	r := lin{c: map[atom]int64{}, k: l.k + s*o.k, ok: true}
	for a, c := range l.c {
		r.c[a] = c
	}
	for a, c := range o.c {
		r.c[a] += s * c
		if r.c[a] == 0 {
			delete(r.c, a)
		}
	}
	return r
}

func (l lin) scale(s int64) lin {
	if !l.ok {
		return l
	}
	r := lin{c: map[atom]int64{}, k: l.k * s, ok: true}
	if s == 0 {
		return r
	}
	for a, c := range l.c {
		r.c[a] = c * s
	}
	return r
}

func (l lin) subst(at atom, by lin) lin {
	if !l.ok {
		return l
	}
	c, has := l.c[at]
	if !has {
		return l
	}
	r := lin{c: map[atom]int64{}, k: l.k, ok: true}
	for a, cc := range l.c {
		if a != at {
			r.c[a] = cc
		}
	}
	return r.add(by, c)
}

// constraint: lin >= 0 ; neq: lin != 0
type cons struct {
	l   lin
	neq bool
}

func ge(l lin) cons { return cons{l: l} }

// ---------- per-function analysis ----------

type progCtx struct {
	ans           map[*ssa.Function]*fnAn
	callers       map[*ssa.Function][]ssa.CallInstruction
	addrTaken     map[*ssa.Function]bool
	succ          map[*ssa.Function][]lin
	succBusy      map[*ssa.Function]bool
	nonneg        map[*ssa.Function]map[int]int // 0 unknown, 1 yes, 2 no, 3 busy
	dynMethods    map[string]bool               // method names invoked through some interface
	assumedNonNeg map[string][]int              // reviewed assumptions: function -> indices of parameters that are never negative
}

var pc = &progCtx{
	ans: map[*ssa.Function]*fnAn{}, callers: map[*ssa.Function][]ssa.CallInstruction{},
	addrTaken: map[*ssa.Function]bool{}, succ: map[*ssa.Function][]lin{}, succBusy: map[*ssa.Function]bool{},
	nonneg: map[*ssa.Function]map[int]int{}, dynMethods: map[string]bool{},
}

func getAn(fn *ssa.Function) *fnAn {
	if a, ok := pc.ans[fn]; ok {
		return a
	}
	a := &fnAn{fn: fn, facts: map[*ssa.BasicBlock][]cons{}}
	pc.ans[fn] = a
	if fn.Blocks != nil {
		a.buildLoads()
		a.pre = inferParamPre(fn)
		// analysing the callers may have consulted this function before its preconditions were
		// known: drop what was cached meanwhile
		a.facts = map[*ssa.BasicBlock][]cons{}
		delete(retCache, fn)
		delete(pc.succ, fn)
		a.computeInvariants()
	}
	return a
}

func isParamAtom(fn *ssa.Function, at atom) bool {
	p, ok := at.v.(*ssa.Parameter)
	return ok && p.Parent() == fn
}

func paramOnly(fn *ssa.Function, l lin) bool {
	if !l.ok {
		return false
	}
	for at := range l.c {
		if !isParamAtom(fn, at) {
			return false
		}
	}
	return true
}

// instantiate a callee-side lin (over callee params) at a call site in caller a.
func (a *fnAn) instantiate(callee *ssa.Function, args []ssa.Value, l lin) lin {
	out := konst(l.k)
	for at, c := range l.c {
		p := at.v.(*ssa.Parameter)
		idx := -1
		for i, q := range callee.Params {
			if q == p {
				idx = i
			}
		}
		if idx < 0 || idx >= len(args) {
			return bad()
		}
		var by lin
		switch at.k {
		case akVal:
			by = a.linOf(args[idx], 1)
		case akLen:
			by = a.lenOf(args[idx], 1)
		case akCap:
			by = a.capOf(args[idx], 1)
		}
		if !by.ok {
			return bad()
		}
		out = out.add(by, c)
	}
	return out
}

func callArgs(c *ssa.CallCommon) []ssa.Value { return c.Args }

// succFacts: param-only constraints that hold on every nil-error return of fn.
func succFacts(fn *ssa.Function) []lin {
	if s, ok := pc.succ[fn]; ok {
		return s
	}
	if pc.succBusy[fn] || fn.Blocks == nil {
		return nil
	}
	res := fn.Signature.Results()
	if res.Len() == 0 || !isErrorType(res.At(res.Len()-1).Type()) {
		pc.succ[fn] = nil
		return nil
	}
	pc.succBusy[fn] = true
	defer func() { pc.succBusy[fn] = false }()
	a := getAn(fn)
	var rets []*ssa.Return
	for _, b := range fn.Blocks {
		if r, ok := b.Instrs[len(b.Instrs)-1].(*ssa.Return); ok {
			e := r.Results[len(r.Results)-1]
			if c, ok := e.(*ssa.Const); ok && c.Value == nil {
				rets = append(rets, r)
			} else if _, isConst := e.(*ssa.Const); !isConst {
				// non-constant error (maybe nil): treat as possible success
				if !definitelyNonNil(e) {
					rets = append(rets, r)
				}
			}
		}
	}
	var cands []lin
	seen := map[string]bool{}
	for _, r := range rets {
		for _, f := range a.blockFacts(r.Block()) {
			if !f.neq && paramOnly(fn, f.l) {
				k := linKey(f.l)
				if !seen[k] {
					seen[k] = true
					cands = append(cands, f.l)
				}
			}
		}
	}
	var out []lin
	for _, c := range cands {
		ok := true
		for _, r := range rets {
			facts := append(append([]cons{}, a.blockFacts(r.Block())...), a.inv...)
			if !a.prove(facts, c, 1) {
				ok = false
				break
			}
		}
		if ok && len(rets) > 0 {
			out = append(out, c)
		}
	}
	pc.succ[fn] = out
	return out
}

func definitelyNonNil(v ssa.Value) bool {
	switch x := v.(type) {
	case *ssa.MakeInterface:
		return true
	case *ssa.UnOp:
		// load of a global error variable (sentinel): non-nil by convention
		if x.Op == token.MUL {
			if _, ok := x.X.(*ssa.Global); ok {
				return true
			}
		}
	case *ssa.Call:
		if f := x.Call.StaticCallee(); f != nil && f.Pkg != nil && (f.Pkg.Pkg.Path() == "fmt" || f.Pkg.Pkg.Path() == "errors") {
			return true
		}
	}
	return false
}

func linKey(l lin) string {
	var parts []string
	for at, c := range l.c {
		parts = append(parts, fmt.Sprintf("%d:%s:%d", at.k, at.v.Name(), c))
	}
	sort.Strings(parts)
	return strings.Join(parts, ",") + fmt.Sprintf("|%d", l.k)
}

// resultNonNeg: result j of fn is always >= 0
func resultNonNeg(fn *ssa.Function, j int) bool {
	if fn.Blocks == nil {
		return false
	}
	m := pc.nonneg[fn]
	if m == nil {
		m = map[int]int{}
		pc.nonneg[fn] = m
	}
	switch m[j] {
	case 1:
		return true
	case 2, 3:
		return false
	}
	m[j] = 3
	a := getAn(fn)
	ok := true
	n := 0
	for _, b := range fn.Blocks {
		if r, isRet := b.Instrs[len(b.Instrs)-1].(*ssa.Return); isRet {
			n++
			if j >= len(r.Results) {
				ok = false
				break
			}
			facts := append(append([]cons{}, a.blockFacts(b)...), a.inv...)
			if !a.prove(facts, a.linOf(r.Results[j], 0), 1) {
				ok = false
				break
			}
		}
	}
	if ok && n > 0 {
		m[j] = 1
		return true
	}
	m[j] = 2
	return false
}

// errCall: if v is the error result of a static call, return the call.
func errCall(v ssa.Value) *ssa.Call {
	switch x := v.(type) {
	case *ssa.Call:
		if isErrorType(x.Type()) {
			return x
		}
	case *ssa.Extract:
		if c, ok := x.Tuple.(*ssa.Call); ok {
			if tup, ok := c.Type().(*types.Tuple); ok && x.Index == tup.Len()-1 && isErrorType(x.Type()) {
				return c
			}
		}
	}
	return nil
}

type fnAn struct {
	fn      *ssa.Function
	facts   map[*ssa.BasicBlock][]cons
	loadRep map[*ssa.UnOp]ssa.Value // canonical value for a load
	// memPhi: a load at the head of a join block whose location holds a different, known value on
	// each incoming edge (one branch stored to it): what it reads per predecessor
	memPhi map[*ssa.UnOp][]ssa.Value
	reach  map[*ssa.BasicBlock]map[*ssa.BasicBlock]bool
	inv    []cons                     // always empty: invariants are part of blockFacts (invAt)
	invAt  map[*ssa.BasicBlock][]cons // loop header -> inductive invariants established there
	pre    []cons                     // parameter facts that hold at every call site of the module
}

func isIntLike(t types.Type) (bits int, signed bool, ok bool) {
	b, isb := t.Underlying().(*types.Basic)
	if !isb {
		return 0, false, false
	}
	switch b.Kind() {
	case types.Int, types.Int64, types.UntypedInt:
		return 64, true, true
	case types.Int32:
		return 32, true, true
	case types.Int16:
		return 16, true, true
	case types.Int8:
		return 8, true, true
	case types.Uint, types.Uint64, types.Uintptr:
		return 64, false, true
	case types.Uint32:
		return 32, false, true
	case types.Uint16:
		return 16, false, true
	case types.Uint8:
		return 8, false, true
	}
	return 0, false, false
}

// exactUnsigned64, while set, makes the engine treat uint64 arithmetic as exact too (no wrap). Only
// the window-coverage rule sets it, for one function whose operands are record numbers (below
// 2^48) and a window size; everything else keeps unsigned arithmetic opaque.
var exactUnsigned64 bool

func exactArith(t types.Type) bool {
	bits, signed, ok := isIntLike(t)
	if exactUnsigned64 && ok && bits == 64 {
		return true
	}
	return ok && signed && bits == 64
}

// freshAnExactUnsigned builds an analysis of fn outside the cache, with uint64 arithmetic exact.
// The caller keeps exactUnsigned64 set while it uses the result.
func freshAnExactUnsigned(fn *ssa.Function) *fnAn {
	a := &fnAn{fn: fn, facts: map[*ssa.BasicBlock][]cons{}}
	if fn.Blocks != nil {
		a.buildLoads()
		a.computeInvariants()
	}
	return a
}

// proveAny: facts entail one of the goals (each ">= 0"); phis that merge values before the point
// are split by incoming edge, and a different goal may hold on each edge.
func (a *fnAn) proveAny(facts []cons, goals []lin, depth int) bool {
	for _, g := range goals {
		if g.ok && a.prove(facts, g, 0) {
			return true
		}
	}
	if depth >= 3 {
		return false
	}
	var cands []atom
	seenC := map[atom]bool{}
	for _, g := range goals {
		for at := range g.c {
			if phi, ok := at.v.(*ssa.Phi); ok && !seenC[at] {
				acyc := true
				for _, p := range phi.Block().Preds {
					if phi.Block().Dominates(p) {
						acyc = false
					}
				}
				if acyc {
					seenC[at] = true
					cands = append(cands, at)
				}
			}
		}
	}
	sort.Slice(cands, func(i, j int) bool { return cands[i].v.Name() < cands[j].v.Name() })
	// min(a, b) / max(a, b): it is one of the two, and which one says how they compare
	for _, g := range goals {
		for at := range g.c {
			cl, ok := at.v.(*ssa.Call)
			if !ok || at.k != akVal || len(cl.Call.Args) != 2 {
				continue
			}
			nm := calleeName(&cl.Call)
			if nm != "builtin:min" && nm != "builtin:max" {
				continue
			}
			la, lb := a.linOf(cl.Call.Args[0], 0), a.linOf(cl.Call.Args[1], 0)
			if !la.ok || !lb.ok {
				continue
			}
			all := true
			for _, pick := range []struct{ is, other lin }{{la, lb}, {lb, la}} {
				// the result is pick.is; for min that means is <= other, for max is >= other
				rel := pick.other.add(pick.is, -1)
				if nm == "builtin:max" {
					rel = pick.is.add(pick.other, -1)
				}
				nf := append(substAll(facts, at, pick.is), ge(rel))
				gs := make([]lin, len(goals))
				for j := range goals {
					gs[j] = goals[j].subst(at, pick.is)
				}
				if !a.proveAny(nf, gs, depth+1) {
					all = false
					break
				}
			}
			if all {
				return true
			}
		}
	}
	// a load at a join that reads a different known value on each incoming edge
	for _, g := range goals {
		for at := range g.c {
			ld, ok := at.v.(*ssa.UnOp)
			if !ok {
				continue
			}
			vals, has := a.memPhi[ld]
			if !has {
				continue
			}
			all := true
			for i, p := range ld.Block().Preds {
				var by lin
				switch at.k {
				case akVal:
					by = a.linOf(vals[i], 1)
				case akLen:
					by = a.lenOf(vals[i], 1)
				case akCap:
					by = a.capOf(vals[i], 1)
				}
				if !by.ok {
					all = false
					break
				}
				nf := append(substAll(facts, at, by), a.blockFacts(p)...)
				if iff, okI := p.Instrs[len(p.Instrs)-1].(*ssa.If); okI && p.Succs[0] != p.Succs[1] {
					nf = append(nf, a.condFacts(iff.Cond, p.Succs[0] == ld.Block())...)
				}
				gs := make([]lin, len(goals))
				for j := range goals {
					gs[j] = goals[j].subst(at, by)
				}
				if !a.proveAny(nf, gs, depth+1) {
					all = false
					break
				}
			}
			if all {
				return true
			}
		}
	}
	for _, at := range cands {
		phi := at.v.(*ssa.Phi)
		var group []atom
		seenAt := map[atom]bool{}
		collect := func(l lin) {
			for x := range l.c {
				if p2, ok := x.v.(*ssa.Phi); ok && p2.Block() == phi.Block() && !seenAt[x] {
					seenAt[x] = true
					group = append(group, x)
				}
			}
		}
		for _, g := range goals {
			collect(g)
		}
		for _, f := range facts {
			collect(f.l)
		}
		all := true
		for i, p := range phi.Block().Preds {
			nf := facts
			gs := append([]lin{}, goals...)
			okEdge := true
			for _, x := range group {
				by := a.phiEdge(x, x.v.(*ssa.Phi), i)
				if !by.ok {
					if x == at {
						okEdge = false
					}
					continue
				}
				nf = substAll(nf, x, by)
				for j := range gs {
					gs[j] = gs[j].subst(x, by)
				}
			}
			if !okEdge {
				all = false
				break
			}
			nf = append(append([]cons{}, nf...), a.blockFacts(p)...)
			if iff, ok := p.Instrs[len(p.Instrs)-1].(*ssa.If); ok && p.Succs[0] != p.Succs[1] {
				nf = append(nf, a.condFacts(iff.Cond, p.Succs[0] == phi.Block())...)
			}
			if !a.proveAny(nf, gs, depth+1) {
				all = false
				break
			}
		}
		if all {
			return true
		}
	}
	return false
}

// ----- address keys and load canonicalisation -----

type addrKey struct {
	root ssa.Value
	path string
}

// plainCell: a local variable cell whose address is only ever loaded from, stored to, or handed
// to a call as an argument (never stored, captured, converted or indexed): a call that is not
// given the address cannot touch it.
var plainCellCache = map[*ssa.Alloc]bool{}

func plainCell(al *ssa.Alloc) bool {
	if v, ok := plainCellCache[al]; ok {
		return v
	}
	ok := true
	switch derefType(al.Type()).Underlying().(type) {
	case *types.Slice, *types.Basic, *types.Pointer, *types.Map, *types.Interface:
	default:
		ok = false
	}
	if refs := al.Referrers(); refs != nil && ok {
		for _, ref := range *refs {
			switch x := ref.(type) {
			case *ssa.UnOp:
				if x.Op != token.MUL {
					ok = false
				}
			case *ssa.Store:
				if x.Addr != ssa.Value(al) {
					ok = false
				}
			case *ssa.Call:
				if x.Call.Value == ssa.Value(al) {
					ok = false
				}
			case *ssa.DebugRef:
			default:
				ok = false // defer, go, closures, conversions, field/index addressing
			}
		}
	}
	plainCellCache[al] = ok
	return ok
}

func keyOf(v ssa.Value) (addrKey, bool) {
	switch x := v.(type) {
	case *ssa.Alloc:
		if plainCell(x) {
			return addrKey{root: x}, true
		}
		return addrKey{}, false
	case *ssa.FieldAddr:
		k, ok := keyOf(x.X)
		if !ok {
			// X is a pointer value (param, load, alloc): root
			return addrKey{root: x.X, path: fmt.Sprintf(".%d", x.Field)}, true
		}
		k.path += fmt.Sprintf(".%d", x.Field)
		return k, true
	case *ssa.UnOp:
		// reload of an intermediate pointer (x.p.f): extend the path through the dereference,
		// so that two accesses through re-loaded x.p share one key
		if x.Op == token.MUL {
			if _, isPtr := x.Type().Underlying().(*types.Pointer); isPtr {
				if k, ok := keyOf(x.X); ok {
					k.path += "*"
					return k, true
				}
			}
		}
		return addrKey{}, false
	case *ssa.IndexAddr:
		if c, ok := x.Index.(*ssa.Const); ok && c.Value != nil {
			if _, isPtr := x.X.Type().Underlying().(*types.Pointer); isPtr {
				k, ok := keyOf(x.X)
				if !ok {
					k = addrKey{root: x.X}
				}
				k.path += "[" + c.Value.ExactString() + "]"
				return k, true
			}
		}
		return addrKey{}, false
	}
	return addrKey{}, false
}

func derivesFrom(v, root ssa.Value, depth int) bool {
	if v == root {
		return true
	}
	if depth > 6 {
		return false
	}
	switch x := v.(type) {
	case *ssa.FieldAddr:
		return derivesFrom(x.X, root, depth+1)
	case *ssa.IndexAddr:
		return derivesFrom(x.X, root, depth+1)
	case *ssa.ChangeType:
		return derivesFrom(x.X, root, depth+1)
	case *ssa.MakeInterface:
		return derivesFrom(x.X, root, depth+1)
	}
	return false
}

type memEv struct {
	ins   ssa.Instruction
	key   addrKey
	store *ssa.Store
	load  *ssa.UnOp
	blk   *ssa.BasicBlock
	idx   int
}

func (a *fnAn) mayPrecede(xb *ssa.BasicBlock, xi int, yb *ssa.BasicBlock, yi int) bool {
	if xb == yb && xi < yi {
		return true
	}
	return a.reaches(xb, yb)
}

func (a *fnAn) buildLoads() {
	a.loadRep = map[*ssa.UnOp]ssa.Value{}
	var evs []memEv           // loads and stores with keys
	var calls []memEv         // calls (potential kills)
	var unknownStores []memEv // stores to addresses without key
	for _, b := range a.fn.Blocks {
		for i, ins := range b.Instrs {
			switch x := ins.(type) {
			case *ssa.Store:
				if k, ok := keyOf(x.Addr); ok {
					evs = append(evs, memEv{ins: ins, key: k, store: x, blk: b, idx: i})
				} else {
					unknownStores = append(unknownStores, memEv{ins: ins, blk: b, idx: i, store: x})
					// a whole struct written to a local: it overwrites every field of it
					if al, isAl := x.Addr.(*ssa.Alloc); isAl {
						if _, isStruct := x.Val.Type().Underlying().(*types.Struct); isStruct {
							evs = append(evs, memEv{ins: ins, key: addrKey{root: al}, store: x, blk: b, idx: i})
						}
					}
				}
			case *ssa.UnOp:
				if x.Op == token.MUL {
					if k, ok := keyOf(x.X); ok {
						evs = append(evs, memEv{ins: ins, key: k, load: x, blk: b, idx: i})
					}
				}
			case ssa.CallInstruction:
				calls = append(calls, memEv{ins: ins, blk: b, idx: i})
			}
		}
	}
	overlap := func(k1, k2 addrKey) bool {
		return k1.root == k2.root && (strings.HasPrefix(k1.path, k2.path) || strings.HasPrefix(k2.path, k1.path))
	}
	// copySource: the store writes a whole struct that was just loaded from another place
	// (`*dst = *src`, the way go/ssa lowers `dst := T{...}`): the key the same sub-path has there.
	copySource := func(d *memEv, key addrKey) (addrKey, *ssa.UnOp, bool) {
		if d.store == nil || d.key.root != key.root || len(d.key.path) >= len(key.path) || !strings.HasPrefix(key.path, d.key.path) {
			return addrKey{}, nil, false
		}
		if _, isStruct := d.store.Val.Type().Underlying().(*types.Struct); !isStruct {
			return addrKey{}, nil, false
		}
		u, ok := d.store.Val.(*ssa.UnOp)
		if !ok || u.Op != token.MUL {
			return addrKey{}, nil, false
		}
		sk, ok := keyOf(u.X)
		if !ok {
			if _, isAl := u.X.(*ssa.Alloc); !isAl {
				return addrKey{}, nil, false
			}
			sk = addrKey{root: u.X}
		}
		sk.path += key.path[len(d.key.path):]
		return sk, u, true
	}
	// resolve: the value the location key holds just before instruction (blk, idx): the value of
	// the nearest dominating store to it (or an earlier load of it), provided nothing in between
	// can have written it.
	var resolve func(key addrKey, self ssa.Instruction, blk *ssa.BasicBlock, idx int, typ types.Type, depth int) ssa.Value
	resolve = func(key addrKey, self ssa.Instruction, blk *ssa.BasicBlock, idx int, typ types.Type, depth int) ssa.Value {
		if depth > 3 {
			return nil
		}
		var best *memEv
		for i := range evs {
			d := &evs[i]
			if d.ins == self {
				continue
			}
			if d.key != key {
				if _, _, isCopy := copySource(d, key); !isCopy {
					continue
				}
			}
			dom := (d.blk == blk && d.idx < idx) || (d.blk != blk && d.blk.Dominates(blk))
			if !dom {
				continue
			}
			if best == nil {
				best = d
				continue
			}
			// is d later than best? (best dominates d)
			if (best.blk == d.blk && best.idx < d.idx) || (best.blk != d.blk && best.blk.Dominates(d.blk)) {
				best = d
			}
		}
		if best == nil {
			return nil
		}
		between := func(k memEv) bool {
			if k.ins == best.ins {
				return false
			}
			if !(a.mayPrecede(best.blk, best.idx, k.blk, k.idx) && a.mayPrecede(k.blk, k.idx, blk, idx)) {
				return false
			}
			// the use sees what the LAST run of the definer left: k matters only if the use can be
			// reached from k without running the definer again (in a loop whose header re-reads
			// the location, a store in the body is followed by that re-read on the way out)
			return reachesAvoiding(k.blk, k.idx, best.blk, best.idx, blk, idx)
		}
		for _, k := range evs {
			if k.store != nil && overlap(k.key, key) && between(k) {
				return nil
			}
		}
		for _, k := range unknownStores {
			// a store through an unknown pointer of the same value type may alias
			if types.Identical(k.store.Val.Type(), typ) && between(k) {
				return nil
			}
		}
		for _, k := range calls {
			if callMayTouchKey(k.ins.(ssa.CallInstruction), key, overlap) && between(k) {
				return nil
			}
		}
		if best.key != key {
			sk, u, _ := copySource(best, key)
			return resolve(sk, u, u.Block(), instrIndex(u), typ, depth+1)
		}
		if best.store != nil {
			return best.store.Val
		}
		return best.load
	}
	a.memPhi = map[*ssa.UnOp][]ssa.Value{}
	for _, l := range evs {
		if l.load == nil {
			continue
		}
		if v := resolve(l.key, l.ins, l.blk, l.idx, l.load.Type(), 0); v != nil {
			a.loadRep[l.load] = v
			continue
		}
		// a join: the location is resolved at the end of every predecessor, and nothing in this
		// block in front of the load can have written it
		if len(l.blk.Preds) < 2 || len(l.blk.Preds) > 4 {
			continue
		}
		clean := true
		for _, k := range evs {
			if k.store != nil && k.blk == l.blk && k.idx < l.idx && overlap(k.key, l.key) {
				clean = false
			}
		}
		for _, k := range unknownStores {
			if k.blk == l.blk && k.idx < l.idx && types.Identical(k.store.Val.Type(), l.load.Type()) {
				clean = false
			}
		}
		for _, k := range calls {
			if k.blk == l.blk && k.idx < l.idx && callMayTouchKey(k.ins.(ssa.CallInstruction), l.key, overlap) {
				clean = false
			}
		}
		loopHead := false
		for _, p := range l.blk.Preds {
			if l.blk.Dominates(p) {
				loopHead = true
			}
		}
		if !clean || loopHead {
			continue
		}
		var vals []ssa.Value
		for _, p := range l.blk.Preds {
			v := resolve(l.key, nil, p, len(p.Instrs), l.load.Type(), 0)
			if v == nil {
				vals = nil
				break
			}
			vals = append(vals, v)
		}
		if vals != nil {
			a.memPhi[l.load] = vals
		}
	}
}

// reachesAvoiding: is there a control-flow path from just after (kb, ki) to (lb, li) that does not
// execute the instruction (db, di)?
func reachesAvoiding(kb *ssa.BasicBlock, ki int, db *ssa.BasicBlock, di int, lb *ssa.BasicBlock, li int) bool {
	// the rest of k's own block
	if kb == lb && ki < li && !(db == kb && ki < di && di < li) {
		return true
	}
	if kb == db && ki < di {
		return false // runs into the definer before leaving the block
	}
	seen := map[*ssa.BasicBlock]bool{}
	work := append([]*ssa.BasicBlock{}, kb.Succs...)
	for len(work) > 0 {
		b := work[len(work)-1]
		work = work[:len(work)-1]
		if seen[b] {
			continue
		}
		seen[b] = true
		if b == lb && !(b == db && di < li) {
			return true
		}
		if b == db {
			continue // entering the block runs the definer before anything behind it
		}
		work = append(work, b.Succs...)
	}
	return false
}

// callMayTouchKey: the call is handed the root object itself (or something that reaches it
// through a conversion), or the address of a part of it that overlaps the key. A callee that
// receives only the address of another field of the same object (m.Random.MarshalFixed() while
// the key is m.Cookie) cannot reach the key: Go has no pointer arithmetic.
func callMayTouchKey(c ssa.CallInstruction, key addrKey, overlap func(a, b addrKey) bool) bool {
	com := c.Common()
	touches := func(v ssa.Value) bool {
		if !derivesFrom(v, key.root, 0) {
			return false
		}
		v = stripPointerWraps(v)
		if v == key.root {
			return true
		}
		if k, ok := keyOf(v); ok && k.root == key.root {
			return overlap(k, key)
		}
		return true
	}
	if com.IsInvoke() && touches(com.Value) {
		return true
	}
	for _, arg := range com.Args {
		if touches(arg) {
			return true
		}
	}
	if mc, ok := com.Value.(*ssa.MakeClosure); ok {
		for _, b := range mc.Bindings {
			if touches(b) {
				return true
			}
		}
	}
	return false
}

func stripPointerWraps(v ssa.Value) ssa.Value {
	for i := 0; i < 6; i++ {
		switch x := v.(type) {
		case *ssa.ChangeType:
			v = x.X
		case *ssa.MakeInterface:
			v = x.X
		default:
			return v
		}
	}
	return v
}

func callMayTouch(c ssa.CallInstruction, root ssa.Value) bool {
	com := c.Common()
	if com.IsInvoke() && derivesFrom(com.Value, root, 0) {
		return true
	}
	for _, arg := range com.Args {
		if derivesFrom(arg, root, 0) {
			return true
		}
	}
	// closures capturing root
	if mc, ok := com.Value.(*ssa.MakeClosure); ok {
		for _, b := range mc.Bindings {
			if derivesFrom(b, root, 0) {
				return true
			}
		}
	}
	return false
}

func (a *fnAn) canon(v ssa.Value) ssa.Value {
	for i := 0; i < 8; i++ {
		ld, ok := v.(*ssa.UnOp)
		if !ok || ld.Op != token.MUL {
			return v
		}
		r, ok := a.loadRep[ld]
		if !ok || r == v {
			return v
		}
		v = r
	}
	return v
}

// ----- translation -----

func (a *fnAn) linOf(v ssa.Value, depth int) lin {
	v = a.canon(v)
	if depth > 14 {
		return single(atom{akVal, v})
	}
	switch x := v.(type) {
	case *ssa.Const:
		if x.Value == nil {
			return bad()
		}
		if x.Value.Kind() == constant.Int {
			if i, ok := constant.Int64Val(x.Value); ok {
				return konst(i)
			}
		}
		return bad()
	case *ssa.BinOp:
		if _, _, ok := isIntLike(x.Type()); !ok {
			return bad()
		}
		if exactArith(x.Type()) {
			switch x.Op {
			case token.ADD:
				return a.linOf(x.X, depth+1).add(a.linOf(x.Y, depth+1), 1)
			case token.SUB:
				return a.linOf(x.X, depth+1).add(a.linOf(x.Y, depth+1), -1)
			case token.MUL:
				lx, ly := a.linOf(x.X, depth+1), a.linOf(x.Y, depth+1)
				if lx.ok && len(lx.c) == 0 {
					return ly.scale(lx.k)
				}
				if ly.ok && len(ly.c) == 0 {
					return lx.scale(ly.k)
				}
			}
		}
		return single(atom{akVal, v})
	case *ssa.Convert:
		db, ds, dok := isIntLike(x.Type())
		sb, ss, sok := isIntLike(x.X.Type())
		if dok && sok && db == 64 && ds && (sb < 64 || ss) {
			return a.linOf(x.X, depth+1)
		}
		return single(atom{akVal, v})
	case *ssa.ChangeType:
		return a.linOf(x.X, depth+1)
	case *ssa.Call:
		if b, ok := x.Call.Value.(*ssa.Builtin); ok && len(x.Call.Args) == 1 {
			switch b.Name() {
			case "len":
				return a.lenOf(x.Call.Args[0], depth+1)
			case "cap":
				return a.capOf(x.Call.Args[0], depth+1)
			}
		}
		return single(atom{akVal, v})
	}
	if _, _, ok := isIntLike(v.Type()); ok {
		return single(atom{akVal, v})
	}
	return bad()
}

func (a *fnAn) lenOf(v ssa.Value, depth int) lin {
	v = a.canon(v)
	if depth > 14 {
		return single(atom{akLen, v})
	}
	switch t := v.Type().Underlying().(type) {
	case *types.Array:
		return konst(t.Len())
	case *types.Pointer:
		if arr, ok := t.Elem().Underlying().(*types.Array); ok {
			return konst(arr.Len())
		}
	}
	switch x := v.(type) {
	case *ssa.Slice:
		lo := konst(0)
		if x.Low != nil {
			lo = a.linOf(x.Low, depth+1)
		}
		var hi lin
		if x.High != nil {
			hi = a.linOf(x.High, depth+1)
		} else {
			hi = a.lenOf(x.X, depth+1)
		}
		return hi.add(lo, -1)
	case *ssa.MakeSlice:
		return a.linOf(x.Len, depth+1)
	case *ssa.Const:
		if x.Value != nil && x.Value.Kind() == constant.String {
			return konst(int64(len(constant.StringVal(x.Value))))
		}
		if x.Value == nil {
			return konst(0)
		}
	case *ssa.ChangeType:
		return a.lenOf(x.X, depth+1)
	case *ssa.Convert:
		_, srcSlice := x.X.Type().Underlying().(*types.Slice)
		_, dstSlice := x.Type().Underlying().(*types.Slice)
		sb, srcBasic := x.X.Type().Underlying().(*types.Basic)
		db, dstBasic := x.Type().Underlying().(*types.Basic)
		if (srcSlice && dstBasic && db.Info()&types.IsString != 0) || (dstSlice && srcBasic && sb.Info()&types.IsString != 0) {
			return a.lenOf(x.X, depth+1)
		}
	case *ssa.Call:
		if f := x.Call.StaticCallee(); f != nil && f.Pkg == nil && f.Origin() != nil && f.Origin().Pkg != nil {
			// an instance of a generic function: slices.Grow adds capacity only (documented
			// contract), slices.Clone copies the elements
			if o := f.Origin(); o.Pkg.Pkg.Path() == "slices" && (o.Name() == "Grow" || o.Name() == "Clone") && len(x.Call.Args) >= 1 {
				return a.lenOf(x.Call.Args[0], depth+1)
			}
		}
		if f := x.Call.StaticCallee(); f != nil && f.Pkg != nil {
			full := f.Pkg.Pkg.Path() + "." + f.Name()
			if (full == "bytes.Clone" || full == "slices.Clone") && len(x.Call.Args) == 1 {
				return a.lenOf(x.Call.Args[0], depth+1)
			}
			// generic instances are named slices.Clone[...] / slices.Grow[...]: Grow adds
			// capacity only (documented contract), Clone copies the elements
			if f.Pkg.Pkg.Path() == "slices" && (strings.HasPrefix(f.Name(), "Grow[") || strings.HasPrefix(f.Name(), "Clone[")) && len(x.Call.Args) >= 1 {
				return a.lenOf(x.Call.Args[0], depth+1)
			}
			// encoding/binary's AppendUintN (documented contract: appends exactly N/8 bytes)
			if f.Pkg.Pkg.Path() == "encoding/binary" && len(x.Call.Args) == 3 {
				if n, ok := map[string]int64{"AppendUint16": 2, "AppendUint32": 4, "AppendUint64": 8}[f.Name()]; ok {
					if l0 := a.lenOf(x.Call.Args[1], depth+1); l0.ok {
						return l0.add(konst(n), 1)
					}
				}
			}
		}
		if b, ok := x.Call.Value.(*ssa.Builtin); ok && b.Name() == "append" && len(x.Call.Args) == 2 {
			l0, l1 := a.lenOf(x.Call.Args[0], depth+1), a.lenOf(x.Call.Args[1], depth+1)
			if l0.ok && l1.ok {
				return l0.add(l1, 1)
			}
		}
	}
	return single(atom{akLen, v})
}

func (a *fnAn) capOf(v ssa.Value, depth int) lin {
	v = a.canon(v)
	switch t := v.Type().Underlying().(type) {
	case *types.Array:
		return konst(t.Len())
	case *types.Pointer:
		if arr, ok := t.Elem().Underlying().(*types.Array); ok {
			return konst(arr.Len())
		}
	}
	if x, ok := v.(*ssa.MakeSlice); ok {
		return a.linOf(x.Cap, depth+1)
	}
	return single(atom{akCap, v})
}

func (a *fnAn) condFacts(c ssa.Value, truth bool) []cons {
	if call, idx := callOfResult(c); call != nil && truth {
		if callee := call.Call.StaticCallee(); callee != nil && callee.Blocks != nil && callee.Pkg != nil {
			if sum := retSummaryOf(callee); sum != nil && sum.statusIx == idx && !sum.hasErr {
				return a.callRetFacts(call, true)
			}
		}
	}
	switch x := c.(type) {
	case *ssa.UnOp:
		if x.Op == token.NOT {
			return a.condFacts(x.X, !truth)
		}
	case *ssa.BinOp:
		if isErrorType(x.X.Type()) && (x.Op == token.EQL || x.Op == token.NEQ) {
			var ev ssa.Value
			if c, ok := x.Y.(*ssa.Const); ok && c.Value == nil {
				ev = x.X
			} else if c, ok := x.X.(*ssa.Const); ok && c.Value == nil {
				ev = x.Y
			}
			isNil := (x.Op == token.EQL) == truth
			if ev != nil && isNil {
				if call := errCall(ev); call != nil {
					if callee := call.Call.StaticCallee(); callee != nil {
						var out []cons
						for _, s := range succFacts(callee) {
							if inst := a.instantiate(callee, call.Call.Args, s); inst.ok {
								out = append(out, ge(inst))
							}
						}
						out = append(out, a.callRetFacts(call, true)...)
						return out
					}
				}
			}
			return nil
		}
		if _, _, ok := isIntLike(x.X.Type()); !ok {
			return nil
		}
		l, r := a.linOf(x.X, 0), a.linOf(x.Y, 0)
		if !l.ok || !r.ok {
			return nil
		}
		op := x.Op
		if !truth {
			switch op {
			case token.LSS:
				op = token.GEQ
			case token.LEQ:
				op = token.GTR
			case token.GTR:
				op = token.LEQ
			case token.GEQ:
				op = token.LSS
			case token.EQL:
				op = token.NEQ
			case token.NEQ:
				op = token.EQL
			}
		}
		one := konst(1)
		switch op {
		case token.LSS:
			return []cons{ge(r.add(l, -1).add(one, -1))}
		case token.LEQ:
			return []cons{ge(r.add(l, -1))}
		case token.GTR:
			return []cons{ge(l.add(r, -1).add(one, -1))}
		case token.GEQ:
			return []cons{ge(l.add(r, -1))}
		case token.EQL:
			return []cons{ge(l.add(r, -1)), ge(r.add(l, -1))}
		case token.NEQ:
			return []cons{{l: l.add(r, -1), neq: true}}
		}
	}
	return nil
}

func (a *fnAn) atomFacts(at atom) []cons {
	switch at.k {
	case akLen:
		out := []cons{ge(single(at))}
		if call, _ := callOfResult(at.v); call != nil {
			out = append(out, a.callRetFacts(call, false)...)
		}
		return out
	case akCap:
		ln := a.lenOf(at.v, 1)
		if !ln.ok {
			return nil
		}
		return []cons{ge(single(at).add(ln, -1))}
	case akVal:
		var out []cons
		bits, signed, ok := isIntLike(at.v.Type())
		if ok && !signed {
			out = append(out, ge(single(at)))
			if bits < 64 {
				out = append(out, ge(konst(int64(1)<<uint(bits)-1).add(single(at), -1)))
			}
		}
		out = append(out, constTableFacts(at)...)
		if b, ok := at.v.(*ssa.BinOp); ok {
			switch b.Op {
			case token.AND:
				for _, side := range []ssa.Value{b.X, b.Y} {
					if c, ok := side.(*ssa.Const); ok && c.Value != nil && c.Value.Kind() == constant.Int {
						if m, ok := constant.Int64Val(c.Value); ok && m >= 0 {
							out = append(out, ge(single(at)), ge(konst(m).add(single(at), -1)))
						}
					}
				}
			case token.REM:
				if c, ok := b.Y.(*ssa.Const); ok && c.Value != nil {
					if m, ok := constant.Int64Val(c.Value); ok && m > 0 {
						out = append(out, ge(konst(m-1).add(single(at), -1)))
					}
				}
			}
		}
		if call, ok := at.v.(*ssa.Call); ok && signed {
			if callee := call.Call.StaticCallee(); callee != nil && callee.Signature.Results().Len() == 1 && resultNonNeg(callee, 0) {
				out = append(out, ge(single(at)))
			}
		}
		if ex, ok := at.v.(*ssa.Extract); ok && signed {
			if call, ok := ex.Tuple.(*ssa.Call); ok {
				if callee := call.Call.StaticCallee(); callee != nil && resultNonNeg(callee, ex.Index) {
					out = append(out, ge(single(at)))
				}
			}
		}
		out = append(out, a.stdContractFacts(at)...)
		if call, _ := callOfResult(at.v); call != nil {
			out = append(out, a.callRetFacts(call, false)...)
		}
		if call, ok := at.v.(*ssa.Call); ok {
			if bi, ok := call.Call.Value.(*ssa.Builtin); ok && exactArith(call.Type()) {
				switch bi.Name() {
				case "min":
					for _, arg := range call.Call.Args {
						if la := a.linOf(arg, 1); la.ok {
							out = append(out, ge(la.add(single(at), -1)))
						}
					}
				case "max":
					for _, arg := range call.Call.Args {
						if la := a.linOf(arg, 1); la.ok {
							out = append(out, ge(single(at).add(la, -1)))
						}
					}
				case "copy":
					out = append(out, ge(single(at)))
					for _, arg := range call.Call.Args {
						if la := a.lenOf(arg, 1); la.ok {
							out = append(out, ge(la.add(single(at), -1)))
						}
					}
				}
			}
		}
		return out
	}
	return nil
}

func (a *fnAn) blockFacts(b *ssa.BasicBlock) []cons {
	if f, ok := a.facts[b]; ok {
		return f
	}
	var out []cons
	if idom := b.Idom(); idom != nil {
		out = append(out, a.blockFacts(idom)...)
	} else {
		out = append(out, a.pre...)
	}
	if len(b.Preds) == 1 {
		p := b.Preds[0]
		if iff, ok := p.Instrs[len(p.Instrs)-1].(*ssa.If); ok && p.Succs[0] != p.Succs[1] {
			out = append(out, a.condFacts(iff.Cond, p.Succs[0] == b)...)
		}
	}
	// inductive invariants of a loop hold at its header and at everything the header dominates
	out = append(out, a.invAt[b]...)
	a.facts[b] = out
	return out
}

// ---------- Fourier-Motzkin ----------

func infeasible(cs []lin) bool {
	idx := map[atom]int{}
	var atoms []atom
	for _, c := range cs {
		for at := range c.c {
			if _, ok := idx[at]; !ok {
				idx[at] = len(atoms)
				atoms = append(atoms, at)
			}
		}
	}
	type row struct {
		v []int64
		k int64
	}
	rows := make([]row, 0, len(cs))
	for _, c := range cs {
		r := row{v: make([]int64, len(atoms)), k: c.k}
		for at, co := range c.c {
			r.v[idx[at]] = co
		}
		rows = append(rows, r)
	}
	for vi := range atoms {
		var pos, neg, zero []row
		for _, r := range rows {
			switch {
			case r.v[vi] > 0:
				pos = append(pos, r)
			case r.v[vi] < 0:
				neg = append(neg, r)
			default:
				zero = append(zero, r)
			}
		}
		if len(pos)*len(neg) > 5000 {
			return false
		}
		for _, p := range pos {
			for _, n := range neg {
				x, y := p.v[vi], -n.v[vi]
				nr := row{v: make([]int64, len(atoms)), k: y*p.k + x*n.k}
				for j := range nr.v {
					nr.v[j] = y*p.v[j] + x*n.v[j]
				}
				zero = append(zero, nr)
			}
		}
		rows = zero
		if len(rows) > 8000 {
			return false
		}
	}
	for _, r := range rows {
		if r.k < 0 {
			return true
		}
	}
	return false
}

func (a *fnAn) closure(base []lin) []lin {
	all := append([]lin{}, base...)
	seen := map[atom]bool{}
	for changed := true; changed; {
		changed = false
		for _, c := range all {
			for at := range c.c {
				if !seen[at] {
					seen[at] = true
					for _, f := range a.atomFacts(at) {
						if f.l.ok {
							all = append(all, f.l)
						}
					}
					changed = true
				}
			}
		}
	}
	return all
}

// entails: facts |- goal >= 0 (pure linear, no phi reasoning)
func (a *fnAn) entails(facts []cons, goal lin) bool {
	if !goal.ok {
		return false
	}
	if len(goal.c) == 0 {
		return goal.k >= 0
	}
	var base []lin
	var neqs []lin
	for _, f := range facts {
		if !f.l.ok {
			continue
		}
		if f.neq {
			neqs = append(neqs, f.l)
		} else {
			base = append(base, f.l)
		}
	}
	one := konst(1)
	for _, d := range neqs {
		if infeasible(a.closure(append(append([]lin{}, base...), d.scale(-1).add(one, -1)))) {
			base = append(base, d.add(one, -1))
		} else if infeasible(a.closure(append(append([]lin{}, base...), d.add(one, -1)))) {
			base = append(base, d.scale(-1).add(one, -1))
		}
	}
	neg := goal.scale(-1).add(one, -1)
	return infeasible(a.closure(append(base, neg)))
}

// ---------- phi reasoning ----------

func (a *fnAn) reaches(from, to *ssa.BasicBlock) bool {
	if a.reach == nil {
		a.reach = map[*ssa.BasicBlock]map[*ssa.BasicBlock]bool{}
	}
	m, ok := a.reach[from]
	if !ok {
		m = map[*ssa.BasicBlock]bool{}
		var walk func(b *ssa.BasicBlock)
		walk = func(b *ssa.BasicBlock) {
			for _, s := range b.Succs {
				if !m[s] {
					m[s] = true
					walk(s)
				}
			}
		}
		walk(from)
		a.reach[from] = m
	}
	return m[to]
}

// phiAtomValue returns the lin for incoming edge i of the phi underlying atom at.
func (a *fnAn) phiEdge(at atom, phi *ssa.Phi, i int) lin {
	switch at.k {
	case akVal:
		return a.linOf(phi.Edges[i], 0)
	case akLen:
		return a.lenOf(phi.Edges[i], 0)
	case akCap:
		return a.capOf(phi.Edges[i], 0)
	}
	return bad()
}

func substAll(fs []cons, at atom, by lin) []cons {
	out := make([]cons, 0, len(fs))
	for _, f := range fs {
		out = append(out, cons{l: f.l.subst(at, by), neq: f.neq})
	}
	return out
}

func (a *fnAn) prove(facts []cons, goal lin, depth int) bool {
	if a.entails(facts, goal) {
		return true
	}
	if depth >= 3 || !goal.ok {
		return false
	}
	// choose a phi atom with only acyclic edges, appearing in goal
	var cands []atom
	pool := map[atom]bool{}
	for at := range goal.c {
		pool[at] = true
	}
	// also merge phis that only occur in facts directly related to the goal
	for _, f := range facts {
		rel := false
		for at := range f.l.c {
			if _, has := goal.c[at]; has {
				rel = true
			}
		}
		if rel {
			for at := range f.l.c {
				pool[at] = true
			}
		}
	}
	for at := range pool {
		if phi, ok := at.v.(*ssa.Phi); ok {
			acyc := true
			for _, p := range phi.Block().Preds {
				if phi.Block().Dominates(p) {
					acyc = false // loop-header phi: handled by the invariants, not by case split
				}
			}
			if acyc {
				cands = append(cands, at)
			}
		}
	}
	sort.Slice(cands, func(i, j int) bool { return cands[i].v.Name() < cands[j].v.Name() })
	for _, at := range cands {
		phi := at.v.(*ssa.Phi)
		// all phis of the same block take their values from the same edge: substitute them together
		var group []atom
		seenAt := map[atom]bool{}
		collect := func(l lin) {
			for x := range l.c {
				if p2, ok := x.v.(*ssa.Phi); ok && p2.Block() == phi.Block() && !seenAt[x] {
					seenAt[x] = true
					group = append(group, x)
				}
			}
		}
		collect(goal)
		for _, f := range facts {
			collect(f.l)
		}
		all := true
		for i, p := range phi.Block().Preds {
			nf := facts
			g := goal
			okEdge := true
			for _, x := range group {
				by := a.phiEdge(x, x.v.(*ssa.Phi), i)
				if !by.ok {
					if x == at {
						okEdge = false
					}
					continue
				}
				nf = substAll(nf, x, by)
				g = g.subst(x, by)
			}
			if !okEdge {
				all = false
				break
			}
			nf = append(append([]cons{}, nf...), a.blockFacts(p)...)
			// also the edge condition itself if pred ends in If
			if iff, ok := p.Instrs[len(p.Instrs)-1].(*ssa.If); ok && p.Succs[0] != p.Succs[1] {
				nf = append(nf, a.condFacts(iff.Cond, p.Succs[0] == phi.Block())...)
			}
			if !a.prove(nf, g, depth+1) {
				all = false
				break
			}
		}
		if all {
			return true
		}
	}
	return false
}

// Houdini-style inductive invariants for loop-header phis.
func (a *fnAn) computeInvariants() {
	type hdr struct {
		b    *ssa.BasicBlock
		phis []atom
		defs map[atom]*ssa.Phi
	}
	var hdrs []*hdr
	for _, b := range a.fn.Blocks {
		loop := false
		for _, p := range b.Preds {
			if b.Dominates(p) {
				loop = true
			}
		}
		if !loop {
			continue
		}
		h := &hdr{b: b, defs: map[atom]*ssa.Phi{}}
		for _, ins := range b.Instrs {
			phi, ok := ins.(*ssa.Phi)
			if !ok {
				break
			}
			if exactArith(phi.Type()) {
				at := atom{akVal, phi}
				h.phis = append(h.phis, at)
				h.defs[at] = phi
			} else if _, ok := phi.Type().Underlying().(*types.Slice); ok {
				at := atom{akLen, phi}
				h.phis = append(h.phis, at)
				h.defs[at] = phi
			}
		}
		if len(h.phis) > 0 {
			hdrs = append(hdrs, h)
		}
	}
	for _, h := range hdrs {
		// atom is "outside" if its defining block strictly dominates h.b (or it is a param/const/global)
		outside := func(at atom) bool {
			if _, ok := h.defs[at]; ok {
				return true
			}
			ins, ok := at.v.(ssa.Instruction)
			if !ok {
				return true // parameter, freevar, global...
			}
			db := ins.Block()
			return db != h.b && db.Dominates(h.b)
		}
		okCand := func(l lin) bool {
			if !l.ok {
				return false
			}
			mentions := false
			for at := range l.c {
				if _, isPhi := h.defs[at]; isPhi {
					mentions = true
				}
				if !outside(at) {
					return false
				}
			}
			return mentions
		}
		var cands []lin
		addCand := func(l lin) {
			if okCand(l) {
				cands = append(cands, l)
			}
		}
		// from init values
		for _, at := range h.phis {
			phi := h.defs[at]
			for i, p := range h.b.Preds {
				if h.b.Dominates(p) {
					continue
				}
				e := a.phiEdge(at, phi, i)
				if !e.ok {
					continue
				}
				addCand(single(at).add(e, -1))
				addCand(e.add(single(at), -1))
			}
		}
		// conserved sums: one counter goes up by k while another goes down by k (a countdown that
		// appends one element per turn): their sum stays what it was on entry
		for i1, at1 := range h.phis {
			for _, at2 := range h.phis[i1+1:] {
				var init1, init2 lin
				step1, step2 := int64(0), int64(0)
				okPair := true
				haveInit := false
				for i, p := range h.b.Preds {
					e1, e2 := a.phiEdge(at1, h.defs[at1], i), a.phiEdge(at2, h.defs[at2], i)
					if !e1.ok || !e2.ok {
						okPair = false
						break
					}
					if h.b.Dominates(p) {
						if len(e1.c) != 1 || e1.c[at1] != 1 || len(e2.c) != 1 || e2.c[at2] != 1 {
							okPair = false
							break
						}
						if (step1 != 0 && step1 != e1.k) || (step2 != 0 && step2 != e2.k) {
							okPair = false
							break
						}
						step1, step2 = e1.k, e2.k
					} else {
						if haveInit {
							okPair = false
							break
						}
						init1, init2, haveInit = e1, e2, true
					}
				}
				if !okPair || !haveInit || step1 == 0 || step1 != -step2 {
					continue
				}
				sum := single(at1).add(single(at2), 1).add(init1, -1).add(init2, -1)
				addCand(sum)
				addCand(sum.scale(-1))
			}
		}
		// from all branch conditions in the function mentioning the phis
		for _, b := range a.fn.Blocks {
			if iff, ok := b.Instrs[len(b.Instrs)-1].(*ssa.If); ok {
				for _, truth := range []bool{true, false} {
					for _, c := range a.condFacts(iff.Cond, truth) {
						if !c.neq {
							addCand(c.l)
						}
					}
				}
			}
		}
		// accumulators (`if total > K-step { fail }; total += step`): a guard over the phi and
		// loop-internal quantities that is a function of the *next* value of the phi becomes a
		// candidate over the phi itself: guard = rest + s*next with rest outside the loop gives
		// rest + s*phi
		for _, at := range h.phis {
			phi := h.defs[at]
			for i, p := range h.b.Preds {
				if !h.b.Dominates(p) {
					continue
				}
				e := a.phiEdge(at, phi, i)
				if !e.ok || e.c[at] != 1 {
					continue
				}
				for _, b := range a.fn.Blocks {
					iff, ok := b.Instrs[len(b.Instrs)-1].(*ssa.If)
					if !ok {
						continue
					}
					for _, truth := range []bool{true, false} {
						for _, c := range a.condFacts(iff.Cond, truth) {
							s, has := c.l.c[at]
							if c.neq || !has || !c.l.ok {
								continue
							}
							rest := c.l.add(e, -s)
							addCand(rest.add(single(at), s))
						}
					}
				}
			}
		}
		// rotated loops (`for i := range n`, do-while shapes): the test sits on the back edge and is
		// expressed over the incremented value; shifted back by the step it is a candidate for the phi
		for _, at := range h.phis {
			phi := h.defs[at]
			for i, p := range h.b.Preds {
				if !h.b.Dominates(p) {
					continue
				}
				e := a.phiEdge(at, phi, i)
				if !e.ok || len(e.c) != 1 || e.c[at] != 1 {
					continue
				}
				iff, ok := p.Instrs[len(p.Instrs)-1].(*ssa.If)
				if !ok || p.Succs[0] == p.Succs[1] {
					continue
				}
				shift := single(at).add(konst(e.k), -1) // phi - step
				for _, c := range a.condFacts(iff.Cond, p.Succs[0] == h.b) {
					if !c.neq {
						addCand(c.l.subst(at, shift))
					}
				}
			}
		}
		// Houdini
		for changed := true; changed; {
			changed = false
			for ci := 0; ci < len(cands); ci++ {
				cand := cands[ci]
				good := true
				for i, p := range h.b.Preds {
					// substitute all header phis by their edge values
					g := cand
					var hyp []cons
					back := h.b.Dominates(p)
					okEdge := true
					for _, at := range h.phis {
						e := a.phiEdge(at, h.defs[at], i)
						if !e.ok {
							if _, has := g.c[at]; has {
								okEdge = false
							}
							continue
						}
						g = g.subst(at, e)
					}
					if !okEdge {
						good = false
						break
					}
					pf := append([]cons{}, a.blockFacts(p)...)
					if iff, ok := p.Instrs[len(p.Instrs)-1].(*ssa.If); ok && p.Succs[0] != p.Succs[1] {
						pf = append(pf, a.condFacts(iff.Cond, p.Succs[0] == h.b)...)
					}
					if back {
						for _, c2 := range cands {
							hyp = append(hyp, ge(c2))
						}
					}
					pf = append(pf, hyp...)
					pf = append(pf, a.inv...)
					if !a.prove(pf, g, 1) {
						good = false
						break
					}
				}
				if !good {
					cands = append(cands[:ci], cands[ci+1:]...)
					ci--
					changed = true
				}
			}
		}
		if a.invAt == nil {
			a.invAt = map[*ssa.BasicBlock][]cons{}
		}
		for _, c := range cands {
			a.invAt[h.b] = append(a.invAt[h.b], ge(c))
		}
		// block facts computed so far did not include these invariants
		a.facts = map[*ssa.BasicBlock][]cons{}
	}
}

func liftable(fn *ssa.Function) bool {
	if fn.Parent() != nil || pc.addrTaken[fn] || fn.Pkg == nil {
		return false
	}
	path := fn.Pkg.Pkg.Path()
	internal := strings.Contains(path, "/internal/") || strings.HasSuffix(path, "/internal")
	exported := token.IsExported(fn.Name())
	if fn.Signature.Recv() != nil {
		// method: exported only if both method and receiver type exported
		rt := fn.Signature.Recv().Type()
		if p, ok := rt.(*types.Pointer); ok {
			rt = p.Elem()
		}
		if n, ok := rt.(*types.Named); ok && !n.Obj().Exported() {
			exported = false
		}
	}
	return internal || !exported
}

// lift: try to discharge a param-only goal at every static call site.
func lift(fn *ssa.Function, facts []cons, goal lin, depth int) bool {
	if depth >= 2 || !liftable(fn) || !paramOnly(fn, goal) {
		return false
	}
	calls := pc.callers[fn]
	if len(calls) == 0 {
		return false
	}
	var pfacts []lin
	for _, f := range facts {
		if !f.neq && paramOnly(fn, f.l) {
			pfacts = append(pfacts, f.l)
		}
	}
	for _, c := range calls {
		caller := c.Parent()
		ca := getAn(caller)
		cf := append([]cons{}, ca.blockFacts(c.Block())...)
		cf = append(cf, ca.inv...)
		for _, pf := range pfacts {
			if inst := ca.instantiate(fn, c.Common().Args, pf); inst.ok {
				cf = append(cf, ge(inst))
			}
		}
		g := ca.instantiate(fn, c.Common().Args, goal)
		if !g.ok {
			return false
		}
		if !ca.prove(cf, g, 0) && !lift(caller, cf, g, depth+1) {
			return false
		}
	}
	return true
}

type bSite struct {
	ins      ssa.Instruction
	f        *ssa.Function
	rel      bool     // some available fact shares an atom with an unproven goal (a related check exists)
	relFacts []string // those facts, rendered with local names abstracted (sorted, unique)
	goal     string
	pos      token.Position
	fn       string
	what     string
	ok       bool
}

// narrowMode switches boundsAnalyse from memory-safety sites to length-narrowing sites: integer
// conversions to an 8- or 16-bit unsigned type (the width of a wire length field) whose operand is
// not a constant; the goals are 0 <= x <= max of the target type.
var narrowMode bool

func boundsAnalyse(fn *ssa.Function, fset *token.FileSet) []bSite {
	if fn.Blocks == nil {
		return nil
	}
	a := getAn(fn)
	var sites []bSite
	report := func(ins ssa.Instruction, what string, goals []lin) {
		facts := append([]cons{}, a.blockFacts(ins.Block())...)
		facts = append(facts, a.inv...)
		ok := true
		rel := false
		var unp []string
		relSet := map[string]bool{}
		for gi, g := range goals {
			if !a.prove(facts, g, 0) && !lift(fn, facts, g, 0) && !a.proveAny(facts, []lin{g}, 0) {
				ok = false
				unp = append(unp, fmt.Sprint(gi))
				for _, f := range facts {
					for at := range f.l.c {
						if _, has := g.c[at]; has {
							rel = true
							break
						}
					}
				}
				// the guards recorded for a review are the branch conditions in force (not loop
				// invariants, which come and go with unrelated loops)
				guardFacts := a.branchFacts(ins.Block())
				if narrowMode {
					// for a narrowing the stated beliefs include what the loops establish
					guardFacts = facts
				}
				for _, f := range guardFacts {
					for at, co := range f.l.c {
						gc, has := g.c[at]
						// a guard helps when it bounds a shared quantity in the direction the goal needs
						if has && ((f.neq && !narrowMode) || (!f.neq && (co > 0) == (gc > 0))) {
							relSet[normFact(f)] = true
							break
						}
					}
				}
			}
		}
		var relFacts []string
		for k := range relSet {
			relFacts = append(relFacts, k)
		}
		sort.Strings(relFacts)
		p := ins.Pos()
		if p == token.NoPos {
			if v, okv := ins.(ssa.Value); okv {
				if rs := v.Referrers(); rs != nil {
					for _, r := range *rs {
						if r.Pos() != token.NoPos {
							p = r.Pos()
							break
						}
					}
				}
			}
		}
		sites = append(sites, bSite{ins: ins, f: fn, rel: rel, relFacts: relFacts, goal: strings.Join(unp, ","), pos: fset.Position(p), fn: fn.String(), what: what, ok: ok})
	}
	one := konst(1)
	for _, b := range fn.Blocks {
		for _, ins := range b.Instrs {
			if narrowMode {
				cv, ok := ins.(*ssa.Convert)
				if !ok {
					continue
				}
				sb, _, sok := isIntLike(cv.X.Type())
				db, dsigned, dok := isIntLike(cv.Type())
				if !sok || !dok || dsigned || db > 16 || sb <= db {
					continue
				}
				if _, isK := cv.X.(*ssa.Const); isK {
					continue
				}
				l := a.linOf(cv.X, 0)
				if !l.ok {
					continue
				}
				max := int64(1)<<uint(db) - 1
				report(cv, fmt.Sprintf("narrow%d", db), []lin{l, konst(max).add(l, -1)})
				continue
			}
			switch x := ins.(type) {
			case *ssa.IndexAddr:
				i := a.linOf(x.Index, 0)
				l := a.lenOf(x.X, 0)
				report(x, "index", []lin{i, l.add(i, -1).add(one, -1)})
			case *ssa.Index:
				if _, isMap := x.X.Type().Underlying().(*types.Map); isMap {
					continue
				}
				i := a.linOf(x.Index, 0)
				l := a.lenOf(x.X, 0)
				report(x, "index", []lin{i, l.add(i, -1).add(one, -1)})
			case *ssa.Slice:
				if x.Low == nil && x.High == nil {
					continue
				}
				lo := konst(0)
				if x.Low != nil {
					lo = a.linOf(x.Low, 0)
				}
				var limit lin
				if bt, isStr := x.X.Type().Underlying().(*types.Basic); isStr && bt.Info()&types.IsString != 0 {
					limit = a.lenOf(x.X, 0)
				} else {
					limit = a.capOf(x.X, 0)
				}
				goals := []lin{lo}
				if x.High != nil {
					hi := a.linOf(x.High, 0)
					goals = append(goals, hi.add(lo, -1), limit.add(hi, -1))
				} else {
					goals = append(goals, a.lenOf(x.X, 0).add(lo, -1))
				}
				report(x, "slice", goals)
			case *ssa.Call:
				if f := x.Call.StaticCallee(); f != nil && f.Pkg != nil && f.Pkg.Pkg.Path() == "encoding/binary" {
					need := map[string]int64{"Uint16": 2, "Uint32": 4, "Uint64": 8, "PutUint16": 2, "PutUint32": 4, "PutUint64": 8}
					if n, ok := need[f.Name()]; ok && len(x.Call.Args) >= 2 {
						l := a.lenOf(x.Call.Args[1], 0)
						report(x, "binary."+f.Name(), []lin{l.add(konst(n), -1)})
					}
				}
			}
		}
	}
	return sites
}

// stdContractFacts: documented contracts of standard-library searches and readers, assumed
// (trusted base): an index search over s returns -1 <= i < len(s); Read/ReadFrom into p returns
// 0 <= n <= len(p).
func (a *fnAn) stdContractFacts(at atom) []cons {
	var call *ssa.Call
	idx := 0
	switch x := at.v.(type) {
	case *ssa.Call:
		call = x
	case *ssa.Extract:
		c, ok := x.Tuple.(*ssa.Call)
		if !ok {
			return nil
		}
		call, idx = c, x.Index
	default:
		return nil
	}
	if idx != 0 {
		return nil
	}
	cc := &call.Call
	var buf ssa.Value
	search := false
	if cc.IsInvoke() {
		switch cc.Method.Name() {
		case "Read", "ReadFrom":
			if len(cc.Args) >= 1 && isByteSlice(cc.Args[0].Type()) {
				buf = cc.Args[0]
			}
		case "ReadFromContext":
			if len(cc.Args) >= 2 && isByteSlice(cc.Args[1].Type()) {
				buf = cc.Args[1]
			}
		}
	} else if f := cc.StaticCallee(); f != nil {
		pkg := ""
		if f.Pkg != nil {
			pkg = f.Pkg.Pkg.Path()
		} else if f.Object() != nil && f.Object().Pkg() != nil {
			pkg = f.Object().Pkg().Path()
		}
		name := f.Name()
		if i := strings.Index(name, "["); i >= 0 {
			name = name[:i]
		}
		switch pkg {
		case "slices", "bytes", "strings":
			switch name {
			case "Index", "IndexFunc", "IndexByte", "IndexRune", "IndexAny", "LastIndex", "LastIndexByte", "LastIndexFunc":
				if len(cc.Args) >= 1 {
					buf, search = cc.Args[0], true
				}
			}
		case "net", "io", "bufio", "os":
			if (name == "Read" || name == "ReadFrom" || name == "ReadFull") && f.Signature.Recv() != nil && len(cc.Args) >= 2 && isByteSlice(cc.Args[1].Type()) {
				buf = cc.Args[1]
			}
		}
	}
	if buf == nil {
		return nil
	}
	ln := a.lenOf(buf, 1)
	if !ln.ok {
		return nil
	}
	if search {
		// -1 <= i <= len-1
		return []cons{ge(single(at).add(konst(1), 1)), ge(ln.add(single(at), -1).add(konst(1), -1))}
	}
	return []cons{ge(single(at)), ge(ln.add(single(at), -1))}
}

var preBusy = map[*ssa.Function]bool{}

// inferParamPre: simple parameter preconditions (a signed integer parameter is never negative)
// that are proven at every call site inside the module. The bounds rules are about what the
// network can make the module do, so the module's own call sites are the closed world here; a
// function whose address is taken, or that may be invoked through an interface, gets none.
func inferParamPre(fn *ssa.Function) []cons {
	var assumed []cons
	for _, idx := range pc.assumedNonNeg[short(fn)] {
		if idx >= 0 && idx < len(fn.Params) {
			assumed = append(assumed, ge(single(atom{akVal, fn.Params[idx]})))
		}
	}
	return append(assumed, inferParamPre0(fn)...)
}

func inferParamPre0(fn *ssa.Function) []cons {
	if preBusy[fn] || pc.addrTaken[fn] || fn.Parent() != nil {
		return nil
	}
	calls := pc.callers[fn]
	if len(calls) == 0 {
		return nil
	}
	if fn.Signature.Recv() != nil && pc.dynMethods[fn.Name()] {
		return nil
	}
	preBusy[fn] = true
	defer func() { preBusy[fn] = false }()
	var out []cons
	for i, p := range fn.Params {
		_, signed, ok := isIntLike(p.Type())
		if !ok || !signed {
			continue
		}
		good := true
		for _, c := range calls {
			if _, isCall := c.(*ssa.Call); !isCall {
				good = false
				break
			}
			caller := c.Parent()
			if preBusy[caller] || i >= len(c.Common().Args) {
				good = false
				break
			}
			ca := getAn(caller)
			g := ca.linOf(c.Common().Args[i], 0)
			cf := append(append([]cons{}, ca.blockFacts(c.Block())...), ca.inv...)
			if !g.ok || !ca.prove(cf, g, 1) {
				good = false
				break
			}
		}
		if good {
			out = append(out, ge(single(atom{akVal, p})))
		}
	}
	return out
}

// constTableFacts: an element loaded from a local array that is only ever filled with integer
// constants (a composite literal such as []int{1, 1, 2, 1}) lies between the smallest and the
// largest of them.
func constTableFacts(at atom) []cons {
	u, ok := at.v.(*ssa.UnOp)
	if !ok || u.Op != token.MUL {
		return nil
	}
	ia, ok := u.X.(*ssa.IndexAddr)
	if !ok {
		return nil
	}
	base := ia.X
	if sl, ok := base.(*ssa.Slice); ok && sl.Low == nil && sl.High == nil {
		base = sl.X
	}
	al, ok := base.(*ssa.Alloc)
	if !ok {
		return nil
	}
	if _, isArr := al.Type().Underlying().(*types.Pointer).Elem().Underlying().(*types.Array); !isArr {
		return nil
	}
	lo, hi := int64(0), int64(0)
	n := 0
	for _, ref := range *al.Referrers() {
		switch x := ref.(type) {
		case *ssa.IndexAddr:
			for _, r2 := range *x.Referrers() {
				switch y := r2.(type) {
				case *ssa.Store:
					if y.Addr != ssa.Value(x) {
						return nil
					}
					k, isC := y.Val.(*ssa.Const)
					if !isC || k.Value == nil || k.Value.Kind() != constant.Int {
						return nil
					}
					v, exact := constant.Int64Val(k.Value)
					if !exact {
						return nil
					}
					if n == 0 || v < lo {
						lo = v
					}
					if n == 0 || v > hi {
						hi = v
					}
					n++
				case *ssa.UnOp, *ssa.DebugRef:
				default:
					return nil
				}
			}
		case *ssa.Slice:
			// the full-slice view used for ranging: its element addresses are inspected above only if
			// they index the array directly; element addresses through the slice must be loads
			for _, r2 := range *x.Referrers() {
				switch y := r2.(type) {
				case *ssa.IndexAddr:
					for _, r3 := range *y.Referrers() {
						if _, isLoad := r3.(*ssa.UnOp); !isLoad {
							if _, isDbg := r3.(*ssa.DebugRef); !isDbg {
								return nil
							}
						}
					}
				case *ssa.Call:
					if bi, ok := y.Call.Value.(*ssa.Builtin); !ok || bi.Name() != "len" {
						return nil
					}
				case *ssa.DebugRef, *ssa.Range:
				default:
					return nil
				}
			}
		case *ssa.DebugRef:
		default:
			return nil
		}
	}
	at2 := at
	arr := al.Type().Underlying().(*types.Pointer).Elem().Underlying().(*types.Array)
	if n == 0 || int64(n) != arr.Len() {
		return nil // not every element written with a constant (zero elements would widen the range)
	}
	return []cons{ge(single(at2).add(konst(lo), -1)), ge(konst(hi).add(single(at2), -1))}
}

// normFact renders a constraint with its atoms described by normalised shapes, so that it can
// be compared between the reviewed tree and a later one.
func normFact(f cons) string {
	var parts []string
	for at, co := range f.l.c {
		n := normShapeOf(at.v)
		switch at.k {
		case akLen:
			n = "len(" + n + ")"
		case akCap:
			n = "cap(" + n + ")"
		}
		parts = append(parts, fmt.Sprintf("%d*%s", co, n))
	}
	sort.Strings(parts)
	op := ">=0"
	if f.neq {
		op = "!=0"
	}
	return strings.Join(parts, "+") + fmt.Sprintf("%+d", f.l.k) + op
}

// branchFacts: the facts in force at b that come from branch conditions on the dominator chain
// (blockFacts without the loop invariants and the parameter preconditions).
func (a *fnAn) branchFacts(b *ssa.BasicBlock) []cons {
	var out []cons
	for x := b; x != nil; x = x.Idom() {
		if len(x.Preds) == 1 {
			p := x.Preds[0]
			if iff, ok := p.Instrs[len(p.Instrs)-1].(*ssa.If); ok && p.Succs[0] != p.Succs[1] {
				out = append(out, a.condFacts(iff.Cond, p.Succs[0] == x)...)
			}
		}
	}
	return out
}
