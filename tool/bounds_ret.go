package main

import (
	"fmt"
	"go/token"
	"go/types"
	"os"

	"golang.org/x/tools/go/ssa"
)

// Relational return summaries for the bounds prover.
//
// For a module function f, retFacts(f) lists linear constraints over f's parameters and
// placeholders for f's results that hold at every return of one status class:
//   class "always":  every return;
//   class "success": every return whose trailing error result may be nil, or whose (single)
//                    boolean result is the constant true.
// They are inferred Houdini-style: candidates are read off the facts at one return (with the
// one callee-local quantity that defines an integer result eliminated through that definition),
// then each candidate is kept only if it is proven at every return of its class. At a call site
// the placeholders are instantiated with the values receiving the results, the parameters with
// the arguments; success-class facts are assumed only on the caller's `err == nil` / `ok` branch.
// This is what lets a length check that moved into a helper still count for the caller's
// indexing, and vice versa.

// resPH is the placeholder for result #idx of fn.
type resPH struct {
	fn  *ssa.Function
	idx int
}

func (r *resPH) Name() string                  { return fmt.Sprintf("res%d", r.idx) }
func (r *resPH) String() string                { return r.Name() }
func (r *resPH) Type() types.Type              { return r.fn.Signature.Results().At(r.idx).Type() }
func (r *resPH) Parent() *ssa.Function         { return r.fn }
func (r *resPH) Referrers() *[]ssa.Instruction { return nil }
func (r *resPH) Pos() token.Pos                { return token.NoPos }

type retFact struct {
	success bool // holds on success returns only (otherwise on all returns)
	l       lin
}

type retSummary struct {
	facts    []retFact
	ph       []*resPH
	statusIx int  // index of the bool status result, -1 if none
	hasErr   bool // trailing error result
}

var retCache = map[*ssa.Function]*retSummary{}
var retBusy = map[*ssa.Function]bool{}

func isPHAtom(at atom) bool {
	_, ok := at.v.(*resPH)
	return ok
}

func paramOrRes(fn *ssa.Function, l lin) bool {
	if !l.ok {
		return false
	}
	for at := range l.c {
		if !isParamAtom(fn, at) && !isPHAtom(at) {
			return false
		}
	}
	return true
}

func mentionsRes(l lin) bool {
	for at := range l.c {
		if isPHAtom(at) {
			return true
		}
	}
	return false
}

func retSummaryOf(fn *ssa.Function) *retSummary {
	if s, ok := retCache[fn]; ok {
		return s
	}
	if retBusy[fn] || fn.Blocks == nil || fn.Pkg == nil {
		return nil
	}
	retBusy[fn] = true
	defer func() { retBusy[fn] = false }()
	res := fn.Signature.Results()
	sum := &retSummary{statusIx: -1}
	retCache[fn] = sum
	if res.Len() == 0 {
		return sum
	}
	for i := 0; i < res.Len(); i++ {
		sum.ph = append(sum.ph, &resPH{fn: fn, idx: i})
	}
	sum.hasErr = isErrorType(res.At(res.Len() - 1).Type())
	if !sum.hasErr {
		for i := res.Len() - 1; i >= 0; i-- {
			if bt, ok := res.At(i).Type().Underlying().(*types.Basic); ok && bt.Kind() == types.Bool {
				sum.statusIx = i
				break
			}
		}
	}
	a := getAn(fn)
	var all, succ []*ssa.Return
	for _, b := range fn.Blocks {
		r, ok := b.Instrs[len(b.Instrs)-1].(*ssa.Return)
		if !ok {
			continue
		}
		all = append(all, r)
		switch {
		case sum.hasErr:
			e := r.Results[len(r.Results)-1]
			if k, isC := e.(*ssa.Const); isC && k.Value == nil {
				succ = append(succ, r)
			} else if !isC && !definitelyNonNil(e) {
				succ = append(succ, r)
			}
		case sum.statusIx >= 0:
			if k, isC := constBool(r.Results[sum.statusIx]); !isC || k {
				succ = append(succ, r)
			}
		}
	}
	// value of placeholder j at return r
	valAt := func(r *ssa.Return, j int, kind atomKind) lin {
		v := r.Results[j]
		switch kind {
		case akVal:
			if _, _, ok := isIntLike(v.Type()); ok {
				return a.linOf(v, 0)
			}
		case akLen:
			switch v.Type().Underlying().(type) {
			case *types.Slice:
				return a.lenOf(v, 0)
			case *types.Basic:
				if bt := v.Type().Underlying().(*types.Basic); bt.Info()&types.IsString != 0 {
					return a.lenOf(v, 0)
				}
			}
		}
		return bad()
	}
	factsAt := func(r *ssa.Return) []cons {
		return append(append([]cons{}, a.blockFacts(r.Block())...), a.inv...)
	}
	gen := func(r *ssa.Return) []lin {
		var out []lin
		fs := factsAt(r)
		for j, ph := range sum.ph {
			for _, kind := range []atomKind{akVal, akLen} {
				e := valAt(r, j, kind)
				if !e.ok {
					continue
				}
				pa := single(atom{kind, ph})
				if paramOnly(fn, e) {
					out = append(out, pa.add(e, -1), e.add(pa, -1))
					continue
				}
				// e = P + c*u with exactly one non-parameter atom u, c = +-1: u = c*(res - P)
				var u atom
				n := 0
				for at := range e.c {
					if !isParamAtom(fn, at) {
						u = at
						n++
					}
				}
				if n != 1 || (e.c[u] != 1 && e.c[u] != -1) {
					continue
				}
				rest := e.add(single(u), -e.c[u]) // P (+ const)
				by := pa.add(rest, -1).scale(e.c[u])
				uf := append(append([]cons{}, fs...), a.atomFacts(u)...)
				for _, f := range uf {
					if f.neq {
						continue
					}
					if _, has := f.l.c[u]; !has {
						continue
					}
					g := f.l.subst(u, by)
					if paramOrRes(fn, g) && mentionsRes(g) {
						out = append(out, g)
					}
				}
			}
		}
		return out
	}
	holdsAt := func(r *ssa.Return, cand lin) bool {
		g := cand
		for j, ph := range sum.ph {
			for _, kind := range []atomKind{akVal, akLen} {
				at := atom{kind, ph}
				if _, has := g.c[at]; !has {
					continue
				}
				e := valAt(r, j, kind)
				if !e.ok {
					return false
				}
				g = g.subst(at, e)
			}
		}
		return a.prove(factsAt(r), g, 1)
	}
	seen := map[string]bool{}
	try := func(rets []*ssa.Return, success bool) {
		if len(rets) == 0 {
			return
		}
		var cands []lin
		for _, r := range rets {
			for _, c := range gen(r) {
				k := linKey(c)
				if !seen[k] {
					seen[k] = true
					cands = append(cands, c)
				}
			}
			if len(cands) > 200 {
				break
			}
		}
		for _, c := range cands {
			ok := true
			for _, r := range rets {
				if !holdsAt(r, c) {
					ok = false
					break
				}
			}
			if ok {
				sum.facts = append(sum.facts, retFact{success: success, l: c})
			}
		}
	}
	try(all, false)
	if len(succ) > 0 && len(succ) < len(all) {
		// candidates that already hold everywhere were recorded; allow the rest for success only
		seen2 := map[string]bool{}
		for _, f := range sum.facts {
			seen2[linKey(f.l)] = true
		}
		seen = seen2
		try(succ, true)
	}
	return sum
}

// instantiateRet maps a callee-side constraint (parameters + result placeholders) into the caller.
func (a *fnAn) instantiateRet(call *ssa.Call, sum *retSummary, l lin) lin {
	callee := call.Call.StaticCallee()
	out := konst(l.k)
	for at, c := range l.c {
		var by lin
		if ph, ok := at.v.(*resPH); ok {
			rv := resultValue(call, ph.idx)
			if rv == nil {
				return bad()
			}
			by = single(atom{at.k, rv})
		} else {
			p := at.v.(*ssa.Parameter)
			idx := -1
			for i, q := range callee.Params {
				if q == p {
					idx = i
				}
			}
			if idx < 0 || idx >= len(call.Call.Args) {
				return bad()
			}
			switch at.k {
			case akVal:
				by = a.linOf(call.Call.Args[idx], 1)
			case akLen:
				by = a.lenOf(call.Call.Args[idx], 1)
			case akCap:
				by = a.capOf(call.Call.Args[idx], 1)
			}
		}
		if !by.ok {
			return bad()
		}
		out = out.add(by, c)
	}
	return out
}

// callRetFacts: the summary facts of `call` usable in the caller; success selects the class.
func (a *fnAn) callRetFacts(call *ssa.Call, success bool) []cons {
	callee := call.Call.StaticCallee()
	if callee == nil || callee.Blocks == nil || callee.Pkg == nil {
		return nil
	}
	sum := retSummaryOf(callee)
	if sum == nil {
		return nil
	}
	var out []cons
	for _, f := range sum.facts {
		if f.success && !success {
			continue
		}
		if inst := a.instantiateRet(call, sum, f.l); inst.ok {
			out = append(out, ge(inst))
		}
	}
	return out
}

// callOfResult: the call whose result v is (directly or as an extracted component).
func callOfResult(v ssa.Value) (*ssa.Call, int) {
	switch x := v.(type) {
	case *ssa.Call:
		return x, 0
	case *ssa.Extract:
		if c, ok := x.Tuple.(*ssa.Call); ok {
			return c, x.Index
		}
	}
	return nil, 0
}

// boundsDebug prints, for every site of the named function, the goals, which are unproven, and
// the facts available (debugging aid; not part of any check).
func (c *Ctx) boundsDebug(name string) {
	c.boundsInit()
	fn := c.Fn(name)
	if fn == nil {
		fmt.Println("no such function")
		return
	}
	a := getAn(fn)
	if os.Getenv("BDEBUG_NARROW") != "" {
		narrowMode = true
	}
	fmt.Println("invariants:")
	for hb, fs := range a.invAt {
		for _, f := range fs {
			fmt.Println("    at block", hb.Index, ":", linString(f.l), ">= 0")
		}
	}
	for ld, vals := range a.memPhi {
		fmt.Print("memphi ", ld.Name(), " at block ", ld.Block().Index, ":")
		for _, v := range vals {
			fmt.Print(" ", v.Name())
		}
		fmt.Println()
	}
	if sum := retSummaryOf(fn); sum != nil {
		fmt.Println("return summary:")
		for _, f := range sum.facts {
			fmt.Println("   success-only:", f.success, " ", linString(f.l), ">= 0")
		}
	}
	for _, s := range boundsAnalyse(fn, c.Fset) {
		st := "proved"
		if !s.ok {
			st = "UNPROVEN goals " + s.goal
		}
		fmt.Printf("%s %s %s  [%s]\n", c.ipos(s.ins), s.what, siteShape(s.ins), st)
		if !s.ok || os.Getenv("BDEBUG_ALL") != "" {
			for _, f := range append(append([]cons{}, a.blockFacts(s.ins.Block())...), a.inv...) {
				if f.neq {
					fmt.Println("      fact:", linString(f.l), "!= 0")
				} else {
					fmt.Println("      fact:", linString(f.l), ">= 0")
				}
			}
		}
	}
}
