package main

import (
	"fmt"
	"go/token"
	"go/types"
	"sort"
	"strings"

	"golang.org/x/tools/go/ssa"
)

// ruleCloseTable (C16): close() raises the closed signal first, exactly once, and sends
// close_notify / closes the transport only on the first close; close_notify only by the user on an
// established connection.
func ruleCloseTable(c *Ctx, r *Report) {
	const rule = "close-table"
	fn := c.need(r, rule, "(*dtls.Conn).close")
	if fn == nil {
		return
	}
	r.Sites += len(fn.Blocks)
	// close() together with its private helpers
	unit := c.unitFuncs(fn)
	inUnit := map[*ssa.Function]bool{}
	var sig, notif, tr []*ssa.Call
	for _, u := range unit {
		inUnit[u] = true
		sig = append(sig, findCalls(u, nameIs("(*internal/closer.Closer).Close"))...)
		notif = append(notif, findCalls(u, nameIs("(*dtls.Conn).notify"))...)
		tr = append(tr, findCalls(u, func(n string) bool { return strings.HasPrefix(n, "iface:") && strings.HasSuffix(n, "PacketConn.Close") })...)
	}
	follow := followSamePkg(fn)
	if len(sig) != 1 || len(notif) != 1 || len(tr) != 1 {
		r.Bad(rule, short(fn), c.pos(fn.Pos()), fmt.Sprintf("close() no longer has exactly one closed-signal, one close_notify and one transport close (%d/%d/%d)", len(sig), len(notif), len(tr)))
		return
	}
	isClosedAtom := func(val bool) atomAssume { return atomAssume{mCall("(*dtls.Conn).isConnectionClosed"), vBool(val)} }
	// first close: the signal precedes everything that can block
	w := &Walk{Fn: fn, Follow: follow, FollowDeferring: true, Assume: assumeAll(isClosedAtom(false))}
	w.Visit = func(in ssa.Instruction, _ Env) bool { return in != ssa.Instruction(sig[0]) }
	w.FromEntry()
	r.Check(!w.Reached[notif[0]] && !w.Reached[tr[0]], rule, short(fn)+":signal-first", c.ipos(sig[0]), "on the first close the closed signal is raised before close_notify is written and before the transport is closed", "close() writes close_notify (which needs the write lock) or closes the transport before raising the closed signal: a Write blocked in the transport is never cancelled and Close deadlocks on the write lock")
	lfSig := c.lockFactsOf(sig[0].Parent())
	r.Check(lfSig.before[sig[0]]["dtls.Conn.closeLock"] == 2, rule, short(fn)+":signal-locked", c.ipos(sig[0]), "closed signal raised under closeLock", "the closed signal is raised outside closeLock (two closers can both take the first-close path)")
	r.Check(c.lockFactsOf(notif[0].Parent()).before[notif[0]]["dtls.Conn.closeLock"] == 0 && c.lockFactsOf(tr[0].Parent()).before[tr[0]]["dtls.Conn.closeLock"] == 0, rule, short(fn)+":io-unlocked", c.ipos(notif[0]), "no I/O under closeLock", "close() performs I/O while holding closeLock")
	// second close: nothing happens
	w2 := (&Walk{Fn: fn, Follow: follow, FollowDeferring: true, Assume: assumeAll(isClosedAtom(true))}).FromEntry()
	r.Check(!w2.Reached[sig[0]] && !w2.Reached[notif[0]] && !w2.Reached[tr[0]], rule, short(fn)+":idempotent", c.pos(fn.Pos()), "a later close neither signals, nor notifies, nor closes the transport again", "a second Close repeats the closed signal, close_notify or the transport close")
	// close_notify conditions
	for _, cond := range []struct {
		name string
		as   atomAssume
	}{
		{"byUser=false", atomAssume{mValue(fn.Params[1]), vBool(false)}},
		{"not established", atomAssume{mCall("(*dtls.Conn).isHandshakeCompletedSuccessfully"), vBool(false)}},
		{"already closed by user", atomAssume{mLoad("dtls.Conn", "connectionClosedByUser"), vBool(true)}},
	} {
		w3 := (&Walk{Fn: fn, Follow: follow, FollowDeferring: true, Assume: assumeAll(cond.as)}).FromEntry()
		r.Check(!w3.Reached[notif[0]], rule, short(fn)+":close_notify:"+cond.name, c.ipos(notif[0]), "no close_notify when "+cond.name, "close_notify is sent although "+cond.name)
	}
	w4 := (&Walk{Fn: fn, Follow: follow, FollowDeferring: true, Assume: assumeAll(isClosedAtom(false), atomAssume{mValue(fn.Params[1]), vBool(true)}, atomAssume{mCall("(*dtls.Conn).isHandshakeCompletedSuccessfully"), vBool(true)}, atomAssume{mLoad("dtls.Conn", "connectionClosedByUser"), vBool(false)})}).FromEntry()
	r.Check(w4.Reached[notif[0]] && w4.Reached[tr[0]], rule, short(fn)+":close_notify:sent", c.ipos(notif[0]), "user close of an established, still open session sends close_notify and closes the transport", "a user Close of an established open session does not send close_notify")
	// the alert is close_notify at warning level
	al := c.enumConsts("pkg/protocol/alert", "Level")
	ds := c.enumConsts("pkg/protocol/alert", "Description")
	lv, _ := constInt(notif[0].Call.Args[2])
	dv, _ := constInt(notif[0].Call.Args[3])
	r.Check(lv == al["Warning"] && dv == ds["CloseNotify"], rule, short(fn)+":alert-kind", c.ipos(notif[0]), "warning / close_notify", "close() sends an alert other than warning/close_notify")
	// who raises the closed signal / closes channels
	for _, s := range c.CallsToName("(*internal/closer.Closer).Close") {
		recv := s.Call.Common().Args[0]
		if isFieldLoad(recv, "dtls.Conn", "closed") {
			r.Check(inUnit[s.Fn], "single-closer", "Conn.closed<-"+short(s.Fn), c.ipos(s.Call), "raised only by close()", "the connection's closed signal is raised outside close()")
		}
	}
}

// chanField: if v is a load of a channel-typed struct field returns owner.field.
func chanDesc(c *Ctx, v ssa.Value) string {
	for _, l := range c.Origins(v, 0) {
		if o, f, _, ok := fieldLoad(l); ok {
			return o + "." + f
		}
		if call, ok := l.(*ssa.Call); ok {
			return "call " + calleeName(&call.Call)
		}
	}
	return shapeOf(v, 0)
}

func isCancelChan(desc string) bool {
	for _, s := range []string{".Done", "Deadline", "timer", "Timer", ".C", "After", "doneCh", "done", "closed", "notify"} {
		if strings.Contains(desc, s) {
			return true
		}
	}
	return false
}

// ruleBlockingDiscipline (C16, C08-4): every blocking channel operation of the connection, the
// handshake and the listener has a cancellation alternative; the reader's hand-off to the
// handshaker is abandoned when the handshaker is done; every received handshake state is released.
func ruleBlockingDiscipline(c *Ctx, r *Report) {
	const rule = "cancellable-blocking"
	nSel, nBare := 0, 0
	for _, fn := range c.Fns {
		k := short(fn)
		if !(strings.Contains(k, "dtls.") || strings.Contains(k, "internal/handshake") || strings.Contains(k, "internal/net")) {
			continue
		}
		for _, b := range fn.Blocks {
			for _, in := range b.Instrs {
				switch x := in.(type) {
				case *ssa.Select:
					if !x.Blocking {
						continue
					}
					nSel++
					r.Sites++
					var descs []string
					cancel := false
					for _, st := range x.States {
						d := chanDesc(c, st.Chan)
						if st.Dir == types.RecvOnly && isCancelChan(d) {
							cancel = true
						}
						dir := "<-"
						if st.Dir == types.SendOnly {
							dir = "->"
						}
						descs = append(descs, dir+d)
					}
					sort.Strings(descs)
					key := fmt.Sprintf("%s:select[%s]", k, strings.Join(descs, " "))
					r.Check(cancel, rule, key, c.ipos(x), "has a cancellation alternative", "a blocking select has no cancellation alternative (closed / context / deadline / timer): Close cannot unblock it")
					// the reader -> handshaker hand-off
					for _, st := range x.States {
						if st.Dir == types.SendOnly && strings.HasSuffix(chanDesc(c, st.Chan), "Conn.handshakeRecv") {
							okAlt := false
							for _, st2 := range x.States {
								if st2.Dir == types.RecvOnly {
									for _, l := range c.Origins(st2.Chan, 0) {
										if call, ok := l.(*ssa.Call); ok && call.Call.IsInvoke() && call.Call.Method.Name() == "Done" && isFieldLoad(call.Call.Value, "dtls.Conn", "fsm") {
											okAlt = true
										}
									}
								}
							}
							r.Check(okAlt, "handoff-abandoned-when-consumer-done", k, c.ipos(x), "the hand-off to the handshaker is abandoned when the handshaker (fsm.Done) has stopped", "the read loop hands handshake states to the handshaker without watching the handshaker's own done channel: once the handshaker has stopped by itself, the next handshake record or ACK blocks the read loop forever (no more application data, alerts or EOF)")
						}
					}
				case *ssa.UnOp:
					if x.Op != token.ARROW {
						continue
					}
					nBare++
					r.Sites++
					d := chanDesc(c, x.X)
					key := k + ":recv " + d
					switch {
					case isCancelChan(d):
						r.OK(rule, key, c.ipos(x), "waits on a done / timer channel that its owner closes")
					default:
						r.Bad(rule, key, c.ipos(x), "bare blocking receive on a channel without a recognised closer")
					}
				case *ssa.Send:
					nBare++
					r.Sites++
					d := chanDesc(c, x.Chan)
					if rs, ok := otherReviewed(c, rule, k, "send "+d); ok {
						r.OKTrivial(rule, k+":send "+d, c.ipos(x), "reviewed: "+rs)
					} else {
						r.Bad(rule, k+":send "+d, c.ipos(x), "bare blocking send outside select")
					}
				}
			}
		}
	}
	r.Floor(rule+":selects", nSel, 15)
	r.Extra["blocking_selects"] = nSel
	r.Extra["bare_channel_ops"] = nBare
	// every received handshake state is released (Done closed) on every path
	for _, name := range []string{"(*internal/handshake.fsm12).wait", "(*internal/handshake.fsm12).finish"} {
		fn := c.need(r, "recv-state-released", name)
		if fn == nil {
			continue
		}
		var closes []ssa.Instruction
		for _, uf := range c.unitFuncs(fn) {
			for _, ci := range callsIn(uf, nameIs("builtin:close")) {
				if _, f, _, ok := fieldLoad(ci.Common().Args[0]); ok && f == "Done" {
					closes = append(closes, ci)
				}
			}
		}
		// start after the select that received the state: find the Select and the state's extraction
		var sel *ssa.Select
		for _, b := range fn.Blocks {
			for _, in := range b.Instrs {
				if s, ok := in.(*ssa.Select); ok {
					sel = s
				}
			}
		}
		if sel == nil || len(closes) == 0 {
			r.Bad("recv-state-released", short(fn), c.pos(fn.Pos()), "the received handshake state is never released (close(state.Done))")
			continue
		}
		isClose := map[ssa.Instruction]bool{}
		for _, x := range closes {
			isClose[x] = true
		}
		// which select index receives from RecvHandshake
		recvIdx := -1
		for i, st := range sel.States {
			if strings.Contains(chanDesc(c, st.Chan), "RecvHandshake") {
				recvIdx = i
			}
		}
		okParse := atomAssume{func(v ssa.Value) bool {
			ex, ok := v.(*ssa.Extract)
			if !ok || ex.Index != 3 {
				return false
			}
			call, ok := ex.Tuple.(*ssa.Call)
			return ok && strings.HasSuffix(calleeName(&call.Call), "flight12.Parse")
		}, vBool(true)}
		idxAtom := atomAssume{func(v ssa.Value) bool {
			ex, ok := v.(*ssa.Extract)
			return ok && ex.Tuple == ssa.Value(sel) && ex.Index == 0
		}, vInt(int64(recvIdx))}
		w := &Walk{Fn: fn, Follow: followSamePkg(fn), Assume: assumeAll(okParse, idxAtom)}
		w.Visit = func(in ssa.Instruction, _ Env) bool { return !isClose[in] }
		w.After(sel)
		leak := ""
		for _, ro := range w.Returns {
			leak = c.ipos(ro.Ret)
		}
		// looping back to the select without releasing is a leak too
		if w.Reached[sel] {
			leak = "loops back to the select"
		}
		r.Check(leak == "" && recvIdx >= 0, "recv-state-released", short(fn), c.ipos(sel), "every path that received a handshake state closes its Done channel (for registered flights)", "a received handshake state is not released on some path ("+leak+"): the read loop stays blocked on <-s.Done")
	}
	// registry totality makes the '!ok' branch dead: every Flight constant has a parser and a generator
	tbl := c.parserTable12(r, "registry-total")
	gen := c.generatorTable(r, "registry-total", pkgF12)
	for name := range c.enumConsts(pkgF12, "Flight") {
		_, okP := tbl[name]
		g, okG := gen[name]
		r.Check(okP && okG && g.ok == vBool(true), "registry-total", pkgF12+":"+name, "", "flight has a parser and a generator", "a DTLS 1.2 flight constant has no parser or no generator: the FSM's unknown-flight branch (which does not release the received state) becomes reachable")
	}
}

// ruleLockOrder (C16): the lock-acquisition order graph is acyclic.
func ruleLockOrder(c *Ctx, r *Report) {
	const rule = "lock-order"
	edges := c.lockOrderEdges()
	simple := map[string][]string{}
	for a, bs := range edges {
		for _, b := range bs {
			simple[a] = append(simple[a], strings.SplitN(b, " @ ", 2)[0])
		}
	}
	r.Extra["lock_order_edges"] = edges
	n := 0
	for _, bs := range edges {
		n += len(bs)
	}
	r.Sites += n
	// cycle detection
	color := map[string]int{}
	var cyc []string
	var dfs func(s string, path []string)
	dfs = func(s string, path []string) {
		if color[s] == 1 {
			cyc = append(cyc, strings.Join(append(path, s), " -> "))
			return
		}
		if color[s] == 2 {
			return
		}
		color[s] = 1
		for _, t := range simple[s] {
			dfs(t, append(path, s))
		}
		color[s] = 2
	}
	var keys []string
	for k := range simple {
		keys = append(keys, k)
	}
	sort.Strings(keys)
	for _, k := range keys {
		dfs(k, nil)
	}
	r.Check(len(cyc) == 0, rule, "acyclic", "", fmt.Sprintf("%d ordered lock pairs, no cycle", n), "the lock acquisition order has a cycle (potential deadlock): "+strings.Join(cyc, "; "))
	r.Floor(rule, n, 1)
	// the documented order: writeLock before lock
	for _, b := range simple["dtls.Conn.lock"] {
		if b == "dtls.Conn.writeLock" {
			r.Bad(rule, "lock->writeLock", "", "Conn.writeLock is acquired while Conn.lock is held (the write path takes them in the opposite order)")
		}
	}
}

// ruleSingleCloser (C16): each channel of the connection has one close site.
func ruleSingleCloser(c *Ctx, r *Report) {
	const rule = "single-closer"
	sites := map[string][]string{}
	for _, fn := range c.Fns {
		for _, ci := range callsIn(fn, nameIs("builtin:close")) {
			d := chanDesc(c, ci.Common().Args[0])
			sites[d] = append(sites[d], short(fn)+"@"+c.ipos(ci))
			r.Sites++
		}
	}
	r.Extra["close_sites"] = sites
	dec := sites["dtls.Conn.decrypted"]
	r.Check(len(dec) == 1, rule, "Conn.decrypted", "", "the delivery channel is closed at one site: "+strings.Join(dec, ","), fmt.Sprintf("Conn.decrypted is closed at %d sites (double close panics, or Read never sees EOF)", len(dec)))
	for _, d := range dec {
		r.Check(strings.Contains(d, "handshake$"), rule, "Conn.decrypted:owner", "", "closed by the handshake reader goroutine when it exits", "Conn.decrypted is closed outside the reader goroutine (a concurrent send panics)")
	}
}

// ruleCloseCancelsContext (C16, "Close unblocks a blocked Write"): the context helpers that the
// write paths use tie the operation to the connection's lifetime. Every context they return is the
// cancellable context created in that call, and on every path to the return a goroutine has been
// started that waits on Conn.closed and cancels it. A shortcut that hands the caller's context
// back leaves a Write that is blocked in the transport unaffected by Close.
func ruleCloseCancelsContext(c *Ctx, r *Report) {
	const rule = "close-cancels-context"
	n := 0
	for _, name := range []string{"(*dtls.Conn).contextWithClose", "(*dtls.Conn).contextWithCloseAndWriteDeadline"} {
		fn := c.need(r, rule, name)
		if fn == nil {
			continue
		}
		n++
		r.Sites += len(fn.Blocks)
		var mk []*ssa.Call
		for _, call := range findCalls(fn, func(nm string) bool {
			return nm == "context.WithCancelCause" || nm == "context.WithCancel"
		}) {
			mk = append(mk, call)
		}
		// the watcher: a go statement running a literal that receives from Conn.closed.Done()
		// and calls the cancel function of that context
		var watchers []*ssa.Go
		for _, b := range fn.Blocks {
			for _, in := range b.Instrs {
				g, ok := in.(*ssa.Go)
				if !ok {
					continue
				}
				lit := funcOfValue(g.Call.Value)
				if lit == nil {
					continue
				}
				waitsClosed, cancels := false, false
				for _, lb := range lit.Blocks {
					for _, li := range lb.Instrs {
						switch x := li.(type) {
						case *ssa.Select:
							for _, st := range x.States {
								if cl, isCall := st.Chan.(*ssa.Call); isCall && strings.Contains(shapeOf(cl, 0), "closed") && strings.HasSuffix(shapeOf(cl, 0), "Done()") || isCallOnClosed(st.Chan) {
									waitsClosed = true
								}
							}
						case *ssa.Call:
							if !x.Call.IsInvoke() {
								if _, isFn := x.Call.Value.(*ssa.Function); !isFn {
									if _, isBuiltin := x.Call.Value.(*ssa.Builtin); !isBuiltin {
										cancels = true // a call through a captured function value (the cancel func)
									}
								}
							}
						}
					}
				}
				if waitsClosed && cancels {
					watchers = append(watchers, g)
				}
			}
		}
		good := len(mk) == 1 && len(watchers) >= 1
		why := ""
		if !good {
			why = fmt.Sprintf("%d cancellable contexts created, %d watcher goroutines on Conn.closed", len(mk), len(watchers))
		}
		if good {
			ctxV := resultValue(mk[0], 0)
			for _, b := range fn.Blocks {
				ret, ok := b.Instrs[len(b.Instrs)-1].(*ssa.Return)
				if !ok || b == fn.Recover {
					continue
				}
				res := retResults(ret)
				if res[0] != ctxV {
					good = false
					why = "a return at " + c.ipos(ret) + " hands back a context other than the one that Close cancels"
					continue
				}
				dom := false
				for _, g := range watchers {
					if instrDominates(g, ret) {
						dom = true
					}
				}
				if !dom {
					good = false
					why = "a return at " + c.ipos(ret) + " is reachable without the watcher goroutine having been started"
				}
			}
		}
		r.Check(good, rule, short(fn), c.pos(fn.Pos()), "returns the context it created; a goroutine waiting on Conn.closed cancels it", "the context handed to a blocking write is not tied to Close on every path: "+why)
	}
	r.Floor(rule, n, 2)
}

func isCallOnClosed(v ssa.Value) bool {
	call, ok := v.(*ssa.Call)
	if !ok {
		return false
	}
	if !strings.HasSuffix(calleeName(&call.Call), ".Done") {
		return false
	}
	for _, a := range call.Call.Args {
		if _, f, _, okF := fieldLoad(a); okF && f == "closed" {
			return true
		}
	}
	if call.Call.IsInvoke() {
		if _, f, _, okF := fieldLoad(call.Call.Value); okF && f == "closed" {
			return true
		}
	}
	return false
}

// ruleCloseAwareContextUsed (C16): a function that builds a close-aware context (one that is
// cancelled when the connection closes) hands exactly that context to everything it then calls
// with a context: a blocking call given any other context (the raw deadline, the caller's context)
// is not interrupted by Close, and Close, which needs the write lock the blocked call holds, never
// finishes either.
func ruleCloseAwareContextUsed(c *Ctx, r *Report) {
	const rule = "close-aware-context-used"
	n := 0
	isCtx := func(t types.Type) bool { return namedOrType(t) == "context.Context" }
	for _, s := range c.CallsTo(func(nm string) bool {
		return strings.HasSuffix(nm, "dtls.Conn).contextWithClose") || strings.HasSuffix(nm, "dtls.Conn).contextWithCloseAndWriteDeadline")
	}) {
		mk, ok := s.Call.(*ssa.Call)
		if !ok {
			continue
		}
		fn := s.Fn
		r.Sites += len(fn.Blocks)
		var made ssa.Value
		for _, ref := range *mk.Referrers() {
			if ex, ok := ref.(*ssa.Extract); ok && ex.Index == 0 {
				made = ex
			}
		}
		if made == nil {
			r.Bad(rule, short(fn), c.ipos(mk), "the close-aware context is built and discarded")
			continue
		}
		n++
		used := 0
		bad := 0
		for _, b := range fn.Blocks {
			for _, in := range b.Instrs {
				call, ok := in.(*ssa.Call)
				if !ok || call == mk || !instrDominates(mk, call) {
					continue
				}
				callee := call.Call.StaticCallee()
				name := calleeName(&call.Call)
				if callee != nil && !inModule(callee) {
					continue
				}
				if callee == nil && !call.Call.IsInvoke() {
					continue
				}
				anyCtx, anyMade := false, false
				other := ""
				for _, a := range call.Call.Args {
					if !isCtx(a.Type()) {
						continue
					}
					anyCtx = true
					if allLeaves(c.Origins(a, 0), func(l ssa.Value) bool { return l == made }) {
						anyMade = true
					} else {
						other = shapeOf(a, 0)
					}
				}
				if !anyCtx {
					continue
				}
				if anyMade {
					used++
					continue
				}
				bad++
				r.Bad(rule, fmt.Sprintf("%s:%s", short(fn), name), c.ipos(call), fmt.Sprintf("%s builds a close-aware context but calls %s with another one (%s): that call is not interrupted when the connection is closed", short(fn), name, other))
			}
		}
		if bad == 0 {
			r.Check(used > 0, rule, short(fn), c.ipos(mk), fmt.Sprintf("every context-taking call after it (%d) receives the close-aware context", used), "the close-aware context is built but never handed to a call")
		}
	}
	r.Floor(rule, n, 2)
}

// ruleCloseErrorNormalised (C16): an operation that runs under a close-aware context reports an
// interruption by Close as ErrConnClosed, not as the bare context.Canceled of a context the caller
// never supplied. In every function that obtains such a context, explored from that point with
// "the error is context.Canceled", "the cause is not the deadline" and "the connection is closed"
// assumed (helpers followed), every return hands back ErrConnClosed.
func ruleCloseErrorNormalised(c *Ctx, r *Report) {
	const rule = "close-error-normalised"
	n := 0
	for _, s := range c.CallsTo(func(nm string) bool {
		return strings.HasSuffix(nm, "dtls.Conn).contextWithClose") || strings.HasSuffix(nm, "dtls.Conn).contextWithCloseAndWriteDeadline")
	}) {
		call, ok := s.Call.(*ssa.Call)
		if !ok {
			continue
		}
		fn := s.Fn
		res := fn.Signature.Results()
		if res.Len() == 0 || !isErrorType(res.At(res.Len()-1).Type()) {
			continue
		}
		n++
		r.Sites += len(fn.Blocks)
		isGlobalNamed := func(v ssa.Value, name string) bool {
			u, ok := v.(*ssa.UnOp)
			if !ok || u.Op != token.MUL {
				return false
			}
			g, ok := u.X.(*ssa.Global)
			return ok && g.Name() == name
		}
		w := &Walk{Fn: fn, Follow: followSamePkgExcept(fn, "writeApplicationData", "writePackets", "writePacketsWithResult"), FollowDeferring: true, Assume: func(v ssa.Value) (Val, bool) {
			cl, ok := v.(*ssa.Call)
			if !ok {
				return unknown, false
			}
			switch nm := calleeName(&cl.Call); {
			case nm == "errors.Is" && len(cl.Call.Args) == 2:
				switch {
				case isGlobalNamed(cl.Call.Args[1], "Canceled"):
					return vBool(true), true
				case isGlobalNamed(cl.Call.Args[1], "DeadlineExceeded"):
					return vBool(false), true
				}
			case strings.HasSuffix(nm, "dtls.Conn).isConnectionClosed"):
				return vBool(true), true
			}
			return unknown, false
		}}
		w.After(call)
		bad := ""
		for _, ro := range w.Returns {
			if ro.Ret.Parent() != fn {
				continue
			}
			last := len(ro.Raw) - 1
			if last < 0 {
				continue
			}
			v := unspill(ro.Raw[last])
			if isGlobalNamed(v, "ErrConnClosed") {
				continue
			}
			// the result of a followed helper: what the helper returned on the explored paths
			if hc, isCall := v.(*ssa.Call); isCall {
				if h := hc.Call.StaticCallee(); h != nil && len(h.Blocks) > 0 && w.Reached[h.Blocks[0].Instrs[0]] {
					all, any := true, false
					for _, hb := range h.Blocks {
						hr, isRet := hb.Instrs[len(hb.Instrs)-1].(*ssa.Return)
						if !isRet || !w.Reached[hr] || len(hr.Results) == 0 {
							continue
						}
						any = true
						if !isGlobalNamed(unspill(hr.Results[len(hr.Results)-1]), "ErrConnClosed") {
							all = false
						}
					}
					if any && all {
						continue
					}
				}
			}
			bad = c.ipos(ro.Ret) + " returns " + c.describe(ro.Raw[last])
		}
		r.Check(bad == "" && len(w.Returns) > 0, rule, short(fn), c.ipos(call), "an interruption by Close is reported as ErrConnClosed", "with the operation's context cancelled because the connection was closed, "+bad+": the caller of a pending operation sees the bare context.Canceled of an internal context instead of a closed-connection error")
	}
	r.Floor(rule, n, 2)
}

// ruleCloseWritesBounded (C16): "Close ... returns": nothing on the close path writes to the
// transport under a context that can never fire. In (*Conn).close every call that takes a
// context receives one that derives from context.WithTimeout / WithDeadline (or from a context
// of the connection), never context.Background() / context.TODO() itself: the close_notify write
// is interruptible only through its context or by closing the transport, and the transport is
// closed after it.
func ruleCloseWritesBounded(c *Ctx, r *Report) {
	const rule = "close-writes-bounded"
	fn := c.need(r, rule, "(*dtls.Conn).close")
	if fn == nil {
		return
	}
	r.Sites += len(fn.Blocks)
	n := 0
	// the close path: close itself and the helpers of its package it calls without handing them
	// a context (a helper that is handed one is judged at the call that hands it over)
	takesCtx := func(f *ssa.Function) bool {
		for _, p := range f.Params {
			if strings.HasSuffix(namedOrType(p.Type()), "context.Context") {
				return true
			}
		}
		return false
	}
	path := []*ssa.Function{fn}
	seenFn := map[*ssa.Function]bool{fn: true}
	for i := 0; i < len(path) && i < 64; i++ {
		for _, b := range path[i].Blocks {
			for _, in := range b.Instrs {
				ci, ok := in.(ssa.CallInstruction)
				if !ok {
					continue
				}
				callee := ci.Common().StaticCallee()
				if callee == nil || seenFn[callee] || callee.Pkg != fn.Pkg || len(callee.Blocks) == 0 || takesCtx(callee) {
					continue
				}
				seenFn[callee] = true
				path = append(path, callee)
			}
		}
	}
	var blocks []*ssa.BasicBlock
	for _, f := range path {
		blocks = append(blocks, f.Blocks...)
	}
	for _, b := range blocks {
		for _, in := range b.Instrs {
			call, ok := in.(*ssa.Call)
			if !ok {
				continue
			}
			callee := call.Call.StaticCallee()
			if callee == nil || !inModule(callee) {
				continue
			}
			for _, a := range call.Call.Args {
				if !strings.HasSuffix(namedOrType(a.Type()), "context.Context") {
					continue
				}
				n++
				unbounded := ""
				for _, l := range c.Origins(a, 0) {
					if cl, isCall := l.(*ssa.Call); isCall {
						switch calleeName(&cl.Call) {
						case "context.Background", "context.TODO":
							unbounded = calleeName(&cl.Call) + "()"
						}
					}
				}
				r.Check(unbounded == "", rule, short(fn)+"->"+callee.Name(), c.ipos(call), "the context handed over on the close path can fire", "on the close path "+callee.Name()+" is called with "+unbounded+": a transport whose send side is blocked keeps this write, and with it Close, from ever returning (the transport is closed only afterwards)")
			}
		}
	}
	r.Floor(rule, n, 1)
}
