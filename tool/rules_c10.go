package main

import (
	"fmt"
	"go/constant"
	"go/token"
	"go/types"
	"sort"
	"strings"

	"golang.org/x/tools/go/ssa"
)

const pkgCS = "pkg/crypto/ciphersuite"
const pkgPRF = "pkg/crypto/prf"

// retValue returns the single value returned (result idx) by a function with one success return shape.
func singleReturn(fn *ssa.Function, idx int) (ssa.Value, *ssa.Return) {
	var out ssa.Value
	var ret *ssa.Return
	n := 0
	for _, b := range fn.Blocks {
		if r, ok := b.Instrs[len(b.Instrs)-1].(*ssa.Return); ok && idx < len(r.Results) {
			if isNilConst(unspill(r.Results[idx])) {
				continue
			}
			n++
			out, ret = unspill(r.Results[idx]), r
		}
	}
	if n == 1 {
		return out, ret
	}
	return nil, nil
}

func (c *Ctx) checkLayout(r *Report, rule, construct string, at ssa.Instruction, got []seg, err *layoutErr, want, ref string) {
	if err != nil {
		r.Unk(rule, construct, c.ipos(at), "layout not extractable: "+err.msg)
		return
	}
	g := layoutString(got)
	r.Check(g == want, rule, construct, c.ipos(at), "layout = "+g+"  ("+ref+")", "layout deviates from "+ref+": got ["+g+"] want ["+want+"]")
}

// ruleRecordLayouts (C10-3, C05-5): AAD and MAC input layouts of DTLS 1.2 record protection.
func ruleRecordLayouts(c *Ctx, r *Report) {
	const rule = "layout"
	// 1. AEAD additional data without CID: RFC 5246 6.2.3.3 / RFC 6347 4.1.2.1:
	//    seq_num (epoch 2 + sequence 6) || type || version (2) || length (2)
	if fn := c.need(r, rule, pkgCS+".generateAEADAdditionalData"); fn != nil {
		r.Sites += len(fn.Blocks)
		v, ret := singleReturn(fn, 0)
		if v == nil {
			r.Unk(rule, short(fn), c.pos(fn.Pos()), "no unique returned value")
		} else {
			l, err := c.LayoutOf(v, ret, 0)
			c.checkLayout(r, rule, short(fn), ret, l, err,
				"h.Epoch[1..0] h.SequenceNumber[5..0] h.ContentType[0] h.Version.Major[0] h.Version.Minor[0] payloadLen[1..0]",
				"RFC 5246 6.2.3.3 additional_data = seq_num(epoch||sequence_number) + type + version + length")
		}
	}
	// 2. AEAD additional data with CID: RFC 9146 5.2
	if fn := c.need(r, rule, pkgCS+".generateAEADAdditionalDataCID"); fn != nil {
		r.Sites += len(fn.Blocks)
		v, ret := singleReturn(fn, 0)
		if v == nil {
			r.Unk(rule, short(fn), c.pos(fn.Pos()), "no unique returned value")
		} else {
			l, err := c.LayoutOf(v, ret, 0)
			c.checkLayout(r, rule, short(fn), ret, l, err,
				"0xff 0xff 0xff 0xff 0xff 0xff 0xff 0xff 0x19 builtin:len(h.ConnectionID)[0] 0x19 h.Version.Major[0] h.Version.Minor[0] h.Epoch[1..0] h.SequenceNumber[5..0] h.ConnectionID[*] payloadLen[1..0]",
				"RFC 9146 5.2 additional_data = seq_num_placeholder + tls12_cid + cid_length + tls12_cid + version + epoch + sequence_number + cid + length_of_DTLSInnerPlaintext")
		}
	}
	// 3. CBC MAC input without CID: RFC 5246 6.2.3.1: seq_num + type + version + length + fragment
	if fn := c.need(r, rule, "(*"+pkgCS+".CBC).hmac"); fn != nil {
		r.Sites += len(fn.Blocks)
		c.hmacLayout(r, rule, fn,
			"epoch[1..0] sequenceNumber[5..0] contentType[0] protocolVersion.Major[0] protocolVersion.Minor[0] builtin:len(payload)[1..0] payload[*]",
			"RFC 5246 6.2.3.1 MAC(seq_num + type + version + length + fragment)")
	}
	// 4. CBC MAC input with CID: RFC 9146 5.1
	if fn := c.need(r, rule, "(*"+pkgCS+".CBC).hmacCID"); fn != nil {
		r.Sites += len(fn.Blocks)
		c.hmacLayout(r, rule, fn,
			"0xff 0xff 0xff 0xff 0xff 0xff 0xff 0xff 0x19 builtin:len(cid)[0] 0x19 protocolVersion.Major[0] protocolVersion.Minor[0] epoch[1..0] sequenceNumber[5..0] cid[*] builtin:len(payload)[1..0] complit.Content[*] complit.RealType[0] make([]byte,complit.Zeros)[*]",
			"RFC 9146 5.1 MAC(seq_num_placeholder + tls12_cid + cid_length + tls12_cid + version + epoch + sequence_number + cid + length + content + real_type + zeros)")
	}
	ruleExplicitNonce12(c, r)
}

// ruleExplicitNonce12: explicit nonce of DTLS 1.2 GCM/CCM records (also a C09 obligation: the nonce
// is a function of the allocated record number for every header layout).
func ruleExplicitNonce12(c *Ctx, r *Report) {
	const rule = "layout"
	// 5. explicit nonce of GCM/CCM records: epoch(2)||sequence(6) written after the 4-byte salt
	if fn := c.need(r, rule, "(*"+pkgCS+".aead).encrypt"); fn != nil {
		r.Sites += len(fn.Blocks)
		puts := callsIn(fn, nameIs("(encoding/binary.bigEndian).PutUint64"))
		found := false
		for _, ci := range puts {
			call := ci.(*ssa.Call)
			dst := call.Call.Args[1]
			sl, ok := dst.(*ssa.Slice)
			if !ok {
				continue
			}
			lo, _ := constInt(sl.Low)
			g := layoutString(cellsToSegs(bytesOf(call.Call.Args[2], 8, 0)))
			found = true
			want := "pkt.Header.Epoch[1..0] pkt.Header.SequenceNumber[5..0]"
			r.Check(g == want && lo == 4, rule, short(fn)+":explicit-nonce", c.ipos(call), "nonce[4:12] = "+g,
				fmt.Sprintf("explicit nonce deviates from RFC 5288 3 / RFC 6655 (salt 4 || epoch 2 || sequence 6): written at offset %d with value bytes [%s]", lo, g))
		}
		if !found {
			r.Unk(rule, short(fn)+":explicit-nonce", c.pos(fn.Pos()), "no 8-byte big-endian store of the record number into the nonce found")
		}
		// the salt is the first 4 bytes of the write IV
		for _, ci := range callsIn(fn, nameIs("builtin:copy")) {
			call := ci.(*ssa.Call)
			if sl, ok := call.Call.Args[1].(*ssa.Slice); ok {
				if _, f, _, ok := fieldLoad(sl.X); ok && f == "localWriteIV" {
					hi, _ := constInt(sl.High)
					_, isWhole := call.Call.Args[0].(*ssa.UnOp)
					r.Check(hi == 4 && sl.Low == nil && isWhole, rule, short(fn)+":salt", c.ipos(call), "nonce[0:4] = localWriteIV[:4]", "implicit nonce part is not the first 4 bytes of the local write IV")
				}
			}
		}
	}
}

func (c *Ctx) hmacLayout(r *Report, rule string, fn *ssa.Function, want, ref string) {
	// the hash value: result of crypto/hmac.New; the layout is everything written before Sum
	var h ssa.Value
	for _, ci := range callsIn(fn, nameIs("crypto/hmac.New")) {
		h = ci.(*ssa.Call)
	}
	var sum ssa.Instruction
	for _, b := range fn.Blocks {
		for _, in := range b.Instrs {
			if call, ok := in.(*ssa.Call); ok && call.Call.IsInvoke() && call.Call.Value == h && call.Call.Method.Name() == "Sum" {
				sum = call
			}
		}
	}
	if h == nil || sum == nil {
		r.Unk(rule, short(fn), c.pos(fn.Pos()), "hmac.New / Sum not found")
		return
	}
	l, err := c.hashWrites(h, sum)
	c.checkLayout(r, rule, short(fn), sum, l, err, want, ref)
}

// rulePRFLayouts (C10-1): label constants, seed order and output lengths of the TLS 1.2 PRF users.
func rulePRFLayouts(c *Ctx, r *Report) {
	const rule = "prf-seed"
	type inst struct {
		fn, seed string
		length   int64
		ref      string
	}
	for _, in := range []inst{
		{pkgPRF + ".MasterSecret", `"master secret"[*] clientRandom[*] serverRandom[*]`, 48, "RFC 5246 8.1"},
		{pkgPRF + ".ExtendedMasterSecret", `"extended master secret"[*] sessionHash[*]`, 48, "RFC 7627 4"},
		{pkgPRF + ".GenerateEncryptionKeys", `"key expansion"[*] serverRandom[*] clientRandom[*]`, -1, "RFC 5246 6.3"},
		{pkgPRF + ".prfVerifyData", `label[*] dynamic().Sum(nil)[*]`, 12, "RFC 5246 7.4.9"},
	} {
		fn := c.need(r, rule, in.fn)
		if fn == nil {
			continue
		}
		r.Sites += len(fn.Blocks)
		calls := callsIn(fn, nameIs(pkgPRF+".PHash"))
		if len(calls) != 1 {
			r.Unk(rule, short(fn), c.pos(fn.Pos()), fmt.Sprintf("%d PHash calls (expected 1)", len(calls)))
			continue
		}
		call := calls[0].(*ssa.Call)
		l, err := c.LayoutOf(call.Call.Args[1], call, 0)
		c.checkLayout(r, rule, short(fn), call, l, err, in.seed, in.ref+" seed = label + ...")
		if in.length >= 0 {
			k, isC := constInt(call.Call.Args[2])
			r.Check(isC && k == in.length, "prf-length", short(fn), c.ipos(call), fmt.Sprintf("output length %d", k), fmt.Sprintf("PRF output length is not the constant %d of %s", in.length, in.ref))
		}
	}
	// Finished labels per role
	for fnName, label := range map[string]string{pkgPRF + ".VerifyDataClient": "client finished", pkgPRF + ".VerifyDataServer": "server finished"} {
		fn := c.need(r, "prf-label", fnName)
		if fn == nil {
			continue
		}
		for _, ci := range callsIn(fn, nameIs(pkgPRF+".prfVerifyData")) {
			s, ok := constString(ci.Common().Args[2])
			r.Check(ok && s == label, "prf-label", short(fn), c.ipos(ci), "label "+s, "Finished label is not \""+label+"\" (RFC 5246 7.4.9)")
		}
	}
	// verify_data hashes exactly the handshake bodies
	if fn := c.Fn(pkgPRF + ".prfVerifyData"); fn != nil {
		var h ssa.Value
		var sum ssa.Instruction
		for _, b := range fn.Blocks {
			for _, in := range b.Instrs {
				if call, ok := in.(*ssa.Call); ok && call.Call.IsInvoke() && call.Call.Method.Name() == "Sum" {
					h, sum = call.Call.Value, call
				}
			}
		}
		if h != nil {
			l, err := c.hashWrites(h, sum)
			c.checkLayout(r, "prf-seed", short(fn)+":hash-input", sum, l, err, "handshakeBodies[*]", "RFC 5246 7.4.9 Hash(handshake_messages)")
		}
	}
}

// ruleKeyBlock (C10-1): the key block is partitioned client MAC, server MAC, client key,
// server key, client IV, server IV with the given lengths (RFC 5246 6.3).
func ruleKeyBlock(c *Ctx, r *Report) {
	const rule = "key-block"
	fn := c.need(r, rule, pkgPRF+".GenerateEncryptionKeys")
	if fn == nil {
		return
	}
	r.Sites += len(fn.Blocks)
	c.boundsInit()
	a := getAn(fn)
	want := map[string][2]string{
		"ClientMACKey":   {"0", "macLen"},
		"ServerMACKey":   {"macLen", "macLen"},
		"ClientWriteKey": {"2*macLen", "keyLen"},
		"ServerWriteKey": {"keyLen+2*macLen", "keyLen"},
		"ClientWriteIV":  {"2*keyLen+2*macLen", "ivLen"},
		"ServerWriteIV":  {"ivLen+2*keyLen+2*macLen", "ivLen"},
	}
	seen := 0
	// symbolic execution of the partition: works for the straight-line slicing as well as for a
	// cursor (closure or helper) that hands out consecutive pieces
	outs := c.symRun(fn, nil, func(g *ssa.Function) bool {
		return g.Parent() != nil || (g.Pkg == fn.Pkg && !token.IsExported(g.Name()) && g.Name() != "PHash")
	})
	if len(outs) == 0 {
		r.Unk(rule, short(fn), c.pos(fn.Pos()), "no successful return found by the symbolic execution")
	}
	for oi, ro := range outs {
		st := ro.St.(*symState)
		for f, w := range want {
			sv, has := st.fields[pkgPRF+".EncryptionKeys."+f]
			key := short(fn) + ":" + f
			if oi > 0 {
				key += fmt.Sprintf("#%d", oi+1)
			}
			if !has {
				r.Bad(rule, key, c.ipos(ro.Ret), f+" is not assigned on a successful path")
				continue
			}
			seen++
			isPHash := sv.base != nil && isCallResult(sv.base, nameIs(pkgPRF+".PHash"))
			offS, lnS := linString(sv.off), linString(sv.ln)
			r.Check(isPHash && offS == w[0] && lnS == w[1], rule, key, c.ipos(ro.Ret),
				fmt.Sprintf("%s = key_block[%s : +%s]", f, offS, lnS),
				fmt.Sprintf("%s is key_block[%s : +%s] (key block = PHash output: %v) but RFC 5246 6.3 puts it at [%s : +%s]", f, offS, lnS, isPHash, w[0], w[1]))
		}
	}
	r.Floor(rule, seen, 6)
	// total requested = 2*mac + 2*key + 2*iv
	for _, ci := range callsIn(fn, nameIs(pkgPRF+".PHash")) {
		tot := linString(a.linOf(ci.Common().Args[2], 0))
		r.Check(tot == "2*ivLen+2*keyLen+2*macLen", rule, short(fn)+":total", c.ipos(ci), "key block length "+tot, "key block length is "+tot+" instead of 2*mac+2*key+2*iv")
	}
}

// sliceChain resolves v = base[lo1:hi1][lo2:hi2]... to (base, total offset, final length).
func sliceChain(a *fnAn, v ssa.Value) (ssa.Value, lin, lin) {
	off := konst(0)
	var ln lin
	first := true
	for {
		sl, ok := v.(*ssa.Slice)
		if !ok {
			break
		}
		lo := konst(0)
		if sl.Low != nil {
			lo = a.linOf(sl.Low, 0)
		}
		if first {
			if sl.High != nil {
				ln = a.linOf(sl.High, 0).add(lo, -1)
			} else {
				ln = bad()
			}
			first = false
		}
		off = off.add(lo, 1)
		v = sl.X
	}
	return v, off, ln
}

// linString renders a linear form over parameters canonically ("keyLen+2*macLen").
func linString(l lin) string {
	if !l.ok {
		return "?"
	}
	var parts []string
	for at, co := range l.c {
		n := at.v.Name()
		if at.k == akLen {
			n = "len(" + n + ")"
		}
		if co == 1 {
			parts = append(parts, n)
		} else {
			parts = append(parts, fmt.Sprintf("%d*%s", co, n))
		}
	}
	sort.Slice(parts, func(i, j int) bool {
		return strings.TrimLeft(parts[i], "0123456789*-") < strings.TrimLeft(parts[j], "0123456789*-")
	})
	if l.k != 0 || len(parts) == 0 {
		parts = append(parts, fmt.Sprint(l.k))
	}
	return strings.Join(parts, "+")
}

// ---------- per-suite constants and role mirror ----------

type suiteSpec struct {
	mac, key, iv int64
	ctor         string // NewGCM / NewCCM / NewCBC / NewChaCha20Poly1305
	hash         string // PRF hash constructor
}

// IANA TLS cipher suite registry / RFC 5288, 5289, 6655, 7251, 7905, 5487, 5489.
var suiteTable = map[string]suiteSpec{
	"TLS_ECDHE_ECDSA_WITH_AES_128_CCM":              {0, 16, 4, "NewCCM", "crypto/sha256.New"},
	"TLS_ECDHE_ECDSA_WITH_AES_128_CCM_8":            {0, 16, 4, "NewCCM", "crypto/sha256.New"},
	"TLS_ECDHE_ECDSA_WITH_AES_128_GCM_SHA256":       {0, 16, 4, "NewGCM", "crypto/sha256.New"},
	"TLS_ECDHE_RSA_WITH_AES_128_GCM_SHA256":         {0, 16, 4, "NewGCM", "crypto/sha256.New"},
	"TLS_ECDHE_ECDSA_WITH_AES_256_GCM_SHA384":       {0, 32, 4, "NewGCM", "crypto/sha512.New384"},
	"TLS_ECDHE_RSA_WITH_AES_256_GCM_SHA384":         {0, 32, 4, "NewGCM", "crypto/sha512.New384"},
	"TLS_ECDHE_ECDSA_WITH_AES_256_CBC_SHA":          {20, 32, 16, "NewCBC", "crypto/sha256.New"},
	"TLS_ECDHE_RSA_WITH_AES_256_CBC_SHA":            {20, 32, 16, "NewCBC", "crypto/sha256.New"},
	"TLS_PSK_WITH_AES_128_CCM":                      {0, 16, 4, "NewCCM", "crypto/sha256.New"},
	"TLS_PSK_WITH_AES_128_CCM_8":                    {0, 16, 4, "NewCCM", "crypto/sha256.New"},
	"TLS_PSK_WITH_AES_256_CCM_8":                    {0, 32, 4, "NewCCM", "crypto/sha256.New"},
	"TLS_PSK_WITH_AES_128_GCM_SHA256":               {0, 16, 4, "NewGCM", "crypto/sha256.New"},
	"TLS_PSK_WITH_AES_128_CBC_SHA256":               {32, 16, 16, "NewCBC", "crypto/sha256.New"},
	"TLS_ECDHE_PSK_WITH_AES_128_CBC_SHA256":         {32, 16, 16, "NewCBC", "crypto/sha256.New"},
	"TLS_ECDHE_ECDSA_WITH_CHACHA20_POLY1305_SHA256": {0, 32, 12, "NewChaCha20Poly1305", "crypto/sha256.New"},
	"TLS_ECDHE_RSA_WITH_CHACHA20_POLY1305_SHA256":   {0, 32, 12, "NewChaCha20Poly1305", "crypto/sha256.New"},
	"TLS_PSK_WITH_CHACHA20_POLY1305_SHA256":         {0, 32, 12, "NewChaCha20Poly1305", "crypto/sha256.New"},
}

// concreteTypeOf: the dynamic type behind an interface value built by MakeInterface or returned by a constructor.
func concreteTypeOf(v ssa.Value) types.Type {
	switch x := v.(type) {
	case *ssa.MakeInterface:
		return x.X.Type()
	case *ssa.Call:
		if callee := x.Call.StaticCallee(); callee != nil && callee.Signature.Results().Len() == 1 {
			rt := callee.Signature.Results().At(0).Type()
			if _, isIface := rt.Underlying().(*types.Interface); !isIface {
				return rt
			}
			if rv, _ := singleReturn(callee, 0); rv != nil {
				return concreteTypeOf(rv)
			}
		}
	case *ssa.ChangeInterface:
		return concreteTypeOf(x.X)
	}
	return nil
}

type gekHit struct {
	mac, key, iv Val
	hash         string
	call         *ssa.Call
	ctors        map[string]bool
}

// evalConst evaluates an int argument under parameter bindings.
func evalConst(v ssa.Value, bind map[*ssa.Parameter]Val) Val {
	switch x := v.(type) {
	case *ssa.Const:
		if k, ok := constInt(x); ok {
			return vInt(k)
		}
	case *ssa.Parameter:
		if b, ok := bind[x]; ok {
			return b
		}
	case *ssa.Convert:
		return evalConst(x.X, bind)
	case *ssa.ChangeType:
		return evalConst(x.X, bind)
	case *ssa.Phi:
		var r Val
		for i, e := range x.Edges {
			ev := evalConst(e, bind)
			if i == 0 {
				r = ev
			} else if ev != r {
				return unknown
			}
		}
		return r
	}
	return unknown
}

// followInit walks the static call chain from a suite's Init method, carrying constant
// parameter bindings, and collects the GenerateEncryptionKeys call(s) and cipher constructors reached.
func (c *Ctx) followInit(fn *ssa.Function, bind map[*ssa.Parameter]Val, depth int, hits *[]gekHit, ctors map[string]bool) {
	c.followInitV(fn, bind, map[*ssa.Parameter]ssa.Value{}, depth, hits, ctors)
}

// hashFuncName resolves a func() hash.Hash value to the constructor it denotes: a function
// value, the result of a HashFunc() accessor that returns one, or a parameter bound by a caller.
func hashFuncName(v ssa.Value, vbind map[*ssa.Parameter]ssa.Value, d int) string {
	if d > 6 || v == nil {
		return "?"
	}
	switch x := v.(type) {
	case *ssa.Function:
		return short(x)
	case *ssa.MakeClosure:
		if f, ok := x.Fn.(*ssa.Function); ok {
			return short(f)
		}
	case *ssa.ChangeType:
		return hashFuncName(x.X, vbind, d+1)
	case *ssa.Parameter:
		if b, ok := vbind[x]; ok {
			return hashFuncName(b, nil, d+1)
		}
	case *ssa.Call:
		if callee := x.Call.StaticCallee(); callee != nil && len(callee.Blocks) > 0 {
			if callee.Synthetic != "" {
				// promoted-method wrapper: follow its single call
				for _, b := range callee.Blocks {
					for _, in := range b.Instrs {
						if c2, ok := in.(*ssa.Call); ok {
							return hashFuncName(c2, nil, d+1)
						}
					}
				}
			}
			if rv, _ := singleReturn(callee, 0); rv != nil {
				return hashFuncName(rv, nil, d+1)
			}
		}
	}
	return "?"
}

func (c *Ctx) followInitV(fn *ssa.Function, bind map[*ssa.Parameter]Val, vbind map[*ssa.Parameter]ssa.Value, depth int, hits *[]gekHit, ctors map[string]bool) {
	if fn == nil || fn.Blocks == nil || depth > 5 {
		return
	}
	for _, b := range fn.Blocks {
		for _, in := range b.Instrs {
			call, ok := in.(*ssa.Call)
			if !ok {
				continue
			}
			callee := call.Call.StaticCallee()
			if callee == nil {
				continue
			}
			name := short(callee)
			if name == pkgPRF+".GenerateEncryptionKeys" {
				h := gekHit{mac: evalConst(call.Call.Args[3], bind), key: evalConst(call.Call.Args[4], bind), iv: evalConst(call.Call.Args[5], bind), call: call}
				if len(call.Call.Args) > 6 {
					h.hash = hashFuncName(call.Call.Args[6], vbind, 0)
				}
				*hits = append(*hits, h)
				continue
			}
			if strings.HasPrefix(name, pkgCS+".New") {
				ctors[strings.TrimPrefix(name, pkgCS+".")] = true
				continue
			}
			if !inModule(callee) || !strings.HasPrefix(name, "(*internal/ciphersuite.") {
				continue
			}
			nb := map[*ssa.Parameter]Val{}
			nv := map[*ssa.Parameter]ssa.Value{}
			for i, p := range callee.Params {
				if i < len(call.Call.Args) {
					nb[p] = evalConst(call.Call.Args[i], bind)
					av := call.Call.Args[i]
					if pp, isP := av.(*ssa.Parameter); isP {
						if b, ok := vbind[pp]; ok {
							av = b
						}
					}
					nv[p] = av
				}
			}
			c.followInitV(callee, nb, nv, depth+1, hits, ctors)
		}
	}
}

// ruleSuiteConstants (C10-2): per-suite key/MAC/IV lengths, PRF hash and cipher construction
// agree with the IANA/RFC table for every suite ID the registry can hand out.
func ruleSuiteConstants(c *Ctx, r *Report) {
	const rule = "suite-constants"
	forID := c.need(r, rule, "internal/ciphersuite.ForID")
	if forID == nil {
		return
	}
	ids := c.enumConsts("internal/ciphersuite", "ID")
	tbl := switchTable(forID, 0, ids)
	n := 0
	for _, name := range sortedKeys(ids) {
		spec, is12 := suiteTable[name]
		ro := tbl[name]
		if !is12 {
			if strings.HasPrefix(name, "TLS_AES_") || name == "TLS_CHACHA20_POLY1305_SHA256" {
				continue // DTLS 1.3 suites: keyed through the HKDF schedule, see hkdf rules
			}
			r.Unk(rule, name, "", "cipher suite constant without an entry in the checker's IANA table: add its (mac,key,iv) row")
			continue
		}
		if ro == nil || len(ro.Raw) == 0 {
			r.Bad("suite-registry", name, c.pos(forID.Pos()), "ForID does not return a unique suite for this ID")
			continue
		}
		t := concreteTypeOf(ro.Raw[0])
		if t == nil {
			r.Unk(rule, name, c.ipos(ro.Ret), "cannot determine the concrete suite type returned by ForID")
			continue
		}
		ms := c.Prog.MethodSets.MethodSet(t)
		// ID() must return this constant
		if sel := ms.Lookup(nil, "ID"); sel != nil {
			idFn := c.Prog.MethodValue(sel)
			got := c.constResultThrough(idFn, ro.Raw[0])
			r.Check(got == ids[name], "suite-registry", name+":ID()", c.ipos(ro.Ret), "ForID(x).ID() == x", fmt.Sprintf("ForID(%s) returns a suite whose ID() is %#x", name, got))
		}
		sel := ms.Lookup(nil, "Init")
		if sel == nil {
			r.Unk(rule, name, "", "no Init method")
			continue
		}
		initFn := c.Prog.MethodValue(sel)
		var hits []gekHit
		ctors := map[string]bool{}
		c.followInit(initFn, map[*ssa.Parameter]Val{}, 0, &hits, ctors)
		r.Sites += len(hits)
		if len(hits) != 1 {
			r.Unk(rule, name, c.pos(initFn.Pos()), fmt.Sprintf("%d GenerateEncryptionKeys calls reachable from Init (expected 1)", len(hits)))
			continue
		}
		n++
		h := hits[0]
		ok := h.mac == vInt(spec.mac) && h.key == vInt(spec.key) && h.iv == vInt(spec.iv)
		r.Check(ok, rule, name, c.ipos(h.call), fmt.Sprintf("(mac,key,iv) = (%s,%s,%s)", h.mac, h.key, h.iv),
			fmt.Sprintf("(mac,key,iv) = (%s,%s,%s) but the suite's RFC definition needs (%d,%d,%d)", h.mac, h.key, h.iv, spec.mac, spec.key, spec.iv))
		var cs []string
		for k := range ctors {
			cs = append(cs, k)
		}
		sort.Strings(cs)
		// the PRF hash: what Init hands to the key-block expansion, and what the suite's HashFunc()
		// (master secret, Finished, exporter) returns, must both be the suite's hash
		r.Check(h.hash == spec.hash, "suite-hash", name+":key-block", c.ipos(h.call), "key block expanded with "+h.hash, "the key block is expanded with "+h.hash+" but the suite's PRF hash is "+spec.hash+" (RFC 5246 5 / the suite's definition)")
		if hsel := ms.Lookup(nil, "HashFunc"); hsel != nil {
			hf := c.Prog.MethodValue(hsel)
			got := "?"
			if hf != nil {
				if hf.Synthetic != "" {
					for _, b := range hf.Blocks {
						for _, in := range b.Instrs {
							if c2, ok := in.(*ssa.Call); ok {
								got = hashFuncName(c2, nil, 0)
							}
						}
					}
				} else if rv, _ := singleReturn(hf, 0); rv != nil {
					got = hashFuncName(rv, nil, 0)
				}
			}
			r.Check(got == spec.hash, "suite-hash", name+":HashFunc()", c.pos(initFn.Pos()), "HashFunc() = "+got, "HashFunc() returns "+got+" but the suite's PRF hash is "+spec.hash)
		}
		r.Check(len(cs) == 1 && cs[0] == spec.ctor, "suite-cipher", name, c.pos(initFn.Pos()), "record cipher "+strings.Join(cs, ","), "record cipher constructed is "+strings.Join(cs, ",")+", the suite needs "+spec.ctor)
	}
	r.Floor(rule, n, 17)
}

// constResultThrough: evaluate a trivial accessor (returns a constant, or a field that the
// constructor sets to a constant) for the value v.
func (c *Ctx) constResultThrough(fn *ssa.Function, v ssa.Value) int64 {
	if fn == nil {
		return -1
	}
	// synthetic wrapper for a promoted method: follow its single call
	if fn.Synthetic != "" {
		for _, b := range fn.Blocks {
			for _, in := range b.Instrs {
				if call, ok := in.(*ssa.Call); ok {
					if callee := call.Call.StaticCallee(); callee != nil {
						return c.constResultThrough(callee, v)
					}
				}
			}
		}
	}
	rv, _ := singleReturn(fn, 0)
	if rv == nil {
		return -1
	}
	if k, ok := constInt(rv); ok {
		return k
	}
	// field of the receiver: find the constructor's store
	if _, f, _, ok := fieldLoad(rv); ok {
		if mi, isMI := v.(*ssa.MakeInterface); isMI {
			v = mi.X
		}
		if call, isCall := v.(*ssa.Call); isCall {
			return c.fieldConstFromCtor(call.Call.StaticCallee(), f, map[*ssa.Parameter]Val{}, 0)
		}
	}
	return -1
}

func (c *Ctx) fieldConstFromCtor(fn *ssa.Function, field string, bind map[*ssa.Parameter]Val, depth int) int64 {
	if fn == nil || depth > 4 {
		return -1
	}
	for _, b := range fn.Blocks {
		for _, in := range b.Instrs {
			switch x := in.(type) {
			case *ssa.Store:
				if _, f, _, ok := fieldOfAddr(x.Addr); ok && f == field {
					if v := evalConst(x.Val, bind); v.Kind == 3 {
						return v.I
					}
				}
			case *ssa.Call:
				if callee := x.Call.StaticCallee(); callee != nil && inModule(callee) {
					nb := map[*ssa.Parameter]Val{}
					for i, p := range callee.Params {
						if i < len(x.Call.Args) {
							nb[p] = evalConst(x.Call.Args[i], bind)
						}
					}
					if k := c.fieldConstFromCtor(callee, field, nb, depth+1); k >= 0 {
						return k
					}
				}
			}
		}
	}
	return -1
}

// ruleKeyMirror (C10-2, C01-1): every construction of a record cipher from an EncryptionKeys
// value passes the client keys as local keys exactly when isClient is true, the server keys
// otherwise, and each parameter receives the key of its own kind.
func ruleKeyMirror(c *Ctx, r *Report) {
	const rule = "key-mirror"
	n := 0
	for _, fn := range c.fnsOfPkg("internal/ciphersuite") {
		ctorCalls := callsIn(fn, func(name string) bool { return strings.HasPrefix(name, pkgCS+".New") })
		if len(ctorCalls) == 0 {
			continue
		}
		// find the isClient parameter
		var isClient *ssa.Parameter
		for _, p := range fn.Params {
			if p.Name() == "isClient" && p.Type().String() == "bool" {
				isClient = p
			}
		}
		if isClient == nil {
			continue
		}
		r.Sites += len(fn.Blocks)
		for _, role := range []bool{true, false} {
			rl := role
			rawAt := map[ssa.Instruction]map[*ssa.Phi]ssa.Value{}
			w := &Walk{Fn: fn, Assume: func(v ssa.Value) (Val, bool) {
				if v == isClient {
					return vBool(rl), true
				}
				return unknown, false
			}}
			w.VisitRaw = func(in ssa.Instruction, _ Env, raw map[*ssa.Phi]ssa.Value) bool {
				if _, isCall := in.(*ssa.Call); isCall {
					rawAt[in] = raw
				}
				return true
			}
			w.FromEntry()
			reached := 0
			for _, ci := range ctorCalls {
				if !w.Reached[ci] {
					continue
				}
				reached++
				n++
				callee := ci.Common().StaticCallee()
				key := fmt.Sprintf("%s:isClient=%v", short(fn), rl)
				okAll := true
				var desc []string
				for i, p := range callee.Params {
					pn := p.Name()
					side := ""
					switch {
					case strings.HasPrefix(pn, "local"):
						side = "local"
					case strings.HasPrefix(pn, "remote"):
						side = "remote"
					default:
						continue
					}
					_, f, _, isField := fieldLoad(pathSource(ci.Common().Args[i], rawAt[ci], w.Reached, ci, 0))
					if !isField {
						okAll = false
						desc = append(desc, pn+"=<not a key field>")
						continue
					}
					desc = append(desc, pn+"="+f)
					wantClient := (side == "local") == rl
					if wantClient != strings.HasPrefix(f, "Client") {
						okAll = false
					}
					kind := strings.TrimPrefix(strings.TrimPrefix(pn, "local"), "remote") // Key / WriteIV / Mac
					fk := strings.TrimPrefix(strings.TrimPrefix(f, "Client"), "Server")   // WriteKey / WriteIV / MACKey
					kindOK := (kind == "Key" && fk == "WriteKey") || (kind == "WriteIV" && fk == "WriteIV") || (kind == "Mac" && fk == "MACKey")
					if !kindOK {
						okAll = false
					}
				}
				r.Check(okAll, rule, key, c.ipos(ci), strings.Join(desc, " "), "keys passed to the record cipher do not mirror the role (client writes with client keys, reads with server keys; each slot gets its own kind): "+strings.Join(desc, " "))
			}
			if reached != 1 {
				r.Unk(rule, fmt.Sprintf("%s:isClient=%v", short(fn), rl), c.pos(fn.Pos()), fmt.Sprintf("%d cipher constructions reachable for this role (expected exactly 1)", reached))
			}
		}
	}
	r.Floor(rule, n, 12)
}

var _ = token.ADD

// ruleKeySchedule13 (C10-4): HKDF-Expand-Label structure with the dtls13 prefix, the label
// constants and which derivation uses which, the Early -> Handshake -> Master extraction chain,
// the CertificateVerify input and the Finished MAC.
func ruleKeySchedule13(c *Ctx, r *Report) {
	const rule = "hkdf-label"
	ks := "pkg/crypto/keyschedule"
	if fn := c.need(r, rule, ks+".HkdfExpandLabel"); fn != nil {
		r.Sites += len(fn.Blocks)
		// the info argument of HKDF-Expand is the serialised HkdfLabel (built here or by a helper)
		exps := callsIn(fn, nameIs("crypto/hkdf.Expand[hash.Hash]", "crypto/hkdf.Expand"))
		if len(exps) != 1 {
			r.Unk(rule, short(fn), c.pos(fn.Pos()), fmt.Sprintf("%d HKDF-Expand calls (expected 1)", len(exps)))
		} else {
			exp := exps[0].(*ssa.Call)
			l, err := c.LayoutOf(exp.Call.Args[2], exp, 0)
			c.checkLayout(r, rule, short(fn), exp, l, err,
				`length[1..0] u8len{ "dtls13"[*] label[*] } u8len{ context[*] }`,
				"RFC 8446 7.1 HkdfLabel{uint16 length; opaque label<7..255> = prefix + Label; opaque context<0..255>} with the RFC 9147 5.9 prefix \"dtls13\"")
			// expand is called with (hash, secret, that label, length)
			for _, ci := range callsIn(fn, nameIs("crypto/hkdf.Expand[hash.Hash]", "crypto/hkdf.Expand")) {
				call := ci.(*ssa.Call)
				a := call.Call.Args
				_, isSecret := a[1].(*ssa.Parameter)
				_, isLen := a[3].(*ssa.Parameter)
				r.Check(isSecret && isLen, rule, short(fn)+":expand-args", c.ipos(call), "HKDF-Expand(secret, HkdfLabel, length)", "HKDF-Expand is not called with the caller's secret and length")
			}
		}
	}
	if fn := c.need(r, rule, ks+".DeriveSecret"); fn != nil {
		for _, ci := range callsIn(fn, nameIs(ks+".HkdfExpandLabel")) {
			call := ci.(*ssa.Call)
			a := call.Call.Args
			_, okS := a[1].(*ssa.Parameter)
			_, okL := a[2].(*ssa.Parameter)
			okCtx := isCallResultAny(a[3]) && strings.Contains(shapeOf(a[3], 0), "Sum")
			okLen := strings.Contains(shapeOf(a[4], 0), "Size")
			r.Check(okS && okL && okCtx && okLen, rule, short(fn), c.ipos(call), "Derive-Secret = HKDF-Expand-Label(secret, label, Transcript-Hash, Hash.length)", "Derive-Secret is not HKDF-Expand-Label(secret, label, transcript hash, Hash.length) (RFC 8446 7.1)")
		}
	}
	// which derivation uses which label
	want := map[string]string{
		"internal/handshake.deriveHandshakeKeySchedule|0":      "c hs traffic",
		"internal/handshake.deriveHandshakeKeySchedule|1":      "s hs traffic",
		"internal/handshake.deriveApplicationTrafficSecrets|0": "c ap traffic",
		"internal/handshake.deriveApplicationTrafficSecrets|1": "s ap traffic",
		"internal/handshake.deriveExporterMasterSecret|0":      "exp master",
		"internal/handshake.deriveResumptionMasterSecret|0":    "res master",
	}
	seen := map[string]int{}
	// labelsAt: the label argument of a derivation, as the constants it can be, each with the
	// function that names the constant (a label handed down through a helper of the package
	// is followed to every call of that helper)
	type namedLabel struct {
		by  *ssa.Function
		lbl string
		ok  bool
	}
	var labelsAt func(fn *ssa.Function, v ssa.Value, d int) []namedLabel
	labelsAt = func(fn *ssa.Function, v ssa.Value, d int) []namedLabel {
		if p, isP := v.(*ssa.Parameter); isP && d < 3 && p.Parent() == fn {
			if sites, closed := c.staticCallers(fn); closed && len(sites) > 0 {
				var out []namedLabel
				for _, cs := range sites {
					if pi := paramIndex(p); pi >= 0 && pi < len(cs.Call.Common().Args) {
						out = append(out, labelsAt(cs.Fn, cs.Call.Common().Args[pi], d+1)...)
					} else {
						out = append(out, namedLabel{by: fn})
					}
				}
				return out
			}
		}
		lbl, isC := constString(v)
		return []namedLabel{{fn, lbl, isC}}
	}
	for _, s := range c.CallsToName("internal/handshake.deriveTrafficSecret") {
		call := s.Call.(*ssa.Call)
		for _, nl := range labelsAt(s.Fn, call.Call.Args[2], 0) {
			lbl := nl.lbl
			k := fmt.Sprintf("%s|%d", short(nl.by), seen[short(nl.by)])
			seen[short(nl.by)]++
			w, ok := want[k]
			r.Sites++
			if !ok || !nl.ok {
				r.Unk("hkdf-label-use", k, c.ipos(call), "a traffic-secret derivation site without an entry in the label table")
				continue
			}
			r.Check(lbl == w, "hkdf-label-use", k, c.ipos(call), "label "+fmt.Sprintf("%q", lbl), fmt.Sprintf("derivation uses label %q, RFC 8446 7.1 prescribes %q here", lbl, w))
		}
	}
	r.Floor("hkdf-label-use", len(seen), 4)
	// client/server assignment of the derived secrets: whatever is stored as the Client (Server)
	// secret of a TrafficSecrets value in this package is a derivation with a "c " ("s ") label
	nSides := 0
	for side, idx := range map[string]string{"Client": "c ", "Server": "s "} {
		for _, st := range c.StoresTo("internal/state.TrafficSecrets", side) {
			if st.Fn.Pkg == nil || shortPath(st.Fn.Pkg.Pkg.Path()) != "internal/handshake" {
				continue
			}
			good, derived := false, false
			for _, l := range c.Origins(st.Val, 0) {
				if ex, ok := l.(*ssa.Extract); ok {
					if call, ok := ex.Tuple.(*ssa.Call); ok && calleeName(&call.Call) == "internal/handshake.deriveTrafficSecret" {
						derived = true
					}
				}
			}
			if !derived {
				// a copy of a secret kept elsewhere: a field named for one side goes to that side
				other := map[string]string{"Client": "Server", "Server": "Client"}[side]
				for _, l := range c.Origins(st.Val, 0) {
					if _, f, _, ok := fieldLoad(l); ok && strings.HasPrefix(f, other) {
						r.Bad("hkdf-label-use", short(st.Fn)+":"+side, c.ipos(st.Instr), "the "+side+" traffic secret is a copy of "+f)
					}
				}
				continue
			}
			nSides++
			for _, l := range c.Origins(st.Val, 0) {
				if ex, ok := l.(*ssa.Extract); ok {
					if call, ok := ex.Tuple.(*ssa.Call); ok && calleeName(&call.Call) == "internal/handshake.deriveTrafficSecret" {
						good = true
						for _, nl := range labelsAt(st.Fn, call.Call.Args[2], 0) {
							if !nl.ok || !strings.HasPrefix(nl.lbl, idx) {
								good = false
							}
						}
					}
				}
			}
			r.Check(good, "hkdf-label-use", short(st.Fn)+":"+side, c.ipos(st.Instr), side+" secret comes from the "+idx+"* label", "the "+side+" traffic secret is derived with the other side's label")
		}
	}
	r.Floor("hkdf-label-use", nSides, 2)
	for fnName, lbl := range map[string]string{"internal/handshake.finishedKey": "finished", "internal/handshake.deriveNextApplicationTrafficSecret": "traffic upd"} {
		if fn := c.need(r, "hkdf-label-use", fnName); fn != nil {
			for _, ci := range callsIn(fn, nameIs(ks+".HkdfExpandLabel")) {
				got, _ := constString(ci.Common().Args[2])
				r.Check(got == lbl && isNilConst(ci.Common().Args[3]), "hkdf-label-use", short(fn), c.ipos(ci), fmt.Sprintf("label %q, empty context", got), fmt.Sprintf("label %q / non-empty context where RFC 8446 prescribes %q with an empty context", got, lbl))
			}
		}
	}
	// record keys
	if fn := c.Fn("internal/ciphersuite.deriveRecordTrafficKeys13"); fn != nil {
		var got []string
		for _, ci := range callsIn(fn, nameIs(ks+".HkdfExpandLabel")) {
			l, _ := constString(ci.Common().Args[2])
			got = append(got, l)
			r.Check(isNilConst(ci.Common().Args[3]), "hkdf-label-use", short(fn)+":"+l+":context", c.ipos(ci), "empty context", "record key derivation with a non-empty context")
		}
		// which output lands in which field, and with which length
		wantField := map[string][2]string{"key": {"key", "keyLen"}, "iv": {"iv", "12"}, "sequenceNumberKey": {"sn", "keyLen"}}
		nf := 0
		for _, al := range allocsOf(fn, "internal/ciphersuite.recordTrafficKeys13") {
			for f, v := range litFields(al) {
				w, ok := wantField[f]
				if !ok {
					continue
				}
				good := false
				desc := "not an HKDF-Expand-Label output"
				for _, l := range c.Origins(v, 0) {
					if ex, ok := l.(*ssa.Extract); ok {
						if call, ok := ex.Tuple.(*ssa.Call); ok && calleeName(&call.Call) == ks+".HkdfExpandLabel" {
							lbl, _ := constString(call.Call.Args[2])
							ln := srcDesc(call.Call.Args[4])
							if k, isC := constInt(call.Call.Args[4]); isC {
								ln = fmt.Sprint(k)
							}
							desc = fmt.Sprintf("label %q length %s", lbl, ln)
							good = lbl == w[0] && ln == w[1]
						}
					}
				}
				nf++
				r.Check(good, "hkdf-label-use", short(fn)+":field:"+f, c.ipos(al), f+" = "+desc, fmt.Sprintf("record key field %s is filled from %s, expected label %q length %s (RFC 9147 4.2.3 / RFC 8446 7.3)", f, desc, w[0], w[1]))
			}
		}
		r.Floor("hkdf-label-use:record-key-fields", nf, 3)
		sort.Strings(got)
		r.Check(strings.Join(got, ",") == "iv,key,sn", "hkdf-label-use", short(fn), c.pos(fn.Pos()), "labels key, iv, sn", "record keys are not derived with exactly the labels key / iv / sn (RFC 8446 7.3, RFC 9147 4.2.3): "+strings.Join(got, ","))
	} else {
		r.Unk("hkdf-label-use", "anchor:internal/ciphersuite.deriveRecordTrafficKeys13", "", "record key derivation not found")
	}
	// extraction chain
	const rule2 = "key-schedule-chain"
	if fn := c.need(r, rule2, "internal/handshake.deriveHandshakeSecret"); fn != nil {
		ex := findCalls(fn, nameIs(ks+".HkdfExtract"))
		ds := findCalls(fn, nameIs(ks+".DeriveSecret"))
		ok := len(ex) == 2 && len(ds) == 1
		if ok {
			// Early = Extract(salt nil, zeros); derived = Derive-Secret(Early, "derived"); Handshake = Extract(derived, ECDHE)
			early, hs := ex[0], ex[1]
			if !instrDominates(early, hs) {
				early, hs = hs, early
			}
			lbl, _ := constString(ds[0].Call.Args[2])
			_, isZero := stripLoad(early.Call.Args[2]).(*ssa.MakeSlice)
			if sl, okS := early.Call.Args[2].(*ssa.MakeSlice); okS {
				_ = sl
				isZero = true
			}
			okEarly := isNilConst(early.Call.Args[1]) && isZero
			okDer := isCallResult(ds[0].Call.Args[1], nameIs(ks+".HkdfExtract")) && lbl == "derived" && isNilConst(ds[0].Call.Args[3])
			_, isParam := hs.Call.Args[2].(*ssa.Parameter)
			okHS := isCallResult(hs.Call.Args[1], nameIs(ks+".DeriveSecret")) && isParam
			ok = okEarly && okDer && okHS
		}
		r.Check(ok, rule2, short(fn), c.pos(fn.Pos()), "Handshake Secret = Extract(Derive-Secret(Extract(0, 0), \"derived\", \"\"), (EC)DHE)", "the Early -> Handshake secret chain deviates from RFC 8446 7.1")
	}
	if fn := c.need(r, rule2, "internal/handshake.deriveMasterSecret"); fn != nil {
		ex := findCalls(fn, nameIs(ks+".HkdfExtract"))
		ds := findCalls(fn, nameIs(ks+".DeriveSecret"))
		ok := len(ex) == 1 && len(ds) == 1
		if ok {
			lbl, _ := constString(ds[0].Call.Args[2])
			_, isParam := ds[0].Call.Args[1].(*ssa.Parameter)
			_, zeros := ex[0].Call.Args[2].(*ssa.MakeSlice)
			ok = isParam && lbl == "derived" && isCallResult(ex[0].Call.Args[1], nameIs(ks+".DeriveSecret")) && zeros
		}
		r.Check(ok, rule2, short(fn), c.pos(fn.Pos()), "Master Secret = Extract(Derive-Secret(Handshake Secret, \"derived\", \"\"), 0)", "the Handshake -> Master secret chain deviates from RFC 8446 7.1")
	}
	// HkdfExtract argument order (Go's hkdf.Extract takes (hash, ikm, salt))
	if fn := c.need(r, rule2, ks+".HkdfExtract"); fn != nil {
		for _, ci := range callsIn(fn, func(n string) bool { return strings.HasPrefix(n, "crypto/hkdf.Extract") }) {
			a := ci.Common().Args
			p1, ok1 := a[1].(*ssa.Parameter)
			p2, ok2 := a[2].(*ssa.Parameter)
			r.Check(ok1 && ok2 && p1.Name() == "ikm" && p2.Name() == "salt", rule2, short(fn), c.ipos(ci), "hkdf.Extract(hash, ikm, salt)", "HkdfExtract passes salt and input keying material in the wrong order")
		}
	}
	// Finished = HMAC(finished_key, Transcript-Hash)
	if fn := c.need(r, rule, "internal/handshake.finishedVerifyData"); fn != nil {
		var h ssa.Value
		var hcall *ssa.Call
		for _, ci := range callsIn(fn, nameIs("crypto/hmac.New")) {
			hcall = ci.(*ssa.Call)
			h = hcall
		}
		var sum ssa.Instruction
		for _, b := range fn.Blocks {
			for _, in := range b.Instrs {
				if call, ok := in.(*ssa.Call); ok && call.Call.IsInvoke() && call.Call.Value == h && call.Call.Method.Name() == "Sum" {
					sum = call
				}
			}
		}
		if h == nil || sum == nil {
			r.Unk(rule, short(fn), c.pos(fn.Pos()), "HMAC construction not found")
		} else {
			l, err := c.hashWrites(h, sum)
			c.checkLayout(r, rule, short(fn)+":mac-input", sum, l, err, "transcriptHash[*]", "RFC 8446 4.4.4 verify_data = HMAC(finished_key, Transcript-Hash)")
			r.Check(isCallResult(hcall.Call.Args[1], nameIs("internal/handshake.finishedKey")), rule, short(fn)+":mac-key", c.ipos(hcall), "keyed by finished_key", "the Finished MAC is not keyed by finished_key")
		}
	}
	// CertificateVerify input: 64 x 0x20 || context string || 0x00 || hash
	if fn := c.need(r, rule, "internal/handshake.certificateVerifyInput"); fn != nil {
		pad := c.constByName("internal/handshake", "certificateVerifyPaddingLen")
		sc, _ := c.constStringByName("internal/handshake", "serverCertificateVerifyContext")
		cc, _ := c.constStringByName("internal/handshake", "clientCertificateVerifyContext")
		ok := pad == 64 && sc == "TLS 1.3, server CertificateVerify\x00" && cc == "TLS 1.3, client CertificateVerify\x00"
		r.Check(ok, rule, short(fn)+":constants", c.pos(fn.Pos()), "64 bytes of padding and the RFC 8446 4.4.3 context strings with the 0x00 separator", fmt.Sprintf("CertificateVerify input constants deviate from RFC 8446 4.4.3: pad=%d server=%q client=%q", pad, sc, cc))
		// 0x20 fill and role selection
		fill := false
		for _, b := range fn.Blocks {
			for _, in := range b.Instrs {
				if st, ok := in.(*ssa.Store); ok {
					if k, isC := constInt(st.Val); isC && k == 0x20 {
						fill = true
					}
				}
			}
		}
		r.Check(fill, rule, short(fn)+":fill", c.pos(fn.Pos()), "padding bytes are 0x20", "the CertificateVerify padding is not 0x20")
	}
}

func (c *Ctx) constByName(rel, name string) int64 {
	p := c.Pkg(rel)
	if p == nil {
		return -1
	}
	if k, ok := p.Pkg.Scope().Lookup(name).(*types.Const); ok {
		if v, ok := constantInt64(k); ok {
			return v
		}
	}
	return -1
}

func (c *Ctx) constStringByName(rel, name string) (string, bool) {
	p := c.Pkg(rel)
	if p == nil {
		return "", false
	}
	o := p.Pkg.Scope().Lookup(name)
	switch k := o.(type) {
	case *types.Const:
		if k.Val().Kind() == constant.String {
			return constant.StringVal(k.Val()), true
		}
	case *types.Var:
		// package-level var initialised with a string / []byte literal: read the initialiser
		if g, ok := p.Members[name].(*ssa.Global); ok {
			if init := p.Func("init"); init != nil {
				for _, b := range init.Blocks {
					for _, in := range b.Instrs {
						if st, ok := in.(*ssa.Store); ok && st.Addr == ssa.Value(g) {
							for _, l := range c.Origins(st.Val, 0) {
								if s, ok := constString(l); ok {
									return s, true
								}
								if cv, ok := l.(*ssa.Convert); ok {
									if s, ok := constString(cv.X); ok {
										return s, true
									}
								}
							}
						}
					}
				}
			}
		}
	}
	return "", false
}

func constantInt64(k *types.Const) (int64, bool) {
	return constant.Int64Val(k.Val())
}

// pathSource names what a value is on one explored path whose reached instructions form a line
// (every branch decided by the walk's assumption): phis by the path's resolutions, and a load
// of a field of a private local struct - directly or after whole-value copies between such
// structs - by the value of the last reached store to that field before the load. Anything it
// cannot name for certain is returned as it is.
func pathSource(v ssa.Value, raw map[*ssa.Phi]ssa.Value, reached map[ssa.Instruction]bool, at ssa.Instruction, d int) ssa.Value {
	v = resolvePhis(v, raw)
	if d > 8 {
		return v
	}
	// field idx of the struct value sv as it is at instruction `at`
	var fieldOf func(sv ssa.Value, idx int, at ssa.Instruction, d int) ssa.Value
	lastStore := func(al *ssa.Alloc, idx int, at ssa.Instruction) *ssa.Store {
		var cands []*ssa.Store
		for _, ref := range *al.Referrers() {
			switch x := ref.(type) {
			case *ssa.Store:
				if x.Addr == ssa.Value(al) && reached[x] && instrReaches(x, at) {
					cands = append(cands, x)
				}
			case *ssa.FieldAddr:
				if x.Field != idx || x.Referrers() == nil {
					continue
				}
				for _, r2 := range *x.Referrers() {
					if st, ok := r2.(*ssa.Store); ok && st.Addr == ssa.Value(x) && reached[st] && instrReaches(st, at) {
						cands = append(cands, st)
					}
				}
			}
		}
		var last *ssa.Store
		for _, s1 := range cands {
			isLast := true
			for _, s2 := range cands {
				if s1 == s2 {
					continue
				}
				if !instrReaches(s2, s1) || instrReaches(s1, s2) {
					isLast = false
				}
			}
			if isLast {
				last = s1
			}
		}
		return last
	}
	fieldOf = func(sv ssa.Value, idx int, at ssa.Instruction, d int) ssa.Value {
		if d > 8 {
			return nil
		}
		sv = resolvePhis(sv, raw)
		ld, ok := sv.(*ssa.UnOp)
		if !ok || ld.Op != token.MUL {
			return nil
		}
		al, ok := ld.X.(*ssa.Alloc)
		if !ok || !privateStruct(al) {
			return nil
		}
		st := lastStore(al, idx, ld)
		if st == nil {
			return nil
		}
		if st.Addr == ssa.Value(al) {
			return fieldOf(st.Val, idx, st, d+1)
		}
		return pathSource(st.Val, raw, reached, st, d+1)
	}
	switch x := v.(type) {
	case *ssa.Field:
		if r := fieldOf(x.X, x.Field, at, d+1); r != nil {
			return r
		}
	case *ssa.UnOp:
		if x.Op != token.MUL {
			break
		}
		if fa, ok := x.X.(*ssa.FieldAddr); ok {
			if al, isAl := fa.X.(*ssa.Alloc); isAl && privateStruct(al) {
				st := lastStore(al, fa.Field, x)
				if st == nil {
					break
				}
				if st.Addr == ssa.Value(al) {
					if r := fieldOf(st.Val, fa.Field, st, d+1); r != nil {
						return r
					}
					break
				}
				return pathSource(st.Val, raw, reached, st, d+1)
			}
		}
	}
	return v
}

// resolvePhis follows phis along the resolutions of one explored path.
func resolvePhis(v ssa.Value, raw map[*ssa.Phi]ssa.Value) ssa.Value {
	for i := 0; i < 16; i++ {
		p, ok := v.(*ssa.Phi)
		if !ok {
			return v
		}
		r, ok := raw[p]
		if !ok || r == v {
			return v
		}
		v = r
	}
	return v
}
