package main

import (
	"fmt"
	"go/token"
	"go/types"
	"strings"

	"golang.org/x/tools/go/ssa"
)

// ruleRecordWalkComplete (C12, C02): "whatever the ... interleaving of fragments of different
// messages": a handshake record may carry several fragments, of several messages, and the buffer
// has looked at all of them when it reports the record as taken. In the function that takes a
// record into the reassembly buffer and the helpers of its package it calls: every return that
// reports "handled" (first result not the constant false) either hands on the verdict of another
// function of that unit, or lies behind a loop that decodes fragment headers and that can be left
// towards this return only on the "nothing left of the record" side of a length test. A shortcut
// that judges the record by its first fragment drops the fragments behind it.
func ruleRecordWalkComplete(c *Ctx, r *Report) {
	const rule = "record-walk-complete"
	push := c.need(r, rule, "(*internal/fragmentbuffer.FragmentBuffer).Push")
	if push == nil {
		return
	}
	unit := c.unitFuncs(push)
	inUnit := map[*ssa.Function]bool{}
	for _, u := range unit {
		inUnit[u] = true
	}
	// the "slice is empty" side of a test of len(x) against 0
	emptySide := func(b, t *ssa.BasicBlock) bool {
		iff, ok := b.Instrs[len(b.Instrs)-1].(*ssa.If)
		if !ok || len(b.Succs) != 2 {
			return false
		}
		bo, ok := iff.Cond.(*ssa.BinOp)
		if !ok {
			return false
		}
		isLen := func(v ssa.Value) bool {
			ln, ok := stripConv(v).(*ssa.Call)
			if !ok || calleeName(&ln.Call) != "builtin:len" {
				return false
			}
			_, isSl := ln.Call.Args[0].Type().Underlying().(*types.Slice)
			return isSl
		}
		if isLen(bo.X) {
			if k, isK := constInt(bo.Y); isK && k == 0 {
				switch bo.Op {
				case token.NEQ, token.GTR:
					return t == b.Succs[1]
				case token.EQL, token.LEQ:
					return t == b.Succs[0]
				}
				return false
			}
			// len(x) > offset ... (a walk by a running offset)
			switch bo.Op {
			case token.GTR:
				return t == b.Succs[1]
			case token.LEQ:
				return t == b.Succs[0]
			}
			return false
		}
		if isLen(bo.Y) {
			// offset < len(x)
			switch bo.Op {
			case token.LSS:
				return t == b.Succs[1]
			case token.GEQ:
				return t == b.Succs[0]
			}
		}
		return false
	}
	n := 0
	for _, fn := range unit {
		r.Sites += len(fn.Blocks)
		loops := naturalLoops(fn)
		idx := 0
		for _, b := range fn.Blocks {
			ret, ok := b.Instrs[len(b.Instrs)-1].(*ssa.Return)
			if !ok || b == fn.Recover || len(ret.Results) != 3 {
				continue
			}
			res := retResults(ret)
			if k, isB := constBool(res[0]); isB && !k {
				continue
			}
			if ex, isEx := res[0].(*ssa.Extract); isEx {
				if call, isCall := ex.Tuple.(*ssa.Call); isCall && inUnit[call.Call.StaticCallee()] && call.Call.StaticCallee() != fn {
					continue // the verdict of the walker, handed on
				}
			}
			idx++
			n++
			key := fmt.Sprintf("%s:handled-exit#%d", short(fn), idx)
			why := "no loop over the fragments of the record precedes it"
			good := false
			for _, l := range loops {
				if l.blocks[b] || !l.header.Dominates(b) {
					continue
				}
				decodes := false
				for lb := range l.blocks {
					for _, in := range lb.Instrs {
						if call, isCall := in.(*ssa.Call); isCall && strings.HasSuffix(calleeName(&call.Call), "handshake.Header).Unmarshal") {
							decodes = true
						}
					}
				}
				if !decodes {
					continue
				}
				okLoop := true
				for lb := range l.blocks {
					for _, t := range lb.Succs {
						if l.blocks[t] {
							continue
						}
						if t != b && !reachableFrom(t)[b] {
							continue // leaves towards another exit
						}
						if !emptySide(lb, t) {
							okLoop = false
							why = "the loop over the fragments can be left towards this exit (" + c.ipos(lb.Instrs[len(lb.Instrs)-1]) + ") while bytes of the record remain"
						}
					}
				}
				if okLoop {
					good = true
				}
			}
			r.Check(good, rule, key, c.ipos(ret), "reports the record as taken only after every fragment in it was looked at", "the reassembly buffer reports a handshake record as taken without having walked all fragments in it ("+why+"): a fragment of a message that is still awaited, sharing the record with an old one, is dropped and the message is never delivered")
		}
	}
	r.Floor(rule, n, 1)
}

// ruleCursorAdvanceIsDeclared (C18): "lengths declared inside a message are honoured": a decoder
// that walks a message with a running offset steps over a length-prefixed field by the length the
// message declares. Where a position into the input is computed from len(v), v is (a copy of) a
// piece of the input itself - never the value a nested decoder produced: the number of decoded
// elements differs from the declared length whenever the nested decoder rounds (an odd byte
// count of a list of 16-bit values) or skips (unknown compression methods), and the next field
// is then read from the wrong place.
func ruleCursorAdvanceIsDeclared(c *Ctx, r *Report) {
	const rule = "cursor-advance-is-declared"
	n := 0
	for _, fn := range c.Fns {
		if fn.Pkg == nil || len(fn.Blocks) == 0 || fn.Parent() != nil || !strings.Contains(fn.Pkg.Pkg.Path(), "/pkg/protocol") {
			continue
		}
		name := fn.Name()
		if !(name == "Unmarshal" || strings.HasPrefix(name, "decode") || strings.HasPrefix(name, "Decode") || strings.HasPrefix(name, "unmarshal") || strings.HasPrefix(name, "Parse") || strings.HasPrefix(name, "parse")) {
			continue
		}
		var data *ssa.Parameter
		for _, p := range fn.Params {
			if isByteSlice(p.Type()) {
				data = p
			}
		}
		if data == nil {
			continue
		}
		// the input, a slice of it, the remainder a reader helper hands back, or a merge of these
		// (a shrinking `rest`)
		var fromInputD func(v ssa.Value, d int, busy map[ssa.Value]bool) bool
		fromInputD = func(v ssa.Value, d int, busy map[ssa.Value]bool) bool {
			if d > 12 || busy[v] {
				return busy[v] && d <= 12
			}
			switch x := v.(type) {
			case *ssa.Slice:
				return fromInputD(x.X, d+1, busy)
			case *ssa.Parameter:
				return x == data
			case *ssa.Phi:
				busy[v] = true
				defer delete(busy, v)
				for _, e := range x.Edges {
					if !fromInputD(e, d+1, busy) {
						return false
					}
				}
				return len(x.Edges) > 0
			case *ssa.Extract:
				hc, ok := x.Tuple.(*ssa.Call)
				if !ok {
					return false
				}
				g := hc.Call.StaticCallee()
				if g == nil || !inModule(g) || !returnsPieceOfInput(c, g, x.Index) {
					return false
				}
				for _, a := range hc.Call.Args {
					if isByteSlice(a.Type()) && fromInputD(a, d+1, busy) {
						return true
					}
				}
			}
			return false
		}
		fromInput := func(v ssa.Value) bool { return fromInputD(v, 0, map[ssa.Value]bool{}) }
		// positions into the input
		var positions []ssa.Value
		var at []ssa.Instruction
		for _, b := range fn.Blocks {
			for _, in := range b.Instrs {
				switch x := in.(type) {
				case *ssa.Slice:
					if fromInput(x.X) {
						if x.Low != nil {
							positions, at = append(positions, x.Low), append(at, in)
						}
						if x.High != nil {
							positions, at = append(positions, x.High), append(at, in)
						}
					}
				case *ssa.IndexAddr:
					if fromInput(x.X) {
						positions, at = append(positions, x.Index), append(at, in)
					}
				}
			}
		}
		seenLen := map[*ssa.Call]bool{}
		for i, pos := range positions {
			seen := map[ssa.Value]bool{}
			var walk func(v ssa.Value, d int)
			walk = func(v ssa.Value, d int) {
				if v == nil || seen[v] || d > 12 {
					return
				}
				seen[v] = true
				switch x := v.(type) {
				case *ssa.BinOp:
					switch x.Op {
					case token.ADD, token.SUB:
						walk(x.X, d+1)
						walk(x.Y, d+1)
					case token.MUL:
						if _, isK := constInt(x.Y); isK {
							walk(x.X, d+1)
						} else if _, isK := constInt(x.X); isK {
							walk(x.Y, d+1)
						}
					}
				case *ssa.Phi:
					for _, e := range x.Edges {
						walk(e, d+1)
					}
				case *ssa.Convert:
					walk(x.X, d+1)
				case *ssa.Call:
					if calleeName(&x.Call) != "builtin:len" || seenLen[x] {
						return
					}
					arg := x.Call.Args[0]
					if _, isSl := arg.Type().Underlying().(*types.Slice); !isSl {
						return
					}
					seenLen[x] = true
					var decoded []string
					for _, l := range c.Origins(arg, 0) {
						var call *ssa.Call
						idx := 0
						switch y := l.(type) {
						case *ssa.Call:
							call = y
						case *ssa.Extract:
							call, _ = y.Tuple.(*ssa.Call)
							idx = y.Index
						case *ssa.MakeSlice:
							decoded = append(decoded, "a list built by this decoder")
						}
						if call != nil {
							if g := call.Call.StaticCallee(); g != nil && inModule(g) && !returnsPieceOfInput(c, g, idx) {
								decoded = append(decoded, "the result of "+short(g))
							}
						}
					}
					n++
					key := fmt.Sprintf("%s:len(%s)", short(fn), normShapeOf(arg))
					r.Check(len(decoded) == 0, rule, key, c.ipos(at[i]), "a position into the input is computed from the length of a piece of the input", "a position into the input is computed from the number of decoded elements ("+strings.Join(decoded, ", ")+") instead of the length the message declares: where the nested decoder rounds or skips, the fields behind are read from the wrong place")
				}
			}
			walk(pos, 0)
		}
	}
	r.Floor(rule, n, 3)
}

// ruleSecondHelloSource (C04, C13): "an on-path attacker cannot steer any negotiated parameter":
// of the two ClientHellos of a cookie exchange only the second is covered by the Finished
// messages, so what the DTLS 1.2 server negotiates after the exchange is derived from the second.
// In the second-hello parser, every function of the package that is handed a ClientHello and
// (itself or through its callees) derives state from its extensions receives either the message
// pulled from the handshake cache in this invocation, or the decoding of the current snapshot of
// the very snapshot pair that the cookie validation was given (or of the state's pair after that
// pair was written back). The state's pair as it was on entry still has the first hello as its
// current one.
func ruleSecondHelloSource(c *Ctx, r *Report) {
	const rule = "second-hello-source"
	f2 := c.need(r, rule, pkgF12+".flight2Parse")
	if f2 == nil {
		return
	}
	r.Sites += len(f2.Blocks)
	var validate *ssa.Call
	for _, cl := range findCalls(f2, nameIs("internal/negotiation.ValidateHelloVerifyRequestResponse")) {
		validate = cl
	}
	if validate == nil {
		r.Unk(rule, short(f2), c.pos(f2.Pos()), "the cookie validation call was not found")
		return
	}
	// the local snapshot pair handed to the validation
	rootOf := func(v ssa.Value) ssa.Value {
		for i := 0; i < 4; i++ {
			if u, ok := v.(*ssa.UnOp); ok && u.Op == token.MUL {
				v = u.X
				continue
			}
			break
		}
		return v
	}
	var pair ssa.Value
	if cur, ok := validate.Call.Args[1].(*ssa.Call); ok && strings.HasSuffix(calleeName(&cur.Call), "ClientHelloSnapshots).Current") {
		pair = rootOf(cur.Call.Args[0])
	}
	// does the function (or what it calls in the package) switch over extension types and store state?
	var derives func(fn *ssa.Function, d int, seen map[*ssa.Function]bool) bool
	derives = func(fn *ssa.Function, d int, seen map[*ssa.Function]bool) bool {
		if fn == nil || seen[fn] || d > 3 || len(fn.Blocks) == 0 || fn.Pkg != f2.Pkg {
			return false
		}
		seen[fn] = true
		switches, stores := false, false
		for _, b := range fn.Blocks {
			for _, in := range b.Instrs {
				switch x := in.(type) {
				case *ssa.TypeAssert:
					if strings.Contains(namedOrType(derefType(x.AssertedType)), "pkg/protocol/extension") {
						switches = true
					}
				case *ssa.Store:
					if o, _, _, ok := fieldOfAddr(x.Addr); ok && (strings.HasSuffix(o, "state.State12") || strings.HasSuffix(o, "state.Common")) {
						stores = true
					}
				case *ssa.Call:
					if derives(x.Call.StaticCallee(), d+1, seen) {
						return true
					}
				}
			}
		}
		return switches && stores
	}
	n := 0
	for _, call := range findCalls(f2, func(string) bool { return true }) {
		g := call.Call.StaticCallee()
		if g == nil || g.Pkg != f2.Pkg || g == f2 || strings.HasSuffix(g.Name(), "flight0Parse") {
			continue
		}
		hi := -1
		for i, p := range g.Params {
			if namedOf(derefType(p.Type())) == "pkg/protocol/handshake.MessageClientHello" {
				hi = i
			}
		}
		if hi < 0 || hi >= len(call.Call.Args) || !derives(g, 0, map[*ssa.Function]bool{}) {
			continue
		}
		n++
		arg := unspill(call.Call.Args[hi])
		if ex, isEx := arg.(*ssa.Extract); isEx && ex.Index == 0 {
			if ta, isTA := ex.Tuple.(*ssa.TypeAssert); isTA {
				arg = ta
			}
		}
		good, why := false, "it is "+shapeOf(arg, 0)
		// the pull and the type assertion may sit in a helper of the package that hands the
		// message back: then every message it returns is judged inside it
		if ex, isEx := arg.(*ssa.Extract); isEx {
			if hc, isCall := ex.Tuple.(*ssa.Call); isCall {
				if h := hc.Call.StaticCallee(); h != nil && h.Pkg == f2.Pkg && len(h.Blocks) > 0 && !strings.HasSuffix(calleeName(&hc.Call), "ClientHelloFromSnapshot") {
					all, cnt := true, 0
					for _, hb := range h.Blocks {
						hret, isRet := hb.Instrs[len(hb.Instrs)-1].(*ssa.Return)
						if !isRet || hb == h.Recover || ex.Index >= len(hret.Results) {
							continue
						}
						hv := unspill(hret.Results[ex.Index])
						if isNilConst(hv) {
							continue
						}
						cnt++
						if hx, isHx := hv.(*ssa.Extract); isHx && hx.Index == 0 {
							if ta, isTA := hx.Tuple.(*ssa.TypeAssert); isTA {
								hv = ta
							}
						}
						ta, isTA := hv.(*ssa.TypeAssert)
						if !isTA || !pulledMessage(ta, rootOf) {
							all = false
						}
					}
					if all && cnt > 0 {
						good = true
					}
				}
			}
		}
		switch x := arg.(type) {
		case *ssa.TypeAssert:
			// pull.Messages[T] with pull the result of a cache pull made in this function
			if pulledMessage(x, rootOf) {
				good = true
			}
		case *ssa.Extract:
			dec, isCall := x.Tuple.(*ssa.Call)
			if !isCall || x.Index != 0 || !strings.HasSuffix(calleeName(&dec.Call), "negotiation.ClientHelloFromSnapshot") {
				break
			}
			cur, isCur := dec.Call.Args[0].(*ssa.Call)
			if !isCur || !strings.HasSuffix(calleeName(&cur.Call), "ClientHelloSnapshots).Current") {
				break
			}
			root := rootOf(cur.Call.Args[0])
			switch {
			case pair != nil && root == pair:
				good = true
			default:
				// the state's pair: only after the validated pair was written back to it
				if _, f, _, isF := fieldOfAddr(root); isF && f == "RemoteClientHelloSnapshots" {
					why = "it is decoded from the state's snapshot pair as it was before the second hello was recorded in it: its current hello is still the first"
					for _, st := range c.StoresTo(tSt12, "RemoteClientHelloSnapshots") {
						if st.Fn == f2 && pair != nil && rootOf(st.Val) == pair && instrDominates(st.Instr, cur) && instrDominates(validate, st.Instr) {
							good = true
						}
					}
					for _, st := range c.StoresTo(tCom, "RemoteClientHelloSnapshots") {
						if st.Fn == f2 && pair != nil && rootOf(st.Val) == pair && instrDominates(st.Instr, cur) && instrDominates(validate, st.Instr) {
							good = true
						}
					}
				}
			}
		}
		r.Check(good, rule, short(f2)+"->"+short(g), c.ipos(call), "the negotiation after the cookie exchange is derived from the second ClientHello", "after the cookie exchange "+short(g)+" derives the negotiated parameters from a ClientHello that is not the second one ("+why+"): the first, cookie-less hello is covered by no Finished, so whoever rewrites it on the path chooses ALPN, groups, extended master secret and signature schemes for both ends")
	}
	r.Floor(rule, n, 1)
}

// ruleRetryListsComparedWhole (C13, C04): "a ClientHello that carries ... the right cookie but
// altered body" gets no ServerHello: the second ClientHello of a DTLS 1.3 retry repeats the
// extensions of the first, no fewer and no more. In the function that validates the retry (with
// the helpers of its package followed), with the two comparable extension lists of different
// length - the first longer, and the second longer - no successful return is reachable: the
// lengths are compared (directly, or by a whole-list equality), not only the elements up to the
// length of one of them.
func ruleRetryListsComparedWhole(c *Ctx, r *Report) {
	const rule = "retry-lists-compared-whole"
	fn := c.need(r, rule, "internal/negotiation.validateRetryClientHello")
	if fn == nil {
		return
	}
	unit := c.unitFuncs(fn)
	var lists []*ssa.Call
	for _, u := range unit {
		r.Sites += len(u.Blocks)
		cs := findCalls(u, nameHasSuffix("negotiation.comparableRetryExtensions"))
		if len(cs) == 2 {
			lists = cs
		}
	}
	if len(lists) != 2 {
		r.Unk(rule, short(fn), c.pos(fn.Pos()), "the two comparable extension lists (initial, retry) were not found in one function")
		return
	}
	which := func(v ssa.Value) int {
		v = cellValue(v)
		for i, l := range lists {
			if v == ssa.Value(l) {
				return i
			}
		}
		return -1
	}
	lenOf := func(v ssa.Value) int {
		cl, ok := stripConv(v).(*ssa.Call)
		if !ok || calleeName(&cl.Call) != "builtin:len" {
			return -1
		}
		return which(cl.Call.Args[0])
	}
	success := map[ssa.Instruction]bool{}
	for _, ri := range possibleSuccessReturns(fn) {
		success[ri] = true
	}
	for _, firstLonger := range []bool{true, false} {
		matched := 0
		w := &Walk{Fn: fn, Follow: followSamePkg(fn), Assume: func(v ssa.Value) (Val, bool) {
			switch x := v.(type) {
			case *ssa.BinOp:
				a, b := lenOf(x.X), lenOf(x.Y)
				if a < 0 || b < 0 || a == b {
					return unknown, false
				}
				// truth of "len(X) op len(Y)" with the longer list known
				xLonger := (a == 0) == firstLonger
				matched++
				switch x.Op {
				case token.EQL:
					return vBool(false), true
				case token.NEQ:
					return vBool(true), true
				case token.GTR, token.GEQ:
					return vBool(xLonger), true
				case token.LSS, token.LEQ:
					return vBool(!xLonger), true
				}
				matched--
			case *ssa.Call:
				switch calleeName(&x.Call) {
				case "slices.EqualFunc[[]pkg/protocol/extension.Raw,[]pkg/protocol/extension.Raw,pkg/protocol/extension.Raw,pkg/protocol/extension.Raw]", "reflect.DeepEqual":
					if len(x.Call.Args) >= 2 && which(x.Call.Args[0]) >= 0 && which(x.Call.Args[1]) >= 0 && which(x.Call.Args[0]) != which(x.Call.Args[1]) {
						matched++
						return vBool(false), true
					}
				default:
					if n := calleeName(&x.Call); (strings.HasPrefix(n, "slices.EqualFunc[") || strings.HasPrefix(n, "slices.Equal[")) && len(x.Call.Args) >= 2 &&
						which(x.Call.Args[0]) >= 0 && which(x.Call.Args[1]) >= 0 && which(x.Call.Args[0]) != which(x.Call.Args[1]) {
						matched++
						return vBool(false), true
					}
				}
			}
			return unknown, false
		}}
		w.FromEntry()
		leak := ""
		for _, ro := range w.Returns {
			last := len(ro.Vals) - 1
			if success[ro.Ret] && !(last >= 0 && ro.Vals[last].Kind == 2 && !ro.Vals[last].B) {
				leak = c.ipos(ro.Ret)
			}
		}
		side := "the retry repeats fewer extensions than the first hello carried"
		if !firstLonger {
			side = "the retry carries extensions the first hello did not"
		}
		r.Check(leak == "" && matched > 0 && !w.overflow, rule, fmt.Sprintf("%s:firstLonger=%v", short(fn), firstLonger), c.pos(fn.Pos()), "lists of different length are refused", fmt.Sprintf("a second ClientHello whose extension list differs in length from the first (%s) passes the retry validation (success at %s; length comparisons seen: %d): the server answers a ClientHello that was altered behind the cookie with its ServerHello and certificate flight", side, leak, matched))
	}
}

// ruleReplayPositionSerialised (C06): the receive position that an exported connection hands to
// the connection resumed from it travels through the serialised form as well: serialize reads it,
// deserialize writes it. These are the obligations of state-coverage (C19) that name the receive
// position, claimed here for the replay property: a resumed connection that starts its window at
// zero delivers every captured record of the exported connection once more.
func ruleReplayPositionSerialised(c *Ctx, r *Report) {
	const rule = "replay-position-serialised"
	tmp := newReport(r.Prop)
	ruleStateCoverage(c, tmp)
	n := 0
	for _, o := range tmp.Obls {
		if !strings.Contains(strings.ToLower(o.Construct), "remotesequencenumber") {
			continue
		}
		if !strings.Contains(o.Construct, "serialize") {
			continue
		}
		n++
		o.Rule = rule
		r.add(o)
	}
	r.Sites += tmp.Sites
	r.Floor(rule, n, 2)
}

// ruleReceivePositionsKept (C06): the connection keeps, per epoch, the highest record number it
// accepted; DTLS 1.3 rebuilds the full number of a record of an earlier epoch (still readable
// after a key update) from that position. The slice that holds the positions only ever grows:
// whatever is stored into Common.RemoteSequenceNumber is the field's previous value appended to,
// a copy of the same field of another state (clone, import), or a fresh slice into which the
// previous value was copied first. A fresh slice without the earlier positions resets them to
// zero, and a delayed record of the earlier epoch is reconstructed with the wrong number and
// dropped although it is well inside the window.
func ruleReceivePositionsKept(c *Ctx, r *Report) {
	const rule = "receive-positions-kept"
	n := 0
	isField := func(v ssa.Value) bool {
		_, f, _, ok := fieldLoad(v)
		return ok && f == "RemoteSequenceNumber"
	}
	for _, st := range c.StoresTo(tCom, "RemoteSequenceNumber") {
		n++
		r.Sites++
		key := short(st.Fn)
		if al := allocOf(st.Base); al != nil {
			r.OKTrivial(rule, key, c.ipos(st.Instr), "field of a value under construction")
			continue
		}
		good, why := false, "it is "+shapeOf(st.Val, 0)
		if keepsPrefix(c, st.Val, isField, 0, map[ssa.Value]bool{}) {
			good = true
		}
		switch x := unspill(st.Val).(type) {
		case *ssa.Call:
			name := calleeName(&x.Call)
			switch {
			case name == "builtin:append" && isField(x.Call.Args[0]):
				good = true
			case name == "builtin:append" && len(x.Call.Args) == 2 && isField(x.Call.Args[1]):
				good = true // append(make(...), old...): the old positions first
			case (strings.HasPrefix(name, "slices.Clone[") || name == "slices.Clone") && isField(x.Call.Args[0]):
				good = true
			case strings.HasPrefix(name, "slices.Grow[") && isField(x.Call.Args[0]):
				good = true
			}
		case *ssa.UnOp:
			// a plain copy of the same field of another state
			good = isField(x)
		case *ssa.MakeSlice:
			// fresh: then the old positions are copied into it before it is published
			for _, ref := range *x.Referrers() {
				if cp, ok := ref.(*ssa.Call); ok && calleeName(&cp.Call) == "builtin:copy" && cp.Call.Args[0] == ssa.Value(x) && isField(cp.Call.Args[1]) && instrDominates(cp, st.Instr) {
					good = true
				}
			}
			if !good {
				why = "it is a fresh slice into which the earlier positions are not copied"
			}
		case *ssa.Slice:
			// a re-slice of the grown field: slices.Grow(old, n)[:k], old[:k] within capacity
			if gc, ok := x.X.(*ssa.Call); ok && strings.HasPrefix(calleeName(&gc.Call), "slices.Grow[") && isField(gc.Call.Args[0]) && x.Low == nil {
				good = true
			}
			if isField(x.X) && x.Low == nil {
				good = true
			}
			if mk, ok := x.X.(*ssa.MakeSlice); ok {
				for _, ref := range *mk.Referrers() {
					if cp, ok := ref.(*ssa.Call); ok && calleeName(&cp.Call) == "builtin:copy" && isField(cp.Call.Args[1]) && instrDominates(cp, st.Instr) {
						good = true
					}
				}
			}
		case *ssa.Const:
			good = x.Value == nil && strings.Contains(key, "internal/state.") // reset of a state under its own package's control
		}
		r.Check(good, rule, key, c.ipos(st.Instr), "the receive positions are extended, never replaced", "the per-epoch receive positions are replaced by a value that does not carry the earlier ones ("+why+"): the position of every earlier epoch reads zero afterwards, so a delayed DTLS 1.3 record of the epoch before a key update is rebuilt with the wrong record number, fails to open and is dropped although it is inside the window")
	}
	// the field's address handed to a helper that extends the slice through the pointer
	for _, u := range c.AddrUses(tCom, "RemoteSequenceNumber") {
		n++
		stores, ok := c.ptrGrowOnly(u.Instr, false)
		r.Check(ok, rule, short(u.Fn)+":by-address", c.ipos(u.Instr), fmt.Sprintf("handed by address to a helper that only extends it (%d stores)", stores), "the address of the per-epoch receive positions is handed to code that can replace them by a value that does not carry the earlier ones")
	}
	r.Floor(rule, n, 2)
}

// ruleResumedStateInstalledAtCreation (C19): "resuming ... yields a connection that ... reports
// the same negotiated parameters": the accessors of a connection (ConnectionState, the SRTP
// profile, the peer's MKI) read Conn.state, so the restored state is in that field when the
// resume call returns, not only after the first Read, Write or Handshake: somewhere in the
// functions that build the connection for a resume, the state that is filed as the handshake
// configuration's resume state is also stored into Conn.state. (A necessary condition only: that
// the store happens for every version range that resumes is not decided.)
func ruleResumedStateInstalledAtCreation(c *Ctx, r *Report) {
	const rule = "resumed-state-installed-at-creation"
	root := c.need(r, rule, "dtls.resumeWithConfig")
	if root == nil {
		return
	}
	unit := c.unitFuncs(root)
	found := ""
	for _, u := range unit {
		r.Sites += len(u.Blocks)
		for _, st := range c.StoresTo("dtls.Conn", "state") {
			if st.Fn != u {
				continue
			}
			for _, l := range c.Origins(st.Val, 0) {
				if p, ok := l.(*ssa.Parameter); ok && strings.HasSuffix(typeShort(p.Type()), "state.State") {
					found = c.ipos(st.Instr)
				}
				if isCallResult(l, nameHasSuffix(").generateInternalState")) {
					found = c.ipos(st.Instr)
				}
			}
		}
	}
	r.Check(found != "", rule, short(root), c.pos(root.Pos()), "the restored state is stored into Conn.state while the connection is built ("+found+")", "nothing stores the restored state into Conn.state before the resume call returns (it is installed by the first Read, Write or Handshake): until then ConnectionState reports no session, SelectedSRTPProtectionProfile no profile and the peer's MKI is missing, although the exported connection had them - an application that sets up SRTP from the resumed connection before any DTLS I/O finds nothing")
}

// ruleHandshakeErrorNotMasked (C16): "Close unblocks every pending ... Handshake with a closed or
// EOF error": a Handshake call that was interrupted does not report success. In the function that
// turns the error of the handshake loops into the result of HandshakeContext, with a non-nil
// error coming in and the handshake not completed, no return yields nil - whoever cancelled the
// loops. (The only cancellation that is no failure is the tear-down after completion.)
func ruleHandshakeErrorNotMasked(c *Ctx, r *Report) {
	const rule = "handshake-error-not-masked"
	fn := c.need(r, rule, "(*dtls.Conn).translateHandshakeCtxError")
	if fn == nil {
		return
	}
	r.Sites += len(fn.Blocks)
	var errParam *ssa.Parameter
	for _, p := range fn.Params {
		if isErrorType(p.Type()) {
			errParam = p
		}
	}
	if errParam == nil {
		r.Unk(rule, short(fn), c.pos(fn.Pos()), "no error parameter")
		return
	}
	seen := 0
	w := &Walk{Fn: fn, Follow: followSamePkgExcept(fn, "isHandshakeCompletedSuccessfully"), Assume: func(v ssa.Value) (Val, bool) {
		if v == ssa.Value(errParam) {
			return vNil(false), true
		}
		if cl, ok := v.(*ssa.Call); ok && strings.HasSuffix(calleeName(&cl.Call), ").isHandshakeCompletedSuccessfully") {
			seen++
			return vBool(false), true
		}
		return unknown, false
	}}
	w.FromEntry()
	leak := ""
	for _, ro := range w.Returns {
		if len(ro.Vals) != 1 {
			continue
		}
		if isNilConst(unspill(ro.Ret.Results[0])) || (ro.Vals[0].Kind == 2 && ro.Vals[0].B) {
			leak = c.ipos(ro.Ret)
		}
	}
	r.Check(leak == "" && !w.overflow, rule, short(fn), c.pos(fn.Pos()), "an interrupted handshake that did not complete yields an error", "the error of an interrupted handshake is turned into success ("+leak+") although the handshake did not complete: a Handshake call that Close (or a cancelled context) interrupted returns nil on a connection that has no session")
	// and the result of HandshakeContext goes through it
	if hc := c.need(r, rule, "(*dtls.Conn).HandshakeContext"); hc != nil {
		used := false
		for _, u := range c.unitFuncs(hc) {
			if len(findCalls(u, nameIs(short(fn)))) > 0 {
				used = true
			}
		}
		r.Check(used, rule, short(hc)+":translated", c.pos(hc.Pos()), "HandshakeContext reports the translated error", "HandshakeContext no longer passes the error of the handshake loops through "+fn.Name())
	}
}

// ruleCloseReturnsFromHandshakeCallback (C16, tracker for a known finding): "Close may be called
// ... from any goroutine ...: it returns". The application's handshake callbacks
// (VerifyPeerCertificate, GetCertificate, the PSK callback ...) run on the goroutine of the state
// machine; Close, after closing, waits for the running Handshake call to return, and that call
// waits for the state machine. A Close from inside a callback therefore never returns. The
// obligation: the wait of Close for the handshake is not a bare receive (it has an alternative,
// or it is gone).
func ruleCloseReturnsFromHandshakeCallback(c *Ctx, r *Report) {
	const rule = "close-returns-from-handshake-callback"
	fn := c.need(r, rule, "(*dtls.Conn).Close")
	if fn == nil {
		return
	}
	r.Sites += len(fn.Blocks)
	bare := ""
	for _, u := range c.unitFuncs(fn) {
		for _, b := range u.Blocks {
			for _, in := range b.Instrs {
				rc, ok := in.(*ssa.UnOp)
				if !ok || rc.Op != token.ARROW {
					continue
				}
				for _, l := range c.Origins(rc.X, 0) {
					if isFieldLoad(l, "dtls.Conn", "handshakeDone") {
						bare = c.ipos(rc)
					}
				}
			}
		}
	}
	r.Check(bare == "", rule, short(fn)+":wait-for-handshake", c.pos(fn.Pos()), "Close does not wait unconditionally for the running Handshake call", "Close waits for the running Handshake call with a bare receive ("+bare+"): called from a handshake callback - which runs on the state machine's goroutine, the one Handshake is waiting for - it never returns, and neither does Handshake")
}

// returnsPieceOfInput: every non-nil value the function returns as result #idx is a slice (or a
// clone of a slice) of one of its own byte-slice parameters: a reader helper that hands back a
// vector and the remainder, not a decoder that builds a value.
func returnsPieceOfInput(c *Ctx, g *ssa.Function, idx int) bool {
	if len(g.Blocks) == 0 {
		return false
	}
	n := 0
	for _, b := range g.Blocks {
		ret, ok := b.Instrs[len(b.Instrs)-1].(*ssa.Return)
		if !ok || b == g.Recover || idx >= len(ret.Results) {
			continue
		}
		rv := unspill(ret.Results[idx])
		if isNilConst(rv) {
			continue
		}
		n++
		okAll := true
		for _, l := range c.Origins(rv, 0) {
			p, isP := l.(*ssa.Parameter)
			if !isP || p.Parent() != g || !isByteSlice(p.Type()) {
				okAll = false
			}
		}
		if !okAll {
			return false
		}
	}
	return n > 0
}

// pulledMessage: the asserted value is pull.Messages[T] with pull the result of a handshake cache
// pull made in the same function.
func pulledMessage(x *ssa.TypeAssert, rootOf func(ssa.Value) ssa.Value) bool {
	lk, isLk := x.X.(*ssa.Lookup)
	if !isLk {
		return false
	}
	_, f, base, isF := fieldLoad(lk.X)
	if !isF || f != "Messages" {
		return false
	}
	if al, isAl := rootOf(base).(*ssa.Alloc); isAl {
		for _, ref := range *al.Referrers() {
			if st, isSt := ref.(*ssa.Store); isSt && st.Addr == ssa.Value(al) {
				if pc, isCall := st.Val.(*ssa.Call); isCall && strings.Contains(calleeName(&pc.Call), "Cache).FullPullMap") {
					return true
				}
			}
		}
		return false
	}
	pc, isCall := base.(*ssa.Call)
	return isCall && strings.Contains(calleeName(&pc.Call), "Cache).FullPullMap")
}

// keepsPrefix: the slice value is `base` (as recognised by isBase) or base extended - appended to,
// grown, re-sliced from its start, or handed to a module helper that returns its parameter
// extended in these ways - so that every element base had is still there.
func keepsPrefix(c *Ctx, v ssa.Value, isBase func(ssa.Value) bool, d int, busy map[ssa.Value]bool) bool {
	if d > 6 {
		return false
	}
	ls := c.Origins(v, 0)
	return len(ls) > 0 && allLeaves(ls, func(l ssa.Value) bool {
		if isBase(l) {
			return true
		}
		if busy[l] {
			return true // a grow loop feeds its own append
		}
		call, isCall := l.(*ssa.Call)
		if !isCall {
			return false
		}
		busy[l] = true
		defer delete(busy, l)
		name := calleeName(&call.Call)
		switch {
		case name == "builtin:append":
			return keepsPrefix(c, call.Call.Args[0], isBase, d+1, busy)
		case strings.HasPrefix(name, "slices.Grow["):
			return keepsPrefix(c, call.Call.Args[0], isBase, d+1, busy)
		}
		g := call.Call.StaticCallee()
		if g == nil || !inModule(g) || len(g.Blocks) == 0 || g.Signature.Results().Len() != 1 {
			return false
		}
		var par *ssa.Parameter
		for i, a := range call.Call.Args {
			if i < len(g.Params) && types.Identical(g.Params[i].Type(), call.Type()) && keepsPrefix(c, a, isBase, d+1, busy) {
				par = g.Params[i]
			}
		}
		if par == nil {
			return false
		}
		n := 0
		for _, b := range g.Blocks {
			ret, isRet := b.Instrs[len(b.Instrs)-1].(*ssa.Return)
			if !isRet || b == g.Recover {
				continue
			}
			n++
			if !keepsPrefix(c, ret.Results[0], func(x ssa.Value) bool { return x == ssa.Value(par) }, d+1, busy) {
				return false
			}
		}
		return n > 0
	})
}
