package main

import (
	"fmt"
	"go/constant"
	"go/token"
	"go/types"
	"regexp"
	"strings"

	"golang.org/x/tools/go/ssa"
)

// ruleRecordWalkComplete (C12, C02): "whatever the ... interleaving of fragments of different
// messages": a handshake record may carry several fragments, of several messages, and the buffer
// has looked at all of them when it reports the record as taken. In the function that takes a
// record into the reassembly buffer and the helpers of its package it calls: every return that
// reports "handled" (first result not the constant false) either hands on the verdict of another
// function of that unit, or lies behind a loop that decodes fragment headers and that can be left
// towards this return only on the "nothing left of the record" side of a length test. A shortcut
// that judges the record by its first fragment drops the fragments behind it.
func ruleRecordWalkComplete(c *Ctx, r *Report) {
	const rule = "record-walk-complete"
	push := c.need(r, rule, "(*internal/fragmentbuffer.FragmentBuffer).Push")
	if push == nil {
		return
	}
	unit := c.unitFuncs(push)
	inUnit := map[*ssa.Function]bool{}
	for _, u := range unit {
		inUnit[u] = true
	}
	// the "slice is empty" side of a test of len(x) against 0
	emptySide := func(b, t *ssa.BasicBlock) bool {
		iff, ok := b.Instrs[len(b.Instrs)-1].(*ssa.If)
		if !ok || len(b.Succs) != 2 {
			return false
		}
		bo, ok := iff.Cond.(*ssa.BinOp)
		if !ok {
			return false
		}
		isLen := func(v ssa.Value) bool {
			ln, ok := stripConv(v).(*ssa.Call)
			if !ok || calleeName(&ln.Call) != "builtin:len" {
				return false
			}
			_, isSl := ln.Call.Args[0].Type().Underlying().(*types.Slice)
			return isSl
		}
		if isLen(bo.X) {
			if k, isK := constInt(bo.Y); isK && k == 0 {
				switch bo.Op {
				case token.NEQ, token.GTR:
					return t == b.Succs[1]
				case token.EQL, token.LEQ:
					return t == b.Succs[0]
				}
				return false
			}
			// len(x) > offset ... (a walk by a running offset)
			switch bo.Op {
			case token.GTR:
				return t == b.Succs[1]
			case token.LEQ:
				return t == b.Succs[0]
			}
			return false
		}
		if isLen(bo.Y) {
			// offset < len(x)
			switch bo.Op {
			case token.LSS:
				return t == b.Succs[1]
			case token.GEQ:
				return t == b.Succs[0]
			}
		}
		return false
	}
	n := 0
	for _, fn := range unit {
		r.Sites += len(fn.Blocks)
		loops := naturalLoops(fn)
		idx := 0
		for _, b := range fn.Blocks {
			ret, ok := b.Instrs[len(b.Instrs)-1].(*ssa.Return)
			if !ok || b == fn.Recover || len(ret.Results) != 3 {
				continue
			}
			res := retResults(ret)
			if k, isB := constBool(res[0]); isB && !k {
				continue
			}
			if ex, isEx := res[0].(*ssa.Extract); isEx {
				if call, isCall := ex.Tuple.(*ssa.Call); isCall && inUnit[call.Call.StaticCallee()] && call.Call.StaticCallee() != fn {
					continue // the verdict of the walker, handed on
				}
			}
			idx++
			n++
			key := fmt.Sprintf("%s:handled-exit#%d", short(fn), idx)
			why := "no loop over the fragments of the record precedes it"
			good := false
			for _, l := range loops {
				if l.blocks[b] || !l.header.Dominates(b) {
					continue
				}
				decodes := false
				for lb := range l.blocks {
					for _, in := range lb.Instrs {
						if call, isCall := in.(*ssa.Call); isCall && strings.HasSuffix(calleeName(&call.Call), "handshake.Header).Unmarshal") {
							decodes = true
						}
					}
				}
				if !decodes {
					continue
				}
				okLoop := true
				for lb := range l.blocks {
					for _, t := range lb.Succs {
						if l.blocks[t] {
							continue
						}
						if t != b && !reachableFrom(t)[b] {
							continue // leaves towards another exit
						}
						if !emptySide(lb, t) {
							okLoop = false
							why = "the loop over the fragments can be left towards this exit (" + c.ipos(lb.Instrs[len(lb.Instrs)-1]) + ") while bytes of the record remain"
						}
					}
				}
				if okLoop {
					good = true
				}
			}
			r.Check(good, rule, key, c.ipos(ret), "reports the record as taken only after every fragment in it was looked at", "the reassembly buffer reports a handshake record as taken without having walked all fragments in it ("+why+"): a fragment of a message that is still awaited, sharing the record with an old one, is dropped and the message is never delivered")
		}
	}
	r.Floor(rule, n, 1)
}

// ruleCursorAdvanceIsDeclared (C18): "lengths declared inside a message are honoured": a decoder
// that walks a message with a running offset steps over a length-prefixed field by the length the
// message declares. Where a position into the input is computed from len(v), v is (a copy of) a
// piece of the input itself - never the value a nested decoder produced: the number of decoded
// elements differs from the declared length whenever the nested decoder rounds (an odd byte
// count of a list of 16-bit values) or skips (unknown compression methods), and the next field
// is then read from the wrong place.
func ruleCursorAdvanceIsDeclared(c *Ctx, r *Report) {
	const rule = "cursor-advance-is-declared"
	n := 0
	for _, fn := range c.Fns {
		if fn.Pkg == nil || len(fn.Blocks) == 0 || fn.Parent() != nil || !strings.Contains(fn.Pkg.Pkg.Path(), "/pkg/protocol") {
			continue
		}
		name := fn.Name()
		if !(name == "Unmarshal" || strings.HasPrefix(name, "decode") || strings.HasPrefix(name, "Decode") || strings.HasPrefix(name, "unmarshal") || strings.HasPrefix(name, "Parse") || strings.HasPrefix(name, "parse")) {
			continue
		}
		var data *ssa.Parameter
		for _, p := range fn.Params {
			if isByteSlice(p.Type()) {
				data = p
			}
		}
		if data == nil {
			continue
		}
		// the input, a slice of it, the remainder a reader helper hands back, or a merge of these
		// (a shrinking `rest`)
		var fromInputD func(v ssa.Value, d int, busy map[ssa.Value]bool) bool
		fromInputD = func(v ssa.Value, d int, busy map[ssa.Value]bool) bool {
			if d > 12 || busy[v] {
				return busy[v] && d <= 12
			}
			switch x := v.(type) {
			case *ssa.Slice:
				return fromInputD(x.X, d+1, busy)
			case *ssa.Parameter:
				return x == data
			case *ssa.Phi:
				busy[v] = true
				defer delete(busy, v)
				for _, e := range x.Edges {
					if !fromInputD(e, d+1, busy) {
						return false
					}
				}
				return len(x.Edges) > 0
			case *ssa.Extract:
				hc, ok := x.Tuple.(*ssa.Call)
				if !ok {
					return false
				}
				g := hc.Call.StaticCallee()
				if g == nil || !inModule(g) || !returnsPieceOfInput(c, g, x.Index) {
					return false
				}
				for _, a := range hc.Call.Args {
					if isByteSlice(a.Type()) && fromInputD(a, d+1, busy) {
						return true
					}
				}
			}
			return false
		}
		fromInput := func(v ssa.Value) bool { return fromInputD(v, 0, map[ssa.Value]bool{}) }
		// positions into the input
		var positions []ssa.Value
		var at []ssa.Instruction
		for _, b := range fn.Blocks {
			for _, in := range b.Instrs {
				switch x := in.(type) {
				case *ssa.Slice:
					if fromInput(x.X) {
						if x.Low != nil {
							positions, at = append(positions, x.Low), append(at, in)
						}
						if x.High != nil {
							positions, at = append(positions, x.High), append(at, in)
						}
					}
				case *ssa.IndexAddr:
					if fromInput(x.X) {
						positions, at = append(positions, x.Index), append(at, in)
					}
				}
			}
		}
		seenLen := map[*ssa.Call]bool{}
		for i, pos := range positions {
			seen := map[ssa.Value]bool{}
			var walk func(v ssa.Value, d int)
			walk = func(v ssa.Value, d int) {
				if v == nil || seen[v] || d > 12 {
					return
				}
				seen[v] = true
				switch x := v.(type) {
				case *ssa.BinOp:
					switch x.Op {
					case token.ADD, token.SUB:
						walk(x.X, d+1)
						walk(x.Y, d+1)
					case token.MUL:
						if _, isK := constInt(x.Y); isK {
							walk(x.X, d+1)
						} else if _, isK := constInt(x.X); isK {
							walk(x.Y, d+1)
						}
					}
				case *ssa.Phi:
					for _, e := range x.Edges {
						walk(e, d+1)
					}
				case *ssa.Convert:
					walk(x.X, d+1)
				case *ssa.Call:
					if calleeName(&x.Call) != "builtin:len" || seenLen[x] {
						return
					}
					arg := x.Call.Args[0]
					if _, isSl := arg.Type().Underlying().(*types.Slice); !isSl {
						return
					}
					seenLen[x] = true
					var decoded []string
					for _, l := range c.Origins(arg, 0) {
						var call *ssa.Call
						idx := 0
						switch y := l.(type) {
						case *ssa.Call:
							call = y
						case *ssa.Extract:
							call, _ = y.Tuple.(*ssa.Call)
							idx = y.Index
						case *ssa.MakeSlice:
							decoded = append(decoded, "a list built by this decoder")
						}
						if call != nil {
							if g := call.Call.StaticCallee(); g != nil && inModule(g) && !returnsPieceOfInput(c, g, idx) {
								decoded = append(decoded, "the result of "+short(g))
							}
						}
					}
					n++
					key := fmt.Sprintf("%s:len(%s)", short(fn), normShapeOf(arg))
					r.Check(len(decoded) == 0, rule, key, c.ipos(at[i]), "a position into the input is computed from the length of a piece of the input", "a position into the input is computed from the number of decoded elements ("+strings.Join(decoded, ", ")+") instead of the length the message declares: where the nested decoder rounds or skips, the fields behind are read from the wrong place")
				}
			}
			walk(pos, 0)
		}
	}
	r.Floor(rule, n, 3)
}

// ruleSecondHelloSource (C04, C13): "an on-path attacker cannot steer any negotiated parameter":
// of the two ClientHellos of a cookie exchange only the second is covered by the Finished
// messages, so what the DTLS 1.2 server negotiates after the exchange is derived from the second.
// In the second-hello parser, every function of the package that is handed a ClientHello and
// (itself or through its callees) derives state from its extensions receives either the message
// pulled from the handshake cache in this invocation, or the decoding of the current snapshot of
// the very snapshot pair that the cookie validation was given (or of the state's pair after that
// pair was written back). The state's pair as it was on entry still has the first hello as its
// current one.
func ruleSecondHelloSource(c *Ctx, r *Report) {
	const rule = "second-hello-source"
	f2 := c.need(r, rule, pkgF12+".flight2Parse")
	if f2 == nil {
		return
	}
	r.Sites += len(f2.Blocks)
	var validate *ssa.Call
	for _, cl := range findCalls(f2, nameIs("internal/negotiation.ValidateHelloVerifyRequestResponse")) {
		validate = cl
	}
	if validate == nil {
		r.Unk(rule, short(f2), c.pos(f2.Pos()), "the cookie validation call was not found")
		return
	}
	// the local snapshot pair handed to the validation
	rootOf := func(v ssa.Value) ssa.Value {
		for i := 0; i < 4; i++ {
			if u, ok := v.(*ssa.UnOp); ok && u.Op == token.MUL {
				v = u.X
				continue
			}
			break
		}
		return v
	}
	var pair ssa.Value
	if cur, ok := validate.Call.Args[1].(*ssa.Call); ok && strings.HasSuffix(calleeName(&cur.Call), "ClientHelloSnapshots).Current") {
		pair = rootOf(cur.Call.Args[0])
	}
	// does the function (or what it calls in the package) switch over extension types and store state?
	var derives func(fn *ssa.Function, d int, seen map[*ssa.Function]bool) bool
	derives = func(fn *ssa.Function, d int, seen map[*ssa.Function]bool) bool {
		if fn == nil || seen[fn] || d > 3 || len(fn.Blocks) == 0 || fn.Pkg != f2.Pkg {
			return false
		}
		seen[fn] = true
		switches, stores := false, false
		for _, b := range fn.Blocks {
			for _, in := range b.Instrs {
				switch x := in.(type) {
				case *ssa.TypeAssert:
					if strings.Contains(namedOrType(derefType(x.AssertedType)), "pkg/protocol/extension") {
						switches = true
					}
				case *ssa.Store:
					if o, _, _, ok := fieldOfAddr(x.Addr); ok && (strings.HasSuffix(o, "state.State12") || strings.HasSuffix(o, "state.Common")) {
						stores = true
					}
				case *ssa.Call:
					if derives(x.Call.StaticCallee(), d+1, seen) {
						return true
					}
				}
			}
		}
		return switches && stores
	}
	n := 0
	for _, call := range findCalls(f2, func(string) bool { return true }) {
		g := call.Call.StaticCallee()
		if g == nil || g.Pkg != f2.Pkg || g == f2 || strings.HasSuffix(g.Name(), "flight0Parse") {
			continue
		}
		hi := -1
		for i, p := range g.Params {
			if namedOf(derefType(p.Type())) == "pkg/protocol/handshake.MessageClientHello" {
				hi = i
			}
		}
		if hi < 0 || hi >= len(call.Call.Args) || !derives(g, 0, map[*ssa.Function]bool{}) {
			continue
		}
		n++
		arg := unspill(call.Call.Args[hi])
		if ex, isEx := arg.(*ssa.Extract); isEx && ex.Index == 0 {
			if ta, isTA := ex.Tuple.(*ssa.TypeAssert); isTA {
				arg = ta
			}
		}
		good, why := false, "it is "+shapeOf(arg, 0)
		// the pull and the type assertion may sit in a helper of the package that hands the
		// message back: then every message it returns is judged inside it
		if ex, isEx := arg.(*ssa.Extract); isEx {
			if hc, isCall := ex.Tuple.(*ssa.Call); isCall {
				if h := hc.Call.StaticCallee(); h != nil && h.Pkg == f2.Pkg && len(h.Blocks) > 0 && !strings.HasSuffix(calleeName(&hc.Call), "ClientHelloFromSnapshot") {
					all, cnt := true, 0
					for _, hb := range h.Blocks {
						hret, isRet := hb.Instrs[len(hb.Instrs)-1].(*ssa.Return)
						if !isRet || hb == h.Recover || ex.Index >= len(hret.Results) {
							continue
						}
						hv := unspill(hret.Results[ex.Index])
						if isNilConst(hv) {
							continue
						}
						cnt++
						if hx, isHx := hv.(*ssa.Extract); isHx && hx.Index == 0 {
							if ta, isTA := hx.Tuple.(*ssa.TypeAssert); isTA {
								hv = ta
							}
						}
						ta, isTA := hv.(*ssa.TypeAssert)
						if !isTA || !pulledMessage(ta, rootOf) {
							all = false
						}
					}
					if all && cnt > 0 {
						good = true
					}
				}
			}
		}
		switch x := arg.(type) {
		case *ssa.TypeAssert:
			// pull.Messages[T] with pull the result of a cache pull made in this function
			if pulledMessage(x, rootOf) {
				good = true
			}
		case *ssa.Extract:
			dec, isCall := x.Tuple.(*ssa.Call)
			if !isCall || x.Index != 0 || !strings.HasSuffix(calleeName(&dec.Call), "negotiation.ClientHelloFromSnapshot") {
				break
			}
			cur, isCur := dec.Call.Args[0].(*ssa.Call)
			if !isCur || !strings.HasSuffix(calleeName(&cur.Call), "ClientHelloSnapshots).Current") {
				break
			}
			root := rootOf(cur.Call.Args[0])
			switch {
			case pair != nil && root == pair:
				good = true
			default:
				// the state's pair: only after the validated pair was written back to it
				if _, f, _, isF := fieldOfAddr(root); isF && f == "RemoteClientHelloSnapshots" {
					why = "it is decoded from the state's snapshot pair as it was before the second hello was recorded in it: its current hello is still the first"
					for _, st := range c.StoresTo(tSt12, "RemoteClientHelloSnapshots") {
						if st.Fn == f2 && pair != nil && rootOf(st.Val) == pair && instrDominates(st.Instr, cur) && instrDominates(validate, st.Instr) {
							good = true
						}
					}
					for _, st := range c.StoresTo(tCom, "RemoteClientHelloSnapshots") {
						if st.Fn == f2 && pair != nil && rootOf(st.Val) == pair && instrDominates(st.Instr, cur) && instrDominates(validate, st.Instr) {
							good = true
						}
					}
				}
			}
		}
		r.Check(good, rule, short(f2)+"->"+short(g), c.ipos(call), "the negotiation after the cookie exchange is derived from the second ClientHello", "after the cookie exchange "+short(g)+" derives the negotiated parameters from a ClientHello that is not the second one ("+why+"): the first, cookie-less hello is covered by no Finished, so whoever rewrites it on the path chooses ALPN, groups, extended master secret and signature schemes for both ends")
	}
	r.Floor(rule, n, 1)
}

// ruleRetryListsComparedWhole (C13, C04): "a ClientHello that carries ... the right cookie but
// altered body" gets no ServerHello: the second ClientHello of a DTLS 1.3 retry repeats the
// extensions of the first, no fewer and no more. In the function that validates the retry (with
// the helpers of its package followed), with the two comparable extension lists of different
// length - the first longer, and the second longer - no successful return is reachable: the
// lengths are compared (directly, or by a whole-list equality), not only the elements up to the
// length of one of them.
func ruleRetryListsComparedWhole(c *Ctx, r *Report) {
	const rule = "retry-lists-compared-whole"
	fn := c.need(r, rule, "internal/negotiation.validateRetryClientHello")
	if fn == nil {
		return
	}
	unit := c.unitFuncs(fn)
	var lists []*ssa.Call
	for _, u := range unit {
		r.Sites += len(u.Blocks)
		cs := findCalls(u, nameHasSuffix("negotiation.comparableRetryExtensions"))
		if len(cs) == 2 {
			lists = cs
		}
	}
	if len(lists) != 2 {
		r.Unk(rule, short(fn), c.pos(fn.Pos()), "the two comparable extension lists (initial, retry) were not found in one function")
		return
	}
	which := func(v ssa.Value) int {
		v = cellValue(v)
		for i, l := range lists {
			if v == ssa.Value(l) {
				return i
			}
		}
		return -1
	}
	lenOf := func(v ssa.Value) int {
		cl, ok := stripConv(v).(*ssa.Call)
		if !ok || calleeName(&cl.Call) != "builtin:len" {
			return -1
		}
		return which(cl.Call.Args[0])
	}
	success := map[ssa.Instruction]bool{}
	for _, ri := range possibleSuccessReturns(fn) {
		success[ri] = true
	}
	for _, firstLonger := range []bool{true, false} {
		matched := 0
		w := &Walk{Fn: fn, Follow: followSamePkg(fn), Assume: func(v ssa.Value) (Val, bool) {
			switch x := v.(type) {
			case *ssa.BinOp:
				a, b := lenOf(x.X), lenOf(x.Y)
				if a < 0 || b < 0 || a == b {
					return unknown, false
				}
				// truth of "len(X) op len(Y)" with the longer list known
				xLonger := (a == 0) == firstLonger
				matched++
				switch x.Op {
				case token.EQL:
					return vBool(false), true
				case token.NEQ:
					return vBool(true), true
				case token.GTR, token.GEQ:
					return vBool(xLonger), true
				case token.LSS, token.LEQ:
					return vBool(!xLonger), true
				}
				matched--
			case *ssa.Call:
				switch calleeName(&x.Call) {
				case "slices.EqualFunc[[]pkg/protocol/extension.Raw,[]pkg/protocol/extension.Raw,pkg/protocol/extension.Raw,pkg/protocol/extension.Raw]", "reflect.DeepEqual":
					if len(x.Call.Args) >= 2 && which(x.Call.Args[0]) >= 0 && which(x.Call.Args[1]) >= 0 && which(x.Call.Args[0]) != which(x.Call.Args[1]) {
						matched++
						return vBool(false), true
					}
				default:
					if n := calleeName(&x.Call); (strings.HasPrefix(n, "slices.EqualFunc[") || strings.HasPrefix(n, "slices.Equal[")) && len(x.Call.Args) >= 2 &&
						which(x.Call.Args[0]) >= 0 && which(x.Call.Args[1]) >= 0 && which(x.Call.Args[0]) != which(x.Call.Args[1]) {
						matched++
						return vBool(false), true
					}
				}
			}
			return unknown, false
		}}
		w.FromEntry()
		leak := ""
		for _, ro := range w.Returns {
			last := len(ro.Vals) - 1
			if success[ro.Ret] && !(last >= 0 && ro.Vals[last].Kind == 2 && !ro.Vals[last].B) {
				leak = c.ipos(ro.Ret)
			}
		}
		side := "the retry repeats fewer extensions than the first hello carried"
		if !firstLonger {
			side = "the retry carries extensions the first hello did not"
		}
		r.Check(leak == "" && matched > 0 && !w.overflow, rule, fmt.Sprintf("%s:firstLonger=%v", short(fn), firstLonger), c.pos(fn.Pos()), "lists of different length are refused", fmt.Sprintf("a second ClientHello whose extension list differs in length from the first (%s) passes the retry validation (success at %s; length comparisons seen: %d): the server answers a ClientHello that was altered behind the cookie with its ServerHello and certificate flight", side, leak, matched))
	}
}

// ruleReplayPositionSerialised (C06): the receive position that an exported connection hands to
// the connection resumed from it travels through the serialised form as well: serialize reads it,
// deserialize writes it. These are the obligations of state-coverage (C19) that name the receive
// position, claimed here for the replay property: a resumed connection that starts its window at
// zero delivers every captured record of the exported connection once more.
func ruleReplayPositionSerialised(c *Ctx, r *Report) {
	const rule = "replay-position-serialised"
	tmp := newReport(r.Prop)
	ruleStateCoverage(c, tmp)
	n := 0
	for _, o := range tmp.Obls {
		if !strings.Contains(strings.ToLower(o.Construct), "remotesequencenumber") {
			continue
		}
		if !strings.Contains(o.Construct, "serialize") {
			continue
		}
		n++
		o.Rule = rule
		r.add(o)
	}
	r.Sites += tmp.Sites
	r.Floor(rule, n, 2)
}

// ruleReceivePositionsKept (C06): the connection keeps, per epoch, the highest record number it
// accepted; DTLS 1.3 rebuilds the full number of a record of an earlier epoch (still readable
// after a key update) from that position. The slice that holds the positions only ever grows:
// whatever is stored into Common.RemoteSequenceNumber is the field's previous value appended to,
// a copy of the same field of another state (clone, import), or a fresh slice into which the
// previous value was copied first. A fresh slice without the earlier positions resets them to
// zero, and a delayed record of the earlier epoch is reconstructed with the wrong number and
// dropped although it is well inside the window.
func ruleReceivePositionsKept(c *Ctx, r *Report) {
	const rule = "receive-positions-kept"
	n := 0
	isField := func(v ssa.Value) bool {
		_, f, _, ok := fieldLoad(v)
		return ok && f == "RemoteSequenceNumber"
	}
	for _, st := range c.StoresTo(tCom, "RemoteSequenceNumber") {
		n++
		r.Sites++
		key := short(st.Fn)
		if al := allocOf(st.Base); al != nil {
			r.OKTrivial(rule, key, c.ipos(st.Instr), "field of a value under construction")
			continue
		}
		good, why := false, "it is "+shapeOf(st.Val, 0)
		if keepsPrefix(c, st.Val, isField, 0, map[ssa.Value]bool{}) {
			good = true
		}
		switch x := unspill(st.Val).(type) {
		case *ssa.Call:
			name := calleeName(&x.Call)
			switch {
			case name == "builtin:append" && isField(x.Call.Args[0]):
				good = true
			case name == "builtin:append" && len(x.Call.Args) == 2 && isField(x.Call.Args[1]):
				good = true // append(make(...), old...): the old positions first
			case (strings.HasPrefix(name, "slices.Clone[") || name == "slices.Clone") && isField(x.Call.Args[0]):
				good = true
			case strings.HasPrefix(name, "slices.Grow[") && isField(x.Call.Args[0]):
				good = true
			}
		case *ssa.UnOp:
			// a plain copy of the same field of another state
			good = isField(x)
		case *ssa.MakeSlice:
			// fresh: then the old positions are copied into it before it is published
			for _, ref := range *x.Referrers() {
				if cp, ok := ref.(*ssa.Call); ok && calleeName(&cp.Call) == "builtin:copy" && cp.Call.Args[0] == ssa.Value(x) && isField(cp.Call.Args[1]) && instrDominates(cp, st.Instr) {
					good = true
				}
			}
			if !good {
				why = "it is a fresh slice into which the earlier positions are not copied"
			}
		case *ssa.Slice:
			// a re-slice of the grown field: slices.Grow(old, n)[:k], old[:k] within capacity
			if gc, ok := x.X.(*ssa.Call); ok && strings.HasPrefix(calleeName(&gc.Call), "slices.Grow[") && isField(gc.Call.Args[0]) && x.Low == nil {
				good = true
			}
			if isField(x.X) && x.Low == nil {
				good = true
			}
			if mk, ok := x.X.(*ssa.MakeSlice); ok {
				for _, ref := range *mk.Referrers() {
					if cp, ok := ref.(*ssa.Call); ok && calleeName(&cp.Call) == "builtin:copy" && isField(cp.Call.Args[1]) && instrDominates(cp, st.Instr) {
						good = true
					}
				}
			}
		case *ssa.Const:
			good = x.Value == nil && strings.Contains(key, "internal/state.") // reset of a state under its own package's control
		}
		r.Check(good, rule, key, c.ipos(st.Instr), "the receive positions are extended, never replaced", "the per-epoch receive positions are replaced by a value that does not carry the earlier ones ("+why+"): the position of every earlier epoch reads zero afterwards, so a delayed DTLS 1.3 record of the epoch before a key update is rebuilt with the wrong record number, fails to open and is dropped although it is inside the window")
	}
	// the field's address handed to a helper that extends the slice through the pointer
	for _, u := range c.AddrUses(tCom, "RemoteSequenceNumber") {
		n++
		stores, ok := c.ptrGrowOnly(u.Instr, false)
		r.Check(ok, rule, short(u.Fn)+":by-address", c.ipos(u.Instr), fmt.Sprintf("handed by address to a helper that only extends it (%d stores)", stores), "the address of the per-epoch receive positions is handed to code that can replace them by a value that does not carry the earlier ones")
	}
	r.Floor(rule, n, 2)
}

// ruleResumedStateInstalledAtCreation (C19): "resuming ... yields a connection that ... reports
// the same negotiated parameters": the accessors of a connection (ConnectionState, the SRTP
// profile, the peer's MKI) read Conn.state, so the restored state is in that field when the
// resume call returns, not only after the first Read, Write or Handshake: somewhere in the
// functions that build the connection for a resume, the state that is filed as the handshake
// configuration's resume state is also stored into Conn.state. (A necessary condition only: that
// the store happens for every version range that resumes is not decided.)
func ruleResumedStateInstalledAtCreation(c *Ctx, r *Report) {
	const rule = "resumed-state-installed-at-creation"
	root := c.need(r, rule, "dtls.resumeWithConfig")
	if root == nil {
		return
	}
	unit := c.unitFuncs(root)
	found := ""
	for _, u := range unit {
		r.Sites += len(u.Blocks)
		for _, st := range c.StoresTo("dtls.Conn", "state") {
			if st.Fn != u {
				continue
			}
			for _, l := range c.Origins(st.Val, 0) {
				if p, ok := l.(*ssa.Parameter); ok && strings.HasSuffix(typeShort(p.Type()), "state.State") {
					found = c.ipos(st.Instr)
				}
				if isCallResult(l, nameHasSuffix(").generateInternalState")) {
					found = c.ipos(st.Instr)
				}
			}
		}
	}
	r.Check(found != "", rule, short(root), c.pos(root.Pos()), "the restored state is stored into Conn.state while the connection is built ("+found+")", "nothing stores the restored state into Conn.state before the resume call returns (it is installed by the first Read, Write or Handshake): until then ConnectionState reports no session, SelectedSRTPProtectionProfile no profile and the peer's MKI is missing, although the exported connection had them - an application that sets up SRTP from the resumed connection before any DTLS I/O finds nothing")
}

// ruleHandshakeErrorNotMasked (C16): "Close unblocks every pending ... Handshake with a closed or
// EOF error": a Handshake call that was interrupted does not report success. In the function that
// turns the error of the handshake loops into the result of HandshakeContext, with a non-nil
// error coming in and the handshake not completed, no return yields nil - whoever cancelled the
// loops. (The only cancellation that is no failure is the tear-down after completion.)
func ruleHandshakeErrorNotMasked(c *Ctx, r *Report) {
	const rule = "handshake-error-not-masked"
	fn := c.need(r, rule, "(*dtls.Conn).translateHandshakeCtxError")
	if fn == nil {
		return
	}
	r.Sites += len(fn.Blocks)
	var errParam *ssa.Parameter
	for _, p := range fn.Params {
		if isErrorType(p.Type()) {
			errParam = p
		}
	}
	if errParam == nil {
		r.Unk(rule, short(fn), c.pos(fn.Pos()), "no error parameter")
		return
	}
	seen := 0
	w := &Walk{Fn: fn, Follow: followSamePkgExcept(fn, "isHandshakeCompletedSuccessfully"), Assume: func(v ssa.Value) (Val, bool) {
		if v == ssa.Value(errParam) {
			return vNil(false), true
		}
		if cl, ok := v.(*ssa.Call); ok && strings.HasSuffix(calleeName(&cl.Call), ").isHandshakeCompletedSuccessfully") {
			seen++
			return vBool(false), true
		}
		return unknown, false
	}}
	w.FromEntry()
	leak := ""
	for _, ro := range w.Returns {
		if len(ro.Vals) != 1 {
			continue
		}
		if isNilConst(unspill(ro.Ret.Results[0])) || (ro.Vals[0].Kind == 2 && ro.Vals[0].B) {
			leak = c.ipos(ro.Ret)
		}
	}
	r.Check(leak == "" && !w.overflow, rule, short(fn), c.pos(fn.Pos()), "an interrupted handshake that did not complete yields an error", "the error of an interrupted handshake is turned into success ("+leak+") although the handshake did not complete: a Handshake call that Close (or a cancelled context) interrupted returns nil on a connection that has no session")
	// and the result of HandshakeContext goes through it
	if hc := c.need(r, rule, "(*dtls.Conn).HandshakeContext"); hc != nil {
		used := false
		for _, u := range c.unitFuncs(hc) {
			if len(findCalls(u, nameIs(short(fn)))) > 0 {
				used = true
			}
		}
		r.Check(used, rule, short(hc)+":translated", c.pos(hc.Pos()), "HandshakeContext reports the translated error", "HandshakeContext no longer passes the error of the handshake loops through "+fn.Name())
	}
}

// ruleCloseReturnsFromHandshakeCallback (C16, tracker for a known finding): "Close may be called
// ... from any goroutine ...: it returns". The application's handshake callbacks
// (VerifyPeerCertificate, GetCertificate, the PSK callback ...) run on the goroutine of the state
// machine; Close, after closing, waits for the running Handshake call to return, and that call
// waits for the state machine. A Close from inside a callback therefore never returns. The
// obligation: the wait of Close for the handshake is not a bare receive (it has an alternative,
// or it is gone).
func ruleCloseReturnsFromHandshakeCallback(c *Ctx, r *Report) {
	const rule = "close-returns-from-handshake-callback"
	fn := c.need(r, rule, "(*dtls.Conn).Close")
	if fn == nil {
		return
	}
	r.Sites += len(fn.Blocks)
	bare := ""
	for _, u := range c.unitFuncs(fn) {
		for _, b := range u.Blocks {
			for _, in := range b.Instrs {
				rc, ok := in.(*ssa.UnOp)
				if !ok || rc.Op != token.ARROW {
					continue
				}
				for _, l := range c.Origins(rc.X, 0) {
					if isFieldLoad(l, "dtls.Conn", "handshakeDone") {
						bare = c.ipos(rc)
					}
				}
			}
		}
	}
	r.Check(bare == "", rule, short(fn)+":wait-for-handshake", c.pos(fn.Pos()), "Close does not wait unconditionally for the running Handshake call", "Close waits for the running Handshake call with a bare receive ("+bare+"): called from a handshake callback - which runs on the state machine's goroutine, the one Handshake is waiting for - it never returns, and neither does Handshake")
}

// returnsPieceOfInput: every non-nil value the function returns as result #idx is a slice (or a
// clone of a slice) of one of its own byte-slice parameters: a reader helper that hands back a
// vector and the remainder, not a decoder that builds a value.
func returnsPieceOfInput(c *Ctx, g *ssa.Function, idx int) bool {
	if len(g.Blocks) == 0 {
		return false
	}
	n := 0
	for _, b := range g.Blocks {
		ret, ok := b.Instrs[len(b.Instrs)-1].(*ssa.Return)
		if !ok || b == g.Recover || idx >= len(ret.Results) {
			continue
		}
		rv := unspill(ret.Results[idx])
		if isNilConst(rv) {
			continue
		}
		n++
		okAll := true
		for _, l := range c.Origins(rv, 0) {
			p, isP := l.(*ssa.Parameter)
			if !isP || p.Parent() != g || !isByteSlice(p.Type()) {
				okAll = false
			}
		}
		if !okAll {
			return false
		}
	}
	return n > 0
}

// pulledMessage: the asserted value is pull.Messages[T] with pull the result of a handshake cache
// pull made in the same function.
func pulledMessage(x *ssa.TypeAssert, rootOf func(ssa.Value) ssa.Value) bool {
	lk, isLk := x.X.(*ssa.Lookup)
	if !isLk {
		return false
	}
	_, f, base, isF := fieldLoad(lk.X)
	if !isF || f != "Messages" {
		return false
	}
	if al, isAl := rootOf(base).(*ssa.Alloc); isAl {
		for _, ref := range *al.Referrers() {
			if st, isSt := ref.(*ssa.Store); isSt && st.Addr == ssa.Value(al) {
				if pc, isCall := st.Val.(*ssa.Call); isCall && strings.Contains(calleeName(&pc.Call), "Cache).FullPullMap") {
					return true
				}
			}
		}
		return false
	}
	pc, isCall := base.(*ssa.Call)
	return isCall && strings.Contains(calleeName(&pc.Call), "Cache).FullPullMap")
}

// keepsPrefix: the slice value is `base` (as recognised by isBase) or base extended - appended to,
// grown, re-sliced from its start, or handed to a module helper that returns its parameter
// extended in these ways - so that every element base had is still there.
func keepsPrefix(c *Ctx, v ssa.Value, isBase func(ssa.Value) bool, d int, busy map[ssa.Value]bool) bool {
	if d > 6 {
		return false
	}
	ls := c.Origins(v, 0)
	return len(ls) > 0 && allLeaves(ls, func(l ssa.Value) bool {
		if isBase(l) {
			return true
		}
		if busy[l] {
			return true // a grow loop feeds its own append
		}
		call, isCall := l.(*ssa.Call)
		if !isCall {
			return false
		}
		busy[l] = true
		defer delete(busy, l)
		name := calleeName(&call.Call)
		switch {
		case name == "builtin:append":
			return keepsPrefix(c, call.Call.Args[0], isBase, d+1, busy)
		case strings.HasPrefix(name, "slices.Grow["):
			return keepsPrefix(c, call.Call.Args[0], isBase, d+1, busy)
		}
		g := call.Call.StaticCallee()
		if g == nil || !inModule(g) || len(g.Blocks) == 0 || g.Signature.Results().Len() != 1 {
			return false
		}
		var par *ssa.Parameter
		for i, a := range call.Call.Args {
			if i < len(g.Params) && types.Identical(g.Params[i].Type(), call.Type()) && keepsPrefix(c, a, isBase, d+1, busy) {
				par = g.Params[i]
			}
		}
		if par == nil {
			return false
		}
		n := 0
		for _, b := range g.Blocks {
			ret, isRet := b.Instrs[len(b.Instrs)-1].(*ssa.Return)
			if !isRet || b == g.Recover {
				continue
			}
			n++
			if !keepsPrefix(c, ret.Results[0], func(x ssa.Value) bool { return x == ssa.Value(par) }, d+1, busy) {
				return false
			}
		}
		return n > 0
	})
}

// rulePSKPremasterLayout (C03, C07): "for PSK suites, knowledge of the pre-shared key": the
// premaster secret of the ECDHE_PSK key exchange is, byte for byte, RFC 5489 2:
// uint16(len(Z)) || Z || uint16(len(psk)) || psk - in particular the pre-shared key is part of
// what is returned. Decided by the layout extractor on the value the function returns on success.
func rulePSKPremasterLayout(c *Ctx, r *Report) {
	const rule = "psk-premaster-layout"
	fn := c.need(r, rule, pkgPRF+".EcdhePSKPreMasterSecret")
	if fn == nil {
		return
	}
	r.Sites += len(fn.Blocks)
	v, ret := singleReturn(fn, 0)
	if v == nil {
		r.Unk(rule, short(fn), c.pos(fn.Pos()), "no unique returned value")
		return
	}
	l, err := c.LayoutOf(v, ret, 0)
	g := ""
	if err == nil {
		g = layoutString(l)
	}
	if err != nil || strings.HasPrefix(g, "make(") {
		// a buffer of computed size that is filled at running offsets: the layout is out of reach
		// of the extractor; what is decided then is the weaker, necessary condition that the
		// pre-shared key (and the ECDH result) are copied or appended into what is returned
		var psk *ssa.Parameter
		for _, p := range fn.Params {
			if p.Name() == "psk" {
				psk = p
			}
		}
		var z ssa.Value
		for _, cl := range findCalls(fn, nameHasSuffix("prf.PreMasterSecret")) {
			z = resultValue(cl, 0)
		}
		okFlow := psk != nil && z != nil && flowsInto(c, fn, v, psk, 0) && flowsInto(c, fn, v, z, 0)
		r.Check(okFlow, rule, short(fn), c.ipos(ret), "the pre-shared key and the ECDH result are both copied into the returned premaster secret (byte layout not extractable: filled at running offsets)", "the ECDHE_PSK premaster secret that is returned does not contain the pre-shared key (or the ECDH result): the session keys then depend on the public exchange alone, and a peer that does not know the key completes the handshake")
		return
	}
	// Z is whatever the ECDH helper returned (a local), the key is the parameter
	okShape := pskPremasterRe.MatchString(g)
	r.Check(okShape, rule, short(fn), c.ipos(ret), "premaster = len(Z) || Z || len(psk) || psk: "+g, "the ECDHE_PSK premaster secret deviates from RFC 5489 2 (uint16 length of the ECDH result, the result, uint16 length of the pre-shared key, the key): got ["+g+"]. If the key is not part of it, the session keys depend on the public ECDH exchange alone, and a peer that does not know the key completes the handshake")
}

var pskPremasterRe = regexp.MustCompile(`^builtin:len\((\S+)\)\[1\.\.0\] (\S+)\[\*\] builtin:len\(psk\)\[1\.\.0\] psk\[\*\]$`)

// flowsInto: the bytes of src are part of the byte slice dst as the function leaves it: dst is (a
// slice of) an append chain one of whose operands is src - also through a module helper that
// returns such a chain of its parameters - or a buffer into which src is copied.
func flowsInto(c *Ctx, fn *ssa.Function, dst, src ssa.Value, d int) bool {
	if d > 6 {
		return false
	}
	dst = unspill(dst)
	if dst == src {
		return true
	}
	switch x := dst.(type) {
	case *ssa.Slice:
		return flowsInto(c, fn, x.X, src, d+1)
	case *ssa.Phi:
		for _, e := range x.Edges {
			if e != ssa.Value(x) && flowsInto(c, fn, e, src, d+1) {
				return true
			}
		}
	case *ssa.Extract:
		if cl, ok := x.Tuple.(*ssa.Call); ok {
			return flowsInto(c, fn, cl, src, d+1)
		}
	case *ssa.MakeSlice, *ssa.Alloc:
		for _, b := range fn.Blocks {
			for _, in := range b.Instrs {
				cp, ok := in.(*ssa.Call)
				if !ok || calleeName(&cp.Call) != "builtin:copy" {
					continue
				}
				root := cp.Call.Args[0]
				for i := 0; i < 4; i++ {
					if sl, isSl := root.(*ssa.Slice); isSl {
						root = sl.X
					}
				}
				if root == dst && (cp.Call.Args[1] == src || flowsInto(c, fn, cp.Call.Args[1], src, d+1)) {
					return true
				}
			}
		}
	case *ssa.Call:
		name := calleeName(&x.Call)
		if name == "builtin:append" || strings.HasPrefix(name, "(encoding/binary.bigEndian).Append") || name == "bytes.Clone" || strings.HasPrefix(name, "slices.Concat[") {
			for _, a := range x.Call.Args {
				if flowsInto(c, fn, a, src, d+1) {
					return true
				}
			}
			return false
		}
		g := x.Call.StaticCallee()
		if g == nil || !inModule(g) || len(g.Blocks) == 0 {
			return false
		}
		// which parameters of the helper end up in what it returns
		for i, a := range x.Call.Args {
			if i >= len(g.Params) || !flowsInto(c, fn, a, src, d+1) {
				continue
			}
			for _, gb := range g.Blocks {
				if gret, ok := gb.Instrs[len(gb.Instrs)-1].(*ssa.Return); ok && len(gret.Results) > 0 {
					if flowsInto(c, g, gret.Results[0], g.Params[i], d+1) {
						return true
					}
				}
			}
		}
	}
	return false
}

// ruleCBCMacHashMatchesSuite (C10, C05): "CBC MAC-then-encrypt": the MAC of a CBC suite is the
// HMAC its name says - HMAC-SHA1 for ..._CBC_SHA, HMAC-SHA256 for ..._CBC_SHA256, HMAC-SHA384 for
// ..._CBC_SHA384 (RFC 5246 A.5; it is not the PRF hash, which is SHA-256 for the _SHA suites too).
// In every Init of a cipher suite type that builds the CBC record protection, the hash
// constructor handed over is the New of the package the suite's own name ends in.
func ruleCBCMacHashMatchesSuite(c *Ctx, r *Report) {
	const rule = "cbc-mac-hash-matches-suite"
	n := 0 // suites that build a CBC record cipher (one call per role, or one for both)
	perFn := map[*ssa.Function]int{}
	for _, s := range c.CallsTo(nameHasSuffix("pkg/crypto/ciphersuite.NewCBC")) {
		call, ok := s.Call.(*ssa.Call)
		fn := s.Fn
		if !ok || fn.Signature.Recv() == nil || len(call.Call.Args) == 0 {
			continue
		}
		perFn[fn]++
		if perFn[fn] == 1 {
			n++
		}
		r.Sites++
		// the suite's name: the constant its String method returns
		recvT := derefType(fn.Signature.Recv().Type())
		name := ""
		for _, g := range c.Fns {
			if g.Name() != "String" || g.Signature.Recv() == nil || !types.Identical(derefType(g.Signature.Recv().Type()), recvT) {
				continue
			}
			for _, b := range g.Blocks {
				if ret, isRet := b.Instrs[len(b.Instrs)-1].(*ssa.Return); isRet && len(ret.Results) == 1 {
					if str, isS := constString(ret.Results[0]); isS {
						name = str
					}
				}
			}
		}
		want := ""
		name = strings.ReplaceAll(name, "-", "_")
		switch {
		case strings.HasSuffix(name, "_CBC_SHA"):
			want = "crypto/sha1.New"
		case strings.HasSuffix(name, "_CBC_SHA256"):
			want = "crypto/sha256.New"
		case strings.HasSuffix(name, "_CBC_SHA384"):
			want = "crypto/sha512.New384"
		}
		key := fmt.Sprintf("%s:mac#%d", short(fn), perFn[fn])
		if want == "" {
			r.Unk(rule, key, c.ipos(call), "the suite's name ("+name+") does not say which MAC it uses")
			continue
		}
		got := "?"
		if f := funcDenoted(call.Call.Args[len(call.Call.Args)-1], 0); f != nil {
			got = rawShort(f)
		}
		r.Check(got == want, rule, key, c.ipos(call), name+" MACs with "+want, "the record MAC of "+name+" is built with "+got+" instead of "+want+": the tag has another length and value than RFC 5246 prescribes for this suite, so no conforming peer can read or write its records (both ends of this library still agree)")
	}
	r.Floor(rule, n, 3)
}

// ruleListenerBufferFitsConn (C08): "cannot wedge": the listener reads datagrams into a buffer of
// its own and hands them on through the per-connection packet ring; the connection takes them
// out with a buffer of a fixed size, and the ring refuses - without dropping - a datagram that
// does not fit the buffer it is read into. The listener's read size is therefore at most the
// connection's: a larger datagram would stay at the head of the ring for ever.
func ruleListenerBufferFitsConn(c *Ctx, r *Report) {
	const rule = "listener-buffer-fits-conn-buffer"
	constOf := func(pkg, name string) (int64, bool) {
		for path, p := range c.TPkgs {
			if shortPath(path) != pkg || p.Types == nil {
				continue
			}
			if k, ok := p.Types.Scope().Lookup(name).(*types.Const); ok {
				if v, okV := constant64(k); okV {
					return v, true
				}
			}
		}
		return 0, false
	}
	lst, ok1 := constOf("internal/net/udp", "receiveMTU")
	conn, ok2 := constOf("dtls", "inboundBufferSize")
	if !ok1 || !ok2 {
		r.Unk(rule, "constants", "", "the listener's receive size (internal/net/udp.receiveMTU) or the connection's (dtls.inboundBufferSize) was not found")
		return
	}
	r.Sites += 2
	r.Check(lst <= conn, rule, "receiveMTU<=inboundBufferSize", "", fmt.Sprintf("the listener reads at most %d bytes per datagram, the connection's buffer holds %d", lst, conn), fmt.Sprintf("the listener accepts datagrams of up to %d bytes but a connection reads them from its packet ring with a buffer of %d: the ring answers a longer datagram with io.ErrShortBuffer and keeps it at its head, so one oversized datagram from anybody makes every later Read fail and nothing the peer sends is delivered any more", lst, conn))
}

// ruleSessionIDNotClearedByCleanup (C14): "a fatal alert deletes the session": the connection
// deletes the session it was resuming when it sends a fatal alert, and it finds that session by
// the handshake state's SessionID - after the parser that failed has returned. Nothing that runs
// on a parser's way out (a deferred clean-up) therefore clears the SessionID: every store to it
// sits in a named function of the flight or state packages, never in a function literal.
func ruleSessionIDNotClearedByCleanup(c *Ctx, r *Report) {
	const rule = "session-id-not-cleared-by-cleanup"
	n := 0
	for _, st := range c.StoresTo(tCom, "SessionID") {
		n++
		r.Sites++
		fn := st.Fn
		r.Check(fn.Parent() == nil, rule, short(fn), c.ipos(st.Instr), "the session ID is written by the parser itself", "the session ID is written by a function literal ("+short(fn)+", a deferred clean-up of its parser): when the parser fails, the ID is gone before the connection sends the fatal alert, the session it was resuming is not deleted from the store and is offered again")
	}
	r.Floor(rule, n, 4)
}

func constant64(k *types.Const) (int64, bool) {
	if k == nil || k.Val() == nil || k.Val().Kind() != constant.Int {
		return 0, false
	}
	return constant.Int64Val(k.Val())
}

// ruleSendCounterSerialised (C09): the send counter an exported connection hands to the resumed
// one travels through the serialised form as it is: serialize reads it, deserialize writes it
// unchanged (not clamped: the counter is the next number to use, and an exhausted epoch must
// stay exhausted). These are the obligations of state-coverage (C19) that name the send counter,
// claimed here for the no-reuse property.
func ruleSendCounterSerialised(c *Ctx, r *Report) {
	const rule = "send-counter-serialised"
	tmp := newReport(r.Prop)
	ruleStateCoverage(c, tmp)
	n := 0
	for _, o := range tmp.Obls {
		lc := strings.ToLower(o.Construct)
		if !strings.Contains(lc, "sequencenumber") || strings.Contains(lc, "remotesequencenumber") || !strings.Contains(o.Construct, "serialize") {
			continue
		}
		n++
		o.Rule = rule
		r.add(o)
	}
	r.Sites += tmp.Sites
	r.Floor(rule, n, 2)
}

// ruleCBCAcceptsEmptyRecord (C01, C10): "application data then flows in both directions": a
// record whose plaintext is empty is legal (RFC 5246 6.2.1) and Write([]byte{}) sends one. In the
// CBC record decryption, with the computed length of the data (the bound at which the body is
// cut into data and MAC) equal to zero, a successful return is still reachable: the comparisons
// of that length with zero refuse negative values only.
func ruleCBCAcceptsEmptyRecord(c *Ctx, r *Report) {
	const rule = "cbc-accepts-empty-record"
	fn := c.need(r, rule, "(*"+pkgCS+".CBC).Decrypt")
	if fn == nil {
		return
	}
	r.Sites += len(fn.Blocks)
	// the data length: an integer that is the upper bound of a slice of the record body and is
	// compared with zero
	cut := map[ssa.Value]bool{}
	for _, b := range fn.Blocks {
		for _, in := range b.Instrs {
			if sl, ok := in.(*ssa.Slice); ok && sl.High != nil && sl.Low == nil {
				cut[sl.High] = true
			}
		}
	}
	matched := 0
	atZero := func(v ssa.Value) (Val, bool) {
		bo, ok := v.(*ssa.BinOp)
		if !ok || !cut[bo.X] {
			return unknown, false
		}
		if k, isK := constInt(bo.Y); !isK || k != 0 {
			return unknown, false
		}
		switch bo.Op { // with the length equal to zero
		case token.LSS, token.GTR, token.NEQ:
			return vBool(false), true
		case token.LEQ, token.GEQ, token.EQL:
			return vBool(true), true
		}
		return unknown, false
	}
	okRet := true
	for _, b := range fn.Blocks {
		for _, in := range b.Instrs {
			bo, isBo := in.(*ssa.BinOp)
			if !isBo {
				continue
			}
			if _, is := atZero(bo); !is {
				continue
			}
			matched++
			// from this comparison on (earlier exits - a record that is not protected - do not count)
			w := (&Walk{Fn: fn, Assume: atZero}).After(bo)
			reach := false
			for _, ro := range w.Returns {
				if n := len(ro.Ret.Results); n == 2 && isNilConst(unspill(ro.Ret.Results[1])) && !isNilConst(unspill(ro.Ret.Results[0])) {
					reach = true
				}
			}
			if !reach {
				okRet = false
			}
		}
	}
	if matched == 0 {
		// the length may be computed and judged in a helper that hands it back: the values the
		// helper returns for a bound of this function are bounds too, and the exploration starts
		// at the call, with the helper followed
		for bound := range cut {
			ex, isEx := bound.(*ssa.Extract)
			if !isEx {
				continue
			}
			hc, isCall := ex.Tuple.(*ssa.Call)
			if !isCall {
				continue
			}
			g := hc.Call.StaticCallee()
			if g == nil || g.Pkg != fn.Pkg || len(g.Blocks) == 0 {
				continue
			}
			inner := 0
			for _, gb := range g.Blocks {
				if gret, isRet := gb.Instrs[len(gb.Instrs)-1].(*ssa.Return); isRet && ex.Index < len(gret.Results) {
					cut[unspill(gret.Results[ex.Index])] = true
				}
			}
			for _, gb := range g.Blocks {
				for _, in := range gb.Instrs {
					if bo, isBo := in.(*ssa.BinOp); isBo {
						if _, is := atZero(bo); is {
							inner++
						}
					}
				}
			}
			if inner == 0 {
				continue
			}
			matched += inner
			w := (&Walk{Fn: fn, Follow: followSamePkg(fn), Assume: atZero}).At(hc)
			reach := false
			for _, ro := range w.Returns {
				if n := len(ro.Ret.Results); n == 2 && isNilConst(unspill(ro.Ret.Results[1])) && !isNilConst(unspill(ro.Ret.Results[0])) {
					reach = true
				}
			}
			if !reach {
				okRet = false
			}
		}
	}
	if matched == 0 {
		r.Unk(rule, short(fn), c.pos(fn.Pos()), "no comparison of the data length (the bound the body is cut at) with zero was found")
		return
	}
	r.Check(okRet, rule, short(fn), c.pos(fn.Pos()), "a record with an empty plaintext is decrypted like any other", "the CBC decryption refuses a record whose plaintext is empty (the data length is compared with zero too strictly): empty application datagrams, which RFC 5246 6.2.1 allows and Write([]byte{}) sends, vanish on every CBC suite in both directions")
}

// ruleSharedSecretsNotWipedInPlace (C07): the byte slices that hold the master secret, the
// exporter master secret and the application traffic secrets are shared, not copied: the traffic
// generations alias the key schedule's secrets, every State handed out by ConnectionState aliases
// the connection's master secret, the session store is handed the same slice. Zero-filling one
// of them in place (clear(x), or a loop of element stores) therefore zeroes the copies that are
// still in use - the next key update derives from an all-zero secret, an exporter call after
// Close returns a value anybody can compute. No clear() and no element store is applied to a
// slice loaded from one of these fields.
func ruleSharedSecretsNotWipedInPlace(c *Ctx, r *Report) {
	const rule = "shared-secrets-not-wiped-in-place"
	shared := map[string]bool{
		"MasterSecret": true, "ExporterMasterSecret": true, "ResumptionMasterSecret": true,
		"ClientApplicationTrafficSecret0": true, "ServerApplicationTrafficSecret0": true,
		"Secret": true, "masterSecret": true, "exporterMasterSecret": true,
	}
	isShared := func(v ssa.Value) (string, bool) {
		for _, l := range append(c.Origins(v, 0), v) {
			if o, f, _, ok := fieldLoad(l); ok && shared[f] && (strings.Contains(o, "state.") || strings.HasPrefix(o, "dtls.State")) {
				return o + "." + f, true
			}
			// through a pointer to the field (a list of &state.X that is walked)
			if u, isU := l.(*ssa.UnOp); isU && u.Op == token.MUL {
				ptrs := append(c.Origins(u.X, 0), u.X)
				// the pointer is an element of a local list: every pointer stored into the list
				if pl, isL := u.X.(*ssa.UnOp); isL && pl.Op == token.MUL {
					if ia, isIA := pl.X.(*ssa.IndexAddr); isIA {
						base := ia.X
						if sl, isSl := base.(*ssa.Slice); isSl {
							base = sl.X
						}
						if al, isAl := base.(*ssa.Alloc); isAl {
							for _, ref := range *al.Referrers() {
								if ia2, ok2 := ref.(*ssa.IndexAddr); ok2 {
									for _, r2 := range *ia2.Referrers() {
										if st, isSt := r2.(*ssa.Store); isSt && st.Addr == ssa.Value(ia2) {
											ptrs = append(ptrs, st.Val)
										}
									}
								}
							}
						}
					}
				}
				for _, l2 := range ptrs {
					if o, f, _, ok := fieldOfAddr(l2); ok && shared[f] && (strings.Contains(o, "state.") || strings.HasPrefix(o, "dtls.State")) {
						return o + "." + f, true
					}
				}
			}
		}
		return "", false
	}
	n := 0
	for _, fn := range c.Fns {
		if len(fn.Blocks) == 0 {
			continue
		}
		for _, b := range fn.Blocks {
			for _, in := range b.Instrs {
				switch x := in.(type) {
				case *ssa.Call:
					if calleeName(&x.Call) != "builtin:clear" || len(x.Call.Args) != 1 {
						continue
					}
					n++
					r.Sites++
					what, bad := isShared(x.Call.Args[0])
					r.Check(!bad, rule, fmt.Sprintf("%s:clear#%d", short(fn), n), c.ipos(x), "clear() is not applied to a shared secret", "the shared secret "+what+" is zero-filled in place: the traffic generations, exported States or session store entries that alias the same bytes now hold zeroes - keys derived from them afterwards (a key update, an exporter call) are computable by anybody")
				case *ssa.Store:
					ia, ok := x.Addr.(*ssa.IndexAddr)
					if !ok {
						continue
					}
					if what, bad := isShared(ia.X); bad {
						n++
						r.Bad(rule, fmt.Sprintf("%s:element-store#%d", short(fn), n), c.ipos(x), "an element of the shared secret "+what+" is overwritten in place")
					}
				}
			}
		}
	}
	r.Note(rule, "sites", "", fmt.Sprintf("%d clear() calls / element stores examined", n))
}

// ruleAckNamesTheRecord (C20, C02): "UpdateKeys returns success only after the peer acknowledged
// the update": an ACK names records by (epoch, sequence number), and the sender matches those
// against the records of its flights. What the receiver queues for acknowledgement is the number
// of the record it received: epoch and sequence number both come from that record's header, not
// from connection state (the read epoch moves on with a key update, and a retransmission of the
// previous epoch would be acknowledged under the number of a record of the next one).
func ruleAckNamesTheRecord(c *Ctx, r *Report) {
	const rule = "ack-names-the-record"
	n := 0
	// the functions that name the number: where the list is stored to, or - when the storing
	// function is handed the number - where that function is called
	var hosts []*ssa.Function
	seenHost := map[*ssa.Function]bool{}
	var addHost func(fn *ssa.Function, d int)
	addHost = func(fn *ssa.Function, d int) {
		if seenHost[fn] {
			return
		}
		seenHost[fn] = true
		hosts = append(hosts, fn)
		takes := false
		for _, p := range fn.Params {
			if namedOf(derefType(p.Type())) == "pkg/protocol.RecordNumber" {
				takes = true
			}
		}
		if sites, closed := c.staticCallers(fn); takes && closed && d < 2 {
			for _, cs := range sites {
				addHost(cs.Fn, d+1)
			}
		}
	}
	for _, st := range c.StoresTo("dtls.Conn", "pendingACKs") {
		addHost(st.Fn, 0)
	}
	for _, fn := range hosts {
		for _, al := range allocsOf(fn, "pkg/protocol.RecordNumber") {
			f := litFields(al)
			ev, sv := f["Epoch"], f["SequenceNumber"]
			if ev == nil || sv == nil {
				continue
			}
			n++
			r.Sites++
			hdr := func(v ssa.Value, field string) (ssa.Value, bool) {
				for _, l := range c.Origins(v, 0) {
					o, fl, base, ok := fieldLoad(l)
					if !ok || fl != field || !strings.HasSuffix(o, "recordlayer.Header") {
						return nil, false
					}
					return rootValueDeep(base), true
				}
				return nil, false
			}
			be, okE := hdr(ev, "Epoch")
			bs, okS := hdr(sv, "SequenceNumber")
			good := okE && okS && be == bs
			r.Check(good, rule, fmt.Sprintf("%s:record-number#%d", short(fn), n), c.ipos(al), "the acknowledged number is (header.Epoch, header.SequenceNumber) of the received record", "a record is queued for acknowledgement under a number that is not its own header's (epoch from "+shapeOf(ev, 0)+", sequence number from "+shapeOf(sv, 0)+"): after the read epoch has moved on, an old retransmission is acknowledged as a record of the new epoch, the peer takes that for the acknowledgement of a flight that was lost, and its UpdateKeys returns success although the update never arrived")
		}
	}
	r.Floor(rule, n, 1)
}

// ruleFlightDeliveredOnlyWhenNothingPending (C02): a DTLS 1.3 flight stops being retransmitted
// when the peer has acknowledged all of it - not when one ACK happens to cover only complete
// messages. In the function that decides the transition after an ACK, with the set of pending
// (unacknowledged) fragments of the flight not empty, the retransmission flag is not cleared and
// the machine does not leave for the finished state: a lost datagram of a fragmented flight would
// otherwise never be sent again, and the endpoint that sent it reports success alone.
func ruleFlightDeliveredOnlyWhenNothingPending(c *Ctx, r *Report) {
	const rule = "flight-delivered-only-when-nothing-pending"
	fn := c.need(r, rule, "(*"+pkgHS+".fsm13).transitionAfterACK")
	if fn == nil {
		return
	}
	r.Sites += len(fn.Blocks)
	states := c.enumConsts(pkgHS, "State")
	matched := 0
	isPendingLen := func(v ssa.Value) bool {
		cl, ok := stripConv(v).(*ssa.Call)
		if !ok || calleeName(&cl.Call) != "builtin:len" {
			return false
		}
		_, f, _, okF := fieldLoad(cl.Call.Args[0])
		return okF && f == "pending"
	}
	w := &Walk{Fn: fn, Follow: followSamePkg(fn), Assume: func(v ssa.Value) (Val, bool) {
		bo, ok := v.(*ssa.BinOp)
		if !ok || !isPendingLen(bo.X) {
			return unknown, false
		}
		if k, isK := constInt(bo.Y); !isK || k != 0 {
			return unknown, false
		}
		matched++
		switch bo.Op { // something is still pending
		case token.EQL, token.LEQ:
			return vBool(false), true
		case token.NEQ, token.GTR:
			return vBool(true), true
		}
		matched--
		return unknown, false
	}}
	cleared := ""
	w.Visit = func(in ssa.Instruction, _ Env) bool {
		if st, ok := in.(*ssa.Store); ok {
			if _, f, _, okF := fieldOfAddr(st.Addr); okF && f == "retransmit" {
				if k, isK := constBool(st.Val); isK && !k {
					cleared = c.ipos(st)
				}
			}
		}
		return true
	}
	w.FromEntry()
	finished := ""
	for _, ro := range w.Returns {
		if v := fieldOfReturnedStruct(ro.Ret, 0, "state"); v != nil {
			if k, isK := constInt(v); isK && k == states["StateFinished"] {
				finished = c.ipos(ro.Ret)
			}
		}
	}
	bad := ""
	switch {
	case matched == 0:
		bad = "the decision never looks at what is still pending of the flight"
	case cleared != "":
		bad = "the retransmission flag is cleared at " + cleared + " while fragments of the flight are still unacknowledged"
	case finished != "":
		bad = "the machine leaves for the finished state at " + finished + " while fragments of the flight are still unacknowledged"
	}
	r.Check(bad == "" && !w.overflow, rule, short(fn), c.pos(fn.Pos()), "with fragments of the flight still pending the flight stays under retransmission", "an acknowledgement that covers only part of the flight ends its retransmission: "+bad+": after one lost datagram of a fragmented flight the sender reports a completed handshake and never sends the missing part again, and the peer never completes")
}
